import MosnVerif.Gen.ListenerAddr
/-!
The listener address between `AddrConfig string` and `Addr net.Addr` (`pkg/config/v2/server.go` `Listener.MarshalJSON` /
`UnmarshalJSON`, `configmanager.ParseListenerConfig`; property C19).

`Gen/ListenerAddr.lean` is the regenerated statement list of the three functions and their resolver tables. This file models what
the resolvers (`net.ResolveTCPAddr` / `ResolveUDPAddr` / `ResolveUnixAddr`) and `Addr.String()` do on the address FORMS MOSN accepts,
as a small syntax: the text of an address is `Txt` (host part + port, or a path), the resolved address is `Addr` (an IP that may be
absent — the bare `:port` —, an IPv4 literal, the IPv6 wildcard `::`, `::1`, another IPv6 literal in canonical spelling, + port).
Host NAMES are resolved by an oracle `res` (the system resolver at that moment). Turning strings into `Txt` is the driver's lexer;
the contract "the real resolvers / `String()` behave like `parseHost` / `printIP` on these forms" is validated by the
correspondence run (harness/c19/laddr.go). Not modelled: zone ids, IPv4-mapped IPv6 literals, service names as ports,
non-canonical spellings (`127.1`, leading zeros, upper-case hex).
-/
namespace MosnVerif.Model.ListenerAddr
open MosnVerif.Gen.ListenerAddr

inductive IP where
  /-- no IP: the bare `:port` (listen on every address, both families) -/
  | none
  | v4 (a b c d : Nat)
  /-- `::` — the IPv6 wildcard (dual-stack listen) -/
  | v6unspec
  /-- `::1` -/
  | v6loop
  /-- any other IPv6 literal, canonical text -/
  | v6 (canon : String)
deriving DecidableEq, Repr

inductive HostTxt where
  | empty
  | quad (a b c d : Nat)
  | unspec6
  | loop6
  | other6 (s : String)
  | name (s : String)
deriving DecidableEq, Repr

inductive Txt where
  | inet (h : HostTxt) (port : Nat)
  | path (s : String)
deriving DecidableEq, Repr

inductive Addr where
  | tcp (ip : IP) (port : Nat)
  | udp (ip : IP) (port : Nat)
  | unix (path : String)
deriving DecidableEq, Repr

/-- `IP.String()` inside `TCPAddr.String()` / `UDPAddr.String()` (JoinHostPort brackets an IPv6 literal) -/
def printIP : IP → HostTxt
  | .none => .empty
  | .v4 a b c d => .quad a b c d
  | .v6unspec => .unspec6
  | .v6loop => .loop6
  | .v6 s => .other6 s

/-- `Addr.String()` -/
def printAddr : Addr → Txt
  | .tcp ip p => .inet (printIP ip) p
  | .udp ip p => .inet (printIP ip) p
  | .unix s => .path s

/-- the host part as the resolvers read it; `res` = the system resolver's answer for a name -/
def parseHost (res : String → Option IP) : HostTxt → Option IP
  | .empty => some .none
  | .quad a b c d => if a ≤ 255 ∧ b ≤ 255 ∧ c ≤ 255 ∧ d ≤ 255 then some (.v4 a b c d) else none
  | .unspec6 => some .v6unspec
  | .loop6 => some .v6loop
  | .other6 s => some (.v6 s)
  | .name s => res s

inductive Kind where
  | tcp | udp | unix
deriving DecidableEq, Repr

/-- which resolver a regenerated table row calls -/
def kindOfFn (fn : String) : Option Kind :=
  if fn = "net.ResolveTCPAddr" then some .tcp else if fn = "net.ResolveUDPAddr" then some .udp
  else if fn = "net.ResolveUnixAddr" then some .unix else none

/-- the `switch` over the network: the row whose label is `network` (its network argument must be the label), else rejected -/
def netKind (table : List (String × String × String)) (network : String) : Option Kind :=
  match table.find? (fun r => r.1 == network) with
  | some r => if r.2.2 == network then kindOfFn r.2.1 else none
  | none => none

def resolve (res : String → Option IP) (k : Kind) (t : Txt) : Option Addr :=
  match k, t with
  | .tcp, .inet h p => if p ≤ 65535 then (parseHost res h).map (fun ip => .tcp ip p) else none
  | .udp, .inet h p => if p ≤ 65535 then (parseHost res h).map (fun ip => .udp ip p) else none
  | .unix, .path s => some (.unix s)
  | _, _ => none

/-- `network` member as `UnmarshalJSON` / `ParseListenerConfig` normalise it: default tcp, lower case (the driver hands over
lower-case text; the three accepted values are fixpoints) -/
def normNet (n : String) : String := if n = "" then "tcp" else n

/-- the listener as configured: `network` and `address` members -/
structure Cfg where
  network : String
  address : Txt
deriving DecidableEq, Repr

/-- the listener as loaded -/
structure Loaded where
  network : String
  addr : Addr
  addrConfig : Txt
deriving DecidableEq, Repr

/-- `json.Unmarshal` into `v2.Listener` followed by `ParseListenerConfig` (which keeps an `Addr` that is set): defined when the
regenerated statement lists have the known shape -/
def load (res : String → Option IP) (c : Cfg) : Option Loaded :=
  if unmarshal = [.decodeConfig, .requireAddress, .defaultTcp, .lowerNetwork, .resolve, .failOnError, .setAddr, .setBufferLimit, .done] ∧
     parse = [.defaultTcp, .lowerNetwork, .ifAddrNil, .resolve, .failOnError, .setAddr] then
    let n := normNet c.network
    match netKind unmarshalResolvers n with
    | some k => (resolve res k c.address).map (fun a => ⟨n, a, c.address⟩)
    | none => none
  else none

/-- `Listener.MarshalJSON`: `address` is `Addr.String()` VERBATIM when `Addr` is set (it always is after a load) -/
def dump (l : Loaded) : Option Cfg :=
  if marshal = [.ifAddrSet, .printVerbatim, .marshalConfig] then some ⟨l.network, printAddr l.addr⟩ else none

/-- where a listener listens: the family semantics of the address AS WRITTEN (what everything that reads the address sees: the
matching of inherited listeners by `ip.Equal`, xDS / admin display, a `tcp4`-style bind, other consumers of the dump). Go's own
`net.ListenTCP("tcp", 0.0.0.0:p)` opens a dual-stack socket on Linux, so the socket probe of the harness reports the same
reachability for `0.0.0.0` and `[::]`; the distinction is kept here because the configuration is not only read by that call. -/
inductive Fam where
  /-- every address, IPv4 and IPv6 (bare `:port` and `[::]:port`) -/
  | wildDual
  /-- every IPv4 address only (`0.0.0.0:port`) -/
  | wild4
  | host4 (a b c d : Nat)
  | loop6
  | host6 (s : String)
deriving DecidableEq, Repr

def famOf : IP → Fam
  | .none => .wildDual
  | .v6unspec => .wildDual
  | .v4 0 0 0 0 => .wild4
  | .v4 a b c d => .host4 a b c d
  | .v6loop => .loop6
  | .v6 s => .host6 s

/-- what the listen socket is bound to: (network kind, family, port) or a path -/
inductive Bound where
  | inet (k : Kind) (f : Fam) (port : Nat)
  | unix (path : String)
deriving DecidableEq, Repr

def boundOf : Addr → Bound
  | .tcp ip p => .inet .tcp (famOf ip) p
  | .udp ip p => .inet .udp (famOf ip) p
  | .unix s => .unix s

/-! the NORMALISING variant (not in the code): any unspecified IP is written as `0.0.0.0` -/
def printIPNorm : IP → HostTxt
  | .none => .quad 0 0 0 0
  | .v6unspec => .quad 0 0 0 0
  | ip => printIP ip

def dumpNorm (l : Loaded) : Cfg :=
  ⟨l.network, match l.addr with
    | .tcp ip p => .inet (printIPNorm ip) p
    | a => printAddr a⟩

end MosnVerif.Model.ListenerAddr
