import MosnVerif.Model.Json
import MosnVerif.Gen.ConfigDir
/-!
# Directory ("dynamic") mode of the cluster manager and of a router configuration (C19)

`cluster_manager.clusters_configs` / `router_configs` name a directory holding one JSON document per cluster / virtual
host.  `UnmarshalJSON` (upstream.go, route.go) reads every file of the directory whose extension is `utils.JsonExt`
(`unmarshalDynamic`); `MarshalJSON` writes one file per item, named after the item, and removes every other file it
found in the directory (`marshalDynamic`).

* a tiny file system: a directory is a list of (file name, body) with distinct names; a body is empty, a JSON document,
  or something that does not parse.  Sub-directories and I/O errors other than an unusable file name are not modelled.
* the file name of an item: the operations of the **regenerated** list `Gen.ConfigDir.clusterNameOps` / `vhostNameOps`
  applied in source order to the item's name — default for an empty name (the clock is a parameter), truncation to
  `MaxFilePath`, separator replacement, extension, `uniqueFileName` (first free candidate `base_<i>ext` among the names
  this dump has written).
* a file name is usable iff it is not empty, `.` or `..`, and has no NUL byte and no path separator (Linux); an unusable
  name makes the dump fail, as `WriteFileSafety` returns the error of `open`.  NAME_MAX is not modelled.  The operations
  replace both bytes (`opsOK`), so every item name — NUL and separators included — gets a usable file name.
Names are byte strings (Go strings; the truncation counts bytes).  Core Lean only.
-/
namespace MosnVerif.Model.ConfigDir
open MosnVerif.Model MosnVerif.Model.DirTypes

abbrev Bytes := List UInt8

/-! ## path.Ext -/

/-- scan from the end: the suffix starting at the last `.` of the last path element (reversed input, accumulated suffix) -/
def extGo : Bytes → Bytes → Bytes
  | [], _ => []
  | c :: r, acc => if c == 47 then [] else if c == 46 then 46 :: acc else extGo r (c :: acc)

/-- `path.Ext` -/
def ext (p : Bytes) : Bytes := extGo p.reverse []

/-! ## uniqueFileName -/

/-- decimal rendering (`%d`) as bytes -/
def dec (n : Nat) : Bytes := (Nat.toDigits 10 n).map (fun c => UInt8.ofNat c.toNat)

/-- `fmt.Sprintf("%s_%d%s", base, i, ext)` with the regenerated separator -/
def cand (base e : Bytes) (i : Nat) : Bytes := base ++ Gen.ConfigDir.uniqueSep ++ dec i ++ e

/-- the loop of `uniqueFileName`: `cur` is the current candidate, `i` the next counter; `fuel` bounds the iterations
(`written.length + 1` suffices: `Lemmas.ConfigDir.uniq_not_mem`) -/
def uniqLoop (written : List Bytes) (base e : Bytes) : Nat → Nat → Bytes → Bytes
  | 0, _, cur => cur
  | fuel + 1, i, cur => if written.contains cur then uniqLoop written base e fuel (i + 1) (cand base e i) else cur

/-- `uniqueFileName(fileName, written)` (the caller adds the result to `written`) -/
def uniq (written : List Bytes) (f : Bytes) : Bytes :=
  let e := ext f
  let base := f.take (f.length - e.length)      -- strings.TrimSuffix(fileName, ext)
  uniqLoop written base e (written.length + 1) Gen.ConfigDir.uniqueStart f

/-! ## the file name of an item -/

def applyOp (stamp : Bytes) (written : List Bytes) : NameOp → Bytes → Bytes
  | .orStamp, f => if f.isEmpty then stamp else f
  | .truncate lim keep, f => if f.length > lim then f.take keep else f
  | .replaceAll o n, f => f.flatMap (fun b => if b == o then n else [b])
  | .append s, f => f ++ s
  | .unique, f => uniq written f
  | .mark, f => f

def applyOps (stamp : Bytes) (written : List Bytes) : List NameOp → Bytes → Bytes
  | [], f => f
  | op :: r, f => applyOps stamp written r (applyOp stamp written op f)

/-- the file an item named `name` is written to, when the dump has already written `written` and the clock reads `stamp` -/
def fileName (ops : List NameOp) (stamp : Bytes) (written : List Bytes) (name : Bytes) : Bytes :=
  applyOps stamp written ops name

/-- the value of `fileName` when `delete(allFiles, fileName)` runs: the name the stale-file cleanup will keep -/
def markAt (stamp : Bytes) (written : List Bytes) : List NameOp → Bytes → Option Bytes
  | [], _ => none
  | .mark :: _, f => some f
  | op :: r, f => markAt stamp written r (applyOp stamp written op f)

/-! ## the file system -/

inductive Body where
  | empty
  | doc (j : Json)
  | junk

abbrev Dir := List (Bytes × Body)

/-- a name `open` accepts inside the directory -/
def usable (n : Bytes) : Bool :=
  !n.isEmpty && n != [46] && n != [46, 46] && !n.contains 0 && !n.contains 47

/-- `WriteFileSafety`: the file is replaced or created -/
def write (d : Dir) (n : Bytes) (b : Body) : Dir := (n, b) :: d.filter (fun f => f.1 != n)

/-- the item loop of `MarshalJSON`: `written` (newest first) are the names of this dump (what `uniqueFileName` consults),
`kept` the names `delete(allFiles, fileName)` has removed from the set of files found at the start — the two differ when
the mark is not taken on the final name; `clock i` is the reading of the clock when item `i` is reached -/
def dumpLoop {α : Type} (ops : List NameOp) (enc : α → Json) (nameOf : α → Bytes) (clock : Nat → Bytes) :
    Nat → List α → Dir → List Bytes → List Bytes → Option (Dir × List Bytes × List Bytes)
  | _, [], d, written, kept => some (d, written, kept)
  | i, c :: r, d, written, kept =>
    let n := fileName ops (clock i) written (nameOf c)
    let kept' := (match markAt (clock i) written ops (nameOf c) with | some m => m :: kept | none => kept)
    if usable n then dumpLoop ops enc nameOf clock (i + 1) r (write d n (.doc (enc c))) (n :: written) kept' else none

/-- `MarshalJSON` in directory mode: write every item, then remove the files found at the start that were not marked -/
def marshalDynamic {α : Type} (ops : List NameOp) (enc : α → Json) (nameOf : α → Bytes) (clock : Nat → Bytes)
    (d : Dir) (cs : List α) : Option Dir :=
  match dumpLoop ops enc nameOf clock 0 cs d [] [] with
  | none => none
  | some (d', _, kept) =>
    let stale := (d.map (·.1)).filter (fun n => !kept.contains n)
    some (d'.filter (fun f => !stale.contains f.1))

/-- a sequence of dumps of the same items into the same directory (one clock per dump) -/
def dumps {α : Type} (ops : List NameOp) (enc : α → Json) (nameOf : α → Bytes) (cs : List α) :
    List (Nat → Bytes) → Dir → Option Dir
  | [], d => some d
  | k :: r, d =>
    match marshalDynamic ops enc nameOf k d cs with
    | none => none
    | some d' => dumps ops enc nameOf cs r d'

/-- lexicographic order of file names (`ioutil.ReadDir` sorts by name) -/
def bytesLe : Bytes → Bytes → Bool
  | [], _ => true
  | _ :: _, [] => false
  | a :: r, b :: s => a < b || (a == b && bytesLe r s)

/-- the file loop of `UnmarshalJSON` / `utils.ReadJsonFile`: only files with the extension, empty files skipped, a file
that does not parse or does not decode is an error -/
def loadL {α : Type} (dcd : Json → Option α) (readExt : Bytes) : List (Bytes × Body) → Option (List α)
  | [] => some []
  | (n, b) :: r =>
    if ext n != readExt then loadL dcd readExt r
    else match b with
      | .empty => loadL dcd readExt r
      | .junk => none
      | .doc j =>
        match dcd j, loadL dcd readExt r with
        | some c, some cs => some (c :: cs)
        | _, _ => none

/-- `UnmarshalJSON` in directory mode -/
def unmarshalDynamic {α : Type} (dcd : Json → Option α) (readExt : Bytes) (d : Dir) : Option (List α) :=
  loadL dcd readExt (d.mergeSort (fun a b => bytesLe a.1 b.1))

/-! ## when the regenerated operations are good enough (decided on the regenerated lists) -/

/-- `e` is an extension: a dot followed by at least one byte, none of which is a dot, a separator or NUL -/
def isExt (e : Bytes) : Bool :=
  match e with
  | c :: t => c == 46 && !t.isEmpty && !t.contains 46 && !t.contains 47 && !t.contains 0
  | [] => false

/-- after these operations the name has no byte `b` (`clean` = it has none before), given that the readings of the
clock have none: a `replaceAll b n` with `b ∉ n` cleans, no later operation may bring `b` back -/
def noByte (b : UInt8) : Bool → List NameOp → Bool
  | clean, [] => clean
  | clean, .replaceAll o n :: r => noByte b ((clean || o == b) && !n.contains b) r
  | clean, .append s :: r => noByte b (clean && !s.contains b) r
  | clean, _ :: r => noByte b clean r

/-- no path separator is left -/
abbrev noSep (clean : Bool) (ops : List NameOp) : Bool := noByte 47 clean ops

/-- no NUL byte is left -/
abbrev noNul (clean : Bool) (ops : List NameOp) : Bool := noByte 0 clean ops

/-- the operations end with `+ ext` followed by `uniqueFileName` and then the in-use mark (taken on the FINAL name, and
only there), where `ext` is the extension the loader reads; every
separator and every NUL byte (the two bytes a Linux file name cannot contain) is replaced before, whatever the name
holds; the separator of `uniqueFileName` is harmless -/
def opsOK (ops : List NameOp) (readExt : Bytes) : Bool :=
  match ops.reverse with
  | .mark :: .unique :: .append e :: pre =>
    pre.all (· != .mark) && e == readExt && isExt e && noSep false pre.reverse && noNul false pre.reverse &&
      !Gen.ConfigDir.uniqueSep.contains 47 && !Gen.ConfigDir.uniqueSep.contains 0
  | _ => false

/-- the clock is consulted at most by the first operation (the default for an empty name) -/
def stampFirst : List NameOp → Bool
  | .orStamp :: r => r.all (· != .orStamp)
  | r => r.all (· != .orStamp)

end MosnVerif.Model.ConfigDir
