import MosnVerif.Model.FrameBytes
/-! [c08l9] declarative reference for "a need-more answer must be honest": buffers no continuation can complete. -/
namespace MosnVerif.Model.NeedMoreLive
open MosnVerif.Model.Framing MosnVerif.Model.FrameBytes

/-- a buffered prefix that NO continuation turns into a frame.  tars: the 4-byte package length (which counts itself) is
below 4 or above TarsGo's 10 MiB maximum.  (bolt, boltv2, dubbo, dubbothrift: every announced length can be completed.) -/
def hopeless (proto : String) (b : Bytes) : Bool :=
  proto == "tars" && decide (4 ≤ b.length) && (decide (be b 0 4 < 4) || decide (be b 0 4 > 10485760))

end MosnVerif.Model.NeedMoreLive
