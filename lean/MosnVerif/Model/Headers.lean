import MosnVerif.Gen.HeaderMutation
import MosnVerif.Gen.ProxyTimeout
/-!
Model of the route-action header mutations (pkg/router/header_parser.go `evaluateHeaders`, base_rule.go
`finalizeRequestHeaders`/`FinalizeResponseHeaders`, virtualhost.go `Finalize*Headers`) and of the effective timeout
(`parseProxyTimeout`, regenerated).  A header map is an association list with exact-key `get/set/del`
(`protocol.CommonHeader` semantics; names configured in mutations are lower-cased when the parser is built).
-/
namespace MosnVerif.Model.Headers
open MosnVerif.Gen.HeaderMutation

abbrev Hdrs := List (String × String)

def get (h : Hdrs) (k : String) : Option String := (h.find? (·.1 == k)).map (·.2)
def del (h : Hdrs) (k : String) : Hdrs := h.filter (fun e => !(e.1 == k))
/-- `Set`: replace the value (position is irrelevant: maps are compared as maps) -/
def set (h : Hdrs) (k v : String) : Hdrs := (k, v) :: del h k

/-- one configured addition: (lower-cased) name, already formatted value, append flag (default true) -/
structure Add where
  name : String
  value : String
  append : Bool
deriving Repr

structure Parser where
  adds : List Add
  removes : List String
deriving Repr

/-- one iteration of the additions loop of `evaluateHeaders`, join condition regenerated -/
def applyAdd (h : Hdrs) (a : Add) : Hdrs :=
  let value :=
    match get h a.name with
    | some v => if joinCond true (v.length : Int) a.append then v ++ "," ++ a.value else a.value
    | none => if joinCond false 0 a.append then "," ++ a.value else a.value
  set h a.name value

def evaluate (p : Parser) (h : Hdrs) : Hdrs :=
  p.removes.foldl del (p.adds.foldl applyAdd h)

structure Levels where
  route : Parser
  vhost : Parser
  router : Parser

def Levels.at (l : Levels) : Level → Parser
  | .route => l.route | .vhost => l.vhost | .router => l.router

/-- `finalizeRequestHeaders` / `FinalizeResponseHeaders`: the three parsers in the regenerated order -/
def finalize (order : List Level) (l : Levels) (h : Hdrs) : Hdrs :=
  order.foldl (fun h lv => evaluate (l.at lv) h) h

/-! ### declarative per-header specification -/

/-- a single mutation of header `k`'s value -/
inductive Op where
  | add (a : Add)
  | remove (k : String)

def opsOf (p : Parser) : List Op := p.adds.map .add ++ p.removes.map .remove

def Op.key : Op → String
  | .add a => a.name
  | .remove k => k

/-- effect of one mutation on the value of the header it names: the documented rule
(append joins with ',' only onto an existing non-empty value; otherwise overwrite; remove deletes). -/
def stepVal : Option String → Op → Option String
  | some v, .add a => if v.length > 0 ∧ a.append then some (v ++ "," ++ a.value) else some a.value
  | none, .add a => some a.value
  | _, .remove _ => none

/-- final value of header `k`: fold of the mutations naming `k`, in order route → virtual host → router config -/
def specValue (ops : List Op) (k : String) (v0 : Option String) : Option String :=
  (ops.filter (fun o => o.key == k)).foldl stepVal v0

def specOps (l : Levels) : List Op := opsOf l.route ++ opsOf l.vhost ++ opsOf l.router

/-! ### timeouts -/
open MosnVerif.Gen.ProxyTimeout in
/-- one timeout source chain: protocol-supplied variable, else request header, else the route's, else what was there -/
def pickTimeout (parseInt : String → Option Int) (var hdr : Option String) (hasRoute : Bool) (route init : Int) : Int :=
  match var.bind parseInt with
  | some v => v * 1000000
  | none =>
    match hdr.bind parseInt with
    | some v => v * 1000000
    | none => if hasRoute then route else init

def specGlobal (parseInt : String → Option Int) (g0 : Int) (hasRoute : Bool) (routeGlobal : Int)
    (hdrGlobal varGlobal : Option String) : Int :=
  let g := pickTimeout parseInt varGlobal hdrGlobal hasRoute routeGlobal g0
  -- [c08l9] a global timeout that is not positive (absent, 0, negative header / variable / route value) is the default:
  -- the timers are armed only for values > 0, a negative one would disable both (request hangs on a silent upstream)
  if g ≤ 0 then 60000000000 else g

def specTry (parseInt : String → Option Int) (g0 t0 : Int) (hasRoute : Bool) (routeGlobal routeTry : Int)
    (hdrTry hdrGlobal varTry varGlobal : Option String) : Int :=
  let t := pickTimeout parseInt varTry hdrTry hasRoute routeTry t0
  if t ≥ specGlobal parseInt g0 hasRoute routeGlobal hdrGlobal varGlobal then 0 else t

end MosnVerif.Model.Headers
