import MosnVerif.Model.ResourceShare
/-!
# Histories of requests, retries, stream-proxy connections and cluster updates (C10, builder c10p10)

The operations the harness drives on the REAL cluster manager and proxy core (kind `rsh`), as programs over the primitive
acquire / release / update of `Model/ResourceShare.lean`:

* `start k`  — request `k` is routed (its retry state captures the CURRENT cluster info) and its first attempt goes through the pool of
  the host's address: `CanCreate / Increase` of `Requests` through the pool's host object; refused = overflow, the request ends;
* `retry k`  — the parked attempt is answered 503: its stream is destroyed (request slot back through the pool's host), `retryState.retry`
  gives back the slot it holds, tests and takes a `Retries` slot through the captured info, the next attempt takes a request slot again;
  a refused retry / a refused next attempt end the request (the retry slot is given back);
* `fin k`    — the request ends (200 / downstream reset / global timeout): request slot and retry slot back;
* `open j` / `close j` — a stream-proxy connection on cluster `t1`: `Connections` taken on the snapshot's info, given back through the host;
* `update`   — `AddOrUpdatePrimaryCluster` / `AddOrUpdateClusterAndHost` (one host, same address) on BOTH clusters.

The interpreter `stepS` is written once, over an abstract machine `Mach σ`; it is instantiated with the object graph (`objMach`, the
model) and with a ledger BY NAME that knows no objects at all (`refMach`: thresholds of the last update + the list of live holders;
an admission is refused iff the resource is limited and the live holders reach the limit) — the declarative reference the property
predicate `Spec.holds` compares the IMPLEMENTATION's observations with.  Core Lean only; `refMach` and `Spec` do not mention `Gen`.
-/
namespace MosnVerif.Model.ResourceShare
open MosnVerif.Gen.ResourceShare

inductive SOp where
  | start (k : Nat)
  | retry (k : Nat)
  | fin (k : Nat)
  | open_ (j : Nat)
  | close (j : Nat)
  | update (primary : Bool) (typ : Nat) (thr : Thr)
deriving DecidableEq, Repr

inductive Out where
  | a | o | n | r | v | e | u
deriving DecidableEq, Repr

/-- the abstract ledger machine a history runs on -/
structure Mach (σ : Type) where
  has : σ → Nat → Bool                 -- holder `id` live on cluster c1
  hasT : σ → Nat → Bool                -- … on cluster t1
  route : σ → Nat → σ                  -- request k routed: its retry state captures the current cluster info of c1
  admitReq : σ → Nat → σ × Bool        -- request slot of request k (holder 2k)
  admitRetr : σ → Nat → σ × Bool       -- retry slot of request k (holder 2k+1)
  admitConn : σ → Nat → σ × Bool       -- connection j on t1
  rel : σ → Nat → σ
  relT : σ → Nat → σ
  update : σ → Bool → Nat → Thr → σ

def stepS {σ : Type} (M : Mach σ) (s : σ) : SOp → σ × Out
  | .start k =>
    if M.has s (2 * k) then (s, .n) else
      let r := M.admitReq (M.route s k) k
      (r.1, if r.2 then .a else .o)
  | .retry k =>
    if M.has s (2 * k) then
      let r1 := M.admitRetr (M.rel (M.rel s (2 * k)) (2 * k + 1)) k
      if r1.2 then
        let r2 := M.admitReq r1.1 k
        if r2.2 then (r2.1, .r) else (M.rel r2.1 (2 * k + 1), .o)
      else (r1.1, .v)
    else (s, .n)
  | .fin k => if M.has s (2 * k) then (M.rel (M.rel s (2 * k)) (2 * k + 1), .e) else (s, .n)
  | .open_ j =>
    if M.hasT s j then (s, .n) else
      let r := M.admitConn s j
      (r.1, if r.2 then .a else .o)
  | .close j => if M.hasT s j then (M.relT s j, .e) else (s, .n)
  | .update p ty thr => (M.update s p ty thr, .u)

/-! ## the object graph as a machine (the model) -/

structure Hist where
  c : State                  -- cluster c1 (requests, retries)
  t : State                  -- cluster t1 (stream-proxy connections)
  pool : Option Nat          -- the host object the pool of c1's address was created with (pools are keyed by address and live on)
  cap : Nat → Nat            -- request k ↦ the cluster info its retry state captured
  typ : Nat                  -- cluster type of the last update

def Hist.init (thr : Thr) : Hist := ⟨ResourceShare.init thr 1, ResourceShare.init thr 1, none, fun _ => 0, 0⟩

def poolHost (h : Hist) : Nat :=
  match h.pool with
  | some p => p
  | none => h.c.hosts.headD 0

def objMach (code : Code) : Mach Hist where
  has h id := (findId id h.c.live).isSome
  hasT h id := (findId id h.t.live).isSome
  route h k := { h with cap := upd h.cap k h.c.cur }
  admitReq h k :=
    let ph := poolHost h
    let r := acquire h.c (2 * k) .req (.host ph) (.host ph)
    ({ h with c := r.1, pool := some ph }, r.2)
  admitRetr h k :=
    let r := acquire h.c (2 * k + 1) .retr (.info (h.cap k)) (.info (h.cap k))
    ({ h with c := r.1 }, r.2)
  admitConn h j :=
    let r := acquire h.t j .conn (.info h.t.cur) (.host (h.t.hosts.headD 0))
    ({ h with t := r.1 }, r.2)
  rel h id := { h with c := release h.c id }
  relT h id := { h with t := release h.t id }
  update h p ty thr :=
    { h with c := ResourceShare.update code h.c p thr (ty == h.typ) 1, t := ResourceShare.update code h.t p thr (ty == h.typ) 1, typ := ty }

/-- what the harness reads after every operation: `Cur()` / `Max()` on the manager of the CURRENT snapshot (`Connections` on t1, the
others on c1), cluster `request_active` of c1 and `connection_active` of t1 -/
structure ObsS where
  out : Out
  cur : V4 Int
  max : V4 Nat
  gReq : Int
  gConn : Int
deriving DecidableEq, Repr

def Hist.obs (h : Hist) (out : Out) : ObsS :=
  ⟨out, ⟨(curMgr h.t).cur.conn, (curMgr h.c).cur.pend, (curMgr h.c).cur.req, (curMgr h.c).cur.retr⟩,
      ⟨(curMgr h.t).max.conn, (curMgr h.c).max.pend, (curMgr h.c).max.req, (curMgr h.c).max.retr⟩,
      h.c.gauge.req, h.t.gauge.conn⟩

def objTrace (code : Code) : Hist → List SOp → List ObsS
  | _, [] => []
  | h, op :: r => let x := stepS (objMach code) h op; x.1.obs x.2 :: objTrace code x.1 r

/-! ## the ledger by name (the declarative reference) -/

structure Ref where
  thr : Thr
  lv : List (Nat × Res)      -- live holders of cluster c1: (id, resource)
  lvT : List (Nat × Res)     -- … of cluster t1
deriving DecidableEq, Repr

def Ref.init (thr : Thr) : Ref := ⟨thr, [], []⟩

def countK (r : Res) : List (Nat × Res) → Nat
  | [] => 0
  | h :: l => (if h.2 = r then 1 else 0) + countK r l

def hasK (id : Nat) : List (Nat × Res) → Bool
  | [] => false
  | h :: l => if h.1 = id then true else hasK id l

def removeK (id : Nat) : List (Nat × Res) → List (Nat × Res)
  | [] => []
  | h :: l => if h.1 = id then l else h :: removeK id l

/-- a limit trips exactly at its threshold: refused iff the resource is limited and the live holders have reached the limit -/
def refAdmits (thr : Thr) (r : Res) (l : List (Nat × Res)) : Bool := thr.get r == 0 || decide (countK r l < thr.get r)

def refMach : Mach Ref where
  has s id := hasK id s.lv
  hasT s id := hasK id s.lvT
  route s _ := s
  admitReq s k := if refAdmits s.thr .req s.lv then ({ s with lv := s.lv ++ [(2 * k, .req)] }, true) else (s, false)
  admitRetr s k := if refAdmits s.thr .retr s.lv then ({ s with lv := s.lv ++ [(2 * k + 1, .retr)] }, true) else (s, false)
  admitConn s j := if refAdmits s.thr .conn s.lvT then ({ s with lvT := s.lvT ++ [(j, .conn)] }, true) else (s, false)
  rel s id := { s with lv := removeK id s.lv }
  relT s id := { s with lvT := removeK id s.lvT }
  update s _ _ thr := { s with thr := thr }

/-- a limited resource shows exactly its live holders, an unlimited one is not counted -/
def refCur (thr : Thr) (r : Res) (l : List (Nat × Res)) : Int := if thr.get r = 0 then 0 else (countK r l : Int)

def Ref.obs (s : Ref) (out : Out) : ObsS :=
  ⟨out, ⟨refCur s.thr .conn s.lvT, refCur s.thr .pend s.lv, refCur s.thr .req s.lv, refCur s.thr .retr s.lv⟩, s.thr,
      (countK .req s.lv : Int), (countK .conn s.lvT : Int)⟩

def refTrace : Ref → List SOp → List ObsS
  | _, [] => []
  | s, op :: r => let x := stepS refMach s op; x.1.obs x.2 :: refTrace x.1 r

/-- an update that moves a threshold between 0 and non-zero while a unit of that resource is held (by name) -/
def Ref.zeroStableOp (s : Ref) : SOp → Bool
  | .update _ _ thr =>
    allRes.all (fun r => (countK r s.lv == 0 && countK r s.lvT == 0) || ((s.thr.get r == 0) == (thr.get r == 0)))
  | _ => true

def Ref.zeroStable : Ref → List SOp → Bool
  | _, [] => true
  | s, op :: r => s.zeroStableOp op && Ref.zeroStable (stepS refMach s op).1 r

namespace Spec
/-- the property predicate: the IMPLEMENTATION's observations (outcome, `Cur()` and `Max()` of the four resources on the manager of
the current snapshot, the two active gauges, after every operation) are those of the ledger by name: every counter equals the
number of live holders (0 when unlimited, 0 when idle), never negative, the thresholds are those of the last update and an
admission is refused exactly when the live holders have reached a non-zero threshold -/
def holds (thr0 : Thr) (ops : List SOp) (obs : List ObsS) : Bool := obs == refTrace (Ref.init thr0) ops
end Spec

end MosnVerif.Model.ResourceShare
