/-!
Digit-level model of `time.ParseDuration` and `time.Duration.String` (Go standard library, package time), used by
the `api.DurationConfig` codec of C19.  Durations are `Int` nanoseconds in the int64 range.  Core Lean only.
The fraction of a term is computed exactly (Go multiplies in float64; the two agree whenever the fraction is not finer
than a nanosecond of its unit, which covers everything `String` prints).
-/
namespace MosnVerif.Model.GoDuration

def two63 : Nat := 9223372036854775808

def isDig (c : Char) : Bool := c.isDigit

/-- value of a run of decimal digits (`leadingInt`) -/
def digitsVal (ds : List Char) : Nat := Nat.ofDigitChars 10 ds 0

def spanDigits : List Char → List Char × List Char
  | c :: r => if isDig c then ((c :: (spanDigits r).1), (spanDigits r).2) else ([], c :: r)
  | [] => ([], [])

/-- a unit runs until the next digit or `.` -/
def spanUnit : List Char → List Char × List Char
  | c :: r => if isDig c || c == '.' then ([], c :: r) else ((c :: (spanUnit r).1), (spanUnit r).2)
  | [] => ([], [])

/-- nanoseconds per unit (`time.unitMap`); µ is U+00B5, μ is U+03BC -/
def unitNs (u : List Char) : Option Nat :=
  if u == ['n', 's'] then some 1
  else if u == ['u', 's'] || u == ['µ', 's'] || u == ['μ', 's'] then some 1000
  else if u == ['m', 's'] then some 1000000
  else if u == ['s'] then some 1000000000
  else if u == ['m'] then some 60000000000
  else if u == ['h'] then some 3600000000000
  else none

/-- the optional `.digits` after the integer part (`leadingFraction`) -/
def splitFrac : List Char → List Char × List Char
  | '.' :: r => spanDigits r
  | r => ([], r)

/-- the `for s != ""` loop of `time.ParseDuration` (one term per unit of fuel) -/
def parseLoop : Nat → List Char → Nat → Option Nat
  | 0, _, _ => none
  | fuel + 1, cs, d =>
    match cs with
    | [] => some d
    | c :: _ =>
      if !(c == '.' || isDig c) then none else
      let ip := (spanDigits cs).1
      let r1 := (spanDigits cs).2
      let v := digitsVal ip
      if v > two63 then none else
      let fp := (splitFrac r1).1
      let r2 := (splitFrac r1).2
      if ip.isEmpty && fp.isEmpty then none else
      let u := (spanUnit r2).1
      let r3 := (spanUnit r2).2
      if u.isEmpty then none else
      match unitNs u with
      | none => none
      | some unit =>
        if v > two63 / unit then none else
        let v' := v * unit + (digitsVal fp * unit) / (10 ^ fp.length)
        if v' > two63 then none else
        let d' := d + v'
        if d' > two63 then none else parseLoop fuel r3 d'

/-- `time.ParseDuration` on the characters of the string -/
def isNeg : List Char → Bool
  | '-' :: _ => true
  | _ => false

def stripSign : List Char → List Char
  | '-' :: r => r
  | '+' :: r => r
  | r => r

def parseChars (cs0 : List Char) : Option Int :=
  let neg := isNeg cs0
  let cs := stripSign cs0
  if cs == ['0'] then some 0
  else if cs.isEmpty then none
  else match parseLoop (cs.length + 1) cs 0 with
    | none => none
    | some d => if neg then some (-(d : Int)) else if d > two63 - 1 then none else some (d : Int)

def parseDur (s : String) : Option Int := parseChars s.toList

/-- `fmtFrac`: drop trailing zeros of the `prec`-digit fraction `v`; returns (remaining value, remaining digits) -/
def fracTrim : Nat → Nat → Nat × Nat
  | 0, v => (v, 0)
  | p + 1, v => if v % 10 == 0 then fracTrim p (v / 10) else (v, p + 1)

/-- `v` printed with exactly `p` digits -/
def pad (p v : Nat) : List Char := List.replicate (p - (Nat.toDigits 10 v).length) '0' ++ Nat.toDigits 10 v

def fracChars (v prec : Nat) : List Char :=
  if (fracTrim prec v).2 == 0 then [] else '.' :: pad (fracTrim prec v).2 (fracTrim prec v).1

/-- `Duration.String` for the magnitude `u` -/
def bodyChars (u : Nat) : List Char :=
  if u == 0 then ['0', 's']
  else if u < 1000 then Nat.toDigits 10 u ++ ['n', 's']
  else if u < 1000000 then Nat.toDigits 10 (u / 1000) ++ fracChars (u % 1000) 3 ++ ['µ', 's']
  else if u < 1000000000 then Nat.toDigits 10 (u / 1000000) ++ fracChars (u % 1000000) 6 ++ ['m', 's']
  else
    let secs := u / 1000000000
    let sPart := Nat.toDigits 10 (secs % 60) ++ fracChars (u % 1000000000) 9 ++ ['s']
    let mins := secs / 60
    if mins == 0 then sPart
    else if mins / 60 == 0 then Nat.toDigits 10 (mins % 60) ++ 'm' :: sPart
    else Nat.toDigits 10 (mins / 60) ++ 'h' :: (Nat.toDigits 10 (mins % 60) ++ 'm' :: sPart)

def fmtChars (d : Int) : List Char := if d < 0 then '-' :: bodyChars d.natAbs else bodyChars d.natAbs

/-- `Duration.String` -/
def fmtDur (d : Int) : String := String.ofList (fmtChars d)

end MosnVerif.Model.GoDuration
