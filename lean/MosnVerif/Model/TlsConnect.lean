import MosnVerif.Gen.TlsConnect
import MosnVerif.Gen.TlsPolicy
/-!
Model of the two places where a TLS failure could turn into plaintext (C13, "plaintext only when configured: fallback"):

* upstream: `clientConnection.tryConnect` (pkg/network/connection.go) over `clientContextManager.Conn` / `Fallback`
  (pkg/mtls/tls_context_manager.go) — both REGENERATED (`Gen/TlsConnect.lean`: `tryConnect`, `clientMngConn`, `mngFallback`).
  Hand-written here: the classes of handshake outcomes and which named predicate of the error each one satisfies.
* downstream: `activeListener.OnAccept` (pkg/server/handler.go, regenerated `acceptDecision`) over
  `serverContextManager.Conn` (regenerated `Gen/TlsPolicy.connDecision`). The server handshake itself is lazy (first Read of
  the `TLSConn`); a failed one fails that Read — there is no code path from a `TLSConn` back to the raw connection.
Core Lean only.
-/
namespace MosnVerif.Model.TlsConnect
open MosnVerif.Gen.TlsConnect MosnVerif.Gen.TlsPolicy

/-- how the upstream's side of the TLS handshake ended, as `tlsconn.Handshake()` reports it -/
inductive Hs where
  | ok        -- handshake completed (certificate accepted by the configured verification)
  | badCert   -- x509 verification error (wrong CA / name / expired)
  | alert     -- the peer sent a fatal alert (*net.OpError "remote error")
  | reset     -- ECONNRESET (*net.OpError)
  | eof       -- io.EOF: the peer closed
  | timeout   -- the read deadline (handshakeTimeout) passed: the peer accepts and stays silent (*net.OpError, Timeout())
  | other     -- anything else (a record that is not TLS: "first record does not look like a TLS handshake")
  deriving DecidableEq, Repr

def Hs.all : List Hs := [.ok, .badCert, .alert, .reset, .eof, .timeout, .other]

/-- `err == io.EOF` -/
def Hs.isEOF : Hs → Bool
  | .eof => true | _ => false
/-- `_, ok := err.(net.Error)` -/
def Hs.isNetError : Hs → Bool
  | .alert => true | .reset => true | .timeout => true | _ => false
/-- `err.(net.Error).Timeout()` -/
def Hs.isTimeout : Hs → Bool
  | .timeout => true | _ => false

/-- the cluster's TLS configuration as tryConnect sees it: a manager exists (`cc.tlsMng ≠ nil`), its provider is ready
(`Enabled()`), the `fallback` flag of the v2.TLSConfig -/
structure Cfg where
  hasMng : Bool
  enabled : Bool
  fallback : Bool
  deriving DecidableEq, Repr

/-- TLS is configured (and can be spoken) for this upstream -/
def Cfg.tls (c : Cfg) : Bool := c.hasMng && c.enabled

/-- `tryConnect` for a TCP upstream: the regenerated function fed with the regenerated manager -/
def connect (c : Cfg) (hs : Hs) (dial1 dial2 : Bool) : Try :=
  let m := clientMngConn true c.enabled (hs == .ok)
  tryConnect dial1 c.hasMng m.1 m.2 hs.isEOF hs.isNetError hs.isTimeout (mngFallback c.fallback) dial2

/-- what the caller of Connect ends up with -/
inductive Reached where
  | tlsConnected | plainConnected | failed
  deriving DecidableEq, Repr

def reached (t : Try) : Reached :=
  if t.failed then .failed
  else match t.conn with
    | .tls => .tlsConnected
    | .plain => .plainConnected
    | .none => .failed

/-! ### Spec (declarative, independent of the regenerated code) -/

/-- the statement: what an upstream connect must end in. Plaintext only when TLS is not configured, or `fallback` is
set and the handshake failed (and the second dial went through). -/
def specReached (c : Cfg) (hs : Hs) (dial1 dial2 : Bool) : Reached :=
  if !dial1 then .failed
  else if !c.tls then .plainConnected
  else if hs == .ok then .tlsConnected
  else if c.fallback && dial2 then .plainConnected
  else .failed

/-- number of TCP connections the upstream sees -/
def specDials (c : Cfg) (hs : Hs) (dial1 : Bool) : Nat :=
  if dial1 && c.tls && hs != .ok && c.fallback then 2 else 1

/-! ### downstream -/

/-- what an accepted downstream connection becomes -/
inductive Served where
  | closed | plain | tls
  deriving DecidableEq, Repr

def connPlain : ConnResult → Bool
  | .raw => true | .plainPeeked => true | _ => false

/-- `OnAccept` over `serverContextManager.Conn` -/
def accepted (hasMng transferred isTCP enabled inspector peekFailed : Bool) (first : Nat) : Served :=
  let r := connDecision isTCP enabled inspector peekFailed first
  match acceptDecision hasMng transferred (r == .peekError) with
  | .closed => .closed
  | .serveRaw => .plain
  | .serveMng => if connPlain r then .plain else .tls

end MosnVerif.Model.TlsConnect
