/-!
Datatypes of the regenerated reassembly plan of `transferConfig` (pkg/configmanager/dump_action.go; `Gen/ConfigTransfer.lean`
is an instance): for every list of the dumped `MOSNConfig` that the function rebuilds — where its elements come from
(iteration over one of the effective MAPS, whose order is arbitrary, or an in-order copy of an effective SLICE), how many
sort calls are applied to it, and which statements inside a rebuilding loop reorder a list INSIDE an element.  Core Lean only.
-/
namespace MosnVerif.Model.OrderTypes

inductive Src where
  | fromMap (m : String)      -- for … := range conf.<m> { dst = append(dst, …) }   (Go map: iteration order arbitrary)
  | inOrder (s : String)      -- for k, v := range conf.<s> { dst[k] = v }  /  copy(dst, conf.<s>)   (slice: order kept)
  deriving Repr, DecidableEq, Inhabited

structure ListPlan where
  field : String              -- where the list ends up in the dumped config, e.g. "Servers[0].Listeners"
  src : Src
  sorts : Nat                 -- sort calls applied to the list (through its local variable or the field)
  deriving Repr, DecidableEq, Inhabited

/-- a statement of a rebuilding loop that sorts the list `sub` (Go field name) inside every element of `list` -/
structure Edit where
  list : String
  sub : String
  deriving Repr, DecidableEq, Inhabited

end MosnVerif.Model.OrderTypes
