import MosnVerif.Gen.ClusterPub
/-!
Which host OBJECT a cluster carries for an address after Update / Append / Remove operations
(`cluster_manager.go` NewSimpleHostHandler, AppendSimpleHostHandler, the closure of RemoveClusterHosts; `host_set.go`
`hostSet.setFinalHost`).

* Regenerated (`Gen/ClusterPub.lean`): which lists, in which order, each handler concatenates into the slice it hands to
  `NewHostSet` (`updateParts`, `appendParts` = supplied hosts first, then the current ones, `removeParts`), and which
  occurrence of an address `setFinalHost` keeps (`dupKeepsFirst`).
* A host object is `(address, token, weight)`: the token stands for the object's identity (its metadata, weight, TLS
  flag travel with it).  Health is per address (shared flag word) and not part of the object.
* `RemoveClusterHosts` sorts by address and deletes by binary search (that search is property C12's subject); here it is
  the filter it computes, and published sets are compared as sets ordered by address.
-/
namespace MosnVerif.Model.HostOps
open MosnVerif.Gen.ClusterPub

structure H where
  a : Nat
  t : Nat
  w : Nat
deriving Repr, DecidableEq, Inhabited

/-- `setFinalHost` as written: one pass, a set of addresses already seen, later occurrences skipped. -/
def dedupFirst (seen : List Nat) : List H → List H
  | [] => []
  | h :: r => if h.a ∈ seen then dedupFirst seen r else h :: dedupFirst (h.a :: seen) r

/-- the other rule (the LAST occurrence of an address wins, in the first one's slot). -/
def dedupLast (l : List H) : List H :=
  (dedupFirst [] l).map (fun h => (l.reverse.find? (fun x => x.a == h.a)).getD h)

def dedup (l : List H) : List H := if dupKeepsFirst then dedupFirst [] l else dedupLast l

def parts (ps : List Part) (supplied current : List H) : List H :=
  ps.flatMap (fun p => match p with | .supplied => supplied | .current => current)

inductive Op where
  /-- `UpdateClusterHosts` / `AddOrUpdateClusterAndHost` (NewSimpleHostHandler) -/
  | update (l : List H)
  /-- `AppendClusterHosts` (AppendSimpleHostHandler) -/
  | append (l : List H)
  /-- `RemoveClusterHosts` -/
  | remove (as : List Nat)
  /-- `AddOrUpdatePrimaryCluster` (InheritClusterHostsHandler: the same host set object) -/
  | inherit
deriving Repr, Inhabited

def applyOp (cur : List H) : Op → List H
  | .update l => dedup (parts updateParts l cur)
  | .append l => dedup (parts appendParts l cur)
  | .remove as => dedup ((parts removeParts [] cur).filter (fun h => !as.contains h.a))
  | .inherit => cur

def runOps (cur : List H) (ops : List Op) : List H := ops.foldl applyOp cur

/-! ### the abstract map address → most recently supplied host object (declarative reference) -/

def firstOf (l : List H) (a : Nat) : Option H := l.find? (fun h => h.a == a)

def absOp (m : Nat → Option H) : Op → (Nat → Option H)
  | .update l => fun a => firstOf l a
  | .append l => fun a => match firstOf l a with | some h => some h | none => m a
  | .remove as => fun a => if as.contains a then none else m a
  | .inherit => m

def absRun (m : Nat → Option H) (ops : List Op) : Nat → Option H := ops.foldl absOp m

end MosnVerif.Model.HostOps
