import MosnVerif.Gen.Pool
/-!
Model of the two ping-pong upstream connection pools of MOSN:

* HTTP/1 pool — `pkg/stream/http/connpool.go` (`availableClients`, `totalClientCount`, `activeClient.closed /
  closeConn / closeWithActiveReq`),
* xprotocol ping-pong pool — `pkg/stream/xprotocol/connpool_pingpong.go` (`idleClients`, `totalClientCount`,
  `activeClientPingPong.closed / shouldCloseConn / closeWithActiveReq`),

together with `BaseStream`'s destroy-once state (`pkg/stream/stream.go`) and the cluster's requests breaker
(`resource`, `pkg/upstream/cluster/resource_manager.go`).

The *books* (`total`, `idle`, the client flags, `reqCur`) are the pool's own variables; the *truth* is what really
exists: `Client.netOpen` (the TCP connection is open), the streams and whether they are still live, and the ghost
flag `Client.dirty` (some request on the connection was reset). Every decision the Go code takes is a regenerated
function of `Gen.Pool`; the sequential steps below compose them in the order of the Go source.  One operation =
one call into the pool together with everything it triggers synchronously or on the connection's own goroutines,
run to quiescence (the harness waits for quiescence after every operation).
-/
namespace MosnVerif.Model.Pool
open MosnVerif.Gen.Pool

inductive Kind | h1 | pp
  deriving DecidableEq, Repr

structure Client where
  closed    : Bool := false   -- activeClient.closed
  closeConn : Bool := false   -- closeConn (HTTP/1) / shouldCloseConn (ping-pong)
  cwar      : Bool := false   -- closeWithActiveReq
  netOpen   : Bool := true    -- truth: the TCP connection is open
  dirty     : Bool := false   -- ghost: a request on this connection was reset
  deriving DecidableEq, Repr

structure Stream where
  conn     : Nat
  state    : Nat := streamStateReset   -- BaseStream.state
  recv     : Nat := 0                  -- OnReceive calls seen by the receiver
  resets   : List String := []         -- OnResetStream notifications (reasons)
  destroys : Nat := 0                  -- OnDestroyStream notifications
  deriving Repr

def Stream.live (st : Stream) : Bool := st.state == streamStateReset

structure State where
  kind     : Kind
  maxConn  : Nat            -- Connections().Max()   (0 = unlimited)
  maxReq   : Nat            -- Requests().Max()      (0 = unlimited, nothing counted)
  total    : Int := 0       -- totalClientCount
  idle     : List Nat := []  -- availableClients / idleClients (client numbers, slice order)
  nClients : Nat := 0
  client   : Nat → Client := fun _ => {}
  nStreams : Nat := 0
  stream   : Nat → Stream := fun _ => { conn := 0 }
  reqCur   : Int := 0       -- Requests().Cur() of the cluster
  ext      : Nat := 0       -- ghost: slots of the shared requests breaker held by other pools of the cluster

def init (k : Kind) (maxConn maxReq : Nat) : State := { kind := k, maxConn := maxConn, maxReq := maxReq }

def State.updC (s : State) (c : Nat) (f : Client → Client) : State :=
  { s with client := fun k => if k = c then f (s.client c) else s.client k }

def State.updS (s : State) (i : Nat) (f : Stream → Stream) : State :=
  { s with stream := fun k => if k = i then f (s.stream i) else s.stream k }

/-- number of live streams among the first `n` -/
def countLive (f : Nat → Stream) : Nat → Nat
  | 0 => 0
  | n + 1 => countLive f n + (if (f n).live then 1 else 0)

def State.liveCount (s : State) : Nat := countLive s.stream s.nStreams

/-! ### regenerated decisions, selected by pool kind -/
def canNew (k : Kind) (maxConns total : Int) : Bool :=
  match k with | .h1 => h1CanNew maxConns total | .pp => ppCanNew maxConns total
def reuseRefused (k : Kind) (maxConns total n : Int) : Bool :=
  match k with | .h1 => h1ReuseRefused maxConns total n | .pp => ppReuseRefused maxConns total n
def putBack (k : Kind) (closed : Bool) : Bool :=
  match k with | .h1 => h1PutBack closed | .pp => ppPutBack closed
def closeOnDestroy (k : Kind) (closed closeConn : Bool) : Bool :=
  match k with | .h1 => h1CloseOnDestroy closed closeConn | .pp => ppCloseOnDestroy closed closeConn
def markClose (k : Kind) (reason : String) (closed : Bool) : Bool :=
  match k with | .h1 => h1MarkClose reason closed | .pp => ppMarkClose reason closed
def markCwar (k : Kind) (reason : String) : Bool :=
  match k with | .h1 => h1MarkCwar reason | .pp => ppMarkCwar reason
def closeDelta (k : Kind) : Int :=
  match k with | .h1 => h1CloseDelta | .pp => ppCloseDelta
def breakerFirst (k : Kind) : Bool :=
  match k with | .h1 => h1BreakerFirst | .pp => ppBreakerFirst

/-- `removeFromPool` of the ping-pong pool: the entry is overwritten by the last one and the list is cut by one. -/
def swapRemove (l : List Nat) (c : Nat) : List Nat :=
  match l.getLast? with
  | none => l
  | some last => if c ∈ l then l.dropLast.map (fun x => if x = c then last else x) else l

/-- removal from the idle list on a close event: HTTP/1 deletes in place, ping-pong swaps with the last entry. -/
def removeIdle (k : Kind) (l : List Nat) (c : Nat) : List Nat :=
  match k with | .h1 => l.erase c | .pp => swapRemove l c

/-- the pool's reaction to a close event of client `c`: `onConnectionEvent` (HTTP/1) / `removeFromPool` (ping-pong). -/
def poolOnClose (s : State) (c : Nat) : State :=
  { s.updC c (fun cl => { cl with closed := true }) with
    total := s.total + closeDelta s.kind, idle := removeIdle s.kind s.idle c }

/-- the TCP connection of client `c` goes away (either side); the pool's close listener runs.  The stream that may
be in flight is reset separately (`netClose`).  `Connection.Close` is idempotent (CAS on `closed`). -/
def netDown (s : State) (c : Nat) : State :=
  if (s.client c).netOpen then poolOnClose (s.updC c (fun cl => { cl with netOpen := false })) c else s

/-- pool part of `OnDestroyStream` for client `c`. -/
def onStreamDestroy (s : State) (c : Nat) : State :=
  let cl := s.client c
  let s1 := if closeOnDestroy s.kind cl.closed cl.closeConn then netDown s c else s
  let s2 := { s1 with reqCur := resDecrease s1.maxReq s1.reqCur }
  if putBack s2.kind (s2.client c).closed then { s2 with idle := s2.idle ++ [c] } else s2

/-- `BaseStream.DestroyStream`: CAS `state` from reset (regenerated guard), tell the listeners once. -/
def destroyStream (s : State) (i : Nat) : State :=
  let st := s.stream i
  if destroyProceeds st.state then
    onStreamDestroy (s.updS i (fun st => { st with state := destroyedState, destroys := st.destroys + 1 })) st.conn
  else s

/-- `BaseStream.ResetStream`: only from state reset; listeners get `OnResetStream`, then the stream is destroyed. -/
def resetStream (s : State) (i : Nat) (reason : String) : State :=
  let st := s.stream i
  if resetProceeds st.state then
    let s1 := s.updS i (fun st => { st with resets := st.resets ++ [reason] })
    let s2 := s1.updC st.conn (fun cl => { cl with
      cwar := cl.cwar || markCwar s.kind reason,
      closeConn := cl.closeConn || markClose s.kind reason cl.closed,
      dirty := true })
    destroyStream s2 i
  else s

/-- index of the live stream on client `c`, searched below `n` (HTTP/1: `conn.stream`; xprotocol: the table). -/
def liveOn (f : Nat → Stream) (c : Nat) : Nat → Option Nat
  | 0 => none
  | n + 1 => if (f n).live && (f n).conn == c then some n else liveOn f c n

/-- the connection of client `c` closes; the in-flight stream (if any) is reset with `reason`. -/
def netClose (s : State) (c : Nat) (reason : String) : State :=
  if c < s.nClients ∧ (s.client c).netOpen then
    let s1 := netDown s c
    match liveOn s1.stream c s1.nStreams with
    | some i => resetStream s1 i reason
    | none => s1
  else s

/-- reason a stream sees when its connection closes: the HTTP/1 client was created before `Connect` (it saw
`Connected`): remote close ⇒ UpstreamReset, local ⇒ ConnectionTermination; the ping-pong pool creates the stream
client after `Connect`, `ConnectedFlag` stays false ⇒ ConnectionFailed. -/
def closeReason (k : Kind) (remote : Bool) : String :=
  match k with
  | .h1 => if remote then reasonUpstreamReset else reasonStreamConnectionTermination
  | .pp => reasonStreamConnectionFailed

/-- outcome of the dial a `NewStream` call makes when it finds no idle connection: established, refused / failed
(`api.ConnectFailed`) or timed out (`api.ConnectTimeout`). Both failures make `NewStream` answer `ConnectionFailure`;
they differ in the event the pool's connection-event handler sees. -/
inductive Dial | ok | refused | timeout
  deriving DecidableEq, Repr

def Dial.fails : Dial → Bool
  | .ok => false
  | _ => true

def Dial.isTimeout : Dial → Bool
  | .timeout => true
  | _ => false

inductive Op
  | newStream (dial : Dial)
  | response (i : Nat) (connClose : Bool)   -- connClose: HTTP/1 `Connection: close`
  | garbage (i : Nat)
  | localReset (i : Nat)
  | lateReset (i : Nat)
  | goAway (c : Nat)
  | unknownReply (c : Nat)
  | connClose (c : Nat) (remote : Bool)
  | shutdown
  | closeAll
  | extInc
  | extDec
  deriving Repr

inductive Res | none | ok (c : Nat) | overflow | connFail (timeout : Bool)
  deriving DecidableEq, Repr

/-- lease client `c`: requests breaker, new stream registered on it. -/
def lease (s : State) (c : Nat) : State :=
  { s with reqCur := resIncrease s.maxReq s.reqCur, nStreams := s.nStreams + 1,
           stream := fun k => if k = s.nStreams then { conn := c } else s.stream k }

/-- `getAvailableClient` / `GetActiveClient` after the breaker: (state, leased client or failure). -/
def acquire (s : State) (d : Dial) : State × Res :=
  match s.kind with
  | .h1 =>
    if s.idle.isEmpty then
      let t := s.total + h1NewDelta
      if h1CanNew s.maxConn t then
        -- a failed dial: whatever the failure branch and the handler of the dial's event do to the counter
        -- (a `Close()` of a connection that was never established delivers no event)
        if d.fails then ({ s with total := t + h1DialFailDelta d.isTimeout }, .connFail d.isTimeout)
        else ({ s with total := t, nClients := s.nClients + 1,
                       client := fun k => if k = s.nClients then {} else s.client k }, .ok s.nClients)
      else ({ s with total := t + h1OverflowDelta }, .overflow)
    else
      if h1ReuseRefused s.maxConn s.total s.idle.length then (s, .overflow)
      else ({ s with idle := s.idle.dropLast }, .ok (s.idle.getLast?.getD 0))
  | .pp =>
    if s.idle.isEmpty then
      if ppCanNew s.maxConn s.total then
        if d.fails then ({ s with total := s.total + ppDialFailDelta d.isTimeout }, .connFail d.isTimeout)
        else ({ s with total := s.total + ppNewDelta, nClients := s.nClients + 1,
                       client := fun k => if k = s.nClients then {} else s.client k }, .ok s.nClients)
      else (s, .overflow)
    else
      if ppReuseRefused s.maxConn s.total s.idle.length then (s, .overflow)
      else ({ s with idle := s.idle.dropLast }, .ok (s.idle.getLast?.getD 0))

/-- `NewStream`. With `breakerFirst` the requests breaker is consulted before a client is acquired; the other
order (the code before the repair) acquires first and drops the client on refusal. -/
def newStream (s : State) (d : Dial) : State × Res :=
  if breakerFirst s.kind then
    if canCreate s.maxReq s.reqCur then
      match acquire s d with
      | (s1, .ok c) => (lease s1 c, .ok c)
      | (s1, r) => (s1, r)
    else (s, .overflow)
  else
    match acquire s d with
    | (s1, .ok c) => if canCreate s.maxReq s.reqCur then (lease s1 c, .ok c) else (s1, .overflow)
    | (s1, r) => (s1, r)

def foldClose (cs : List Nat) (s : State) : State :=
  cs.foldl (fun s c => netClose s c (closeReason s.kind false)) s

def step (s : State) : Op → State × Res
  | .newStream f => newStream s f
  | .response i cc =>
    if i < s.nStreams ∧ (s.stream i).live then
      -- HTTP/1: `Connection: close` ⇒ OnGoAway before the response is handed over; then the receiver wrapper
      -- destroys the stream and calls OnReceive
      let s1 := if cc ∧ s.kind = .h1 then s.updC (s.stream i).conn (fun cl => { cl with closeConn := true }) else s
      let s2 := destroyStream s1 i
      (s2.updS i (fun st => { st with recv := st.recv + 1 }), .none)
    else (s, .none)
  | .garbage i =>
    if i < s.nStreams ∧ (s.stream i).live then
      match s.kind with
      | .h1 => (resetStream s i reasonStreamRemoteReset, .none)            -- response unreadable
      | .pp => (netClose s (s.stream i).conn (closeReason .pp false), .none) -- decode error ⇒ connection closed
    else (s, .none)
  | .localReset i =>
    if i < s.nStreams ∧ (s.stream i).live then (resetStream s i reasonStreamLocalReset, .none) else (s, .none)
  | .lateReset i =>
    if i < s.nStreams ∧ !(s.stream i).live then (destroyStream (resetStream s i reasonStreamLocalReset) i, .none) else (s, .none)
  | .goAway c =>
    if c < s.nClients ∧ (s.client c).netOpen ∧ s.kind = .pp then (s.updC c (fun cl => { cl with closeConn := true }), .none) else (s, .none)
  | .unknownReply _ => (s, .none)
  | .connClose c remote => (netClose s c (closeReason s.kind remote), .none)
  | .shutdown =>
    ({ s with client := fun k => if k ∈ s.idle then { s.client k with closeConn := true } else s.client k }, .none)
  | .closeAll => (foldClose s.idle s, .none)
  | .extInc => ({ s with reqCur := resIncrease s.maxReq s.reqCur, ext := s.ext + 1 }, .none)
  | .extDec => if s.ext > 0 then ({ s with reqCur := resDecrease s.maxReq s.reqCur, ext := s.ext - 1 }, .none) else (s, .none)

def run (s : State) : List Op → State
  | [] => s
  | op :: r => run (step s op).1 r

/-- the states after every operation, with the operation's result -/
def trace (s : State) : List Op → List (Res × State)
  | [] => []
  | op :: r => let (s', res) := step s op; (res, s') :: trace s' r

/-! ### observation: the same token the harness prints after each operation -/

/-- reasons are compared by class: L local reset, R remote reset, K connection lost (which of ConnectionTermination /
ConnectionFailed / UpstreamReset is seen depends on how MOSN notices the loss — read or failed write — not on the pool) -/
def reasonLetter (r : String) : String :=
  if r = reasonStreamLocalReset then "L" else if r = reasonStreamRemoteReset then "R"
  else if r = reasonStreamConnectionTermination then "K" else if r = reasonStreamConnectionFailed then "K"
  else if r = reasonUpstreamReset then "K" else "?"

def Res.render : Res → String
  | .none => "-" | .ok c => s!"ok{c}" | .overflow => "ovf" | .connFail t => if t then "ct" else "cf"

def renderIdle (s : State) : String :=
  ",".intercalate (s.idle.map (fun c =>
    let cl := s.client c
    s!"{c}{if cl.closed then "x" else ""}{if cl.closeConn then "g" else ""}{if cl.cwar then "w" else ""}"))

def renderConns (s : State) : String :=
  String.join ((List.range s.nClients).map (fun c => if (s.client c).netOpen then "o" else "c"))

def renderStreams (s : State) : String :=
  ",".intercalate ((List.range s.nStreams).map (fun i =>
    let st := s.stream i
    s!"{st.conn}:{st.recv}:{String.join (st.resets.map reasonLetter)}:{st.destroys}"))

def render (res : Res) (s : State) : String :=
  s!"{res.render};t{s.total};i{renderIdle s};q{s.reqCur};n{renderConns s};s{renderStreams s}"

end MosnVerif.Model.Pool
