import MosnVerif.Gen.HealthShare
import MosnVerif.Model.HealthLifecycle
/-!
Model of the PROCESS-WIDE sharing of health words (part D of C16): `GetHealthFlagPointer(addr)` hands out ONE word per
address for the whole process, while health checkers are per cluster — and a cluster may have none.

Process state = the life-cycle world of Model/HealthLifecycle (words by address, per-cluster session checkers with their
counters, the host sets the health checkers hold) + which clusters HAVE a health checker + every cluster's member
addresses (also of clusters without a checker).  Operations are those of the cluster manager:

* `update / append / remove`  (`UpdateClusterHosts / AppendClusterHosts / RemoveClusterHosts` → `simpleCluster.UpdateHosts`):
  host objects are created for the named addresses (`NewSimpleHost`: regenerated `newHostWrites` on the word found BY
  ADDRESS), then — only when the cluster has a health checker — `SetHealthCheckerHostSet` (Model/HealthLifecycle.setHosts),
  then the regenerated flag operations of `UpdateHosts` on the new host set (`updateHostsWrites`, each under its
  cluster / host condition);
* `reconf` (`AddOrUpdatePrimaryCluster`): `CleanOldClusterHandler` stops the old checker, the new cluster (with or
  without a health_check section) inherits the host set through `UpdateHosts` — the new health checker creates a NEW
  session checker per inherited address, with the regenerated initial counters (`newCheckerUn / newCheckerHc`);
* `result`, `outlier` as in the life-cycle model.

`compile` is the hand-written reading of the cluster-manager handlers in terms of the cluster-level operations of
Model/HealthLifecycle; when the regenerated lists are empty and the initial counters zero (as in the current source:
Lemmas/HealthShare.gen_*), a run of this model IS the life-cycle run of the compiled operation list
(`share_refines_lifecycle`), so the life-cycle theorems lift.
-/
namespace MosnVerif.Model.HealthShare
open MosnVerif.Model.HealthLifecycle (Addr Cid Word World Checker upd upd2)
open MosnVerif.Model.HealthCheck (Result Out)
open MosnVerif.Model

inductive SOp where
  | update (k : Cid) (hs : List Addr)
  | append (k : Cid) (a : Addr)
  | remove (k : Cid) (a : Addr)
  | reconf (k : Cid) (c : Option (Nat × Nat))   -- `some (u, h)`: with a health_check section; `none`: without
  | result (k : Cid) (a : Addr) (r : Result)
  | outlier (a : Addr) (on : Bool)
  deriving DecidableEq, Repr

/-- the configuration part of the state: it evolves independently of words and counters -/
structure Cfg where
  checked : Cid → Bool
  mem : Cid → List Addr

/-- the host set `UpdateHosts` of cluster `k` receives -/
def Cfg.target (c : Cfg) : SOp → Option (Cid × List Addr)
  | .update k hs => some (k, hs)
  | .append k a => some (k, if (c.mem k).contains a then c.mem k else a :: c.mem k)
  | .remove k a => some (k, (c.mem k).filter (fun x => x != a))
  | .reconf k _ => some (k, c.mem k)
  | _ => none

def Cfg.step (c : Cfg) (op : SOp) : Cfg :=
  match c.target op with
  | none => c
  | some (k, hs) =>
    { checked := match op with
        | .reconf k' cf => upd c.checked k' cf.isSome
        | _ => c.checked,
      mem := upd c.mem k hs }

/-- the cluster-manager operation in terms of the cluster-level operations (hand-written reading of
`NewSimpleHostHandler / AppendSimpleHostHandler / RemoveClusterHosts / AddOrUpdatePrimaryCluster`) -/
def compile (c : Cfg) : SOp → List HealthLifecycle.Op
  | .update k hs => if c.checked k then [.setHosts k hs] else []
  | .append k a => if c.checked k then [.setHosts k (if (c.mem k).contains a then c.mem k else a :: c.mem k)] else []
  | .remove k a => if c.checked k then [.setHosts k ((c.mem k).filter (fun x => x != a))] else []
  | .reconf k none => [.recreate k 0 0]
  | .reconf k (some (u, h)) => [.recreate k u h, .setHosts k (c.mem k)]
  | .result k a r => [.result k a r]
  | .outlier a on => [.outlier a on]

def compileAll (c : Cfg) : List SOp → List HealthLifecycle.Op
  | [] => []
  | op :: ops => compile c op ++ compileAll (c.step op) ops

/-- host objects `NewSimpleHost` is called for -/
def created : SOp → List Addr
  | .update _ hs => hs
  | .append _ a => [a]
  | _ => []

/-! ### regenerated effects -/
def toLc : Gen.HealthShare.FlagOp → Gen.HealthLifecycle.FlagOp
  | .set .activeHC => .set .activeHC
  | .set .outlier => .set .outlier
  | .clear .activeHC => .clear .activeHC
  | .clear .outlier => .clear .outlier

def whenHolds : Gen.HealthShare.When → Bool → Bool
  | .always, _ => true
  | .noChecker, ck => !ck
  | .hasChecker, ck => ck

def hostCondHolds : Gen.HealthShare.HostCond → Word → Bool
  | .any, _ => true
  | .unhealthy, w => !w.healthy
  | .has .activeHC, w => w.active
  | .has .outlier, w => w.outlier

def writeWord (w : World) (a : Addr) (op : Gen.HealthShare.FlagOp) : World :=
  { w with words := upd w.words a (HealthLifecycle.applyFlagOp (toLc op) (w.words a)) }

def applyWrite (ck : Bool) (hs : List Addr) (w : World) (x : Gen.HealthShare.HostSetWrite) : World :=
  if whenHolds x.when ck then hs.foldl (fun w a => if hostCondHolds x.host (w.words a) then writeWord w a x.op else w) w else w

/-- the flag operations of `simpleCluster.UpdateHosts` on the new host set -/
def updateHostsEffects (ck : Bool) (hs : List Addr) (w : World) : World :=
  Gen.HealthShare.updateHostsWrites.foldl (applyWrite ck hs) w

/-- the flag operations of `NewSimpleHost` on the word of each created host's address -/
def newHostEffects (l : List Addr) (w : World) : World :=
  Gen.HealthShare.newHostWrites.foldl (fun w op => l.foldl (fun w a => writeWord w a op) w) w

/-- do new session checkers of a health checker with these thresholds start with both counters zero -/
def initZero (t : Nat × Nat) : Bool :=
  Gen.HealthShare.newCheckerUn t.1 t.2 == 0 && Gen.HealthShare.newCheckerHc t.1 t.2 == 0

/-- session checkers of cluster `k` that did not exist `before` get the regenerated initial counters -/
def patchNew (k : Cid) (hs : List Addr) (before after : World) : World :=
  if initZero (after.thr k) then after else
  hs.foldl (fun w a =>
    match before.chk k a, w.chk k a with
    | none, some c =>
      { w with chk := upd2 w.chk k a (some { c with un := Gen.HealthShare.newCheckerUn (w.thr k).1 (w.thr k).2,
                                                     hc := Gen.HealthShare.newCheckerHc (w.thr k).1 (w.thr k).2 }) }
    | _, _ => w) after

def runLc (w : World) (l : List HealthLifecycle.Op) : World × Option Out :=
  l.foldl (fun p op => HealthLifecycle.step p.1 op) (w, none)

structure St where
  w : World
  c : Cfg

def step (s : St) (op : SOp) : St × Option Out :=
  match s.c.target op with
  | none => let r := runLc s.w (compile s.c op); (⟨r.1, s.c⟩, r.2)
  | some (k, hs) =>
    let w0 := newHostEffects (created op) s.w
    -- the state the NEW health checker starts from: for a reconfiguration, after the old one is gone
    let wb := match op with
      | .reconf k' _ => (HealthLifecycle.step w0 (.recreate k' 0 0)).1
      | _ => w0
    let r := runLc w0 (compile s.c op)
    let w1 := patchNew k hs wb r.1
    (⟨updateHostsEffects ((s.c.step op).checked k) hs w1, s.c.step op⟩, r.2)

def run (s : St) (ops : List SOp) : St := ops.foldl (fun s op => (step s op).1) s

/-- what is seen after each operation: every word, the callback, and every cluster's members with `Health()` -/
structure Seen where
  words : Addr → Word
  cb : Option Out
  views : List (List (Addr × Bool))

/-- insertion sort of addresses (the harness prints members sorted) -/
def insertSorted (a : Nat) : List Nat → List Nat
  | [] => [a]
  | b :: l => if a ≤ b then a :: b :: l else b :: insertSorted a l
def sortAddrs (l : List Nat) : List Nat := l.foldr insertSorted []

def viewsOf (m : Nat) (words : Addr → Word) (c : Cfg) : List (List (Addr × Bool)) :=
  (List.range m).map (fun k => (sortAddrs (c.mem k)).map (fun a => (a, (words a).healthy)))

def trace (m : Nat) (s : St) : List SOp → List Seen
  | [] => []
  | op :: ops => ⟨(step s op).1.w.words, (step s op).2, viewsOf m (step s op).1.w.words (step s op).1.c⟩ :: trace m (step s op).1 ops

def Cfg.init (checked : Cid → Bool) : Cfg := ⟨checked, fun _ => []⟩
def St.init (checked : Cid → Bool) (cfg : Cid → Nat × Nat) (words0 : Addr → Word) : St :=
  ⟨World.init cfg words0, Cfg.init checked⟩

/-! ### the property predicate (hand-written; independent of `Gen`)

The compiled cluster-level operations are judged by the life-cycle predicate `HealthLifecycle.holdsStep` (a life-cycle
operation changes no word and delivers no callback; a result changes at most FAILED_ACTIVE_HC of its address, reports
`changed` exactly on a transition, which needs a threshold-completing run of THAT session checker since its creation, and
is exact when no other cluster lists the address WHILE IT HAS A HEALTH CHECKER — `soleOwner` of the compiled list); an
operation that compiles to nothing — a host update of a cluster WITHOUT a health checker — must change no word and
deliver no callback; every cluster's host objects show `Health()` = "no condition set in the word of the address". -/
def unchanged (n : Nat) (before after : Addr → Word) : Bool := (List.range n).all (fun x => after x == before x)

def holdsSeq (n : Nat) (all : List HealthLifecycle.Op) (r : HealthLifecycle.Ref) (before after : Addr → Word) (cb : Option Out) :
    List HealthLifecycle.Op → Bool
  | [] => true
  | o :: os => HealthLifecycle.holdsStep n all r before after cb o && holdsSeq n all (r.step o) after after cb os

def refRun (r : HealthLifecycle.Ref) (ops : List HealthLifecycle.Op) : HealthLifecycle.Ref := ops.foldl HealthLifecycle.Ref.step r

def holdsStep (m n : Nat) (all : List HealthLifecycle.Op) (c : Cfg) (r : HealthLifecycle.Ref) (before : Addr → Word) (o : Seen) (op : SOp) : Bool :=
  (match compile c op with
   | [] => o.cb.isNone && unchanged n before o.words
   | l => holdsSeq n all r before o.words o.cb l) &&
  o.views == viewsOf m o.words (c.step op)

def holdsFrom (m n : Nat) (all : List HealthLifecycle.Op) (c : Cfg) (r : HealthLifecycle.Ref) (before : Addr → Word) :
    List SOp → List Seen → Bool
  | [], [] => true
  | op :: ops, o :: os =>
    holdsStep m n all c r before o op && holdsFrom m n all (c.step op) (refRun r (compile c op)) o.words ops os
  | _, _ => false

def holds (m n : Nat) (checked : Cid → Bool) (cfg : Cid → Nat × Nat) (words0 : Addr → Word) (ops : List SOp) (seen : List Seen) : Bool :=
  holdsFrom m n (compileAll (Cfg.init checked) ops) (Cfg.init checked) (HealthLifecycle.Ref.init cfg) words0 ops seen

end MosnVerif.Model.HealthShare
