import MosnVerif.Gen.C08Loop
/-!
# The decode loop of `streamConn.Dispatch` (pkg/stream/xprotocol/conn.go) — C08 "no unbounded loop"

`for { if buf.Len()==0 {return}; frame, err := Decode(ctx, buf); … }`: ONE turn looks at the read buffer, calls the
decoder at most once and then either returns or goes round again.  What a turn does after each kind of decoder answer
(`Policy`) is REGENERATED from the Go AST (`Gen/C08Loop`: return vs continue behind handleError, behind need-more, …).
The decoder is a parameter: any function from the buffered bytes to
`frame n` (n bytes drained) / `needMore` / `error k` (k bytes drained before it failed — most failures drain nothing:
bolt/boltv2 unknown command type, every dubbo / dubbothrift / tars decodeFrame error) / `badType`.

The loop is given as a small-step relation (`turn`, `Returns`: no fuel, a diverging loop simply has no `Returns`
derivation) and as an executable function with fuel (`run`) for the driver; `Lemmas/DispatchLoop` connects them.
Core Lean only.
-/
namespace MosnVerif.Model.DispatchLoop

/-- one answer of `XProtocol.Decode` as Dispatch sees it -/
inductive DStep where
  | frame (n : Nat)    -- a frame, n bytes drained
  | needMore           -- (nil, nil)
  | error (k : Nat)    -- err != nil, k bytes drained before the failure
  | badType (n : Nat)  -- something that is not an api.XFrame
  deriving DecidableEq, Repr

/-- does the loop go round again after a turn of each class -/
structure Policy where
  againEmpty : Bool
  againNeedMore : Bool
  againError : Bool
  againBadType : Bool
  againFrame : Bool
  deriving DecidableEq, Repr

/-- the loop as it is written in conn.go (regenerated) -/
def xPolicy : Policy :=
  { againEmpty := MosnVerif.Gen.C08Loop.againEmpty, againNeedMore := MosnVerif.Gen.C08Loop.againNeedMore,
    againError := MosnVerif.Gen.C08Loop.againError, againBadType := MosnVerif.Gen.C08Loop.againBadType,
    againFrame := MosnVerif.Gen.C08Loop.againFrame }

/-- a loop that returns after everything but a frame -/
def Policy.Safe (p : Policy) : Prop :=
  p.againEmpty = false ∧ p.againNeedMore = false ∧ p.againError = false ∧ p.againBadType = false

instance (p : Policy) : Decidable p.Safe := by unfold Policy.Safe; exact inferInstance

/-- the read buffer and the number of Decode calls made so far by this Dispatch -/
structure Cfg where
  buf : List UInt8
  calls : Nat
  deriving DecidableEq, Repr

/-- ONE turn of the loop: the configuration behind it and whether the loop goes round again -/
def turn (p : Policy) (dec : List UInt8 → DStep) (c : Cfg) : Cfg × Bool :=
  if c.buf.isEmpty then (c, p.againEmpty)
  else match dec c.buf with
    | .needMore => ({ c with calls := c.calls + 1 }, p.againNeedMore)
    | .error k => ({ buf := c.buf.drop k, calls := c.calls + 1 }, p.againError)
    | .badType n => ({ buf := c.buf.drop n, calls := c.calls + 1 }, p.againBadType)
    | .frame n => ({ buf := c.buf.drop n, calls := c.calls + 1 }, p.againFrame)

/-- `Returns p dec c c'`: Dispatch entered with configuration `c` returns, in configuration `c'` -/
inductive Returns (p : Policy) (dec : List UInt8 → DStep) : Cfg → Cfg → Prop where
  | done {c : Cfg} : (turn p dec c).2 = false → Returns p dec c (turn p dec c).1
  | more {c c' : Cfg} : (turn p dec c).2 = true → Returns p dec (turn p dec c).1 c' → Returns p dec c c'

/-- executable loop: `none` = the fuel ran out before Dispatch returned -/
def run (p : Policy) (dec : List UInt8 → DStep) : Nat → Cfg → Option Cfg
  | 0, _ => none
  | fuel + 1, c =>
    let t := turn p dec c
    if t.2 then run p dec fuel t.1 else some t.1

/-- a decoder as the property needs it: a success drains at least one byte -/
def Progress (dec : List UInt8 → DStep) : Prop := ∀ b n, dec b = .frame n → 0 < n

/-- a scripted decoder for the driver: answers the recorded steps one after the other, keyed by the length still
buffered (a trace in which the same length occurs twice is a trace that made no progress) -/
def scripted (script : List (Nat × DStep)) (b : List UInt8) : DStep :=
  match script.find? (fun e => e.1 == b.length) with
  | some e => e.2
  | none => .needMore

end MosnVerif.Model.DispatchLoop
