import MosnVerif.Gen.H2WriteLock
/-!
HPACK encode / write atomicity on one HTTP/2 connection (pkg/module/http2/mhttp2.go `MServerConn.writeHeaders`,
`MClientConn.WriteHeaders`, the trailers of `MClientStream.writeDataAndTrailer`).

The encoder's dynamic table is per connection and order dependent: a header block encoded after block A refers to the
table as A left it, so the peer must decode A first. The code guarantees this by encoding and handing the HEADERS /
CONTINUATION frames to the connection inside ONE critical section. `Gen.H2WriteLock` regenerates, per function, the
sequence of lock / unlock / deferred unlock / encode / frame-write actions in source order.

* `atomicEncWrite`: some mutex is held from before the first encode action until after the last write action.
* HPACK is modelled by its table discipline: a field that is in the dynamic table is sent as an index, any other field
  as a literal that both sides insert at the front (capacity `cap` entries, oldest evicted). Huffman / integer coding
  and byte-exact sizes are C18's subject.
* writers: one per header block; a writer whose function is atomic performs `both` (encode + write) as one step (the
  mutex excludes: trusted), otherwise `enc` and `wr` are separate steps that other writers can get between.
Core Lean only.
-/
namespace MosnVerif.Model.HpackOrder
open MosnVerif.Gen.H2WriteLock

/-! ### lock structure -/

/-- walk the actions: `held` = mutexes held now, `guard` = none before the first encode, afterwards the mutexes held
without interruption since then. `deferUnlock` releases at return, i.e. after every action. -/
def walk : List String → Option (List String) → List Act → Option (List String)
  | _, g, [] => g
  | held, g, .lock m :: r => walk (m :: held) g r
  | held, g, .unlock m :: r => walk (held.erase m) (g.map (·.erase m)) r
  | held, g, .deferUnlock _ :: r => walk held g r
  | held, none, .enc :: r => walk held (some held) r
  | held, some g, .enc :: r => walk held (some (g.filter held.contains)) r
  | _, none, .wr :: _ => some []
  | held, some g, .wr :: r => walk held (some (g.filter held.contains)) r

/-- the guard that survives until the last write: taken at the first encode, never released in between.
A trailing unlock after the last write must not count: only the prefix up to the last `wr` is walked. -/
def uptoLastWr (acts : List Act) : List Act :=
  (acts.reverse.dropWhile (· != .wr)).reverse

def atomicEncWrite (acts : List Act) : Bool :=
  acts.contains .enc && acts.contains .wr &&
  (match walk [] none (uptoLastWr acts) with
   | some (_ :: _) => true
   | _ => false)

/-! ### HPACK table discipline -/

abbrev Field := String × String
abbrev Table := List Field

inductive Rep
  | idx (i : Nat)
  | lit (f : Field)
  deriving DecidableEq, Repr

def find (f : Field) : Table → Option Nat
  | [] => none
  | g :: r => if g = f then some 0 else (find f r).map (· + 1)

def insertT (cap : Nat) (t : Table) (f : Field) : Table := (f :: t).take cap

def encField (cap : Nat) (t : Table) (f : Field) : Table × Rep :=
  match find f t with
  | some i => (t, .idx i)
  | none => (insertT cap t f, .lit f)

def encBlock (cap : Nat) : Table → List Field → Table × List Rep
  | t, [] => (t, [])
  | t, f :: fs =>
    let r := encField cap t f
    let rest := encBlock cap r.1 fs
    (rest.1, r.2 :: rest.2)

def decField (cap : Nat) (t : Table) : Rep → Option (Table × Field)
  | .idx i => (t[i]?).map (fun f => (t, f))
  | .lit f => some (insertT cap t f, f)

def decBlock (cap : Nat) : Table → List Rep → Option (Table × List Field)
  | t, [] => some (t, [])
  | t, r :: rs =>
    match decField cap t r with
    | none => none
    | some (t', f) =>
      match decBlock cap t' rs with
      | none => none
      | some (t'', fs) => some (t'', f :: fs)

/-- a header block on the wire: the stream it belongs to and its field representations -/
structure Blk where
  stream : Nat
  reps : List Rep
  deriving DecidableEq, Repr

/-- encode a sequence of (stream, header list) in order with one table -/
def encAll (cap : Nat) : Table → List (Nat × List Field) → Table × List Blk
  | t, [] => (t, [])
  | t, (s, fs) :: r =>
    let b := encBlock cap t fs
    let rest := encAll cap b.1 r
    (rest.1, ⟨s, b.2⟩ :: rest.2)

/-- the peer: decode the blocks in wire order with one table -/
def decAll (cap : Nat) : Table → List Blk → Option (Table × List (Nat × List Field))
  | t, [] => some (t, [])
  | t, b :: r =>
    match decBlock cap t b.reps with
    | none => none
    | some (t', fs) =>
      match decAll cap t' r with
      | none => none
      | some (t'', out) => some (t'', (b.stream, fs) :: out)

/-! ### concurrent writers -/

inductive U | both | enc | wr
  deriving DecidableEq, Repr

/-- the steps of one call of a function with the given lock structure -/
def units (acts : List Act) : List U := if atomicEncWrite acts then [.both] else [.enc, .wr]

structure Sys where
  cap : Nat
  reqs : List (Nat × List Field)     -- writer i sends header list reqs[i].2 on stream reqs[i].1
  progs : List (List U)              -- remaining steps of writer i
  encT : Table
  pending : List (Nat × Blk)         -- (writer, encoded block not yet written)
  wire : List Blk
  sent : List (Nat × List Field)     -- what was encoded, in encode order
  deriving Repr

def Sys.start (cap : Nat) (reqs : List (Nat × List Field)) (us : List U) : Sys :=
  { cap := cap, reqs := reqs, progs := reqs.map (fun _ => us), encT := [], pending := [], wire := [], sent := [] }

def Sys.step (s : Sys) (i : Nat) : Sys :=
  match s.progs[i]?, s.reqs[i]? with
  | some (u :: rest), some (st, fs) =>
    let s := { s with progs := s.progs.set i rest }
    match u with
    | .both =>
      let b := encBlock s.cap s.encT fs
      { s with encT := b.1, wire := s.wire ++ [⟨st, b.2⟩], sent := s.sent ++ [(st, fs)] }
    | .enc =>
      let b := encBlock s.cap s.encT fs
      { s with encT := b.1, pending := (i, ⟨st, b.2⟩) :: s.pending, sent := s.sent ++ [(st, fs)] }
    | .wr =>
      match s.pending.find? (·.1 == i) with
      | some (_, blk) => { s with wire := s.wire ++ [blk], pending := s.pending.filter (·.1 != i) }
      | none => s
  | _, _ => s

def Sys.run (s : Sys) (sched : List Nat) : Sys := sched.foldl Sys.step s

end MosnVerif.Model.HpackOrder
