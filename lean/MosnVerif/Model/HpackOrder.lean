import MosnVerif.Gen.H2WriteLock
/-!
HPACK encode / write atomicity on one HTTP/2 connection (pkg/module/http2/mhttp2.go `MServerConn.writeHeaders`,
`MClientConn.WriteHeaders`, the trailers of `MClientStream.writeDataAndTrailer`).

The encoder's dynamic table is per connection and order dependent: a header block encoded after block A refers to the
table as A left it, so the peer must decode A first. The code guarantees this by encoding and handing the HEADERS /
CONTINUATION frames to the connection inside ONE critical section. `Gen.H2WriteLock` regenerates, per function, the
sequence of lock / unlock / deferred unlock / encode / frame-write actions in source order.

* `heldAcross`: the mutexes held from before the first encode action until after the last write action;
  `atomicEncWrite`: there is one; `commonGuard`: the mutexes in the guard of EVERY function of a connection side.
* HPACK is modelled by its table discipline: a field that is in the dynamic table is sent as an index, any other field
  as a literal that both sides insert at the front (capacity `cap` entries, oldest evicted). Huffman / integer coding
  and byte-exact sizes are C18's subject.
* writers: one per header block, each a call of one of the functions: `enc` and `wr` are separate steps; a writer
  cannot take its `enc` step while another writer that holds a mutex of the same NAME is between its `enc` and its `wr`
  (sync.Mutex excludes per mutex: trusted); writers whose guards have no mutex in common interleave freely.
Core Lean only.
-/
namespace MosnVerif.Model.HpackOrder
open MosnVerif.Gen.H2WriteLock

/-! ### lock structure -/

/-- walk the actions: `held` = mutexes held now, `guard` = none before the first encode, afterwards the mutexes held
without interruption since then. `deferUnlock` releases at return, i.e. after every action. -/
def walk : List String → Option (List String) → List Act → Option (List String)
  | _, g, [] => g
  | held, g, .lock m :: r => walk (m :: held) g r
  | held, g, .unlock m :: r => walk (held.erase m) (g.map (·.erase m)) r
  | held, g, .deferUnlock _ :: r => walk held g r
  | held, none, .enc :: r => walk held (some held) r
  | held, some g, .enc :: r => walk held (some (g.filter held.contains)) r
  | _, none, .wr :: _ => some []
  | held, some g, .wr :: r => walk held (some (g.filter held.contains)) r

/-- the guard that survives until the last write: taken at the first encode, never released in between.
A trailing unlock after the last write must not count: only the prefix up to the last `wr` is walked. -/
def uptoLastWr (acts : List Act) : List Act :=
  (acts.reverse.dropWhile (· != .wr)).reverse

def atomicEncWrite (acts : List Act) : Bool :=
  acts.contains .enc && acts.contains .wr &&
  (match walk [] none (uptoLastWr acts) with
   | some (_ :: _) => true
   | _ => false)

/-! ### HPACK table discipline -/

abbrev Field := String × String
abbrev Table := List Field

inductive Rep
  | idx (i : Nat)
  | lit (f : Field)
  deriving DecidableEq, Repr

def find (f : Field) : Table → Option Nat
  | [] => none
  | g :: r => if g = f then some 0 else (find f r).map (· + 1)

def insertT (cap : Nat) (t : Table) (f : Field) : Table := (f :: t).take cap

def encField (cap : Nat) (t : Table) (f : Field) : Table × Rep :=
  match find f t with
  | some i => (t, .idx i)
  | none => (insertT cap t f, .lit f)

def encBlock (cap : Nat) : Table → List Field → Table × List Rep
  | t, [] => (t, [])
  | t, f :: fs =>
    let r := encField cap t f
    let rest := encBlock cap r.1 fs
    (rest.1, r.2 :: rest.2)

def decField (cap : Nat) (t : Table) : Rep → Option (Table × Field)
  | .idx i => (t[i]?).map (fun f => (t, f))
  | .lit f => some (insertT cap t f, f)

def decBlock (cap : Nat) : Table → List Rep → Option (Table × List Field)
  | t, [] => some (t, [])
  | t, r :: rs =>
    match decField cap t r with
    | none => none
    | some (t', f) =>
      match decBlock cap t' rs with
      | none => none
      | some (t'', fs) => some (t'', f :: fs)

/-- a header block on the wire: the stream it belongs to and its field representations -/
structure Blk where
  stream : Nat
  reps : List Rep
  deriving DecidableEq, Repr

/-- encode a sequence of (stream, header list) in order with one table -/
def encAll (cap : Nat) : Table → List (Nat × List Field) → Table × List Blk
  | t, [] => (t, [])
  | t, (s, fs) :: r =>
    let b := encBlock cap t fs
    let rest := encAll cap b.1 r
    (rest.1, ⟨s, b.2⟩ :: rest.2)

/-- the peer: decode the blocks in wire order with one table -/
def decAll (cap : Nat) : Table → List Blk → Option (Table × List (Nat × List Field))
  | t, [] => some (t, [])
  | t, b :: r =>
    match decBlock cap t b.reps with
    | none => none
    | some (t', fs) =>
      match decAll cap t' r with
      | none => none
      | some (t'', out) => some (t'', (b.stream, fs) :: out)

/-! ### concurrent writers

Locks are NAMED and exclude per name: a call holds its guard `heldAcross` (the mutexes held without interruption from its first
encode to its last frame write) from its encode step to its write step. Another call can take its own encode step in
between unless the two guards have a mutex in common. Two functions holding DIFFERENT mutexes interleave freely. -/

/-- the mutexes a call holds from its first encode until after its last frame write (`[]`: none, or no encode / write) -/
def heldAcross (acts : List Act) : List String :=
  if acts.contains .enc && acts.contains .wr then
    match walk [] none (uptoLastWr acts) with
    | some g => g
    | none => []
  else []

/-- the mutexes EVERY function of one connection side holds from its first encode to its last write -/
def commonGuard : List Fn → List String
  | [] => []
  | f :: r => r.foldl (fun g f' => g.filter (heldAcross f'.acts).contains) (heldAcross f.acts)

def shares (a b : List String) : Bool := a.any b.contains

inductive U | enc | wr
  deriving DecidableEq, Repr

structure Sys where
  cap : Nat
  reqs : List (Nat × List Field)     -- writer i sends header list reqs[i].2 on stream reqs[i].1
  guards : List (List String)        -- writer i holds the mutexes guards[i] from its encode to its write
  progs : List (List U)              -- remaining steps of writer i
  encT : Table
  pending : List (Nat × Blk)         -- (writer, encoded block not yet written)
  wire : List Blk
  sent : List (Nat × List Field)     -- what was encoded, in encode order
  deriving Repr

def Sys.start (cap : Nat) (reqs : List (Nat × List Field)) (guards : List (List String)) : Sys :=
  { cap := cap, reqs := reqs, guards := guards, progs := reqs.map (fun _ => [.enc, .wr]), encT := [], pending := [],
    wire := [], sent := [] }

/-- writer i cannot enter: a writer between its encode and its write holds a mutex writer i needs -/
def Sys.blocked (s : Sys) (g : List String) : Bool :=
  s.pending.any (fun p => shares ((s.guards[p.1]?).getD []) g)

def Sys.step (s : Sys) (i : Nat) : Sys :=
  match s.progs[i]?, s.reqs[i]?, s.guards[i]? with
  | some (u :: rest), some (st, fs), some g =>
    match u with
    | .enc =>
      if s.blocked g then s else
      let b := encBlock s.cap s.encT fs
      { s with progs := s.progs.set i rest, encT := b.1, pending := (i, ⟨st, b.2⟩) :: s.pending, sent := s.sent ++ [(st, fs)] }
    | .wr =>
      match s.pending.find? (·.1 == i) with
      | some (_, blk) => { s with progs := s.progs.set i rest, wire := s.wire ++ [blk], pending := s.pending.filter (·.1 != i) }
      | none => { s with progs := s.progs.set i rest }
  | _, _, _ => s

def Sys.run (s : Sys) (sched : List Nat) : Sys := sched.foldl Sys.step s

/-- the blocks encoded but not yet written, oldest first -/
def Sys.inFlight (s : Sys) : List Blk := s.pending.reverse.map (·.2)

end MosnVerif.Model.HpackOrder
