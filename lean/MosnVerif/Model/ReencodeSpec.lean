import MosnVerif.Model.Bytes
/-!
Executable property predicate of the `reenc` cases of C01: the same decoded, unmodified frame is encoded several times
(first try and retries, each with the request id of its try), written through the connection, with other buffer-pool
traffic in between.  Declarative: about the bytes that reached the peer only.
-/
namespace MosnVerif.Model.Reencode
open MosnVerif.Model

/-- tries with the same request id put the same bytes on the wire (in particular: a retry repeats the first encoding) -/
def specStable (ids : List Nat) (encs : List Bytes) : Bool :=
  encs.length == ids.length &&
  (ids.zip encs).all (fun p => (ids.zip encs).all (fun q => p.1 != q.1 || p.2 == q.2))

def diffCount : Bytes → Bytes → Nat
  | a :: as, b :: bs => (if a = b then 0 else 1) + diffCount as bs
  | _, _ => 0

/-- codecs with a raw-frame fast path (bolt, boltv2, dubbo, dubbothrift): every encoding is the received frame except
for the request-id field (at most 8 bytes); every codec: something was written -/
def specWindow (fast : Bool) (raw : Bytes) (encs : List Bytes) : Bool :=
  encs.all (fun e => !e.isEmpty && (!fast || (e.length == raw.length && decide (diffCount e raw ≤ 8))))

def specReenc (fast : Bool) (raw : Bytes) (ids : List Nat) (encs : List Bytes) : Bool :=
  specStable ids encs && specWindow fast raw encs

end MosnVerif.Model.Reencode
