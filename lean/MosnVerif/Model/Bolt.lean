import MosnVerif.Model.Bytes
import MosnVerif.Model.BoltHeader
import MosnVerif.Gen.C01Bolt
/-!
Model of the bolt (v1) request / response / one-way frames: `pkg/protocol/xprotocol/bolt/{decoder,encoder,command}.go`.

The part shared by the four frame kinds of the bolt family (bolt request, bolt response, boltv2 request, boltv2
response) is written once over a `Kind` record: header length, the offsets the decoder reads, the request-id index
the encoder patches and the field-by-field header writer — all of them taken from the regenerated `Gen.C01Bolt`
/ `Gen.C01BoltV2` modules.  `Model/BoltV2.lean` adds the v2 kinds and the protocol-level dispatch between the two
codecs.

What is modelled as it is:
* decode never looks at byte 0 beyond the bolt/boltv2 dispatch and stores `Protocol = ProtocolCode`; the command type
  is derived from the dispatch (`oneway`), not copied;
* `Class`, the header block and `Content` are only materialised when their length field is > 0;
* a header block that does not parse makes the whole decode fail (`return request, err`); 1–3 dangling bytes index
  out of range (`panic`);
* encode: when `rawData` is present the request id is patched into it *first*; the patched raw frame is returned
  unless `BytesHeader.Changed` or `ContentChanged`; otherwise (or for locally built frames) the slow path recomputes the
  three length fields from the live `Class` / `Kvs` / `Content` and refuses (`ErrLengthOverflow`) when `lengthsFit` fails.
-/
namespace MosnVerif.Model.Bolt
open MosnVerif.Model MosnVerif.Model.Bytes

/-- the fixed fields of `bolt.RequestHeader` / `bolt.ResponseHeader` (+ the two boltv2 extras); a field a kind does
not have stays 0.  `timeout` is the uint32 bit pattern of the int32 field. -/
structure Meta where
  proto : Nat := 0
  cmdType : Nat := 0
  cmdCode : Nat := 0
  version : Nat := 0
  reqId : Nat := 0
  codec : Nat := 0
  timeout : Nat := 0
  status : Nat := 0
  ver1 : Nat := 0
  switchCode : Nat := 0
  deriving DecidableEq, Repr

/-- which Go type the frame has -/
inductive KindId where
  | v1req | v1resp | v2req | v2resp
  deriving DecidableEq, Repr

structure Frame where
  kind : KindId
  fx : Meta
  classLen : Nat            -- the three length fields of the header struct as decode left them
  headerLen : Nat
  contentLen : Nat
  cls : Bytes               -- `Class` ("" ≙ [])
  kvs : List BoltHeader.KV  -- `BytesHeader.Kvs`
  content : Bytes           -- `Content` (nil ≙ [])
  raw : Option Bytes        -- `rawData` / `Data` (none for frames built locally)
  hdrChanged : Bool         -- `BytesHeader.Changed`
  contentChanged : Bool     -- `ContentChanged`
  deriving Repr

/-- layout and field codecs of one frame kind, filled from the regenerated module -/
structure Kind where
  id : KindId
  hdrLen : Nat
  cls : Nat × Nat
  hdr : Nat × Nat
  cnt : Nat × Nat
  frameLen : Nat → Nat → Nat → Nat
  headerIndex : Nat → Nat
  contentIndex : Nat → Nat → Nat
  idIdx : Nat
  idWidth : Nat
  decodeMeta : Bytes → Bool → Meta          -- fixed fields as `decodeRequest/decodeResponse` fill them (`oneway` flag)
  encodeMeta : Meta → Nat → Nat → Nat → Bytes -- slow-path header writer (class/header/content lengths)

/-- `decodeRequest` / `decodeResponse` -/
def decodeKind (K : Kind) (oneway : Bool) (b : Bytes) : Step Frame :=
  if b.length < K.hdrLen then .needMore
  else
    let classLen := getBE b K.cls.1 K.cls.2
    let headerLen := getBE b K.hdr.1 K.hdr.2
    let contentLen := getBE b K.cnt.1 K.cnt.2
    let frameLen := K.frameLen classLen headerLen contentLen
    if b.length < frameLen then .needMore
    else
      let raw := b.take frameLen
      let headerIndex := K.headerIndex classLen
      let contentIndex := K.contentIndex headerIndex headerLen
      let f0 : Frame :=
        { kind := K.id, fx := K.decodeMeta b oneway, classLen, headerLen, contentLen,
          cls := if classLen > 0 then slice raw K.hdrLen headerIndex else [],
          kvs := [],
          content := if contentLen > 0 then raw.drop contentIndex else [],
          raw := some raw, hdrChanged := false, contentChanged := false }
      if headerLen > 0 then
        match BoltHeader.decode (slice raw headerIndex contentIndex) with
        | .ok kvs => .frame { f0 with kvs := kvs } frameLen
        | .err => .error
        | .oob => .panic
      else .frame f0 frameLen

/-- the slow path of `encodeRequest` / `encodeResponse` (`none` = `ErrLengthOverflow`) -/
def encodeSlow (K : Kind) (f : Frame) : Option Bytes :=
  let classLen := f.cls.length
  let headerLen := if f.kvs.isEmpty then 0 else BoltHeader.encodeLen f.kvs
  let contentLen := f.content.length
  if Gen.C01Bolt.lengthsFit classLen (BoltHeader.encodeLen f.kvs) contentLen then
    some (K.encodeMeta f.fx classLen headerLen contentLen
      ++ (if classLen > 0 then f.cls else [])
      ++ (if headerLen > 0 then BoltHeader.encode f.kvs else [])
      ++ (if contentLen > 0 then f.content else []))
  else none

/-- the fast path: the received frame with the request id patched in place -/
def encodeFast (K : Kind) (raw : Bytes) (id : Nat) : Bytes := patch raw K.idIdx (be K.idWidth id)

/-- `encodeRequest` / `encodeResponse` -/
def encodeKind (K : Kind) (f : Frame) : Option Bytes :=
  match f.raw with
  | some raw => if !f.hdrChanged && !f.contentChanged then some (encodeFast K raw f.fx.reqId) else encodeSlow K f
  | none => encodeSlow K f

/-! ### frame operations of the stream layer and of filters -/

/-- `SetRequestId(id)`: `uint32(id)` -/
def setId (f : Frame) (id : Nat) : Frame := { f with fx := { f.fx with reqId := id % 2 ^ 32 } }

/-- `GetHeader().Set(k, v)` -/
def setHeader (f : Frame) (k v : Bytes) : Frame := { f with kvs := BoltHeader.set f.kvs k v, hdrChanged := true }

/-- `GetHeader().Del(k)` -/
def delHeader (f : Frame) (k : Bytes) : Frame :=
  let (kvs, found) := BoltHeader.del f.kvs k
  { f with kvs := kvs, hdrChanged := f.hdrChanged || found }

/-- `SetData(buf)` with a buffer other than the frame's own `Content` -/
def setData (f : Frame) (d : Bytes) : Frame := { f with content := d, contentChanged := true }

/-- a modification made between decode and encode (by the proxy or a stream filter) -/
inductive Op where
  | set (k v : Bytes)     -- header Set
  | del (k : Bytes)       -- header Del
  | body (d : Bytes)      -- SetData with a new buffer
  | cls (c : Bytes)       -- the exported `Class` field assigned directly (does not mark the frame dirty)
  deriving Repr

def applyOp (f : Frame) : Op → Frame
  | .set k v => setHeader f k v
  | .del k => delHeader f k
  | .body d => setData f d
  | .cls c => { f with cls := c }

def modify (ops : List Op) (f : Frame) : Frame := ops.foldl applyOp f

/-! ### the two bolt v1 kinds -/
namespace V1
open Gen.C01Bolt

def decodeReqMeta (b : Bytes) (oneway : Bool) : Meta :=
  { proto := ProtocolCode,
    cmdType := if oneway then CmdTypeRequestOneway else CmdTypeRequest,
    cmdCode := getBE b req_CmdCode.1 req_CmdCode.2,
    version := getBE b req_Version.1 req_Version.2,
    reqId := getBE b req_RequestId.1 req_RequestId.2,
    codec := getBE b req_Codec.1 req_Codec.2,
    timeout := getBE b req_Timeout.1 req_Timeout.2 }

def decodeRespMeta (b : Bytes) (_oneway : Bool) : Meta :=
  { proto := ProtocolCode,
    cmdType := CmdTypeResponse,
    cmdCode := getBE b resp_CmdCode.1 resp_CmdCode.2,
    version := getBE b resp_Version.1 resp_Version.2,
    reqId := getBE b resp_RequestId.1 resp_RequestId.2,
    codec := getBE b resp_Codec.1 resp_Codec.2,
    status := getBE b resp_ResponseStatus.1 resp_ResponseStatus.2 }

def req : Kind :=
  { id := .v1req, hdrLen := RequestHeaderLen, cls := req_classLen, hdr := req_headerLen, cnt := req_contentLen,
    frameLen := req_frameLen, headerIndex := req_headerIndex, contentIndex := req_contentIndex,
    idIdx := req_patchIndex, idWidth := req_patchWidth,
    decodeMeta := decodeReqMeta,
    encodeMeta := fun m cl hl ctl =>
      req_encodeMeta (Protocol := m.proto) (CmdType := m.cmdType) (CmdCode := m.cmdCode) (Version := m.version)
        (RequestId := m.reqId) (Codec := m.codec) (Timeout := m.timeout) (ClassLen := cl) (HeaderLen := hl) (ContentLen := ctl) }

def resp : Kind :=
  { id := .v1resp, hdrLen := ResponseHeaderLen, cls := resp_classLen, hdr := resp_headerLen, cnt := resp_contentLen,
    frameLen := resp_frameLen, headerIndex := resp_headerIndex, contentIndex := resp_contentIndex,
    idIdx := resp_patchIndex, idWidth := resp_patchWidth,
    decodeMeta := decodeRespMeta,
    encodeMeta := fun m cl hl ctl =>
      resp_encodeMeta (Protocol := m.proto) (CmdType := m.cmdType) (CmdCode := m.cmdCode) (Version := m.version)
        (RequestId := m.reqId) (Codec := m.codec) (ResponseStatus := m.status) (ClassLen := cl) (HeaderLen := hl) (ContentLen := ctl) }

/-- `boltProtocol.Decode` after the boltv2 dispatch: needs `LessLen` bytes, switches on the command type byte -/
def decodeCore (b : Bytes) : Step Frame :=
  if b.length ≥ LessLen then
    let t := byteAt b 1
    if t = CmdTypeRequest then decodeKind req false b
    else if t = CmdTypeRequestOneway then decodeKind req true b
    else if t = CmdTypeResponse then decodeKind resp false b
    else .error
  else .needMore

end V1
end MosnVerif.Model.Bolt
