import MosnVerif.Gen.TlsHandover
/-!
Model of the hand-over of a TLS connection's record-layer state during hot upgrade
(`pkg/mtls/crypto/tls/tls_custom.go`: `TransferSetTLSInfo`, `Conn.GetTLSInfo` in the old process, `TransferTLSConn` /
`transferChangeCipherSpec` in the new one; `pkg/mtls/conn.go` carries the `TransferTLSInfo` as gob between them).

The record-layer state of an established connection is: the key material (cipher suite, master secret, randoms — an
opaque value here), both sequence numbers, the bytes read from the socket and not yet decrypted (`rawInput`: a partial
record, or whole unread records) and the decrypted bytes not yet delivered to the reader (`input`), plus the flag
`haveVers` without which the record layer takes the next record for the first record of a handshake.

`GetTLSInfo` copies each non-empty buffer through a temporary `bytes.NewBuffer(make([]byte, L[, C]))`: the `L` bytes
such a buffer ALREADY contains stay in front of what is copied into it.  `L`, the guards, the field each part goes to
and comes from, where the keys are recorded and whether `haveVers` is set are *regenerated* from the Go source
(`Gen.TlsHandover`).  gob does not distinguish a nil from an empty slice; a field left nil restores to the empty buffer.
-/
namespace MosnVerif.Model.TlsHandover



/-- record-layer state of an established server connection (`κ`: the key material, opaque) -/
structure RecState (κ : Type) where
  keys : κ
  inSeq : Nat
  outSeq : Nat
  rawInput : (List UInt8)
  input : (List UInt8)
  haveVers : Bool
deriving DecidableEq, Repr

/-- `TransferTLSInfo` (the key fields as one optional value: `none` = recorded before the handshake produced them) -/
structure Info (κ : Type) where
  keys : Option κ
  inSeq : Nat
  outSeq : Nat
  rawInput : Option (List UInt8)
  input : Option (List UInt8)
deriving DecidableEq, Repr

/-- the parameters of the two halves that the Go source decides -/
structure Code where
  rawCopied : Int → Bool
  rawPreLen : Int → Int
  inputCopied : Int → Bool
  inputPreLen : Int → Int
  seqsStraight : Bool      -- InSeq <- in.seq, OutSeq <- out.seq, and back the same way
  buffersStraight : Bool   -- rawInput <- RawInput, input <- Input
  keysAfterHandshake : Bool
  setsHaveVers : Bool

/-- the code as it is (regenerated) -/
def code : Code where
  rawCopied := Gen.TlsHandover.rawCopied
  rawPreLen := Gen.TlsHandover.rawPreLen
  inputCopied := Gen.TlsHandover.inputCopied
  inputPreLen := Gen.TlsHandover.inputPreLen
  seqsStraight := Gen.TlsHandover.inSeqFromIn && Gen.TlsHandover.outSeqFromOut &&
    Gen.TlsHandover.restoreInSeqFromInSeq && Gen.TlsHandover.restoreOutSeqFromOutSeq
  buffersStraight := Gen.TlsHandover.restoreRawFromRawInput && Gen.TlsHandover.restoreInputFromInput
  keysAfterHandshake := Gen.TlsHandover.keysRecordedAfterHandshake && !Gen.TlsHandover.keysRecordedBeforeHandshake &&
    Gen.TlsHandover.restoreVersFromVers && Gen.TlsHandover.restoreFailsWithoutSuite
  setsHaveVers := Gen.TlsHandover.restoreSetsHaveVers && Gen.TlsHandover.restoreMarksHandshakeDone

/-- `tmpBuf := bytes.NewBuffer(make([]byte, L, …)); io.Copy(tmpBuf, &buf); tmpBuf.Next(tmpBuf.Len())`:
the `L` zero bytes the temporary already holds, then the buffered bytes; `none` when the guard skips the block. -/
def copyOut (copied : Int → Bool) (preLen : Int → Int) (b : (List UInt8)) : Option (List UInt8) :=
  if copied b.length then some (List.replicate (preLen b.length).toNat 0 ++ b) else none

/-- old process: `GetTLSInfo` (the keys were put into `c.info` by `TransferSetTLSInfo`) -/
def serialiseWith {κ : Type} (cd : Code) (st : RecState κ) : Info κ where
  keys := if cd.keysAfterHandshake then some st.keys else none
  inSeq := if cd.seqsStraight then st.inSeq else st.outSeq
  outSeq := if cd.seqsStraight then st.outSeq else st.inSeq
  rawInput := copyOut cd.rawCopied cd.rawPreLen st.rawInput
  input := copyOut cd.inputCopied cd.inputPreLen st.input

/-- new process: `TransferTLSConn`; `none` = refused (no cipher suite / keys): the connection is not adopted -/
def restoreWith {κ : Type} (cd : Code) (info : Info κ) : Option (RecState κ) :=
  match info.keys with
  | none => none
  | some k => some {
      keys := k
      inSeq := info.inSeq
      outSeq := info.outSeq
      rawInput := ((if cd.buffersStraight then info.rawInput else info.input).getD [])
      input := ((if cd.buffersStraight then info.input else info.rawInput).getD [])
      haveVers := cd.setsHaveVers }

def serialise {κ : Type} (st : RecState κ) : Info κ := serialiseWith code st
def restore {κ : Type} (info : Info κ) : Option (RecState κ) := restoreWith code info

/-- the whole hand-over of the record-layer state -/
def tlsHandoverWith {κ : Type} (cd : Code) (st : RecState κ) : Option (RecState κ) := restoreWith cd (serialiseWith cd st)
def tlsHandover {κ : Type} (st : RecState κ) : Option (RecState κ) := tlsHandoverWith code st

/-- what the reader of a connection gets from now on, for an arbitrary record-layer decryption `dec`
(keys, read sequence number, undecrypted bytes ↦ plaintext, `none` = bad record): the undelivered plaintext first, then
the decryption of the buffered bytes followed by what still arrives on the socket.  Without `haveVers` the first
record is rejected. -/
def futurePlain {κ : Type} (dec : κ → Nat → (List UInt8) → Option (List UInt8)) (st : RecState κ) (wire : (List UInt8)) : Option (List UInt8) :=
  if st.haveVers then (dec st.keys st.inSeq (st.rawInput ++ wire)).map (st.input ++ ·) else none

/-- the code before the repairs, for the negation witnesses -/
def zeroPrefixCode : Code := { code with rawPreLen := fun n => n, inputPreLen := fun n => n }
def earlyKeysCode : Code := { code with keysAfterHandshake := false }
def noHaveVersCode : Code := { code with setsHaveVers := false }

end MosnVerif.Model.TlsHandover
