import MosnVerif.Gen.ClusterPub
import MosnVerif.Gen.PubVal
/-!
WHAT is published during an update of the cluster manager (`pkg/upstream/cluster/cluster_manager.go`).

`Model/ClusterPub.lean` orders the steps of an update; here a host set VALUE carries what it holds: `old` (the complete set the
cluster had), `new` (the complete set this update computes), `empty` (`NewHostSet(nil)` / a list nobody filled / the set of a
cluster `NewCluster` just made), `filling` (a list that is still being filled), `junk` (anything the extractor cannot name).

* `Gen/PubVal.lean` is regenerated: for every handler, which variable each `UpdateHosts` call publishes and from what list that
  variable was built (`HStep`); the outer statements (`newCluster`, `loadOld`, `storeNew` …) are `Gen/ClusterPub`'s.
* A reader (`GetClusterSnapshot`: `clustersMap.Load`, `Snapshot()`) that runs between two atomic steps sees `visible`: the
  value in the cell of the cluster `clustersMap` points to. `trace` lists that value after EVERY step of the update; the
  steps `isEvent` marks are the ones after which the verif publish hook calls the harness (snapshot store, map store).
-/
namespace MosnVerif.Model.PubVal
open MosnVerif.Gen.ClusterPub MosnVerif.Gen.PubVal

inductive Val where
  | old | new | empty | filling | junk
deriving DecidableEq, Repr, Inhabited

inductive VStep where
  | h (s : HStep)
  | ctl (c : CStep)
deriving DecidableEq, Repr, Inhabited

/-- the handler call of an updater replaced by the handler's own (value carrying) steps. -/
def expandV (hd : List HStep) (outer : List CStep) : List VStep :=
  outer.flatMap (fun s => if s = .clusterHandler ∨ s = .hostHandler then hd.map .h else [.ctl s])

structure S where
  /-- snapshot cell of every cluster object -/
  cl : Nat → Val := fun _ => .old
  /-- `clustersMap[name]` -/
  map : Nat := 0
  next : Nat := 1
  nc : Option Nat := none
  oc : Option Nat := none
  /-- local host-set variables of the handler -/
  vars : Nat → Val := fun _ => .junk

def srcVal : Src → Val
  | .full => .new
  | .empty => .empty
  | .filling => .filling
  | .unknown => .junk

def argVal (s : S) : Arg → Val
  | .var x => s.vars x
  | .fresh r => srcVal r
  | .unknown => .junk

def setCl (f : Nat → Val) (a : Nat) (x : Val) : Nat → Val := fun k => if k = a then x else f k

/-- the cluster a handler publishes into: the new cluster when there is one, else the loaded one -/
def target (s : S) : Option Nat := match s.nc with | some a => some a | none => s.oc

def stepV (s : S) : VStep → S
  | .h (.build x r) => { s with vars := fun y => if y = x then srcVal r else s.vars y }
  | .h (.publish a) =>
    match target s with
    | some t => { s with cl := setCl s.cl t (argVal s a) }
    | none => s
  | .h .inherit =>
    match s.nc, s.oc with
    | some n, some o => { s with cl := setCl s.cl n (s.cl o) }
    | _, _ => s
  | .ctl .newCluster => { s with cl := setCl s.cl s.next .empty, nc := some s.next, next := s.next + 1 }
  | .ctl .loadOld => { s with oc := some s.map }
  | .ctl .loadCur => { s with oc := some s.map }
  | .ctl .storeNew =>
    match s.nc with
    | some n => { s with map := n }
    | none => s
  | .ctl _ => s

/-- what a lookup started now sees. -/
def visible (s : S) : Val := s.cl s.map

/-- the value a reader sees after each atomic step of the update. -/
def trace (s : S) : List VStep → List (VStep × Val)
  | [] => []
  | a :: r => (a, visible (stepV s a)) :: trace (stepV s a) r

/-- steps behind which the publish hook fires (a snapshot record / a cluster object was stored). -/
def isEvent : VStep → Bool
  | .h (.publish _) => true
  | .h .inherit => true
  | .ctl .storeNew => true
  | _ => false

def events (prog : List VStep) : List (VStep × Val) := (trace {} prog).filter (fun p => isEvent p.1)

/-- static facts of the value check -/
structure K where
  hasNc : Bool := false
  ncFilled : Bool := false
  hasOc : Bool := false
  /-- variables holding a set built from the complete list -/
  good : List Nat := []
deriving DecidableEq, Repr

def argOk (good : List Nat) : Arg → Bool
  | .var x => good.contains x
  | .fresh r => r == .full
  | .unknown => false

def bind (good : List Nat) (x : Nat) (r : Src) : List Nat :=
  if r = .full then x :: good else good.filter (fun y => y != x)

/-- **value discipline**: every publish hands over a set built from the COMPLETE list (or the old cluster's set), and the new
cluster object reaches `clustersMap` only after it was given such a set. -/
def okV (k : K) : List VStep → Bool
  | [] => true
  | .h (.build x r) :: rest => okV { k with good := bind k.good x r } rest
  | .h (.publish a) :: rest =>
    argOk k.good a && (if k.hasNc then okV { k with ncFilled := true } rest else k.hasOc && okV k rest)
  | .h .inherit :: rest => k.hasNc && k.hasOc && okV { k with ncFilled := true } rest
  | .ctl .newCluster :: rest => !k.hasNc && okV { k with hasNc := true, ncFilled := false } rest
  | .ctl .loadOld :: rest => okV { k with hasOc := true } rest
  | .ctl .loadCur :: rest => okV { k with hasOc := true } rest
  | .ctl .storeNew :: rest => k.hasNc && k.ncFilled && okV k rest
  | .ctl .other :: rest => okV k rest
  | .ctl _ :: _ => false

def valuesOk (prog : List VStep) : Bool := okV {} prog

/-- the order program (`Model/ClusterPub`) a value program stands for: a publish of a complete set is `build, publish`, a publish
of anything else is `publishUnbuilt` (the cell then holds "neither"). -/
def abstract (good : List Nat) : List VStep → List CStep
  | [] => []
  | .h (.build x r) :: rest => .other :: abstract (bind good x r) rest
  | .h (.publish a) :: rest => (if argOk good a then [.build, .publish] else [.publishUnbuilt]) ++ abstract good rest
  | .h .inherit :: rest => .inherit :: abstract good rest
  | .ctl c :: rest => c :: abstract good rest

/-- every updater of the manager with its handler, value carrying (all regenerated). -/
def updatersV : List (List VStep) :=
  [expandV primaryHandlerV updateCluster, expandV clusterAndHostHandlerV updateCluster,
   expandV newSimpleHostHandlerV updateHostsMgr, expandV appendSimpleHostHandlerV updateHostsMgr,
   expandV removeHostsHandlerV updateHostsMgr]

/-- "publish an empty set, then the real one" inside a host handler (only for the machine-checked negative witness). -/
def emptyFirst : List VStep :=
  [.ctl .loadCur, .h (.build 1 .full), .h (.publish (.fresh .empty)), .h (.publish (.var 1)), .ctl .other]

/-- "publish the set while its list is still being filled". -/
def publishWhileFilling : List VStep := [.ctl .loadCur, .h (.build 1 .filling), .h (.publish (.var 1))]

end MosnVerif.Model.PubVal
