import MosnVerif.Model.Downstream
/-!
Executable specification side of the downstream machine (core only): the sender-protocol automaton over traces, the
outcome classification, the ledger expectations, and the inductive invariant `inv` (a `Bool`, so that it can be
evaluated by the driver's model checker as well as used in the proofs of `Lemmas/Downstream.lean`).
-/
namespace MosnVerif.Model.Downstream
open MosnVerif.Gen.ProxyPhase MosnVerif.Gen.ProxyReason

/-! ### sender protocol (C03 `sender_once`) — declarative, independent of the machine -/

/-- state of the client-visible protocol: headers sent, end of stream sent, stream reset, protocol violated -/
structure Snd where
  hdr : Bool
  ended : Bool
  reset : Bool
  bad : Bool
  deriving DecidableEq, Repr, Inhabited

def Snd.init : Snd := ⟨false, false, false, false⟩

/-- one downstream-sender call: headers at most once and first, data/trailers only after headers, nothing after the
end of stream, no reset after the end of stream and at most one reset, nothing after a reset; and the request is never
(re)sent upstream — no `ConnectionPool.NewStream`, admitted or refused — once response headers went to the client -/
def sndStep (g : Snd) : Ev → Snd
  | .dh _ e => { hdr := true, ended := g.ended || e, reset := g.reset, bad := g.bad || g.hdr || g.ended || g.reset }
  | .dd e => { g with ended := g.ended || e, bad := g.bad || !g.hdr || g.ended || g.reset }
  | .dt => { g with ended := true, bad := g.bad || !g.hdr || g.ended || g.reset }
  | .dr => { g with reset := true, bad := g.bad || g.ended || g.reset }
  | .un _ => { g with bad := g.bad || g.hdr }
  | .uf _ _ => { g with bad := g.bad || g.hdr }
  | _ => g

def snd (t : List Ev) : Snd := t.foldl sndStep Snd.init

def isLog : Ev → Bool
  | .log _ _ => true
  | _ => false

def nLog (t : List Ev) : Nat := (t.filter isLog).length

def isHeaders : Ev → Bool
  | .dh _ _ => true
  | _ => false

/-- the event carries the end of the downstream stream -/
def isEos : Ev → Bool
  | .dh _ e => e
  | .dd e => e
  | .dt => true
  | _ => false

def isReset : Ev → Bool
  | .dr => true
  | _ => false

/-- the client saw a well-formed exchange so far -/
def senderOk (t : List Ev) : Bool := !(snd t).bad

/-- outcome of a finished exchange, read off the trace and the client-side events only -/
inductive Outcome where
  | responded        -- exactly one complete response (the upstream's or a MOSN-generated one)
  | resetAfterStart  -- a response had started and the stream was reset
  | clientGone       -- the client disconnected / its stream was reset: no reply
  | onewayDone       -- one-way request: nothing to reply
  | silent           -- none of the above: the forbidden case
  deriving DecidableEq, Repr, Inhabited

def outcome (c : Cfg) (s : S) : Outcome :=
  let g := snd s.trace
  if g.ended then .responded
  else if g.reset then .resetAfterStart
  else if c.oneway then .onewayDone
  else if s.downReset then .clientGone
  else .silent

/-! ### helpers for the invariant -/

def upPhase (p : Phase) : Bool :=
  p == .UpFilter || p == .UpRecvHeader || p == .UpRecvData || p == .UpRecvTrailer

/-- phases before a route/host exists -/
def prePhase (p : Phase) : Bool :=
  p == .InitPhase || p == .DownFilter || p == .MatchRoute || p == .DownFilterAfterRoute || p == .ChooseHost

/-- phases in which the request is being forwarded / awaited -/
def fwdPhase (p : Phase) : Bool :=
  p == .DownFilterAfterChooseHost || p == .DownRecvHeader || p == .DownRecvData || p == .DownRecvTrailer ||
  p == .Oneway || p == .Retry || p == .WaitNotify

def liveCounted (st : Stream) : Bool := st.live && st.counted

def liveCount (l : List Stream) : Nat := (l.filter liveCounted).length

def allDead (l : List Stream) : Bool := l.all (fun st => !st.live)

/-- every stream but the newest is dead, and a live newest stream is the one the current upstream request owns -/
def streamsOk (s : S) : Bool :=
  allDead s.streams.dropLast &&
  (match s.streams.getLast? with
   | some st => !st.live || (s.up == some (some (s.streams.length - 1)) && st.real)
   | none => true) &&
  (match s.up with
   | some (some k) => k < s.streams.length
   | _ => true)

/-- the worker is parked in `waitNotify` -/
def blocked (s : S) : Bool := s.running && s.phase == .WaitNotify && !s.notify

/-- units of the retries / requests resources held by this request -/
def heldRetry (c : Cfg) (s : S) : Int := if c.maxRetries != 0 && rsHeld s then 1 else 0
def heldRequests (c : Cfg) (s : S) : Int := if c.maxRequests != 0 then (liveCount s.streams : Int) else 0

def respHasMore : Option Resp → Bool
  | some r => r.hasData || r.hasTrailers
  | none => false

def respHasTrailers : Option Resp → Bool
  | some r => r.hasTrailers
  | none => false

/-! ### the inductive invariant, clause by clause (ambient load `ar`, `aq`) -/

/-- K0: the worker has returned exactly when the stream was cleaned: no silent exit, nothing after clean -/
abbrev K0 (s : S) : Prop := s.running = !s.cleaned
/-- K1: the client-visible protocol was respected -/
abbrev K1 (s : S) : Prop := (snd s.trace).bad = false
/-- K2: response headers were sent exactly when `downstreamResponseStarted` -/
abbrev K2 (s : S) : Prop := (snd s.trace).hdr = s.respStarted
/-- K3: end of stream or reset sent ⇒ cleaned -/
abbrev K3 (s : S) : Prop := ((snd s.trace).ended = true ∨ (snd s.trace).reset = true) → s.cleaned = true
/-- K4: the access log (inside `cleanStream`) ran exactly once iff cleaned -/
abbrev K4 (s : S) : Prop := nLog s.trace = if s.cleaned then 1 else 0
/-- K5: `upstreamProcessDone` ⇒ cleaned (between worker steps) -/
abbrev K5 (s : S) : Prop := s.procDone = true → s.cleaned = true
/-- K6: a dead downstream stream was noticed -/
abbrev K6 (s : S) : Prop := s.downLive = false → s.downReset = true ∨ s.cleaned = true
/-- the state between an accepted asynchronous `TerminateStream` and the wake-up of the parked worker: the local reply
is stored, the upstream request is reset, both timers are stopped -/
abbrev Term (s : S) : Prop :=
  (s.phase = .WaitNotify ∨ s.phase = .Retry) ∧ s.notify = true ∧ s.urr = true ∧ s.upReset = false ∧ s.resp.isSome = true ∧
  liveCount s.streams = 0 ∧ s.perTry = false ∧ s.global = false
/-- K7: `setupRetry` and `directResponse` are consumed within the step that sets them; only `TerminateStream` leaves a
local reply pending for the parked worker -/
abbrev K7 (s : S) : Prop := s.cleaned = false → s.setupRetry = false ∧ (s.direct = true → Term s)
/-- K8: the loop budget is never used up -/
abbrev K8 (s : S) : Prop := s.cleaned = false → s.pass ≤ 1 ∧ (s.pass = 0 ∨ upPhase s.phase = true ∨ s.phase = .Oneway)
/-- K9..K12: ledger -/
abbrev K9 (c : Cfg) (ar : Nat) (s : S) : Prop := s.retries = (ar : Int) + heldRetry c s
abbrev K10 (c : Cfg) (aq : Nat) (s : S) : Prop := s.requests = (aq : Int) + heldRequests c s
abbrev K11 (s : S) : Prop := s.upActive = (liveCount s.streams : Int)
abbrev K12 (s : S) : Prop := s.downActive = if s.cleaned then 0 else 1
/-- K13: a cleaned stream holds nothing and has no timer -/
abbrev K13 (s : S) : Prop := s.cleaned = true → rsHeld s = false ∧ liveCount s.streams = 0 ∧ s.perTry = false ∧ s.global = false
/-- K14: only the newest client stream can be live, and then the current upstream request owns it -/
abbrev K14 (s : S) : Prop := streamsOk s = true
/-- K15: during the response pass the client stream is gone, or it is the open stream of a streamed response whose
head was accepted; an upstream reset can only be pending while the worker waits for / writes the rest of a streamed response,
or ([proxy7]) while it runs the sender filters of a streamed response whose head it accepted (phase UpFilter) -/
abbrev K15 (s : S) : Prop := s.cleaned = false → upPhase s.phase = true →
  (liveCount s.streams = 0 ∨ (s.urr = true ∧ respHasMore s.resp = true ∧ s.rs.isSome = true)) ∧ s.resp.isSome = true ∧
  (s.upReset = true → s.phase = .UpRecvData ∨ s.phase = .UpRecvTrailer ∨
    ((s.phase = .UpFilter ∨ s.phase = .UpRecvHeader) ∧ s.urr = true ∧ s.rs.isSome = true)) ∧   -- [proxy7] reset during UpFilter, [proxy10] before the head is forwarded
  ((s.perTry = false ∧ s.global = false) ∨ s.urr = true) ∧
  (s.respStarted = (s.phase == .UpRecvData || s.phase == .UpRecvTrailer)) ∧
  (s.phase = .UpRecvData → respHasMore s.resp = true) ∧
  (s.phase = .UpRecvTrailer → respHasTrailers s.resp = true)
/-- K16: before the response pass nothing was sent to the client -/
abbrev K16 (s : S) : Prop := s.cleaned = false → upPhase s.phase = false → s.respStarted = false
/-- K17: before a host exists there is no upstream side -/
abbrev K17 (s : S) : Prop := s.cleaned = false → prePhase s.phase = true →
  s.up = none ∧ s.rs = none ∧ s.streams = [] ∧ s.urr = false ∧ s.upReset = false ∧ s.perTry = false ∧ s.global = false ∧
  s.reqSent = false ∧ s.globalExpired = false ∧ s.pass = 0
/-- K18: while forwarding, an upstream request and a retry state exist and every pending event left a wake-up -/
abbrev K18 (c : Cfg) (s : S) : Prop := s.cleaned = false → fwdPhase s.phase = true →
  (c.oneway = true ∧ s.phase = .Oneway ∧ s.pass = 1) ∨
  (s.up.isSome = true ∧ s.rs.isSome = true ∧
   ((s.urr = true ∨ s.upReset = true ∨ s.downReset = true) → s.notify = true ∨ (s.phase = .Retry ∧ s.globalExpired = true ∧ s.upReset = false ∧ s.downReset = false)) ∧
   (s.globalExpired = true → s.urr = true ∨ s.phase = .Retry) ∧
   (c.oneway = false → s.reqSent = true → s.global = true ∨ s.globalExpired = true ∨ s.direct = true) ∧
   (s.phase = .WaitNotify → s.reqSent = true ∨ c.oneway = true))

/-- K19: the worker never sits at `End` without having cleaned -/
abbrev K19 (s : S) : Prop := s.cleaned = false → s.phase ≠ .End
/-- K20: a one-way request has no counted client stream -/
abbrev K20 (c : Cfg) (s : S) : Prop := c.oneway = true → liveCount s.streams = 0

/-- K21: a one-way request arms no timer -/
abbrev K21 (c : Cfg) (s : S) : Prop := c.oneway = true → s.perTry = false ∧ s.global = false

/-- K22: in a two-way request every live client stream is counted by the pool -/
abbrev K22 (c : Cfg) (s : S) : Prop := c.oneway = false → s.streams.all (fun st => !st.live || st.counted) = true
/-- K23: a pending upstream reset means the client stream is gone; so does the retry phase -/
abbrev K23 (s : S) : Prop := s.cleaned = false → (s.upReset = true ∨ s.phase = .Retry) → liveCount s.streams = 0

/-- K24: while a retry is still possible the global timer is armed or has expired (or a terminate reply is pending) -/
abbrev K24 (c : Cfg) (s : S) : Prop := s.cleaned = false → c.oneway = false → s.reqSent = true → s.rs.isSome = true →
  s.global = true ∨ s.globalExpired = true ∨ s.direct = true
/-- K25: while a retry is still possible no re-entry budget was used -/
abbrev K25 (c : Cfg) (s : S) : Prop := s.cleaned = false → c.oneway = false → s.rs.isSome = true → s.pass = 0

/-- K26: in the retry phase (doRetry's back-off included) only the global timer can have reset the upstream, and the
upstream request that was given up is detached: the stream's current request owns no client stream (a frame of the old
attempt that is still in flight finds nobody) -/
abbrev K26 (s : S) : Prop := s.cleaned = false → s.phase = .Retry →
  s.perTry = false ∧ (s.upReset = true → s.globalExpired = true ∧ s.urr = true) ∧
  (s.urr = true → s.upReset = true ∨ s.direct = true ∨ s.globalExpired = true) ∧ s.up = some none
/-- K27: while forwarding, the CAS word is taken either by a timeout (then a reset is pending) or by an accepted
response (then the response is stored and its client stream is gone — or still open when the response is streamed) -/
abbrev K27 (s : S) : Prop := s.cleaned = false → fwdPhase s.phase = true → s.urr = true →
  s.upReset = true ∨ (s.resp.isSome = true ∧ (liveCount s.streams = 0 ∨ respHasMore s.resp = true)) ∨
  (s.phase = .Retry ∧ s.globalExpired = true)
/-- K28: a wake-up is never spurious -/
abbrev K28 (s : S) : Prop := s.cleaned = false → s.notify = true →
  s.urr = true ∨ s.upReset = true ∨ s.downReset = true

/-- K29: a two-way request is completely sent upstream before the worker waits -/
abbrev K29 (c : Cfg) (s : S) : Prop := s.cleaned = false → c.oneway = false → s.pass = 0 →
  (s.phase = .DownRecvData → s.reqSent = true ∨ c.hasData = true ∨ c.hasTrailers = true) ∧
  (s.phase = .DownRecvTrailer → s.reqSent = true ∨ c.hasTrailers = true) ∧
  (s.phase = .Oneway → s.reqSent = true)
/-- K30: nothing was sent upstream before the first `receiveHeaders` -/
abbrev K30 (s : S) : Prop := s.cleaned = false → (s.phase = .DownFilterAfterChooseHost ∨ s.phase = .DownRecvHeader) →
  s.streams = [] ∧ s.reqSent = false ∧ s.perTry = false ∧ s.global = false ∧ s.urr = false ∧ s.upReset = false ∧
  s.globalExpired = false
/-- K31: a retry state only exists together with an upstream request -/
abbrev K31 (s : S) : Prop := s.rs.isSome = true → s.up.isSome = true

/-- K32: a one-way request never waits, retries or runs the response pass -/
abbrev K32 (c : Cfg) (s : S) : Prop := s.cleaned = false → c.oneway = true →
  upPhase s.phase = false ∧ s.phase ≠ .WaitNotify ∧ s.phase ≠ .Retry

/-- K33: a stream is only cleaned after a complete reply, after the client went away, or when it is one-way -/
abbrev K33 (c : Cfg) (s : S) : Prop := s.cleaned = true →
  (snd s.trace).ended = true ∨ s.downReset = true ∨ c.oneway = true

/-- the inductive invariant -/
structure Inv (c : Cfg) (ar aq : Nat) (s : S) : Prop where
  k0 : K0 s
  k1 : K1 s
  k2 : K2 s
  k3 : K3 s
  k4 : K4 s
  k5 : K5 s
  k6 : K6 s
  k7 : K7 s
  k8 : K8 s
  k9 : K9 c ar s
  k10 : K10 c aq s
  k11 : K11 s
  k12 : K12 s
  k13 : K13 s
  k14 : K14 s
  k15 : K15 s
  k16 : K16 s
  k17 : K17 s
  k18 : K18 c s
  k19 : K19 s
  k20 : K20 c s
  k21 : K21 c s
  k22 : K22 c s
  k23 : K23 s
  k24 : K24 c s
  k25 : K25 c s
  k26 : K26 s
  k27 : K27 s
  k28 : K28 s
  k29 : K29 c s
  k30 : K30 s
  k31 : K31 s
  k32 : K32 c s
  k33 : K33 c s

/-- executable form for the model checker: the clauses in order -/
def invList (c : Cfg) (ar aq : Nat) (s : S) : List Bool :=
  [ decide (K0 s), decide (K1 s), decide (K2 s), decide (K3 s), decide (K4 s), decide (K5 s), decide (K6 s), decide (K7 s),
    decide (K8 s), decide (K9 c ar s), decide (K10 c aq s), decide (K11 s), decide (K12 s), decide (K13 s), decide (K14 s),
    decide (K15 s), decide (K16 s), decide (K17 s), decide (K18 c s), decide (K19 s), decide (K20 c s), decide (K21 c s), decide (K22 c s), decide (K23 s), decide (K24 c s), decide (K25 c s), decide (K26 s), decide (K27 s), decide (K28 s), decide (K29 c s), decide (K30 s), decide (K31 s), decide (K32 c s), decide (K33 c s) ]

def inv (c : Cfg) (ar aq : Nat) (s : S) : Bool := (invList c ar aq s).all id

end MosnVerif.Model.Downstream
