import MosnVerif.Gen.HealthDispatch
import MosnVerif.Model.HealthCheck
/-!
Model of the DISPATCH LOOP of `sessionChecker.Start` (pkg/upstream/healthcheck/session_checker.go) as a step program.

`Gen.HealthDispatch` regenerates, for every branch of the loop's select, the ordered list of actions the loop goroutine
performs (stop the check-timeout timer, stop the interval timer, HandleSuccess/HandleFailure, advance checkID, arm the
interval timer), whether the timeout case compares the received id with the awaited one (`timeoutGuarded`) and whether the
value sent on `c.timeout` is the id the arming `OnCheck` read (`timeoutCarriesID`).  This file interprets such a program
against an environment made of

* the interval timer (`armed`): when it fires, `OnCheck` runs in its own goroutine: it reads `checkID`, stops the previous
  timeout timer, arms a new one (tagged here with the id it read) and calls `CheckHealth` (the check is `inflight`);
* the timeout timer (`tmo`): it can FIRE at any moment while it is armed and not stopped — between ANY two steps of the loop
  goroutine, in particular between the receive of an answer and the `c.checkTimeout.Stop()` that follows it.  `c.timeout`
  is unbuffered: the fired timer's goroutine is parked on the channel (`parked`, FIFO like Go's send queue) until the loop's
  select receives from it (`recvTimeout`, its own step: with an answer ready as well the select may take either).
  `Stop()` after the timer fired does not take the parked send back;
* answers: an `OnCheck` goroutine whose `CheckHealth` returned hands `(id, healthy)` to the loop when the loop is in its select.

The loop goroutine advances by `answer` / `recvTimeout` (the select hands an event to a branch: NO action of the branch is
part of that step) and `act` events, one action each: everything else can happen between any two of them.
Every handler call is logged with the id of the check it is accounted to: the stamp of the answer, or the tag of the
timeout timer whose expiry the loop consumed.
-/
namespace MosnVerif.Model.HealthDispatch
open MosnVerif.Model.HealthCheck (Result)
open MosnVerif.Gen.HealthDispatch (Act)

structure Prog where
  prologue : List Act
  onResp : List Act
  onExpired : List Act
  onTimeout : List Act
  onExit : List Act
  /-- the timeout case accepts an expiry only when the id it carries is the awaited one (otherwise `onStale`) -/
  guard : Bool
  onStale : List Act
  deriving DecidableEq, Repr

/-- the program of the current source -/
def genProg : Prog :=
  ⟨Gen.HealthDispatch.prologue, Gen.HealthDispatch.onResp, Gen.HealthDispatch.onExpired, Gen.HealthDispatch.onTimeout,
   Gen.HealthDispatch.onExit, Gen.HealthDispatch.timeoutGuarded && Gen.HealthDispatch.timeoutCarriesID,
   Gen.HealthDispatch.onStaleTimeout⟩

/-- the program the theorems are proved about (`genProg_real` ties it to the regenerated one) -/
def realProg : Prog :=
  ⟨[.advance, .armCheck], [.stopTimeout, .handle, .advance, .armCheck], [],
   [.stopCheck, .sessionOnTimeout, .handleNet, .advance, .armCheck], [.stopCheck, .stopTimeout], true, []⟩

/-- the program before the repair: `case <-c.timeout:` takes ANY expiry for the timeout of the awaited check -/
def unguardedProg : Prog := { realProg with guard := false }

/-- the timeout timer of an answered check stopped only after the handlers returned -/
def lateStopProg : Prog := { realProg with onResp := [.handle, .stopTimeout, .advance, .armCheck] }
/-- the next check armed before the handlers run -/
def earlyArmProg : Prog := { realProg with onResp := [.stopTimeout, .advance, .armCheck, .handle] }

inductive Ev where
  | fireCheck                          -- the interval timer fires: OnCheck up to the call of CheckHealth
  | fireTimeout                        -- the running timeout timer fires
  | answer (id : Nat) (healthy : Bool) -- the CheckHealth stamped `id` has returned and the loop receives its answer
  | recvTimeout                        -- the loop's select receives from a parked timeout goroutine
  | act                                -- the loop goroutine performs its next action
  | stop                               -- Stop(): close(c.stop)
  deriving DecidableEq, Repr

def resultOf (healthy : Bool) : Result := if healthy then .success else .failure

structure D where
  checkID : Nat                 -- the atomic c.checkID
  currentID : Nat               -- the loop's local, loaded at the top of the iteration
  todo : List Act               -- rest of the branch being executed; [] = blocked in the select
  cur : Nat × Result            -- the event the branch was entered for
  armed : Bool                  -- the interval timer is armed
  tmo : Option Nat              -- the running timeout timer (tag = id read by the OnCheck that armed it)
  parked : List Nat             -- fired timeout timers whose goroutine waits on c.timeout
  inflight : List Nat           -- OnCheck goroutines that have not handed over their answer
  issued : List Nat             -- history: ids of the checks performed, latest first
  outcomes : List (Nat × Result) -- history: events the loop accepted (matching answers, timeouts)
  log : List (Nat × Result)     -- handler calls, latest first, with the check they are accounted to
  stopReq : Bool
  exited : Bool
  deriving DecidableEq, Repr

def perform (s : D) : Act → D
  | .stopTimeout => { s with tmo := none }
  | .stopCheck => { s with armed := false }
  | .handle => { s with log := s.cur :: s.log }
  | .handleNet => { s with log := (s.cur.1, .timeout) :: s.log }
  | .advance => { s with checkID := s.checkID + 1 }
  | .armCheck => { s with armed := true }
  | .armTimeout => { s with tmo := some s.checkID }   -- (only OnCheck does it in the current source)
  | _ => s

/-- a branch is over: top of the next iteration (stop check, then `currentID := checkID`) -/
def finish (p : Prog) (s : D) : D :=
  match s.todo with
  | [] => if s.stopReq then p.onExit.foldl perform { s with exited := true } else { s with currentID := s.checkID }
  | _ => s

def actStep (p : Prog) (s : D) : D :=
  match s.todo with
  | [] => s
  | a :: rest => finish p { perform s a with todo := rest }

/-- the select hands an event to a branch: the loop goroutine stands before the branch's first action -/
def enter (p : Prog) (s : D) (branch : List Act) (cur : Nat × Result) : D :=
  finish p { s with todo := branch, cur := cur }

def idle (s : D) : Bool := s.todo.isEmpty

def step (p : Prog) (s : D) (ev : Ev) : D :=
  if s.exited then s else
  match ev with
  | .fireCheck =>
    if s.armed then
      { s with armed := false, issued := s.checkID :: s.issued, tmo := some s.checkID, inflight := s.checkID :: s.inflight }
    else s
  | .fireTimeout =>
    match s.tmo with
    | none => s
    | some k => { s with tmo := none, parked := s.parked ++ [k] }
  | .recvTimeout =>
    match s.parked with
    | [] => s
    | k :: rest =>
      if idle s then
        if !p.guard || k = s.currentID then
          enter p { s with parked := rest, outcomes := (k, .timeout) :: s.outcomes } p.onTimeout (k, .timeout)
        else enter p { s with parked := rest } p.onStale (k, .timeout)
      else s
  | .answer id h =>
    if idle s && s.inflight.contains id then
      let s := { s with inflight := s.inflight.erase id }
      if id = s.currentID then enter p { s with outcomes := (id, resultOf h) :: s.outcomes } p.onResp (id, resultOf h)
      else enter p s p.onExpired (id, resultOf h)
    else s
  | .act => actStep p s
  | .stop =>
    if idle s then p.onExit.foldl perform { s with stopReq := true, exited := true } else { s with stopReq := true }

def run (p : Prog) (s : D) (evs : List Ev) : D := evs.foldl (step p) s

def D.zero : D := ⟨0, 0, [], (0, .success), false, none, [], [], [], [], [], false, false⟩

/-- `Start` up to the loop -/
def D.init (p : Prog) : D :=
  let s := p.prologue.foldl perform D.zero
  { s with currentID := s.checkID }

def ids (s : D) : List Nat := s.log.map Prod.fst

/-- the results in the order the handlers saw them -/
def results (s : D) : List Result := s.log.reverse.map Prod.snd

end MosnVerif.Model.HealthDispatch
