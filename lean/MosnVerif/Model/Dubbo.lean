import MosnVerif.Model.Bytes
import MosnVerif.Gen.C01Dubbo
/-!
Envelope model of the dubbo codec (`pkg/protocol/xprotocol/dubbo/{protocol,decoder,encoder,command}.go`).

  magic(2) flag(1) status(1) id(8) dataLen(4) payload(dataLen)

The hessian payload is a black box: for a non-event request `getServiceAwareMeta` parses service / method names out
of it and a failure fails the decode — the model takes that verdict as an oracle parameter `svcOK` and every theorem
quantifies over it.  What is modelled as it is:
* `Decode` needs 16 bytes, then `16 + dataLen` bytes; `frameLen := HeaderLen + frame.DataLen` is uint32 arithmetic;
* a non-event request whose serialization id (`flag & 0x1f`) is not 2 is refused;
* the frame is copied (`body`), `rawData = body`;
* `encodeFrame`: with `rawData` the 8-byte id is patched at `IdIdx` and the raw frame returned; without it (heartbeat
  reply, hijack) the header is written field by field followed by the payload;
* `SetData` with a buffer other than the frame's own drops the raw frame, so the next encode writes the new payload
  with the recomputed `DataLen` (repaired: it used to be ignored by the fast path).
-/
namespace MosnVerif.Model.Dubbo
open MosnVerif.Model MosnVerif.Model.Bytes
open Gen.C01Dubbo

structure Frame where
  magic0 : Nat
  magic1 : Nat
  flag : Nat
  status : Nat
  id : Nat
  dataLen : Nat
  payload : Bytes
  raw : Option Bytes
  deriving Repr, DecidableEq

def isEvent (flag : Nat) : Bool := flag / 32 % 2 == 1      -- flag & (1<<5)
def isRequest (flag : Nat) : Bool := flag / 128 % 2 == 1   -- flag & (1<<7)
def serializationId (flag : Nat) : Nat := flag % 32        -- flag & 0x1f

/-- `decodeFrame` (called once the whole frame is buffered) -/
def decodeFrame (svcOK : Bytes → Bool) (b : Bytes) : Step Frame :=
  let flag := getBE b dec_Flag.1 dec_Flag.2
  let dataLen := getBE b dec_DataLen.1 dec_DataLen.2
  let frameLen := frameLen dataLen % 2 ^ 32
  if frameLen < HeaderLen then .panic     -- uint32 wrap: `body[HeaderLen:]` out of range (needs a ≥ 4 GiB buffer)
  else
    let body := b.take frameLen
    let payload := body.drop HeaderLen
    if !isEvent flag && isRequest flag && (serializationId flag != 2 || !svcOK payload) then .error
    else
      .frame { magic0 := byteAt b dec_Magic.1, magic1 := byteAt b (dec_Magic.1 + 1), flag := flag,
               status := getBE b dec_Status.1 dec_Status.2, id := getBE b dec_Id.1 dec_Id.2,
               dataLen := dataLen, payload := payload, raw := some body } frameLen

/-- `dubboProtocol.Decode` -/
def decode (svcOK : Bytes → Bool) (b : Bytes) : Step Frame :=
  if b.length ≥ HeaderLen then
    let payLoadLen := getBE b DataLenIdx (DataLenIdx + DataLenSize)
    if b.length ≥ HeaderLen + payLoadLen then decodeFrame svcOK b else .needMore
  else .needMore

/-- `encodeFrame` -/
def encode (f : Frame) : Bytes :=
  match f.raw with
  | some raw => patch raw patchIndex (be patchWidth f.id)
  | none =>
    encodeHeader (Magic0 := f.magic0) (Magic1 := f.magic1) (Flag := f.flag) (Status := f.status) (Id := f.id)
      (DataLen := f.dataLen) ++ f.payload

/-- `SetRequestId`: the id is a uint64 -/
def setId (f : Frame) (id : Nat) : Frame := { f with id := id % 2 ^ 64 }

/-- `SetData` with a new buffer: payload and `DataLen` replaced (`uint32(len)`), raw frame dropped -/
def setData (f : Frame) (d : Bytes) : Frame := { f with payload := d, dataLen := d.length % 2 ^ 32, raw := none }

end MosnVerif.Model.Dubbo
