import MosnVerif.Model.FrameBytes
/-!
HPACK primitives of the forked decoder (pkg/module/http2/hpack/hpack.go): `readVarInt` (prefix-coded integers),
`readString` for raw (non-Huffman) strings, `parseFieldLiteral` with a new name, and the `Write`/`Close` loop of
`DecodeFull` over a block of such fields.  Other representations (indexed fields, Huffman strings, table size updates)
are outside this model (`unmodelled`).  Core Lean only.
-/
namespace MosnVerif.Model.FrameHpack
open MosnVerif.Model.Framing

inductive VarRes where
  | ok (i : Nat) (remain : Bytes) : VarRes
  | needMore : VarRes
  | overflow : VarRes
deriving Repr, DecidableEq

/-- the continuation loop of `readVarInt`: `for len(p) > 0 { b := p[0]; p = p[1:]; i += (b&127) << m; if b&128 == 0
return; m += 7; if m >= 63 overflow }` -/
def varLoop : Bytes → Nat → Nat → VarRes
  | [], _, _ => .needMore
  | x :: r, i, m =>
    let i' := i + (x.toNat % 128) * 2 ^ m
    if x.toNat < 128 then .ok i' r
    else if m + 7 ≥ 63 then .overflow else varLoop r i' (m + 7)

/-- `readVarInt(n, p)` for `1 ≤ n ≤ 8` -/
def readVarInt (n : Nat) (p : Bytes) : VarRes :=
  match p with
  | [] => .needMore
  | x :: r =>
    let i := x.toNat % 2 ^ n
    if i < 2 ^ n - 1 then .ok i r else varLoop r i 0

inductive StrRes where
  | ok (s remain : Bytes) : StrRes
  | needMore : StrRes
  | err : StrRes            -- varint overflow / ErrStringLength
  | huffman : StrRes        -- not modelled
deriving Repr, DecidableEq

/-- `Decoder.readString` (`maxStrLen = 0` means unlimited) -/
def readString (maxStrLen : Nat) (p : Bytes) : StrRes :=
  match p with
  | [] => .needMore
  | x :: _ =>
    match readVarInt 7 p with
    | .needMore => .needMore
    | .overflow => .err
    | .ok strLen r =>
      if maxStrLen ≠ 0 ∧ strLen > maxStrLen then .err
      else if r.length < strLen then .needMore
      else if x.toNat ≥ 128 then .huffman
      else .ok (r.take strLen) (r.drop strLen)

inductive FieldRes where
  | ok (nameLen valueLen : Nat) (remain : Bytes) : FieldRes
  | needMore : FieldRes
  | err : FieldRes
  | unmodelled : FieldRes
deriving Repr, DecidableEq

/-- `parseHeaderFieldRepr` restricted to "literal header field without indexing / never indexed — new name"
(first byte 0x00 or 0x10) -/
def parseField (maxStrLen : Nat) (p : Bytes) : FieldRes :=
  match p with
  | [] => .needMore
  | x :: r =>
    if x.toNat = 0 ∨ x.toNat = 16 then          -- b&240 ∈ {0,16} and name index 0
      match readString maxStrLen r with
      | .needMore => .needMore
      | .err => .err
      | .huffman => .unmodelled
      | .ok name r1 =>
        match readString maxStrLen r1 with
        | .needMore => .needMore
        | .err => .err
        | .huffman => .unmodelled
        | .ok value r2 => .ok name.length value.length r2
    else .unmodelled

inductive BlockRes where
  | ok (fields : List (Nat × Nat)) : BlockRes
  | err : BlockRes
  | unmodelled : BlockRes
deriving Repr, DecidableEq

/-- `DecodeFull`: `Write` loops over the fields; an incomplete field is saved and makes `Close` fail -/
def decodeBlock (maxStrLen : Nat) : Nat → Bytes → List (Nat × Nat) → BlockRes
  | 0, _, _ => .err
  | fuel+1, p, acc =>
    if p.isEmpty then .ok acc.reverse else
    match parseField maxStrLen p with
    | .ok n v r => decodeBlock maxStrLen fuel r ((n, v) :: acc)
    | .needMore => .err
    | .err => .err
    | .unmodelled => .unmodelled

def decodeFull (maxStrLen : Nat) (p : Bytes) : BlockRes := decodeBlock maxStrLen (p.length + 1) p []

end MosnVerif.Model.FrameHpack
