import MosnVerif.Gen.FrameLen
import MosnVerif.Gen.FrameConsts
import MosnVerif.Gen.C08H2Loop
/-!
# The HTTP/2 read path — C08 "no unbounded loop, no out-of-range read" for `Dispatch` / `MFramer.ReadFrame`

* `one`: `readFrameHeader` + the two size tests + the payload slice + the payload parser of ONE frame at offset `off`
  (pkg/module/http2/mhttp2.go), written with CHECKED access: the slice `data.Bytes()[off:]`, every constant index into it,
  the 4-byte read and the payload slice `[lo:hi]` (all regenerated: `Gen/C08H2Loop h2c_*`) answer `oob` when they leave
  the buffered bytes (Go: index / slice bounds out of range panic). The length tests are `Gen/FrameLen h2_*`.
* `contLoop`: the loop of `readMetaFrame` over the CONTINUATION frames at offset `off + msize`.
* `readFrame`: one top-level `ReadFrame(ctx, data, 0)`: what it answers and how many bytes it drained.
  Payload parsers and the header-block validation (HPACK, field checks, pseudo headers) are oracles `Orc` answering
  ok / connection error / stream error.  Hand-written from frame.go: parseHeadersFrame refuses stream id 0,
  checkFrameOrder (unexpected CONTINUATION; inside a header block only CONTINUATION of that stream).
* `turn` / `Returns` / `run`: the loop of `serverStreamConnection.Dispatch` / `clientStreamConnection.Dispatch`
  (pkg/stream/http2/stream.go), its control structure per class of Decode answer regenerated (`srvPolicy`, `cliPolicy`).
  The decoder is a parameter and may be stateful: it is given the number of Decode calls made so far.
Core Lean only.
-/
namespace MosnVerif.Model.H2ReadLoop
open MosnVerif.Gen.FrameLen MosnVerif.Gen.FrameConsts MosnVerif.Gen.C08H2Loop

abbrev Bytes := List UInt8

/-- verdict of a black box (payload parser of a frame type; validation of a complete header block) -/
inductive PRes where
  | ok | conn | stream
  deriving DecidableEq, Repr

structure Orc where
  parse : Bytes → PRes
  group : Bytes → PRes

structure FH where
  len : Nat
  ty : Nat
  flags : Nat
  sid : Nat
  deriving DecidableEq, Repr

def byteAt (b : Bytes) (i : Nat) : Nat := (b.getD i 0).toNat

inductive Hdr where
  | again | oob | ok (h : FH)
  deriving DecidableEq, Repr

/-- the reads of `readFrameHeader` on `buf := data.Bytes()[off:]`, each checked against `len(buf)` -/
def hdrOf (buf : Bytes) : Hdr :=
  if h2c_hdrIdx.all (fun k => decide (k < buf.length)) && h2c_hdrU32.all (fun k => decide (k + 4 ≤ buf.length)) then
    .ok ⟨byteAt buf 0 * 65536 + byteAt buf 1 * 256 + byteAt buf 2, byteAt buf 3, byteAt buf 4,
         (byteAt buf 5 * 16777216 + byteAt buf 6 * 65536 + byteAt buf 7 * 256 + byteAt buf 8) % 2147483648⟩
  else .oob

/-- `readFrameHeader(ctx, data, off)` with checked access -/
def readHdr (b : Bytes) (off : Nat) : Hdr :=
  if h2_hdrShort b.length off then .again
  else if b.length < h2c_hdrSliceLo off then .oob                     -- data.Bytes()[off:]
  else hdrOf (b.drop (h2c_hdrSliceLo off))

inductive One where
  | again | oob | conn
  | stream (h : FH)
  | ok (h : FH)
  deriving DecidableEq, Repr

/-- header, `fh.Length > fr.maxReadSize`, completeness test, payload slice (checked), payload parser -/
def one (mx : Nat) (o : Orc) (b : Bytes) (off : Nat) : One :=
  match readHdr b off with
  | .again => .again
  | .oob => .oob
  | .ok h =>
    if h2_tooLarge h.len mx then .conn
    else if h2_incomplete h.len b.length off then .again
    else if h2c_payHi off h.len < h2c_payLo off h.len || b.length < h2c_payHi off h.len then .oob
    else if h.ty = http2_FrameHeaders ∧ h.sid = 0 then .conn          -- parseHeadersFrame
    else match o.parse ((b.take (h2c_payHi off h.len)).drop off) with
      | .conn => .conn
      | .stream => .stream h
      | .ok => .ok h

def endHeaders (h : FH) : Bool := h.flags.testBit 2

/-- result of `readMetaFrame`: the accumulated `msize` -/
inductive MR where
  | again | oob | conn
  | stream (msize : Nat)
  | ok (msize : Nat)
  deriving DecidableEq, Repr

/-- the loop of `readMetaFrame` behind a HEADERS frame without END_HEADERS: nested `ReadFrame(ctx, data, off+msize)`;
an error of the nested call is returned with msize 0 -/
def contLoop (mx : Nat) (o : Orc) (b : Bytes) (off0 sid : Nat) : Nat → Nat → MR
  | 0, _ => .again   -- unreachable: the fuel is the buffer length and every frame has ≥ 9 bytes
  | fuel + 1, ms =>
    match one mx o b (h2c_contOff off0 ms) with
    | .again => .again
    | .oob => .oob
    | .conn => .conn
    | .stream _ => .stream 0
    | .ok h =>
      if h.ty ≠ http2_FrameContinuation ∨ h.sid ≠ sid then .conn       -- checkFrameOrder inside a header block
      else if endHeaders h then .ok (ms + h2_size h.len)
      else contLoop mx o b off0 sid fuel (ms + h2_size h.len)

/-- what one top-level `ReadFrame(ctx, data, 0)` answers; `k` = bytes drained from the read buffer -/
inductive RF where
  | again | oob | conn
  | stream (k : Nat)
  | frame (k : Nat)
  deriving DecidableEq, Repr

def streamDrain (n : Nat) : Nat := if h2_streamErrDrains then n else 0

def readFrame (mx : Nat) (o : Orc) (b : Bytes) : RF :=
  match one mx o b 0 with
  | .again => .again
  | .oob => .oob
  | .conn => .conn
  | .stream h => .stream (streamDrain (h2_size h.len))
  | .ok h =>
    if h.ty = http2_FrameContinuation then .conn                          -- checkFrameOrder: unexpected CONTINUATION
    else
      let size := h2_size h.len
      if h.ty = http2_FrameHeaders then
        let m : MR := if endHeaders h then .ok 0 else contLoop mx o b (h2c_metaOff 0 size) h.sid b.length 0
        match m with
        | .again => .again
        | .oob => .oob
        | .conn => .conn
        | .stream ms => .stream (streamDrain (h2_drain size ms))
        | .ok ms =>
          match o.group (b.take (size + ms)) with
          | .conn => .conn
          | .stream => .stream (streamDrain (h2_drain size ms))
          | .ok => .frame (h2_drain size ms)
      else if h2_drains h.ty then .frame (h2_drain size 0) else .frame 0

/-! ## the Dispatch loop -/

/-- one answer of `Decode` as Dispatch sees it; `k` = bytes drained by that call -/
inductive DStep where
  | again (k : Nat)    -- err == http2.ErrAGAIN
  | conn (k : Nat)     -- any other error that is not a StreamError
  | stream (k : Nat)   -- StreamError
  | frame (k : Nat)
  deriving DecidableEq, Repr

def DStep.drained : DStep → Nat
  | .again k => k | .conn k => k | .stream k => k | .frame k => k

structure Policy where
  againAgain : Bool
  againConn : Bool
  againStream : Bool
  againFrame : Bool
  deriving DecidableEq, Repr

def Policy.again (p : Policy) : DStep → Bool
  | .again _ => p.againAgain | .conn _ => p.againConn | .stream _ => p.againStream | .frame _ => p.againFrame

def srvPolicy : Policy := ⟨srvAgainAgain, srvAgainConnErr, srvAgainStreamErr, srvAgainFrame⟩
def cliPolicy : Policy := ⟨cliAgainAgain, cliAgainConnErr, cliAgainStreamErr, cliAgainFrame⟩

/-- a loop that returns after ErrAGAIN and after a connection error -/
def Policy.Safe (p : Policy) : Prop := p.againAgain = false ∧ p.againConn = false
instance (p : Policy) : Decidable p.Safe := by unfold Policy.Safe; exact inferInstance

structure Cfg where
  buf : Bytes
  calls : Nat
  deriving DecidableEq, Repr

/-- ONE turn: Decode (no emptiness test in front of it), then return or go round again -/
def turn (p : Policy) (dec : Nat → Bytes → DStep) (c : Cfg) : Cfg × Bool :=
  let s := dec c.calls c.buf
  ({ buf := c.buf.drop s.drained, calls := c.calls + 1 }, p.again s)

inductive Returns (p : Policy) (dec : Nat → Bytes → DStep) : Cfg → Cfg → Prop where
  | done {c : Cfg} : (turn p dec c).2 = false → Returns p dec c (turn p dec c).1
  | more {c c' : Cfg} : (turn p dec c).2 = true → Returns p dec (turn p dec c).1 c' → Returns p dec c c'

def run (p : Policy) (dec : Nat → Bytes → DStep) : Nat → Cfg → Option Cfg
  | 0, _ => none
  | fuel + 1, c =>
    let t := turn p dec c
    if t.2 then run p dec fuel t.1 else some t.1

/-- what the property needs of a decoder: a frame and a stream error consumed a whole frame (≥ 9 bytes) of the buffer -/
def Progress (dec : Nat → Bytes → DStep) : Prop :=
  ∀ i b s, dec i b = s → (∀ k, s = .frame k ∨ s = .stream k → 9 ≤ k ∧ k ≤ b.length)

def ofRF : RF → DStep
  | .again => .again 0
  | .oob => .conn 0
  | .conn => .conn 0
  | .stream k => .stream k
  | .frame k => .frame k

/-- `clientCodec.Decode`, and `serverCodec.Decode` once the preface has been consumed -/
def frameDec (mx : Nat) (o : Orc) : Nat → Bytes → DStep := fun _ b => ofRF (readFrame mx o b)

/-- scripted decoder for the driver: the recorded answers, one per call -/
def scripted (script : List DStep) : Nat → Bytes → DStep := fun i _ => script.getD i (.again 0)

end MosnVerif.Model.H2ReadLoop
