import MosnVerif.Model.OrderTypes
import MosnVerif.Gen.ConfigTransfer
/-!
Order model of the persisted dump (property C19): which lists of a configuration are NAME-KEYED (listeners, clusters,
routers: held in Go maps while running, order irrelevant) and which are ORDER-SENSITIVE (`extends`: executed in config order
by `Mosn.HandleExtendConfig`; every list inside an element: filter chains, network filters, stream filters, virtual hosts,
routes — first match —, header matchers, headers to add, hosts, subset selectors).

An element (`Elem`) is a key (listener / cluster / router name, extend type) and the ordered lists found inside it, by path.
`put` is what `SetListenerConfig` / `SetClusterConfig` / `SetRouter` (map assignment) and `SetExtend` (replace the entry of
the same type IN PLACE, else append) do to the effective config; `load` is a start from a config; `dumpBy` is
`transferConfig` driven by the regenerated plan: lists rebuilt from maps come out in an arbitrary order (`it…`, a parameter),
slices are copied in order, sort calls sort by key, loop edits sort a list inside every element.  Core Lean only.
-/
namespace MosnVerif.Model.ConfigOrder
open MosnVerif.Model.OrderTypes

structure Elem (κ : Type) where
  key : κ
  body : List (String × List κ)
  deriving Repr, DecidableEq, Inhabited

variable {κ : Type} [DecidableEq κ]

abbrev Table (κ : Type) := List (Elem κ)

def keys (t : Table κ) : List κ := t.map (·.key)

/-- map assignment / SetExtend: the entry with this key is replaced where it is, a new key is appended -/
def put (e : Elem κ) : Table κ → Table κ
  | [] => [e]
  | x :: r => if x.key = e.key then e :: r else x :: put e r

def loadTable (l : List (Elem κ)) : Table κ := l.foldl (fun t e => put e t) []

structure Cfg (κ : Type) where
  listeners : List (Elem κ)
  clusters : List (Elem κ)
  routers : List (Elem κ)
  extends_ : List (Elem κ)
  deriving Repr, DecidableEq, Inhabited

/-- a start from configuration `c`: the effective configuration (maps as association lists with distinct keys) -/
def load (c : Cfg κ) : Cfg κ :=
  ⟨loadTable c.listeners, loadTable c.clusters, loadTable c.routers, loadTable c.extends_⟩

def insBy {α : Type} (le : α → α → Bool) (a : α) : List α → List α
  | [] => [a]
  | b :: r => if le a b then a :: b :: r else b :: insBy le a r

/-- a sort (insertion sort; which sort does not matter to the theorems: only that it is a permutation) -/
def isort {α : Type} (le : α → α → Bool) : List α → List α
  | [] => []
  | a :: r => insBy le a (isort le r)

def sortByKey (le : κ → κ → Bool) (l : List (Elem κ)) : List (Elem κ) := isort (fun a b => le a.key b.key) l

def sortSub (le : κ → κ → Bool) (sub : String) (e : Elem κ) : Elem κ :=
  { e with body := e.body.map (fun p => if p.1 = sub then (p.1, isort le p.2) else p) }

def dumpList (le : κ → κ → Bool) (lp : ListPlan) (edits : List Edit) (it : Table κ → Table κ) (t : Table κ) : List (Elem κ) :=
  let l := match lp.src with
    | .fromMap _ => it t
    | .inOrder _ => t
  let l := if lp.sorts > 0 then sortByKey le l else l
  (edits.filter (fun ed => ed.list = lp.field)).foldl (fun l ed => l.map (sortSub le ed.sub)) l

structure Plan where
  listeners : ListPlan
  clusters : ListPlan
  routers : ListPlan
  extends_ : ListPlan
  edits : List Edit
  deriving Repr, DecidableEq, Inhabited

def planOf (ls : List ListPlan) (edits : List Edit) : Option Plan :=
  match ls.find? (·.field = "Servers[0].Listeners"), ls.find? (·.field = "ClusterManager.Clusters"),
        ls.find? (·.field = "Servers[0].Routers"), ls.find? (·.field = "Extends") with
  | some l, some c, some r, some x => some ⟨l, c, r, x, edits⟩
  | _, _, _, _ => none

/-- the plan keeps order where order matters: `extends` is an in-order copy of the effective slice and is never sorted,
    no loop reorders a list inside an element; the name-keyed lists come from their maps (sorting THOSE is harmless). -/
def planOK (p : Plan) : Bool :=
  p.extends_.src == .inOrder "ExtendConfigs" && p.extends_.sorts == 0 && p.edits.isEmpty &&
  p.listeners.src == .fromMap "Listener" && p.clusters.src == .fromMap "Cluster" && p.routers.src == .fromMap "Routers"

/-- `transferConfig`: the dumped configuration of effective configuration `s`; `itL itC itR` = the map iteration orders -/
def dumpBy (le : κ → κ → Bool) (p : Plan) (itL itC itR : Table κ → Table κ) (s : Cfg κ) : Cfg κ :=
  ⟨dumpList le p.listeners p.edits itL s.listeners, dumpList le p.clusters p.edits itC s.clusters,
   dumpList le p.routers p.edits itR s.routers, dumpList le p.extends_ p.edits id s.extends_⟩

/-- the regenerated plan of the real `transferConfig` -/
def genPlan : Option Plan := planOf MosnVerif.Gen.ConfigTransfer.lists MosnVerif.Gen.ConfigTransfer.edits

end MosnVerif.Model.ConfigOrder
