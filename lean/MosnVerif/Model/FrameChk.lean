import MosnVerif.Model.FrameSteps
import MosnVerif.Model.Match
/-!
Checked-access models of the xprotocol decoders (C08): the same decoders as Model/FrameSteps.lean, written statement
by statement after decoder.go / protocol.go with **every slice expression and index mirrored by a checked primitive**
(Model/FrameBytes.lean: `need`, `rdBE`, `slice`) that answers `oob` when the access leaves the received bytes, and
with every allocation recorded (`alloc`).  The theorems of Props/C08 state that `oob` is unreachable.

Outcome classes: `needMore` (nil, nil) · `frame n` · `error k` (`k` bytes had been drained) · `oob` (Go: panic).
Core Lean only.
-/
namespace MosnVerif.Model.FrameChk
open MosnVerif.Model.Framing MosnVerif.Model.FrameBytes MosnVerif.Model.KVBlock MosnVerif.Model.FrameSteps
open MosnVerif.Gen.FrameLen MosnVerif.Gen.FrameConsts

/-- `decodeRequest` / `decodeResponse` of bolt and boltv2 (bolt/decoder.go, boltv2/decoder.go) -/
def chkLayout (L : Layout) (b : Bytes) : Res :=
  if L.short1 b.length then Res.needMore else                    -- 1. bytesLen < RequestHeaderLen ⇒ return
  rdBE b L.cl fun classLen =>                                    -- 2. binary.BigEndian.Uint16(bytes[14:16]) …
  rdBE b L.hl fun headerLen =>
  rdBE b L.ctl fun contentLen =>
  let frameLen := L.flen classLen headerLen contentLen
  if L.short2 b.length frameLen then Res.needMore else           --    bytesLen < frameLen ⇒ return
  let drained := L.drain frameLen                                --    data.Drain(frameLen)
  need b L.hdrLen <|                                             -- 3. fixed header fields bytes[2:4] … bytes[10:14]
  alloc frameLen <|                                              --    buffer.GetIoBuffer(frameLen)
  slice b 0 frameLen fun raw =>                                  -- 4. request.Data.Write(bytes[:frameLen])
  let hidx := L.hidx classLen                                    -- 5. headerIndex, contentIndex
  let cidx := L.cidx hidx headerLen
  slice raw 0 L.hdrLen fun _ =>                                  --    rawMeta
  (fun k => if classLen > 0 then slice raw L.hdrLen hidx (fun _ => k) else k) <|      -- rawClass
  (fun k => if contentLen > 0 then slice raw cidx raw.length (fun _ => k) else k) <|  -- rawContent
  if headerLen > 0 then
    slice raw hidx cidx fun blk =>                               --    rawHeader
      match safe blk with                                        --    xprotocol.DecodeHeader
      | .ok pairs => alloc pairs (Res.frame drained)
      | .err => Res.error drained                                --    (request, err): frame already drained
      | .oob => Res.oob
  else Res.frame drained

/-- `bolt.Decode` / `boltv2.Decode` with checked reads of the code byte and the cmd type byte -/
def chkV1 (b : Bytes) (k : Sel → Res) : Res :=
  if !bolt_enough b.length then k .needMore else
  need b (bolt_cmdTypeIdx + 1) (k (match sw bolt_switch (u8 b bolt_cmdTypeIdx) with
    | some 0 => .lay .v1req | some _ => .lay .v1resp | none => .error))

def chkV2 (b : Bytes) (k : Sel → Res) : Res :=
  if !boltv2_enough b.length then k .needMore else
  need b (boltv2_cmdTypeIdx + 1) (k (match sw boltv2_switch (u8 b boltv2_cmdTypeIdx) with
    | some 0 => .lay .v2req | some _ => .lay .v2resp | none => .error))

def chkSel : Nat → Bool → Bytes → (Sel → Res) → Res
  | 0, _, _, k => k .error
  | n+1, false, b, k =>
    if bolt_nonEmpty b.length then
      need b (bolt_codeIdx + 1) (if bolt_isOther (u8 b bolt_codeIdx) then chkSel n true b k else chkV1 b k)
    else chkV1 b k
  | n+1, true, b, k =>
    if boltv2_nonEmpty b.length then
      need b (boltv2_codeIdx + 1) (if boltv2_isOther (u8 b boltv2_codeIdx) then chkSel n false b k else chkV2 b k)
    else chkV2 b k

def chkBolt (v2 : Bool) (b : Bytes) : Res :=
  chkSel selFuel v2 b fun s => match s with
    | .needMore => Res.needMore
    | .error => Res.error 0                                      -- unknown cmd type: nothing drained
    | .lay id => chkLayout (layoutOf id) b

/-- `dubboProtocol.Decode` + `decodeFrame` -/
def chkDubbo (oracle : Bytes → Bool) (b : Bytes) : Res :=
  if !dubbo_enough1 b.length then Res.needMore else
  rdBE b dubbo_payLoadLen fun payLoadLen =>
  if !dubbo_enough2 b.length payLoadLen then Res.needMore else
  need b dubbo_HeaderLen <|                                      -- magic, flag, status, id
  rdBE b dubbo_dataLen fun dataLen =>
  let frameLen := dubbo_frameLen dataLen
  alloc frameLen <|                                              -- body := make([]byte, frameLen)
  slice b 0 frameLen fun body =>                                 -- copy(body, dataBytes[:frameLen])
  slice body dubbo_HeaderLen body.length fun _ =>                -- frame.payload = body[HeaderLen:]
  if dubboUsesOracle body then
    (if oracle body then Res.frame (dubbo_drain frameLen) else Res.error 0)   -- hessian2 metadata (black box)
  else Res.frame (dubbo_drain frameLen)

/-- `thriftProtocol.Decode` + `decodeFrame` (whose `defer recover()` turns any panic into a decode error) -/
def chkThrift (oracle : Bytes → Bool) (b : Bytes) : Res :=
  if !thrift_enough1 b.length then Res.needMore else
  rdBE b thrift_sizeField fun size =>
  if !thrift_enough2 b.length size then Res.needMore else
  recovered <|
  rdBE b thrift_messageLen fun messageLen =>
  slice b thrift_bodyLo (thrift_bodyHi messageLen) fun body =>
  let frameLength := thrift_frameLength messageLen
  slice body 0 thrift_MagicLen fun _ =>
  rdBE body (thrift_MessageLenIdx, thrift_MessageLenIdx + thrift_MessageLenSize) fun _ =>
  rdBE body thrift_headerLength fun headerLength =>
  slice b 0 frameLength fun raw =>                               -- frame.rawData = dataBytes[:frame.FrameLength]
  slice body headerLength body.length fun _ =>                   -- frame.payload = body[frame.HeaderLength:]
  slice body thrift_HeaderIdx body.length fun _ =>               -- body[HeaderIdx:]
  if oracle raw then Res.frame (thrift_drain frameLength) else Res.error 0   -- thrift header + message (black box)

/-- `tarsProtocol.Decode` + `decodeRequest/Response` on top of TarsGo's `TarsRequest` -/
def chkTars (oracle : Bytes → Bool) (b : Bytes) : Res :=
  if b.length < tars_lenFieldSize then Res.needMore else         -- PACKAGE_LESS
  rdBE b (0, tars_lenFieldSize) fun n =>
  if n < tars_minPackageLength ∨ n > tars_maxPackageLength then   -- PACKAGE_ERROR ⇒ decode error ([c08l9]; regenerated flag)
    (if tars_packageErrorFails then Res.error 0 else Res.needMore) else
  if b.length < n then Res.needMore else                         -- PACKAGE_LESS
  slice b tars_MessageSizeLen b.length fun _ =>                  -- getStreamType: pkg[4:]
  alloc n <|                                                     -- rawData := make([]byte, frameLen)
  slice b 0 n fun raw =>                                         -- copy(rawData, data.Bytes()[:frameLen])
  if oracle raw then Res.frame n else Res.error 0                -- stream type + packet reader (black box)

def chkOf (proto : String) (oracle : Bytes → Bool) : Option (Bytes → Res) :=
  match proto with
  | "bolt" => some (chkBolt false)
  | "boltv2" => some (chkBolt true)
  | "dubbo" => some (chkDubbo oracle)
  | "thrift" => some (chkThrift oracle)
  | "tars" => some (chkTars oracle)
  | _ => none

end MosnVerif.Model.FrameChk
