import MosnVerif.Gen.ResourceUpd
import MosnVerif.Gen.Resource
/-!
# Resource thresholds of a cluster across runtime updates (C12)

A cluster's `resourcemanager` is an OBJECT holding, per resource (connections, pending requests, requests, retries), a threshold
`max` and a counter `current`.  `NewClusterInfo` builds a fresh one from the configuration (`NewResourceManager`: the first entry
of `circuit_breakers`, else the Default* constants).  On an update of an existing cluster (`AddOrUpdatePrimaryCluster` /
`AddOrUpdateClusterAndHost`) `UpdateClusterResourceManagerHandler` — regenerated as facts `Gen.ResourceUpd.handler_*` — hands the
OLD object to the new cluster's info (so requests in flight stay counted) and `updateResourceValue` — regenerated statement by
statement — stores the NEW thresholds into it; when the cluster type changed the new cluster keeps its own fresh object.
`Increase` / `Decrease` are the regenerated `Gen.Resource.increase/decrease` (no-ops while `max = 0`).

The stored (dumped) configuration is the cluster configuration of the last update (`configmanager.SetClusterConfig`), removed by
`RemovePrimaryCluster`.  A fresh start from the dump gives `newRM stored.cb` with all counters 0.  Core Lean only.
-/
namespace MosnVerif.Model.ResourceUpd
open MosnVerif.Gen.ResourceUpd

inductive Rsrc where
  | conn | pend | req | retr
deriving DecidableEq, Repr

/-- the `current` fields -/
structure Curs where
  connections : Int
  pendingRequests : Int
  requests : Int
  retries : Int
deriving DecidableEq, Repr

def Curs.zero : Curs := ⟨0, 0, 0, 0⟩

/-- a resource manager object -/
structure RM where
  max : Maxes
  cur : Curs
deriving DecidableEq, Repr

/-- the part of a cluster configuration that matters here: cluster type, `circuit_breakers` (a list of threshold entries) -/
structure Cfg where
  typ : Nat
  cb : List Maxes
deriving DecidableEq, Repr

/-- `NewResourceManager(circuitBreakers)` (thresholds only) -/
def newRM : List Maxes → Maxes
  | [] => defaultMaxes
  | t :: _ => t

def fresh (cfg : Cfg) : RM := ⟨newRM cfg.cb, Curs.zero⟩

structure Live where
  typ : Nat
  rm : RM
  hasHost : Bool
deriving DecidableEq, Repr

structure State where
  live : Option Live
  stored : Option Cfg
deriving DecidableEq, Repr

def init : State := ⟨none, none⟩

/-- which mutator: `AddOrUpdatePrimaryCluster` (hosts inherited) or `AddOrUpdateClusterAndHost` (with / without hosts) -/
inductive Via where
  | primary
  | andHost (hosts : Bool)
deriving DecidableEq, Repr

inductive Op where
  | update (via : Via) (cfg : Cfg)
  | setHosts (has : Bool)     -- UpdateClusterHosts with a non-empty / empty list
  | remove                    -- RemovePrimaryCluster
  | incr (r : Rsrc)           -- a request in flight takes a resource of the LIVE manager
  | decr (r : Rsrc)
deriving DecidableEq, Repr

def runsHandler : Via → Bool
  | .primary => addOrUpdatePrimaryCluster_runsResourceHandler
  | .andHost _ => addOrUpdateClusterAndHost_runsResourceHandler

/-- the resource manager the NEW cluster's info holds after the update handlers ran -/
def handler (via : Via) (old : Option Live) (cfg : Cfg) : RM :=
  match old with
  | none => fresh cfg
  | some o =>
    if !runsHandler via then fresh cfg
    else if handler_typeGuard && o.typ != cfg.typ then fresh cfg
    else if handler_handsOver then
      ⟨if handler_updatesOld then updateResourceValue o.rm.max (newRM cfg.cb) else o.rm.max, o.rm.cur⟩
    else fresh cfg

def getMax (m : Maxes) : Rsrc → Nat
  | .conn => m.connections | .pend => m.pendingRequests | .req => m.requests | .retr => m.retries
def getCur (c : Curs) : Rsrc → Int
  | .conn => c.connections | .pend => c.pendingRequests | .req => c.requests | .retr => c.retries
def setCur (c : Curs) : Rsrc → Int → Curs
  | .conn, v => { c with connections := v } | .pend, v => { c with pendingRequests := v }
  | .req, v => { c with requests := v } | .retr, v => { c with retries := v }

def bump (f : Int → Int → Int) (rm : RM) (r : Rsrc) : RM :=
  { rm with cur := setCur rm.cur r (f (Int.ofNat (getMax rm.max r)) (getCur rm.cur r)) }

def step (s : State) : Op → State
  | .update via cfg =>
    let hh := match via, s.live with
      | .primary, some o => o.hasHost
      | .primary, none => false
      | .andHost h, _ => h
    ⟨some ⟨cfg.typ, handler via s.live cfg, hh⟩, some cfg⟩
  | .setHosts has => match s.live with
    | none => s
    | some l => { s with live := some { l with hasHost := has } }
  | .remove => match s.live with
    | none => s
    | some _ => ⟨none, none⟩
  | .incr r => match s.live with
    | none => s
    | some l => { s with live := some { l with rm := bump MosnVerif.Gen.Resource.increase l.rm r } }
  | .decr r => match s.live with
    | none => s
    | some l => { s with live := some { l with rm := bump MosnVerif.Gen.Resource.decrease l.rm r } }

/-- what the call reports: `ok` / `err` (cluster missing) / `absent` (no live manager to count on) -/
inductive Res where
  | ok | err | absent
deriving DecidableEq, Repr

def result (s : State) : Op → Res
  | .update _ _ => .ok
  | .setHosts _ => if s.live.isSome then .ok else .err
  | .remove => if s.live.isSome then .ok else .err
  | .incr _ => if s.live.isSome then .ok else .absent
  | .decr _ => if s.live.isSome then .ok else .absent

def runFrom (s : State) (ops : List Op) : State := ops.foldl step s
def run (ops : List Op) : State := runFrom init ops

/-- the thresholds a fresh cluster built from the dumped configuration has -/
def rebuilt (s : State) : Option Maxes := s.stored.map (fun c => newRM c.cb)
def liveMax (s : State) : Option Maxes := s.live.map (·.rm.max)
def liveCur (s : State) : Option Curs := s.live.map (·.rm.cur)

/-- observation after one step: result, live manager through the snapshot, through the first host's ClusterInfo, rebuilt thresholds -/
structure Obs where
  res : Res
  live : Option RM
  host : Option RM
  reb : Option Maxes
deriving DecidableEq, Repr

def observe (res : Res) (s : State) : Obs :=
  ⟨res, s.live.map (·.rm), s.live.bind (fun l => if l.hasHost then some l.rm else none), rebuilt s⟩

/-- observations after every step of a history -/
def trace : State → List Op → List Obs
  | _, [] => []
  | s, op :: r => observe (result s op) (step s op) :: trace (step s op) r

/-! ## the property predicate (declarative; independent of the regenerated code) -/
namespace Spec

/-- thresholds a configuration asks for, written out: the first `circuit_breakers` entry, all zero (= unlimited) without one -/
def wanted : List Maxes → Maxes
  | [] => ⟨0, 0, 0, 0⟩
  | t :: _ => ⟨t.connections, t.pendingRequests, t.requests, t.retries⟩

/-- a host reaches the same manager object as the cluster snapshot -/
def hostOk (o : Obs) : Bool :=
  match o.host with
  | none => true
  | some h => o.live == some h

/-- after an update: counters of an existing cluster of the same type are as before; a new cluster starts at zero -/
def cursOk (prev : Option (RM × Nat)) (typ : Nat) (live : Option RM) : Bool :=
  match prev, live with
  | some (p, t), some l => t != typ || l.cur == p.cur
  | none, some l => l.cur == Curs.zero
  | _, none => false

def opOk (prev : Option (RM × Nat)) (op : Op) (o : Obs) : Bool :=
  match op with
  | .update _ cfg => o.reb == some (wanted cfg.cb) && cursOk prev cfg.typ o.live
  | .remove => (o.live.isNone && o.reb.isNone) || o.res == .err
  | _ => true

/-- one step: (a) live thresholds = rebuilt thresholds (present on both sides or on neither), (b) a host reaches the same manager,
(c) after a cluster update the thresholds are those of THAT configuration — zero included —, (d) an update of an existing cluster
that keeps the cluster type leaves every counter as it was. `prev` = the live manager and cluster type before the step. -/
def stepOk (prev : Option (RM × Nat)) (op : Op) (o : Obs) : Bool :=
  (o.live.map (·.max)) == o.reb && hostOk o && opOk prev op o

/-- manager and cluster type in force after a step: the type is the one of the last update -/
def nextPrev (prev : Option (RM × Nat)) (op : Op) (live : Option RM) : Option (RM × Nat) :=
  match op, live with
  | .update _ cfg, some l => some (l, cfg.typ)
  | _, some l => prev.map (fun p => (l, p.2))
  | _, none => none

def holdsFrom : Option (RM × Nat) → List Op → List Obs → Bool
  | _, [], [] => true
  | prev, op :: ops, o :: os => stepOk prev op o && holdsFrom (nextPrev prev op o.live) ops os
  | _, _, _ => false

def holds (ops : List Op) (obs : List Obs) : Bool := holdsFrom none ops obs
end Spec

end MosnVerif.Model.ResourceUpd
