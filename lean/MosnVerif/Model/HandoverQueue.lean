import MosnVerif.Gen.HandoverQueue
/-!
# Writes of the old process while a connection is being handed over (core Lean only)

Between `notifyTransfer` and the end of the old process every `connection.Write` is diverted to `writeBufferChan`
(`writeDirectly`, branch `c.needTransfer`), and `connection.transferWrite` takes the buffers out one at a time and
forwards each to the new process.  One writer issues its writes in program order (`pending`); the schedule decides
when the writer runs (`w`) and when the forwarding loop takes one buffer (`d`); before `transferRead` has returned the
schedule simply contains no `d`.  A blocking enqueue on a full queue leaves the writer where it is (it is retried at
the writer's next turn); the select-with-timer form behaves the same as long as the timer does not fire (assumption:
the forwarding loop starts within that time); the select-with-default form gives the write up.
-/
namespace MosnVerif.Model.HandoverQueue
open MosnVerif.Gen.HandoverQueue

inductive Ev | w | d
deriving DecidableEq, Repr

structure Q (α : Type) where
  pending : List α
  queue : List α := []
  forwarded : List α := []
  dropped : List α := []

def step {α} (mode : EnqueueMode) (cap : Nat) (s : Q α) : Ev → Q α
  | .w =>
    match s.pending with
    | [] => s
    | x :: rest =>
      if s.queue.length < cap then { s with pending := rest, queue := s.queue ++ [x] }
      else match mode with
        | .dropWhenFull => { s with pending := rest, dropped := s.dropped ++ [x] }
        | _ => s
  | .d =>
    match s.queue with
    | [] => s
    | x :: q => { s with queue := q, forwarded := s.forwarded ++ [x] }

def run {α} (mode : EnqueueMode) (cap : Nat) (s : Q α) (sched : List Ev) : Q α := sched.foldl (step mode cap) s

/-- the code that exists -/
def runG {α} (ws : List α) (sched : List Ev) : Q α := run enqueueMode writeBufferCap { pending := ws } sched

/-- the harness's schedule: the writer alone while the window is open, then forwarding loop and writer in turn -/
def harnessWindow (n : Nat) : List Ev := List.replicate n .w
def harnessRest (n : Nat) : List Ev := (List.replicate (2 * n + 2) [Ev.d, Ev.w]).flatten

end MosnVerif.Model.HandoverQueue
