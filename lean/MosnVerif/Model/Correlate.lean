import MosnVerif.Model.StreamTable
import MosnVerif.Gen.StreamRestore
/-!
End-to-end request/response correlation through the proxy (C02): N exchanges share ONE downstream connection (xprotocol
server stream connection) and ONE upstream connection (xprotocol client stream connection = `StreamTable.Conn`, with the
regenerated id generators).

* a request frame arrives with the client's id `did`; the server stream keeps it (`xStream.id`, regenerated
  `serverStreamId`); the decoded request frame OBJECT (`downStream.downstreamReqHeaders`) is modelled by its request-id
  field `cell`, because the object is shared: forwarding it (`upstreamRequest.OnReady` → client `xStream.AppendHeaders`)
  rewrites the field IN PLACE with the fresh upstream id, and a later local error reply (`sendHijackReply(code,
  s.downstreamReqHeaders)`) hands the very same object to the server stream;
* where the id of a written frame comes from is REGENERATED (`Gen/StreamRestore.lean`): the `SetRequestId` calls of
  `AppendHeaders` (hijack / plain branch), `buildHijackResp`, `AppendData`, `endStream` in program order, the branch test,
  the id bolt's `Hijack` gives its reply. `writtenId` interprets them;
* upstream replies arrive in any order, with any id (duplicates, unknown, late); per-try timeouts with a retry
  (`abandon`: upstream stream reset, a later `forward` allocates a new id), local error replies (`fail`: per-try / global
  timeout, retries used up, upstream reset, no healthy host — before or after the request was forwarded), upstream
  connection reset.

`DFrame.ex` and `DFrame.via` are ghost fields (which server stream wrote the frame, through which upstream stream object
its payload came); the wire shows `id` and `pay` only.
-/
namespace MosnVerif.Model.Correlate
open MosnVerif.Model.StreamTable MosnVerif.Gen.StreamRestore MosnVerif.Gen.StreamIds

/-- the id operations of a stream on the frame it is about to write. `sid` = `xStream.id`; `req` = request id of the
frame that was handed to `AppendHeaders`; `alias`: the written frame IS that frame (plain branch), so copying the id of
the handed frame changes nothing. -/
def applyOps (alias : Bool) (sid req : Int) : Int → List IdOp → Int
  | cur, [] => cur
  | _, .setStreamId :: r => applyOps alias sid req sid r
  | cur, .copyRequestId :: r => applyOps alias sid req (if alias then cur else req) r

/-- request id on the wire of the frame a stream writes when it is handed a frame with stream type `streamType` and
current request id `frameId` (`AppendHeaders`, then `AppendData` when there is a body, then `endStream`). In the plain
branch this is also the id left behind in the handed frame object. -/
def writtenId (direction sid streamType frameId : Int) (withData : Bool) : Int :=
  let rest := headersTailOps ++ (if withData then dataOps else []) ++ endStreamOps
  if hijackBranch direction streamType then
    applyOps false sid frameId (hijackIdBolt frameId) (buildHijackOps ++ headersHijackOps ++ rest)
  else
    applyOps true sid frameId frameId (headersPlainOps ++ rest)

inductive Payload
  | ok (tok : Nat)   -- the payload of an upstream reply (its token)
  | err              -- a locally generated error reply (no payload)
  | mixed            -- (observations only) header and body disagree, or an error reply carrying a payload
  deriving DecidableEq, Repr

structure DFrame where
  ex  : Nat
  id  : Int
  pay : Payload
  via : Option Nat
  deriving DecidableEq, Repr

structure Exch where
  did  : Int := 0
  tok  : Nat := 0
  body : Bool := false
  sid  : Int := 0              -- xStream.id of the server stream
  cell : Int := 0              -- request-id field of the request frame object
  cur  : Option Nat := none    -- upstream stream object of the try in flight
  done : Bool := false         -- the server stream has written its reply
  deriving Repr

structure Sys where
  up    : Conn
  nE    : Nat := 0
  ex    : Nat → Exch := fun _ => {}
  owner : Nat → Nat := fun _ => 0        -- upstream stream object → exchange (its upstreamRequest listener)
  wire  : List (Int × Nat) := []          -- request frames written on the upstream connection: (id, token)
  down  : List DFrame := []               -- frames written on the downstream connection

inductive Ev
  | request (did : Int) (tok : Nat) (body : Bool)   -- a request frame is decoded on the downstream connection
  | forward (k : Nat)                                -- the proxy sends exchange k upstream (first try or a retry)
  | reply (id : Int) (tok : Nat) (body : Bool)       -- a response frame is decoded on the upstream connection
  | abandon (k : Nat)                                -- the try in flight is given up for a retry (upstream stream reset)
  | fail (k : Nat)                                   -- local error reply (timeout, retries used up, reset, no host)
  | connReset                                        -- the upstream connection is closed
  deriving Repr

def Sys.setEx (s : Sys) (k : Nat) (e : Exch) : Sys := { s with ex := fun j => if j = k then e else s.ex j }

/-- id of the next stream object of the upstream connection -/
def nextUid (s : Sys) : Int := (gen s.up.proto s.up.base).2

def step (s : Sys) : Ev → Sys
  | .request did tok body =>
    { s with nE := s.nE + 1,
             ex := fun j => if j = s.nE then { did := did, tok := tok, body := body, sid := serverStreamId did, cell := did } else s.ex j }
  | .forward k =>
    let e := s.ex k
    if k < s.nE ∧ e.done = false ∧ e.cur = none then
      let w := s.up.nW
      -- client xStream.AppendHeaders(request frame) [+ AppendData] + endStream on the SAME frame object
      let cell' := writtenId dirClient (nextUid s) typeRequest e.cell e.body
      { (s.setEx k { e with cell := cell', cur := some w }) with
          up := StreamTable.step s.up (.newStream false),
          owner := fun j => if j = w then k else s.owner j,
          wire := s.wire ++ [(cell', e.tok)] }
    else s
  | .reply id tok body =>
    match lookup s.up.table (responseKey id) with
    | none => s                                    -- unknown, duplicate, late: dropped by the stream table
    | some w =>
      let up' := StreamTable.step s.up (.reply (responseKey id) tok)
      let k := s.owner w
      let e := s.ex k
      -- upstreamRequest.OnReceive: ignored when the downstream is done or this try was given up
      if e.done = false ∧ e.cur = some w then
        { (s.setEx k { e with cur := none, done := true }) with
            up := up',
            down := s.down ++ [{ ex := k, id := writtenId dirServer e.sid typeResponse id body, pay := .ok tok, via := some w }] }
      else { s with up := up' }
  | .abandon k =>
    let e := s.ex k
    match e.cur with
    | some w => if k < s.nE ∧ e.done = false then
        { (s.setEx k { e with cur := none }) with up := StreamTable.step s.up (.resetStream w) } else s
    | none => s
  | .fail k =>
    let e := s.ex k
    if k < s.nE ∧ e.done = false then
      let up' := match e.cur with
        | some w => StreamTable.step s.up (.resetStream w)
        | none => s.up
      -- server xStream.AppendHeaders(the request frame object, endStream): hijack reply
      { (s.setEx k { e with cur := none, done := true }) with
          up := up',
          down := s.down ++ [{ ex := k, id := writtenId dirServer e.sid typeRequest e.cell false, pay := .err, via := none }] }
    else s
  | .connReset => { s with up := StreamTable.step s.up .connReset }

def run (s : Sys) : List Ev → Sys
  | [] => s
  | ev :: r => run (step s ev) r

def init (p : Proto) (base : Int) : Sys := { up := StreamTable.init p base }

/-- what the client sees: (request id, payload) of every frame on the downstream connection -/
def framesOf (s : Sys) : List (Int × Payload) := s.down.map (fun f => (f.id, f.pay))
/-- what the client sent: (request id, token) of every exchange -/
def reqsOf (s : Sys) : List (Int × Nat) := (List.range s.nE).map (fun k => ((s.ex k).did, (s.ex k).tok))

/-- an upstream that answers what it was asked: a reply that the table would hand to stream object `w` carries the token
of the request that went out on `w` -/
def honest (s : Sys) : Ev → Bool
  | .reply id tok _ => match lookup s.up.table (responseKey id) with
    | none => true
    | some w => tok == (s.ex (s.owner w)).tok
  | _ => true

def honestB (s : Sys) : List Ev → Bool
  | [] => true
  | ev :: r => honest s ev && honestB (step s ev) r

end MosnVerif.Model.Correlate
