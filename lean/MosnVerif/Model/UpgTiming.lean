import MosnVerif.Gen.UpgTiming
/-!
# Hot upgrade: when a long-lived connection is handed over vs. when the old process exits (core Lean only)

Times are milliseconds, unbounded `Nat`.  A MOSN process starts (`NewServer` applies the configured graceful_timeout,
`Mosn.TransferConnection` runs on every start, inherited or cold); later it is the OLD process of an upgrade:
`WaitConnectionsDone(GracefulTimeout)` arms its exit timer and closes the stop channel; every transferable connection's
read loop notices the stop within one read timeout, draws `r < randBound T`, and hands the connection over at the first
look at the clock after `transferInstant T r` — again at most one read timeout late.
-/
namespace MosnVerif.Model.UpgTiming
open MosnVerif.Gen.UpgTiming

/-- `server.GracefulTimeout` after `NewServer` with the configured value (0 = not configured) -/
def graceful (cfg : Nat) : Nat := effectiveGraceful defaultGracefulTimeoutMs cfg

/-- `network.TransferTimeout` after the start path of a process that did / did not inherit from an old MOSN -/
def transferTimeoutAfterStart (inherited : Bool) (cfg : Nat) : Nat :=
  if setOnStart inherited then setTransferTimeout defaultTransferTimeoutMs (graceful cfg) else defaultTransferTimeoutMs

/-- the latest instant (after StopConnection) at which a transferable connection is handed over: the stop is seen at
most `R` late, the expiry of the timer at most `R` late -/
def handoverLatest (T r R : Nat) : Nat := R + transferInstant T r + R

/-- the instant (after StopConnection) at which the old process exits -/
def lifetime (g R : Nat) : Nat := waitConnectionsDone g R

/-- the executable statement for one start: every possible draw of `r` lands before the exit -/
def fits (T g R : Nat) : Bool := decide (randBound T = 0 ∨ handoverLatest T (randBound T - 1) R < lifetime g R)

end MosnVerif.Model.UpgTiming
