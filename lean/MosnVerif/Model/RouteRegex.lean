/-!
# Reference semantics of the `regex` matchers of pkg/router (C04)   (core Lean only)

Every `regex` matcher of the router (variable matcher `regex`, path `regex` route, header matcher with `regex: true`,
the lone `service` regex of an RPC rule) compiles the configured text with `regexp.Compile` and asks
`(*regexp.Regexp).MatchString(value)`: the pattern may match **anywhere** in the value (unanchored) unless the pattern
itself carries `^` / `$`.

This file is a small executable matcher for the subset of RE2 syntax the generator uses:
literal characters, `\` + meta character, `.`, `^`, `$`, character classes `[a-c.]` / `[^/]`, groups `( )`,
alternation `|` (an empty branch is allowed) and the postfix operators `*` `+` `?` (one per atom).  Everything else
(`{n,m}`, `\d`, flags, lazy operators, ...) is *outside* the subset: `parseRe` answers `none` and the pattern stays an
oracle parameter.  Go's `regexp` is the black box the correspondence run compares this matcher against on every row of
every case's truth table (Drive/C04.lean `refAgrees`).
-/
namespace MosnVerif.Model.RouteRegex

abbrev Txt := List Char

inductive Re
  | eps
  | chr (c : Char)
  | any                                       -- `.`: every character but '\n'
  | cls (neg : Bool) (rs : List (Char × Char))
  | bol                                       -- `^` (no multi-line flag: beginning of the text)
  | eol                                       -- `$` (end of the text)
  | cat (a b : Re)
  | alt (a b : Re)
  | star (a : Re)
deriving Repr, Inhabited, DecidableEq

/-- the characters `regexp.QuoteMeta` escapes -/
def isMeta (c : Char) : Bool :=
  c == '\\' || c == '.' || c == '+' || c == '*' || c == '?' || c == '(' || c == ')' || c == '|' ||
  c == '[' || c == ']' || c == '{' || c == '}' || c == '^' || c == '$'

/-- a pattern without meta characters: `regexp.QuoteMeta p == p` -/
def isLiteral (p : Txt) : Bool := p.all (fun c => !isMeta c)

/-- the expression a meta-free pattern denotes: its characters in sequence -/
def lit : Txt → Re
  | [] => .eps
  | c :: r => .cat (.chr c) (lit r)

/-! ## parser -/

inductive Mode | alt | seq | atom
deriving DecidableEq, Repr

def clsBad (c : Char) : Bool := c == '\\' || c == '[' || c == ']' || c == '-' || c == '^'

/-- the items of a character class up to the closing `]`: single characters and ranges `a-c` -/
def parseClsItemsF : Nat → Txt → List (Char × Char) → Option (List (Char × Char) × Txt)
  | 0, _, _ => none
  | _, [], _ => none
  | f + 1, a :: r, acc =>
    if a = ']' then (if acc.isEmpty then none else some (acc.reverse, r))
    else if clsBad a then none
    else match r with
      | '-' :: b :: r' =>
        if clsBad b then none else if a ≤ b then parseClsItemsF f r' ((a, b) :: acc) else none
      | _ => parseClsItemsF f r ((a, a) :: acc)

def parseClsItems (s : Txt) (acc : List (Char × Char)) : Option (List (Char × Char) × Txt) :=
  parseClsItemsF (s.length + 1) s acc

def isRep (c : Char) : Bool := c == '*' || c == '+' || c == '?'

def isAnchor : Re → Bool
  | .bol => true
  | .eol => true
  | _ => false

def applyRep (c : Char) (a : Re) : Re :=
  if c = '*' then .star a else if c = '+' then .cat a (.star a) else .alt a .eps

/-- an optional postfix operator after the atom `a` -/
def postOp (a : Re) (r : Txt) : Option (Re × Txt) :=
  match r with
  | [] => some (a, [])
  | c :: r' =>
    if !isMeta c then some (a, r)
    else if isRep c then
      if isAnchor a then none
      else match r' with
        | d :: _ => if isRep d || d == '{' then none else some (applyRep c a, r')
        | [] => some (applyRep c a, r')
    else if c == '{' then none
    else some (a, r)

/-- recursive descent with fuel: `alt` = seq ('|' seq)*, `seq` = (atom postfix?)* up to `|` / `)` / the end -/
def parse : Nat → Mode → Txt → Option (Re × Txt)
  | 0, _, _ => none
  | f + 1, .alt, s =>
    match parse f .seq s with
    | some (a, c :: r) =>
      if c = '|' then (match parse f .alt r with
        | some (b, r') => some (.alt a b, r')
        | none => none)
      else some (a, c :: r)
    | x => x
  | f + 1, .seq, s =>
    match s with
    | [] => some (.eps, [])
    | c :: r =>
      if isMeta c && (c == '|' || c == ')') then some (.eps, c :: r)
      else match parse f .atom (c :: r) with
        | none => none
        | some (a, r1) =>
          match postOp a r1 with
          | none => none
          | some (a', r2) =>
            match parse f .seq r2 with
            | none => none
            | some (b, r3) => some (.cat a' b, r3)
  | f + 1, .atom, s =>
    match s with
    | [] => none
    | c :: r =>
      if !isMeta c then some (.chr c, r)
      else if c == '.' then some (.any, r)
      else if c == '^' then some (.bol, r)
      else if c == '$' then some (.eol, r)
      else if c == '\\' then
        (match r with
         | d :: r' => if isMeta d then some (.chr d, r') else none
         | [] => none)
      else if c == '[' then
        (match r with
         | '^' :: r' => (parseClsItems r' []).map (fun x => (.cls true x.1, x.2))
         | _ => (parseClsItems r []).map (fun x => (.cls false x.1, x.2)))
      else if c == '(' then
        (match parse f .alt r with
         | some (a, d :: r') => if d = ')' then some (a, r') else none
         | _ => none)
      else none

/-- the expression of a pattern inside the subset (`none`: outside, or not a valid pattern) -/
def parseRe (p : Txt) : Option Re :=
  match parse (3 * p.length + 3) .alt p with
  | some (re, []) => some re
  | _ => none

/-! ## matcher: the set of remainders after a match that starts at the remainder `t` of a text of length `n` -/

def inCls (rs : List (Char × Char)) (c : Char) : Bool := rs.any (fun r => decide (r.1 ≤ c) && decide (c ≤ r.2))

/-- reflexive-transitive closure of `step` from the remainders `acc` (at most `n + 1` remainders exist) -/
def closure (step : Txt → List Txt) : Nat → List Txt → List Txt
  | 0, acc => acc
  | fuel + 1, acc =>
    let new := ((acc.flatMap step).filter (fun t => !acc.contains t)).eraseDups
    if new.isEmpty then acc else closure step fuel (acc ++ new)

def ends (n : Nat) : Re → Txt → List Txt
  | .eps, t => [t]
  | .chr c, t => (match t with | d :: t' => if d = c then [t'] else [] | [] => [])
  | .any, t => (match t with | d :: t' => if d = '\n' then [] else [t'] | [] => [])
  | .cls neg rs, t => (match t with | d :: t' => if inCls rs d != neg then [t'] else [] | [] => [])
  | .bol, t => if t.length = n then [t] else []
  | .eol, t => if t.isEmpty then [t] else []
  | .cat a b, t => (ends n a t).flatMap (ends n b)
  | .alt a b, t => ends n a t ++ ends n b t
  | .star a, t => closure (ends n a) (n + 2) [t]

/-- all suffixes of a text, the text itself first -/
def sufs : Txt → List Txt
  | [] => [[]]
  | c :: r => (c :: r) :: sufs r

/-- `regexp.MatchString`: the expression matches somewhere in the text -/
def matchesRe (re : Re) (v : Txt) : Bool := (sufs v).any (fun t => !(ends v.length re t).isEmpty)

/-- `regexp.MustCompile(p).MatchString(v)` for a pattern of the subset (`none` outside) -/
def matchString (p v : Txt) : Option Bool := (parseRe p).map (fun re => matchesRe re v)

end MosnVerif.Model.RouteRegex

namespace MosnVerif.Model.RouteRegex

/-- the **reference oracle**: a pattern whose text (`pats id`) is inside the subset is matched by `matchesRe`, every
other pattern stays the oracle parameter `rx` -/
def refRx (pats : Nat → Option Txt) (rx : Nat → Txt → Bool) : Nat → Txt → Bool :=
  fun id s => match (pats id).bind parseRe with
    | some re => matchesRe re s
    | none => rx id s

end MosnVerif.Model.RouteRegex
