/-!
Declarative reference for the `vht` cases of property C12 (lookups of one virtual host concurrent with the single-route updates
`RemoveAllRoutes; AddRoute new₀; …; AddRoute newₖ₋₁`): independent of every regenerated module and of the thread machine of
`Model/VhostTable.lean` — plain lists only.
-/
namespace MosnVerif.Model.VhostSpec

/-- a route of the harness: its cluster name, whether it is an RPC rule with exactly one EXACT header matcher on `q` (then it is
filed in the fast index under that value and `set` is that one value), and the request tokens it matches -/
structure R where
  id : String
  exact : Bool
  set : List Nat
deriving Repr, DecidableEq

def R.mt (q : Nat) (r : R) : Bool := r.set.contains q
def R.key (r : R) : Option Nat := if r.exact then r.set.head? else none

/-- `MatchRoute`: the first matching route -/
def firstOf (T : List R) (q : Nat) : List String := ((T.filter (R.mt q)).take 1).map (·.id)
/-- `MatchAllRoutes`: every matching route, in table order -/
def allOf (T : List R) (q : Nat) : List String := (T.filter (R.mt q)).map (·.id)
/-- `MatchRouteFromHeaderKV("q", q)`: the LAST route filed under that value -/
def kvOf (T : List R) (q : Nat) : List String := ((T.filter (fun r => r.key == some q)).getLast?).toList.map (·.id)

def ansOf (first : Bool) (T : List R) (q : Nat) : List String := if first then firstOf T q else allOf T q

/-- the table as it stands between two complete writer calls: `old`, then `[]`, `[new₀]`, …, `new` -/
def tables (old new : List R) : List (List R) := old :: (List.range (new.length + 1)).map (fun j => new.take j)

/-- a lookup concurrent with the history answers from ONE of those tables -/
def ansAllowed (old new : List R) (first : Bool) (q : Nat) (ans : List String) : Bool :=
  (tables old new).any (fun T => ansOf first T q == ans)

/-- the request tokens of the harness -/
def tokens : List Nat := [0, 1, 2, 3]

def dash (l : List String) : String := if l.isEmpty then "-" else "+".intercalate l

/-- what the harness prints for one table: per request token `first;all;kv` -/
def obsOf (T : List R) : String :=
  ",".intercalate (tokens.map (fun q => dash (firstOf T q) ++ ";" ++ dash (allOf T q) ++ ";" ++ dash (kvOf T q)))

end MosnVerif.Model.VhostSpec
