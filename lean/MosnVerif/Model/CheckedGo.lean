/-!
# Checked-access target language of the statement translator `extract/gen_c08p10.go` (C08)

Go functions over byte slices (protocol matchers, HTTP/2 frame payload parsers) are regenerated as Lean terms of type
`Chk α`: every index expression `b[i]`, slice expression `b[lo:hi]` and `binary.BigEndian.UintNN(b)` of the Go source
is one of the CHECKED primitives below, which answer `oob` (Go: run-time panic `index / slice bounds out of range`) when
the access leaves `[0, len b)` resp. `0 ≤ lo ≤ hi ≤ len b`.  The check is against the LENGTH of the slice; Go checks
slice expressions against the capacity, so the model is at least as strict as the runtime (an access between length and
capacity is a read of bytes that were not received).

Integers are unbounded `Int` (Go `int` is 64-bit; all values here are lengths, bytes and 32-bit fields).
Core Lean only.
-/
namespace MosnVerif.Model.CheckedGo

abbrev Bytes := List UInt8

/-- result of a checked computation: a value, or a Go run-time panic (index / slice bounds out of range) -/
inductive Chk (α : Type) where
  | ok (a : α) : Chk α
  | oob : Chk α
deriving Repr, DecidableEq

def Chk.bind {α β : Type} (x : Chk α) (f : α → Chk β) : Chk β :=
  match x with
  | .ok a => f a
  | .oob => .oob

def Chk.isOob {α : Type} : Chk α → Bool
  | .oob => true
  | .ok _ => false

/-- `len(b)` -/
def len (b : Bytes) : Int := (b.length : Int)

/-- the bytes `b[lo:hi]` (meaningful for `0 ≤ lo ≤ hi ≤ len b`) -/
def sub (b : Bytes) (lo hi : Int) : Bytes := (b.take hi.toNat).drop lo.toNat

/-- the byte `b[i]` (meaningful for `0 ≤ i < len b`) -/
def byteAt (b : Bytes) (i : Int) : Int := ((b.getD i.toNat 0).toNat : Int)

/-- `b[i]` -/
def idx (b : Bytes) (i : Int) : Chk Int :=
  if 0 ≤ i ∧ i < len b then .ok (byteAt b i) else .oob

/-- `b[lo:hi]` (omitted bounds are rendered as `0` / `len b`) -/
def slc (b : Bytes) (lo hi : Int) : Chk Bytes :=
  if 0 ≤ lo ∧ lo ≤ hi ∧ hi ≤ len b then .ok (sub b lo hi) else .oob

def beNat (s : Bytes) : Nat := s.foldl (fun acc x => acc * 256 + x.toNat) 0

/-- the big-endian value of the first `n` bytes -/
def beVal (n : Nat) (b : Bytes) : Int := (beNat (b.take n) : Int)

/-- `binary.BigEndian.Uint16/32/64(b)` (`n` = 2 / 4 / 8): panics unless `len(b) ≥ n` (`_ = b[n-1]`), reads the first `n` bytes -/
def beU (n : Nat) (b : Bytes) : Chk Int :=
  if (n : Int) ≤ len b then .ok (beVal n b) else .oob

/-- bit operations of unsigned Go values (all operands here are non-negative) -/
def land (a b : Int) : Int := (Nat.land a.toNat b.toNat : Nat)
def lor (a b : Int) : Int := (Nat.lor a.toNat b.toNat : Nat)
def lxor (a b : Int) : Int := (Nat.xor a.toNat b.toNat : Nat)
def shl (a k : Int) : Int := (a.toNat <<< k.toNat : Nat)
def shr (a k : Int) : Int := (a.toNat >>> k.toNat : Nat)

def cmpBytes : Bytes → Bytes → Int
  | [], [] => 0
  | [], _ :: _ => -1
  | _ :: _, [] => 1
  | x :: xs, y :: ys => if x < y then -1 else if y < x then 1 else cmpBytes xs ys

/-- `bytes.Compare` -/
def bytesCompare (a b : Bytes) : Int := cmpBytes a b

/-- `bytes.Equal` -/
def bytesEqual (a b : Bytes) : Bool := decide (a = b)

/-- comma-ok lookup in a `map[string]struct{}` literal -/
def mapHas (keys : List Bytes) (k : Bytes) : Bool := keys.contains k

/-- `copy(dst, src)` into a fixed-size destination: min(len dst, len src) bytes -/
def copyInto (dst src : Bytes) : Bytes := src.take dst.length ++ dst.drop src.length

/-- `for i := lo; i < hi; i++ { body }` where the body does not assign `i`, the bound or any variable declared outside:
`body i next` either returns or continues with `next ()`; `after ()` is what follows the loop -/
def forRange {α : Type} (lo hi : Int) (body : Int → (Unit → Chk α) → Chk α) (after : Unit → Chk α) : Chk α :=
  go (hi - lo).toNat lo
where
  go : Nat → Int → Chk α
    | 0, _ => after ()
    | n + 1, i => body i (fun _ => go n (i + 1))

/-- `for cond { body }` with the loop state `σ` (the outer variables the body assigns): `body s next` returns or goes on
with `next s'`; `after s` is what follows the loop; `fuel` bounds the iterations — running out answers `oob`, which the
safety theorems show unreachable (the loops translated here consume their input) -/
def whileLoop {σ α : Type} (cond : σ → Bool) (body : σ → (σ → Chk α) → Chk α) (after : σ → Chk α) : Nat → σ → Chk α
  | 0, _ => .oob
  | n + 1, s => if cond s then body s (fun s' => whileLoop cond body after n s') else after s

/-- Go `error` values of the translated functions -/
inductive Err where
  | nil
  | eof                      -- io.ErrUnexpectedEOF
  | again                    -- stream.EAGAIN
  | failed                   -- stream.FAILED
  | conn (code : Int)        -- ConnectionError / connError
  | stream (code : Int)      -- StreamError
  | other
deriving Repr, DecidableEq

instance : Inhabited Err := ⟨.nil⟩

/-- `api.MatchResult` -/
inductive MR where
  | failed | success | again
deriving Repr, DecidableEq

/-- `http2.FrameHeader` -/
structure FH where
  Length : Int
  Typ : Int
  Flags : Int
  StreamID : Int
deriving Repr, DecidableEq

/-- a parsed frame as the translated parsers deliver it: `isNil` (Go: `nil`), the `[]byte` fields and the integer /
boolean fields of the frame struct (flattened, each list in alphabetical order of the Go field path; the embedded
`FrameHeader` is left out) -/
structure Frm where
  isNil : Bool
  bs : List Bytes
  vs : List Int
deriving Repr, DecidableEq

def Frm.nil : Frm := ⟨true, [], []⟩

def b2i (b : Bool) : Int := if b then 1 else 0

end MosnVerif.Model.CheckedGo
