/-!
Byte-string helpers shared by the C01 codec models (core Lean only).

`be w n` is what `IoBuffer.WriteUint16/32/64` and `binary.BigEndian.PutUintNN` write (the value modulo `256^w`,
most significant byte first); `getBE b lo hi` is `binary.BigEndian.UintNN(b[lo:hi])`; `patch b off v` is the in-place
overwrite `copy(b[off:], v)` of the encoders' fast paths.
-/
namespace MosnVerif.Model

abbrev Bytes := List UInt8

namespace Bytes

/-- big-endian encoding of `n mod 256^w` on exactly `w` bytes -/
def be : Nat → Nat → Bytes
  | 0, _ => []
  | w + 1, n => UInt8.ofNat (n / 256 ^ w) :: be w n

/-- big-endian value of a byte string -/
def toNat (b : Bytes) : Nat := b.foldl (fun acc x => acc * 256 + x.toNat) 0

/-- Go `b[lo:hi]` (total: out-of-range parts are cut; the models test the lengths before they slice) -/
def slice (b : Bytes) (lo hi : Nat) : Bytes := (b.take hi).drop lo

/-- `binary.BigEndian.UintNN(b[lo:hi])` -/
def getBE (b : Bytes) (lo hi : Nat) : Nat := toNat (slice b lo hi)

/-- the byte at index `i` as a number (0 when out of range; callers test the length first) -/
def byteAt (b : Bytes) (i : Nat) : Nat := (b.getD i 0).toNat

/-- overwrite `v.length` bytes of `b` starting at `off` (Go: `copy(b[off:], v)` with `off + len(v) ≤ len(b)`) -/
def patch (b : Bytes) (off : Nat) (v : Bytes) : Bytes := b.take off ++ v ++ b.drop (off + v.length)

/-- outcome of one decode attempt on the bytes buffered so far -/
inductive Step (α : Type) where
  | needMore                    -- `nil, nil`: nothing consumed
  | frame (f : α) (n : Nat)     -- a frame, `n` bytes consumed
  | error                       -- decode error returned
  | panic                       -- the Go code indexes out of range (recovered by the caller, if at all)
  deriving Repr

end Bytes
end MosnVerif.Model
