import MosnVerif.Gen.TransferLookup
import MosnVerif.Model.Transfer
/-!
Hot upgrade, the NEW process: which listener adopts a handed-over connection (`transferNewConn` ->
`transferFindListen` -> `connHandler.FindListenerByAddress`, `pkg/network/transfer.go`, `pkg/server/handler.go`).

A listener is what `FindListenerByAddress` compares: `Addr().Network()` and `Addr().String()`.  The local address of the
handed-over connection is what `transferFindListen` uses of it: its kind (`*net.TCPAddr` / `*net.UnixAddr`), `Network()`,
`String()`, the decimal port and `IP.To4() != nil`.  The ORDER of the candidate strings, their literal forms
(`"0.0.0.0:"`, `"[::]:"`) and the comparison are regenerated (`Gen.TransferLookup`); nothing here knows them.

Hand-modelled (validated by the correspondence run on real sockets): `net.ResolveTCPAddr("tcp", s).String() = s` for the
literal wildcard forms; the local address of a connection accepted through a wildcard socket prints as the concrete IP
(an IPv4 peer of a dual-stack `[::]` socket prints as `127.0.0.1:port` and is `To4() != nil`).
-/
namespace MosnVerif.Model.TransferLookup
open MosnVerif.Gen.TransferLookup

structure Lst where
  network : String     -- `Addr().Network()`
  addr : String        -- `Addr().String()`
deriving DecidableEq, Repr

structure Local where
  unix : Bool          -- `*net.UnixAddr` (otherwise `*net.TCPAddr`)
  network : String     -- `Network()`
  str : String         -- `String()`
  port : String        -- decimal port (TCP)
  v4 : Bool            -- `IP.To4() != nil` (TCP)
deriving DecidableEq, Repr

/-- the address strings tried, in order, for a local address under a candidate rule -/
abbrev Rule := Local → List String

/-- the regenerated rule of `transferFindListen` -/
def candidates : Rule := fun a => if a.unix then unixCandidates a.str else tcpCandidates a.str a.v4 a.port

/-- `handler.FindListenerByAddress`: first listener with the same network and the same address string -/
def findByAddress (ls : List Lst) (net addr : String) : Option Lst :=
  ls.find? (fun l => findMatches l.network l.addr net addr)

/-- `transferFindListen` under a candidate rule: the first candidate for which a listener exists -/
def findWith (rule : Rule) (ls : List Lst) (a : Local) : Option Lst :=
  (rule a).findSome? (fun s => findByAddress ls a.network s)

def find (ls : List Lst) (a : Local) : Option Lst := findWith candidates ls a

/-- position of the listener found (what the driver compares with the implementation) -/
def findIdx (ls : List Lst) (a : Local) : Option Nat :=
  (find ls a).bind (fun l => ls.findIdx? (· == l))

/-! the declarative side: which listeners can have accepted a connection with that local address -/

def v4wild (a : Local) : String := "0.0.0.0:" ++ a.port
def v6wild (a : Local) : String := "[::]:" ++ a.port

/-- `L` can have accepted the connection / may serve it: same network and either configured on exactly the connection's
local address, or (TCP) on the IPv4 or the IPv6 wildcard of its port.  BOTH wildcards accept BOTH families: Go's
`net.Listen("tcp", "0.0.0.0:p")` — what `listener.listen` calls — opens a dual-stack socket just like `"[::]:p"` (observed
on every run: an IPv6 client reaches a listener configured on `0.0.0.0`), and an IPv4 peer of such a socket has an
IPv4 local address (`127.0.0.1:p`, `To4() != nil`). -/
def accepted (L : Lst) (a : Local) : Prop :=
  L.network = a.network ∧ (L.addr = a.str ∨ (a.unix = false ∧ (L.addr = v4wild a ∨ L.addr = v6wild a)))

instance (L : Lst) (a : Local) : Decidable (accepted L a) := by unfold accepted; exact inferInstance

/-- the rule "one wildcard, chosen by the address family of the connection" (not MOSN's; kept for the witness) -/
def singleWildcard : Rule := fun a => if a.unix then [a.str] else [a.str, if a.v4 then v4wild a else v6wild a]

/-- the new process's side of the hand-over of one connection: the adopting listener and what the new connection starts
with (`none`: no listener, the id answered is `transferErr`, the connection is lost) -/
def adopt (ls : List Lst) (a : Local) (buffered tls : Transfer.Bytes) : Option (Lst × Transfer.Bytes × Transfer.Bytes) :=
  match find ls a with
  | none => none
  | some l => (Transfer.handover buffered tls).map (fun p => (l, p.1, p.2))

/-- the id the old process receives (`newId` = id of the connection created by the new process) -/
def answeredId (ls : List Lst) (a : Local) (newId : Nat) : Nat :=
  match find ls a with
  | some _ => newId
  | none => if noListenerAnswersErr then Gen.Transfer.transferErr else newId

end MosnVerif.Model.TransferLookup
