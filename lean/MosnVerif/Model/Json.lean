/-!
JSON value tree shared by C19 (config codec round trip) and C20 (content of untyped config holes), with a parser
and a canonical printer for the `mosnmodel` driver.  Core Lean only.

Numbers are kept as their literal text (no float arithmetic is ever needed); object members are an association
list in document order (Go maps iterate in random order: everything the models compute from an object is
order-independent or sorted by the driver).
-/
namespace MosnVerif.Model

inductive Json where
  | null
  | bool (b : Bool)
  | num (lit : String)
  | str (s : String)
  | arr (xs : List Json)
  | obj (kvs : List (String × Json))
  deriving Repr, Inhabited

namespace Json

mutual
def beq : Json → Json → Bool
  | .null, .null => true
  | .bool a, .bool b => a == b
  | .num a, .num b => a == b
  | .str a, .str b => a == b
  | .arr a, .arr b => beqL a b
  | .obj a, .obj b => beqO a b
  | _, _ => false
def beqL : List Json → List Json → Bool
  | [], [] => true
  | x :: r, y :: s => beq x y && beqL r s
  | _, _ => false
def beqO : List (String × Json) → List (String × Json) → Bool
  | [], [] => true
  | (k, x) :: r, (l, y) :: s => k == l && beq x y && beqO r s
  | _, _ => false
end

instance : BEq Json := ⟨beq⟩

/-! ## printer (compact, members in list order) -/

def hexDigit (n : Nat) : Char :=
  if n < 10 then Char.ofNat (n + 48) else Char.ofNat (n - 10 + 97)

def escapeChar (c : Char) : String :=
  if c == '"' then "\\\"" else if c == '\\' then "\\\\"
  else if c == '\n' then "\\n" else if c == '\r' then "\\r" else if c == '\t' then "\\t"
  else if c.toNat < 32 then
    "\\u00" ++ String.singleton (hexDigit (c.toNat / 16)) ++ String.singleton (hexDigit (c.toNat % 16))
  else String.singleton c

def quote (s : String) : String :=
  "\"" ++ String.join (s.toList.map escapeChar) ++ "\""

mutual
def render : Json → String
  | .null => "null"
  | .bool b => if b then "true" else "false"
  | .num l => l
  | .str s => quote s
  | .arr xs => "[" ++ ",".intercalate (renderL xs) ++ "]"
  | .obj kvs => "{" ++ ",".intercalate (renderO kvs) ++ "}"
def renderL : List Json → List String
  | [] => []
  | x :: r => render x :: renderL r
def renderO : List (String × Json) → List String
  | [] => []
  | (k, v) :: r => (quote k ++ ":" ++ render v) :: renderO r
end

/-! ## parser (fuel = input length; rejects trailing garbage) -/

def isWs (c : Char) : Bool := c == ' ' || c == '\n' || c == '\t' || c == '\r'

def skipWs : List Char → List Char
  | c :: r => if isWs c then skipWs r else c :: r
  | [] => []

def hexVal (c : Char) : Option Nat :=
  if '0' ≤ c ∧ c ≤ '9' then some (c.toNat - 48)
  else if 'a' ≤ c ∧ c ≤ 'f' then some (c.toNat - 87)
  else if 'A' ≤ c ∧ c ≤ 'F' then some (c.toNat - 55)
  else none

/-- parse the body of a string literal after the opening quote -/
def parseStrBody : List Char → List Char → Option (String × List Char)
  | '"' :: r, acc => some (String.ofList acc.reverse, r)
  | '\\' :: 'u' :: a :: b :: c :: d :: r, acc =>
    match hexVal a, hexVal b, hexVal c, hexVal d with
    | some a, some b, some c, some d => parseStrBody r (Char.ofNat (((a * 16 + b) * 16 + c) * 16 + d) :: acc)
    | _, _, _, _ => none
  | '\\' :: e :: r, acc =>
    let c := if e == 'n' then '\n' else if e == 't' then '\t' else if e == 'r' then '\r'
             else if e == 'b' then Char.ofNat 8 else if e == 'f' then Char.ofNat 12 else e
    parseStrBody r (c :: acc)
  | c :: r, acc => parseStrBody r (c :: acc)
  | [], _ => none

def isNumChar (c : Char) : Bool :=
  ('0' ≤ c && c ≤ '9') || c == '-' || c == '+' || c == '.' || c == 'e' || c == 'E'

def spanNum : List Char → List Char → List Char × List Char
  | c :: r, acc => if isNumChar c then spanNum r (c :: acc) else (acc.reverse, c :: r)
  | [], acc => (acc.reverse, [])

mutual
def parseVal : Nat → List Char → Option (Json × List Char)
  | 0, _ => none
  | fuel + 1, cs =>
    match skipWs cs with
    | 'n' :: 'u' :: 'l' :: 'l' :: r => some (.null, r)
    | 't' :: 'r' :: 'u' :: 'e' :: r => some (.bool true, r)
    | 'f' :: 'a' :: 'l' :: 's' :: 'e' :: r => some (.bool false, r)
    | '"' :: r => (parseStrBody r []).map (fun (s, r) => (.str s, r))
    | '[' :: r =>
      match skipWs r with
      | ']' :: r => some (.arr [], r)
      | r => (parseElems fuel r []).map (fun (xs, r) => (.arr xs, r))
    | '{' :: r =>
      match skipWs r with
      | '}' :: r => some (.obj [], r)
      | r => (parseMembers fuel r []).map (fun (kvs, r) => (.obj kvs, r))
    | c :: r =>
      if isNumChar c then
        let (n, r') := spanNum (c :: r) []
        some (.num (String.ofList n), r')
      else none
    | [] => none
def parseElems : Nat → List Char → List Json → Option (List Json × List Char)
  | 0, _, _ => none
  | fuel + 1, cs, acc =>
    match parseVal fuel cs with
    | none => none
    | some (v, r) =>
      match skipWs r with
      | ',' :: r => parseElems fuel r (v :: acc)
      | ']' :: r => some ((v :: acc).reverse, r)
      | _ => none
def parseMembers : Nat → List Char → List (String × Json) → Option (List (String × Json) × List Char)
  | 0, _, _ => none
  | fuel + 1, cs, acc =>
    match skipWs cs with
    | '"' :: r =>
      match parseStrBody r [] with
      | none => none
      | some (k, r) =>
        match skipWs r with
        | ':' :: r =>
          match parseVal fuel r with
          | none => none
          | some (v, r) =>
            match skipWs r with
            | ',' :: r => parseMembers fuel r ((k, v) :: acc)
            | '}' :: r => some (((k, v) :: acc).reverse, r)
            | _ => none
        | _ => none
    | _ => none
end

def parse (s : String) : Option Json :=
  let cs := s.toList
  match parseVal (cs.length + 1) cs with
  | some (v, r) => if (skipWs r).isEmpty then some v else none
  | none => none

end Json
end MosnVerif.Model
