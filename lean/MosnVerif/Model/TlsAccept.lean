import MosnVerif.Gen.TlsAccept
import MosnVerif.Gen.TlsConnect
import MosnVerif.Gen.TlsPolicy
/-!
Model of the accept path of pkg/server/handler.go from the raw accept to `newConnection`, with `use_original_dst`:

  OnAccept(useOriginalDst) ─ TLS block (guard REGENERATED: `acceptWrapGuard`; the block: Gen.TlsConnect.acceptDecision)
    └ listener filters; with useOriginalDst the original-dst filter is appended (`acceptAddsOrigDst`) and answers
      (`origDstFilter`): Continue ⇒ `chainEnd`;  hand-over ⇒ UseOriginalDst (`useOriginalDstNext`):
        a listener matches ip:port ⇒ …, the fallback-ip listener of the port ⇒ …, nothing ⇒ … (each: accepted again with
        a flag, or served as it is)

All five pieces are regenerated (`Gen/TlsAccept.lean`); hand-written here: how they compose, and the events of a path
(`wrap t` = `t.tlsMng.Conn(rawc)` was called and its result kept, `serve t` = `t.newConnection`). Listeners are named
absolutely: A = `.self` (the listener that accepted the socket), B = `.matched`, C = `.localFallback`.
Assumptions: no other listener filter answers Stop; no listener has the empty ip / port 0 (a hand-over without original
destination matches nobody). Core Lean only.
-/
namespace MosnVerif.Model.TlsAccept
open MosnVerif.Gen.TlsAccept MosnVerif.Gen.TlsConnect MosnVerif.Gen.TlsPolicy

inductive Ev where
  | wrap (t : Target)     -- t.tlsMng.Conn(rawc) ran, rawc = its result
  | closed (t : Target)   -- t.tlsMng.Conn failed: the connection is closed
  | serve (t : Target)    -- t.newConnection(ctx, rawc)
  | dropped               -- nobody serves or closes the connection
  deriving DecidableEq, Repr

structure Env where
  mng : Target → Bool        -- al.tlsMng ≠ nil
  mngErr : Target → Bool     -- al.tlsMng.Conn(rawc) returns an error
  transferred : Bool         -- ch ≠ nil: the connection was handed over by the old process
  lookupOk : Bool            -- the original destination can be read
  isTCP : Bool
  matched : Bool             -- a listener with that ip:port exists (B)
  localMatched : Bool        -- a listener on the fallback ip with that port exists (C)

/-- `arc.activeListener` of a raw connection owned by `cur` -/
def resolve (cur : Target) : Target → Target
  | .self => cur
  | t => t

/-- the path of one connection: `cur.OnAccept(rawc, useOrig, …)` with fuel (a hand-over may accept again) -/
def accept (e : Env) : Nat → Target → Bool → List Ev
  | 0, _, _ => [.dropped]
  | n + 1, cur, useOrig =>
    let d := if acceptWrapGuard useOrig then acceptDecision (e.mng cur) e.transferred (e.mngErr cur) else Accept.serveRaw
    match d with
    | .closed => [.closed cur]
    | d =>
      let pre := if d == .serveMng then [Ev.wrap cur] else []
      let next : Option Next :=
        if acceptAddsOrigDst useOrig then
          match origDstFilter true e.lookupOk e.isTCP with
          | .continue => some chainEnd
          | .stop => none
          | .redirect addrSet => some (useOriginalDstNext (addrSet && e.matched) (addrSet && e.localMatched))
        else some chainEnd
      match next with
      | none => pre ++ [.dropped]
      | some (.serve t) => pre ++ [.serve (resolve cur t)]
      | some (.reaccept t fl) => pre ++ accept e n (resolve cur t) fl

/-- the listeners whose tlsMng.Conn the connection went through, in order -/
def wraps : List Ev → List Target
  | [] => []
  | .wrap t :: r => t :: wraps r
  | _ :: r => wraps r

/-! ### Spec (declarative) -/

/-- the listener that must own the connection -/
def specOwner (useOrig lookupOk matched localMatched : Bool) : Target :=
  if useOrig && lookupOk && matched then .matched
  else if useOrig && lookupOk && localMatched then .localFallback
  else .self

/-- a listener of the differential run: its echo mark, whether it has (ready) TLS contexts, its inspector flag -/
structure LCfg where
  mark : String
  tls : Bool
  insp : Bool
  deriving DecidableEq, Repr

/-- what a plaintext client (first byte `first`) and a TLS client must see on a listener -/
def specObs (o : LCfg) (first : Nat) : String × String :=
  if o.tls then
    (if o.insp && first != 22 then s!"plain.{o.mark}" else "refused", s!"tls.{o.mark}.{o.mark}")
  else (s!"plain.{o.mark}", "fail")

/-- the model's observation: the policy applied is that of the FIRST listener whose tlsMng.Conn ran (none: raw socket),
the application data is answered by the serving listener -/
def obs (ls : Target → LCfg) (tr : List Ev) (first : Nat) : String × String :=
  match tr.getLast? with
  | some (.serve t) =>
    match wraps tr with
    | [] => (s!"plain.{(ls t).mark}", "fail")
    | u :: _ =>
      let pl := match connDecision true (ls u).tls (ls u).insp false first with
        | .raw => true | .plainPeeked => true | _ => false
      let tl := match connDecision true (ls u).tls (ls u).insp false 22 with
        | .tls => true | .tlsPeeked => true | _ => false
      (if pl then s!"plain.{(ls t).mark}" else "refused", if tl then s!"tls.{(ls u).mark}.{(ls t).mark}" else "fail")
  | _ => ("refused", "fail")

end MosnVerif.Model.TlsAccept
