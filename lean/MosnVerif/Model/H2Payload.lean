import MosnVerif.Gen.H2Payload
import MosnVerif.Model.H2Frame
/-!
Frame payload codecs of pkg/module/http2 for EVERY frame type.

* `parsePayload h p` is `typeFrameParser(h.type)(fc, h, p)`: the dispatch is the regenerated `frameParsers` map, every guard,
  error class / code, mask, slice bound and field expression of `parse*Frame` is a regenerated `Gen.H2Payload.p*` definition,
  composed in the order of the code (the extractor checks the statement skeleton).  DATA / HEADERS use the arithmetic of
  `Model.H2Frame` (`Gen.H2Frame`).
* `Frame.write` is `Framer.Write*` (frame.go) — refusal conditions, frame type, flag byte, stream id and payload byte layout are
  the regenerated `Gen.H2Payload.w*` definitions (symbolic execution of the bodies); `Frame.mwrite` is the writer MOSN's
  connections actually use for that frame (`MFramer.write*` / the frames `MServerConn` / `MClientConn` write in line).
* `rfcViolations` is the declarative table of RFC 7540 §6 (written from the RFC, not from the code).
-/
namespace MosnVerif.Model.H2Payload
open MosnVerif.Gen.H2Payload
open MosnVerif.Model.H2Frame (FrameHeader Priority Bytes)

inductive PErr
  | conn (code : Nat)            -- ConnectionError / connError
  | stream (sid code : Nat)      -- StreamError
  | short                        -- io.ErrUnexpectedEOF from readByte / readUint32
  deriving DecidableEq, Repr

inductive Body
  | data (d : Bytes)
  | headers (prio : Option Priority) (frag : Bytes)
  | priority (p : Priority)
  | rst (code : Nat)
  | settings (ss : List (Nat × Nat))
  | pushPromise (promised : Nat) (frag : Bytes)
  | ping (data : Bytes)
  | goAway (last code : Nat) (debug : Bytes)
  | windowUpdate (inc : Nat)
  | continuation (frag : Bytes)
  | unknown (payload : Bytes)
  deriving DecidableEq, Repr

/-! ### parsers -/

/-- `SettingsFrame.Setting(i)` -/
def settingAt (p : Bytes) (i : Nat) : Nat × Nat :=
  (be16 ((p.drop (setIdLo i)).take (setIdHi i - setIdLo i)), be32 ((p.drop (setValLo i)).take (setValHi i - setValLo i)))

def settingsOf (p : Bytes) : List (Nat × Nat) := (List.range (numSettings p)).map (settingAt p)

/-- `SettingsFrame.Value(id)`: the FIRST setting with that identifier -/
def settingValue (p : Bytes) (id : Nat) : Nat × Bool :=
  match (settingsOf p).find? (fun s => s.1 == id) with
  | some s => (s.2, true)
  | none => (0, false)

def parseSettings (h : FrameHeader) (p : Bytes) : Except PErr Body :=
  if pSettingsAckLen h.flags h.streamID h.length p then .error (.conn pSettingsAckLenCode)
  else if pSettingsSid h.flags h.streamID h.length p then .error (.conn pSettingsSidCode)
  else if pSettingsMod h.flags h.streamID h.length p then .error (.conn pSettingsModCode)
  else if pSettingsWinBad (settingValue p pSettingsWinId).1 (settingValue p pSettingsWinId).2 then .error (.conn pSettingsWinCode)
  else .ok (.settings (settingsOf p))

def parsePing (h : FrameHeader) (p : Bytes) : Except PErr Body :=
  if pPingLen h.flags h.streamID h.length p then .error (.conn pPingLenCode)
  else if pPingSid h.flags h.streamID h.length p then .error (.conn pPingSidCode)
  else .ok (.ping p)

def parseGoAway (h : FrameHeader) (p : Bytes) : Except PErr Body :=
  if pGoAwaySid h.flags h.streamID h.length p then .error (.conn pGoAwaySidCode)
  else if pGoAwayLen h.flags h.streamID h.length p then .error (.conn pGoAwayLenCode)
  else .ok (.goAway (pGoAwayLast p) (pGoAwayCode p) (pGoAwayDebug p))

def parseWindowUpdate (h : FrameHeader) (p : Bytes) : Except PErr Body :=
  if pWuLen h.flags h.streamID h.length p then .error (.conn pWuLenCode)
  else if pWuZero (pWuInc p) then
    (if pWuZeroConn h.streamID then .error (.conn pWuZeroConnCode) else .error (.stream h.streamID pWuZeroStreamCode))
  else .ok (.windowUpdate (pWuInc p))

def parsePriority (h : FrameHeader) (p : Bytes) : Except PErr Body :=
  if pPrioSid h.flags h.streamID h.length p then .error (.conn pPrioSidCode)
  else if pPrioLen h.flags h.streamID h.length p then .error (.conn pPrioLenCode)
  else .ok (.priority { streamDep := pPrioDep (pPrioV p), exclusive := pPrioExcl (pPrioV p) (pPrioDep (pPrioV p)), weight := pPrioWeight p })

def parseRst (h : FrameHeader) (p : Bytes) : Except PErr Body :=
  if pRstLen h.flags h.streamID h.length p then .error (.conn pRstLenCode)
  else if pRstSid h.flags h.streamID h.length p then .error (.conn pRstSidCode)
  else .ok (.rst (pRstCode p))

def parseContinuation (h : FrameHeader) (p : Bytes) : Except PErr Body :=
  if pContSid h.flags h.streamID h.length p then .error (.conn pContSidCode)
  else .ok (.continuation p)

def parsePushPromise (h : FrameHeader) (p : Bytes) : Except PErr Body :=
  if pPushSid h.flags h.streamID h.length p then .error (.conn pPushSidCode)
  else
    -- `if fh.Flags.Has(FlagPushPromisePadded) { p, padLength, err = readByte(p) }`
    let step1 : Except PErr (Nat × Bytes) :=
      if pPushPadded h.flags h.streamID h.length p then
        (if readByteShort p then .error .short else .ok (byteAt p 0, p.drop 1))
      else .ok (0, p)
    match step1 with
    | .error e => .error e
    | .ok (padLength, p1) =>
      -- `p, pp.PromiseID, err = readUint32(p)`
      if readUint32Short p1 then .error .short
      else
        let promised := be32 (p1.take 4)
        let p2 := p1.drop 4
        if pPushPadBig padLength p2 then .error (.conn pPushPadBigCode)
        else .ok (.pushPromise (pPushPromised promised) (pPushFrag padLength p2))

def parseDataFrame (h : FrameHeader) (p : Bytes) : Except PErr Body :=
  if h.streamID = 0 then .error (.conn errCodeProtocol)
  else match H2Frame.parseData h.flags p with
    | .ok d => .ok (.data d)
    | .error .short => .error .short
    | .error .protocol => .error (.conn errCodeProtocol)

def parseHeadersFrame (h : FrameHeader) (p : Bytes) : Except PErr Body :=
  if h.streamID = 0 then .error (.conn errCodeProtocol)
  else match H2Frame.parseHeaders h.flags p with
    | .ok (prio, frag) => .ok (.headers prio frag)
    | .error .short => .error .short
    | .error .protocol => .error (.stream h.streamID errCodeProtocol)

/-- `typeFrameParser(fh.Type)(fc, fh, payload)` -/
def parsePayload (h : FrameHeader) (p : Bytes) : Except PErr Body :=
  match (frameParsers.lookup h.type).getD "parseUnknownFrame" with
  | "parseDataFrame" => parseDataFrame h p
  | "parseHeadersFrame" => parseHeadersFrame h p
  | "parsePriorityFrame" => parsePriority h p
  | "parseRSTStreamFrame" => parseRst h p
  | "parseSettingsFrame" => parseSettings h p
  | "parsePushPromise" => parsePushPromise h p
  | "parsePingFrame" => parsePing h p
  | "parseGoAwayFrame" => parseGoAway h p
  | "parseWindowUpdateFrame" => parseWindowUpdate h p
  | "parseContinuationFrame" => parseContinuation h p
  | _ => .ok (.unknown p)

/-- `readFrameHeader` on the header a writer produced: the reserved bit of the stream id is dropped -/
def readHdr (h : FrameHeader) : FrameHeader := { h with streamID := h.streamID % 2 ^ 31 }

/-! ### writers -/

/-- the arguments of `Framer.Write*` -/
inductive Frame
  | data (sid : Nat) (endStream : Bool) (data : Bytes) (pad : Option Bytes)
  | headers (sid : Nat) (endStream endHeaders : Bool) (padLength : Nat) (prio : Priority) (frag : Bytes)
  | priority (sid : Nat) (p : Priority)
  | rst (sid code : Nat)
  | settings (ss : List (Nat × Nat))
  | settingsAck
  | pushPromise (sid promised : Nat) (endHeaders : Bool) (padLength : Nat) (frag : Bytes)
  | ping (ack : Bool) (data : Bytes)
  | goAway (last code : Nat) (debug : Bytes)
  | windowUpdate (sid incr : Nat)
  | continuation (sid : Nat) (endHeaders : Bool) (frag : Bytes)
  | raw (type flags sid : Nat) (payload : Bytes)
  deriving DecidableEq, Repr

/-- `PriorityParam.IsZero` -/
def prioZero (p : Priority) : Bool := p.streamDep == 0 && !p.exclusive && p.weight == 0

/-- `endWrite`: the header with the payload's length, refused from 2^24 on (`Gen.H2Frame.writeTooLarge`) -/
def finishWrite (refuse : Bool) (type flags sid : Nat) (payload : Bytes) : Option (FrameHeader × Bytes) :=
  if refuse then none
  else if MosnVerif.Gen.H2Frame.writeTooLarge ≤ payload.length then none
  else some ({ length := payload.length, type := type, flags := flags, streamID := sid }, payload)

/-- `Framer.Write*` (frame.go): `none` = an error is returned and nothing is written -/
def Frame.write (allowIllegal : Bool) : Frame → Option (FrameHeader × Bytes)
  | .data sid es d pad =>
    finishWrite (wDataRefuse allowIllegal sid es d pad.isNone (pad.getD [])) (wDataType allowIllegal sid es d pad.isNone (pad.getD []))
      (wDataFlags allowIllegal sid es d pad.isNone (pad.getD [])) (wDataSid allowIllegal sid es d pad.isNone (pad.getD []))
      (wDataPayload allowIllegal sid es d pad.isNone (pad.getD []))
  | .headers sid es eh pl pr frag =>
    finishWrite (wHeadersRefuse allowIllegal sid es eh pl (prioZero pr) pr.streamDep pr.exclusive pr.weight frag)
      (wHeadersType allowIllegal sid es eh pl (prioZero pr) pr.streamDep pr.exclusive pr.weight frag)
      (wHeadersFlags allowIllegal sid es eh pl (prioZero pr) pr.streamDep pr.exclusive pr.weight frag)
      (wHeadersSid allowIllegal sid es eh pl (prioZero pr) pr.streamDep pr.exclusive pr.weight frag)
      (wHeadersPayload allowIllegal sid es eh pl (prioZero pr) pr.streamDep pr.exclusive pr.weight frag)
  | .priority sid p =>
    finishWrite (wPriorityRefuse allowIllegal sid p.streamDep p.exclusive p.weight) (wPriorityType allowIllegal sid p.streamDep p.exclusive p.weight)
      (wPriorityFlags allowIllegal sid p.streamDep p.exclusive p.weight) (wPrioritySid allowIllegal sid p.streamDep p.exclusive p.weight)
      (wPriorityPayload allowIllegal sid p.streamDep p.exclusive p.weight)
  | .rst sid code =>
    finishWrite (wRstRefuse allowIllegal sid code) (wRstType allowIllegal sid code) (wRstFlags allowIllegal sid code)
      (wRstSid allowIllegal sid code) (wRstPayload allowIllegal sid code)
  | .settings ss => finishWrite (wSettingsRefuse ss) (wSettingsType ss) (wSettingsFlags ss) (wSettingsSid ss) (wSettingsPayload ss)
  | .settingsAck => finishWrite wSettingsAckRefuse wSettingsAckType wSettingsAckFlags wSettingsAckSid wSettingsAckPayload
  | .pushPromise sid pr eh pl frag =>
    finishWrite (wPushPromiseRefuse allowIllegal sid pr eh pl frag) (wPushPromiseType allowIllegal sid pr eh pl frag)
      (wPushPromiseFlags allowIllegal sid pr eh pl frag) (wPushPromiseSid allowIllegal sid pr eh pl frag)
      (wPushPromisePayload allowIllegal sid pr eh pl frag)
  | .ping ack d => finishWrite (wPingRefuse ack d) (wPingType ack d) (wPingFlags ack d) (wPingSid ack d) (wPingPayload ack d)
  | .goAway last code dbg =>
    finishWrite (wGoAwayRefuse last code dbg) (wGoAwayType last code dbg) (wGoAwayFlags last code dbg) (wGoAwaySid last code dbg)
      (wGoAwayPayload last code dbg)
  | .windowUpdate sid incr =>
    finishWrite (wWindowUpdateRefuse allowIllegal sid incr) (wWindowUpdateType allowIllegal sid incr) (wWindowUpdateFlags allowIllegal sid incr)
      (wWindowUpdateSid allowIllegal sid incr) (wWindowUpdatePayload allowIllegal sid incr)
  | .continuation sid eh frag =>
    finishWrite (wContinuationRefuse allowIllegal sid eh frag) (wContinuationType allowIllegal sid eh frag)
      (wContinuationFlags allowIllegal sid eh frag) (wContinuationSid allowIllegal sid eh frag) (wContinuationPayload allowIllegal sid eh frag)
  | .raw t fl sid pl => finishWrite (wRawRefuse t fl sid pl) (wRawType t fl sid pl) (wRawFlags t fl sid pl) (wRawSid t fl sid pl) (wRawPayload t fl sid pl)

/-- what MOSN's own connections write for the frame (`MFramer.write*`, the in-line frames of `MServerConn` = `server` / `MClientConn`);
`none` also for the frames MOSN never writes (PRIORITY, PUSH_PROMISE, padded DATA, unknown types) -/
def Frame.mwrite (server : Bool) : Frame → Option (FrameHeader × Bytes)
  | .data sid es d none => finishWrite (mDataRefuse sid es d) (mDataType sid es d) (mDataFlags sid es d) (mDataSid sid es d) (mDataPayload sid es d)
  | .headers sid es eh pl pr frag =>
    finishWrite (mHeadersRefuse sid es eh pl (prioZero pr) pr.streamDep pr.exclusive pr.weight frag)
      (mHeadersType sid es eh pl (prioZero pr) pr.streamDep pr.exclusive pr.weight frag)
      (mHeadersFlags sid es eh pl (prioZero pr) pr.streamDep pr.exclusive pr.weight frag)
      (mHeadersSid sid es eh pl (prioZero pr) pr.streamDep pr.exclusive pr.weight frag)
      (mHeadersPayload sid es eh pl (prioZero pr) pr.streamDep pr.exclusive pr.weight frag)
  | .rst sid code =>
    if server then finishWrite (mSrvRstRefuse sid code) (mSrvRstType sid code) (mSrvRstFlags sid code) (mSrvRstSid sid code) (mSrvRstPayload sid code)
    else finishWrite (mCliRstRefuse sid code) (mCliRstType sid code) (mCliRstFlags sid code) (mCliRstSid sid code) (mCliRstPayload sid code)
  | .settings ss => finishWrite (mSettingsRefuse ss) (mSettingsType ss) (mSettingsFlags ss) (mSettingsSid ss) (mSettingsPayload ss)
  | .settingsAck =>
    if server then finishWrite mSrvSettingsAckRefuse mSrvSettingsAckType mSrvSettingsAckFlags mSrvSettingsAckSid mSrvSettingsAckPayload
    else finishWrite mCliSettingsAckRefuse mCliSettingsAckType mCliSettingsAckFlags mCliSettingsAckSid mCliSettingsAckPayload
  | .ping ack d =>
    if server then (if ack then finishWrite (mSrvPingAckRefuse d) (mSrvPingAckType d) (mSrvPingAckFlags d) (mSrvPingAckSid d) (mSrvPingAckPayload d) else none)
    else finishWrite (mCliPingRefuse ack d) (mCliPingType ack d) (mCliPingFlags ack d) (mCliPingSid ack d) (mCliPingPayload ack d)
  | .goAway last code dbg =>
    if server then finishWrite (mSrvGoAwayRefuse last code dbg) (mSrvGoAwayType last code dbg) (mSrvGoAwayFlags last code dbg)
      (mSrvGoAwaySid last code dbg) (mSrvGoAwayPayload last code dbg) else none
  | .windowUpdate sid incr =>
    finishWrite (mWindowUpdateRefuse sid incr) (mWindowUpdateType sid incr) (mWindowUpdateFlags sid incr) (mWindowUpdateSid sid incr)
      (mWindowUpdatePayload sid incr)
  | .continuation sid eh frag =>
    finishWrite (mContinuationRefuse sid eh frag) (mContinuationType sid eh frag) (mContinuationFlags sid eh frag)
      (mContinuationSid sid eh frag) (mContinuationPayload sid eh frag)
  | _ => none

/-- a flag bit of the header the parser hands back (`Flags.Has`) -/
def has (h : FrameHeader) (bit : Nat) : Bool := flagsHas h.flags bit

/-- the parsed frame as the arguments that write it: flag bits as booleans, pad length from the lengths -/
def toFrame (h : FrameHeader) : Body → Frame
  | .data d =>
    .data h.streamID (has h flagDataEndStream) d
      (if has h flagDataPadded then some (List.replicate (h.length - 1 - d.length) 0) else none)
  | .headers prio frag =>
    .headers h.streamID (has h flagHeadersEndStream) (has h flagHeadersEndHeaders)
      (h.length - frag.length - (if has h flagHeadersPadded then 1 else 0) - (if has h flagHeadersPriority then 5 else 0))
      (prio.getD ⟨0, false, 0⟩) frag
  | .priority p => .priority h.streamID p
  | .rst code => .rst h.streamID code
  | .settings ss => if has h flagSettingsAck then .settingsAck else .settings ss
  | .pushPromise promised frag =>
    .pushPromise h.streamID promised (has h flagPushPromiseEndHeaders)
      (h.length - frag.length - 4 - (if has h flagPushPromisePadded then 1 else 0)) frag
  | .ping d => .ping (has h flagPingAck) d
  | .goAway last code dbg => .goAway last code dbg
  | .windowUpdate inc => .windowUpdate h.streamID inc
  | .continuation frag => .continuation h.streamID (has h flagContinuationEndHeaders) frag
  | .unknown p => .raw h.type h.flags h.streamID p

/-- read back what was written: header through `readFrameHeader`, payload through its parser -/
def decode (w : FrameHeader × Bytes) : Except PErr Frame :=
  match parsePayload (readHdr w.1) w.2 with
  | .ok b => .ok (toFrame (readHdr w.1) b)
  | .error e => .error e

/-! ### RFC 7540 §6, declaratively -/

inductive Class
  | ok
  | conn (code : Nat)
  | stream (code : Nat)
  | malformed          -- too short for its mandatory fields (§4.2: FRAME_SIZE_ERROR; the reference reports an I/O error)
  deriving DecidableEq, Repr

def classOf : Except PErr Body → Class
  | .ok _ => .ok
  | .error (.conn c) => .conn c
  | .error (.stream _ c) => .stream c
  | .error .short => .malformed

def PROTOCOL_ERROR : Nat := 1
def FLOW_CONTROL_ERROR : Nat := 3
def FRAME_SIZE_ERROR : Nat := 6

/-- bit `b` (a power of two) of the flags octet -/
def flagSet (flags b : Nat) : Bool := flags / b % 2 == 1

def u32At (p : Bytes) (i : Nat) : Nat :=
  (p.getD i 0).toNat * 2 ^ 24 + (p.getD (i + 1) 0).toNat * 2 ^ 16 + (p.getD (i + 2) 0).toNat * 2 ^ 8 + (p.getD (i + 3) 0).toNat

/-- the (identifier, value) pairs of a SETTINGS payload (§6.5.1: 16-bit identifier, 32-bit value) -/
def rfcSettings (p : Bytes) : List (Nat × Nat) :=
  (List.range (p.length / 6)).map (fun k => ((p.getD (6 * k) 0).toNat * 256 + (p.getD (6 * k + 1) 0).toNat, u32At p (6 * k + 2)))

/-- The rules of RFC 7540 §6.1–§6.10 a frame (type, flags, stream id, payload) violates, each with the error the RFC prescribes.
Written from the RFC.  Two places follow the reference implementation where it is stricter / narrower than the text, and say
so: a PRIORITY frame of the wrong length is a connection error (the RFC: stream error), and of several
SETTINGS_INITIAL_WINDOW_SIZE entries the frame parser range-checks the first (the others are checked when the settings
are applied, `Setting.Valid`, theorem `limits_match_reference`). -/
def rfcViolations (type flags sid : Nat) (p : Bytes) : List Class :=
  let len := p.length
  if type = 0 then        -- DATA §6.1
    (if sid = 0 then [.conn PROTOCOL_ERROR] else []) ++
    (if flagSet flags 8 then (if len = 0 then [.malformed] else if (p.getD 0 0).toNat ≥ len then [.conn PROTOCOL_ERROR] else []) else [])
  else if type = 1 then   -- HEADERS §6.2
    let padded := flagSet flags 8
    let fixed := (if padded then 1 else 0) + (if flagSet flags 32 then 5 else 0)
    (if sid = 0 then [.conn PROTOCOL_ERROR] else []) ++
    (if len < fixed then [.malformed] else if padded ∧ (p.getD 0 0).toNat > len - fixed then [.stream PROTOCOL_ERROR] else [])
  else if type = 2 then   -- PRIORITY §6.3
    (if sid = 0 then [.conn PROTOCOL_ERROR] else []) ++ (if len ≠ 5 then [.conn FRAME_SIZE_ERROR] else [])
  else if type = 3 then   -- RST_STREAM §6.4
    (if len ≠ 4 then [.conn FRAME_SIZE_ERROR] else []) ++ (if sid = 0 then [.conn PROTOCOL_ERROR] else [])
  else if type = 4 then   -- SETTINGS §6.5
    (if flagSet flags 1 ∧ len ≠ 0 then [.conn FRAME_SIZE_ERROR] else []) ++
    (if sid ≠ 0 then [.conn PROTOCOL_ERROR] else []) ++
    (if len % 6 ≠ 0 then [.conn FRAME_SIZE_ERROR] else []) ++
    (match (rfcSettings p).find? (fun s => s.1 == 4) with
     | some s => if s.2 > 2 ^ 31 - 1 then [.conn FLOW_CONTROL_ERROR] else []
     | none => [])
  else if type = 5 then   -- PUSH_PROMISE §6.6
    let padded := flagSet flags 8
    let fixed := (if padded then 1 else 0) + 4
    (if sid = 0 then [.conn PROTOCOL_ERROR] else []) ++
    (if len < fixed then [.malformed] else if padded ∧ (p.getD 0 0).toNat > len - fixed then [.conn PROTOCOL_ERROR] else [])
  else if type = 6 then   -- PING §6.7
    (if len ≠ 8 then [.conn FRAME_SIZE_ERROR] else []) ++ (if sid ≠ 0 then [.conn PROTOCOL_ERROR] else [])
  else if type = 7 then   -- GOAWAY §6.8
    (if sid ≠ 0 then [.conn PROTOCOL_ERROR] else []) ++ (if len < 8 then [.conn FRAME_SIZE_ERROR] else [])
  else if type = 8 then   -- WINDOW_UPDATE §6.9
    (if len ≠ 4 then [.conn FRAME_SIZE_ERROR]
     else if u32At p 0 % 2 ^ 31 = 0 then (if sid = 0 then [.conn PROTOCOL_ERROR] else [.stream PROTOCOL_ERROR]) else [])
  else if type = 9 then   -- CONTINUATION §6.10
    (if sid = 0 then [.conn PROTOCOL_ERROR] else [])
  else []                 -- §4.1: unknown types are carried / ignored

end MosnVerif.Model.H2Payload
