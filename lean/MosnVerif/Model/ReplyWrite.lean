import MosnVerif.Gen.ProxyReplyWrite
import MosnVerif.Gen.ProxyReply
import MosnVerif.Gen.ProxyError
/-!
# The reply write path of one downstream request — every sender call can FAIL (C03, c03w10)

`Model/Downstream.lean` treats "send the reply" as infallible steps (`dsAppendHeaders / dsAppendData / dsAppendTrailers`).
In the code (`pkg/proxy/downstream.go`) a reply is written by `appendHeaders(endStream)`, `appendData(endStream)`,
`appendTrailers()`: each stores `upstreamProcessDone`, calls the downstream `responseSender` — which can fail (encode
error, write on a closing connection) — and, when the part ends the stream, calls `endStream()` (→ `cleanStream`).
This model runs the REGENERATED bodies of the three functions (`Gen.ProxyReplyWrite`: guarded steps over a closed
vocabulary — an early `return` on the error path is a step) inside the callers' sequence of `downStream.receive`
(cases UpRecvHeader / UpRecvData / UpRecvTrailer: which part is written for which reply shape and with which endStream
argument — regenerated —, the entry guard of `upstreamRequest.receiveX`, the regenerated `processError` after every
part), for

* every reply shape `Reply` (body / trailers present; MOSN's own replies get theirs from `Gen.ProxyReply`),
* every outcome vector `Outs` (ok / error per part),
* the client's departure (`OnResetStream`) delivered between ANY two steps — in particular from inside a failing sender
  call —, position `rp : Nat`, either as a reset of the downstream stream by the stream layer or as the proxy's
  connection-close callback (which skips streams whose `upstreamProcessDone` is already set),
* every start state `start clientGone upLive`.

A write is the static op list `ops P r` (programs flattened between an `enter` and a `procErr` per part); the departure is
the op `reset` / `connClose` inserted at index `rp` (`insertAt`; an index beyond the end = the reset arrives after the worker is gone).
Observable: the event list `ev` (sender calls, `endStream`, the BODY of `cleanStream`, resets issued by the proxy), the
active gauge, the membership in the proxy's active-stream list.
-/
namespace MosnVerif.Model.ReplyWrite
open MosnVerif.Gen.ProxyReplyWrite MosnVerif.Gen.ProxyPhase

inductive Part where
  | headers | data | trailers
  deriving DecidableEq, Repr, Inhabited

/-- the reply to write: response headers are always there; body / trailers may be -/
structure Reply where
  hasBody : Bool
  hasTrailers : Bool
  deriving DecidableEq, Repr, Inhabited

/-- what the downstream sender returns per part: `true` = the write succeeds -/
structure Outs where
  h : Bool
  d : Bool
  t : Bool
  deriving DecidableEq, Repr, Inhabited

def Outs.of (o : Outs) : Part → Bool
  | .headers => o.h
  | .data => o.d
  | .trailers => o.t

inductive Ev where
  | call (p : Part) (eos ok : Bool)   -- responseSender.AppendHeaders / AppendData / AppendTrailers and what it returned
  | endStream                         -- downStream.endStream() entered
  | clean                             -- the BODY of cleanStream ran (after its compare-and-swap was won)
  | dr                                -- the proxy reset the downstream stream (resetStream)
  | ur                                -- cleanStream reset a still-open upstream stream
  deriving DecidableEq, Repr, Inhabited

/-- the fields of `downStream` the write path reads and writes, the interpreter's registers, the observables -/
structure RW where
  procDone : Bool := false     -- upstreamProcessDone
  cleaned : Bool := false      -- downstreamCleaned
  downReset : Bool := false    -- downstreamReset (OnResetStream ran)
  downLive : Bool := true      -- the downstream stream's BaseStream is neither reset nor destroyed
  upLive : Bool := false       -- the upstream request still owns an open client stream (streamed response)
  active : Int := 1            -- DownstreamRequestActive of this stream
  listed : Bool := true        -- member of proxy.activeStreams
  part : Part := .headers      -- registers: the part being written, its endStream argument, the sender's error
  eos : Bool := false
  failed : Bool := false
  skipping : Bool := false     -- the function of this part has returned
  returned : Bool := false     -- the worker goroutine has returned
  phase : Phase := .UpRecvHeader
  ev : List Ev := []
  deriving DecidableEq, Repr, Inhabited

def evalC (s : RW) : Cond → Bool
  | .tt => true
  | .eos => s.eos
  | .failed => s.failed
  | .not c => !evalC s c
  | .and a b => evalC s a && evalC s b
  | .or a b => evalC s a || evalC s b

def hasStep (st : CleanStep) : Bool := cleanSteps.contains st

/-- the body of `downStream.cleanStream()` — its REGENERATED steps: the upstream request is reset unless its processing is
done (`ur` is observable only when its stream was still open), the metrics step gives the active gauge back, the access log
is written, `delete` takes the stream off `proxy.activeStreams` -/
def cleanBody (s : RW) : RW :=
  let doReset := hasStep .resetUpstreamUnlessDone && !s.procDone
  { s with cleaned := true, procDone := s.procDone || doReset, upLive := s.upLive && !doReset,
           active := if hasStep .metrics && metricsCountDown then s.active - 1 else s.active,
           listed := s.listed && !hasStep .delete,
           ev := (if doReset && s.upLive then s.ev ++ [.ur] else s.ev) ++ [.clean] }

/-- `downStream.cleanStream()`: the compare-and-swap on `downstreamCleaned` (regenerated: is it there), then the body -/
def cleanStream (s : RW) : RW := if cleanOnce && s.cleaned then s else cleanBody s

/-- `downStream.OnResetStream(reason)`: one-shot flag (+ wake-up of a parked worker; the worker is running here) -/
def onResetStream (s : RW) : RW := { s with downReset := true }

/-- `BaseStream.ResetStream` of the downstream stream: listeners are told once, while the stream is neither reset nor destroyed -/
def streamReset (s : RW) : RW := if s.downLive then onResetStream { s with downLive := false } else s

/-- `downStream.resetStream()`: a no-op once `upstreamProcessDone` is set -/
def resetStream (s : RW) : RW :=
  if s.procDone then s else streamReset { s with procDone := true, ev := s.ev ++ [.dr] }

def act (o : Outs) (s : RW) : Act → RW
  | .store v => { s with procDone := evalC s v }
  | .call =>
    let ok := o.of s.part
    -- a server stream is destroyed by the codec when its last part was written
    { s with failed := !ok, downLive := s.downLive && !(s.eos && ok), ev := s.ev ++ [.call s.part s.eos ok] }
  | .endStream => if endStreamCleans then cleanStream { s with ev := s.ev ++ [.endStream] } else { s with ev := s.ev ++ [.endStream] }
  | .cleanStream => cleanStream s
  | .resetStream => resetStream s
  | .ret => { s with skipping := true }

/-- `processError` (REGENERATED, `Gen.ProxyError`) on this state: no upstream reset, no local reply pending, no retry set
up, no re-entry asked for — the reply is being written; `downStream.ResetStream(reason)` = `cleanStream` -/
def peOps : Gen.ProxyError.Ops RW where
  idMatches := fun _ => true
  cleaned := fun s => s.cleaned
  upstreamReset := fun _ => false
  downstreamReset := fun s => s.downReset
  oneway := fun _ => false
  directResponse := fun _ => false
  curPhase := fun s => s.phase
  processDone := fun s => s.procDone
  hasUpstreamRequest := fun _ => true
  setupRetry := fun _ => false
  againPhase := fun _ => .InitPhase
  onUpstreamReset := id
  resetStream := cleanStream
  markDirect := id
  setDirectResponse := fun s _ => s
  releaseRetry := id
  clearRetryState := id
  setSetupRetry := fun s _ => s
  setAgainPhase := fun s _ => s
  detachRetried := id

def phaseOf : Part → Phase
  | .headers => .UpRecvHeader
  | .data => .UpRecvData
  | .trailers => .UpRecvTrailer

inductive Op where
  | enter (p : Part) (eos guarded : Bool)   -- `case types.UpRecvX`: upstreamRequest.receiveX(eos) with its entry guard
  | stmt (g : Cond) (a : Act)               -- one guarded step of the append function
  | procErr                                 -- `if p, err := s.processError(id); err != nil { return p }; phase++`
  | finish                                  -- `case types.End: return types.End`
  | reset                                   -- the downstream stream is reset by the stream layer (another goroutine, or inside a sender call)
  | connClose                               -- proxy.onDownstreamEvent(close)
  deriving DecidableEq, Repr, Inhabited

def step (o : Outs) (s : RW) : Op → RW
  | .reset => streamReset s
  | .connClose => if !s.listed || s.procDone then s else onResetStream s
  | .enter p eos guarded =>
    if s.returned then s else
    let s := { s with part := p, eos := eos, failed := false, phase := phaseOf p, skipping := false }
    if guarded && (s.procDone || s.downReset) then { s with skipping := true } else s
  | .stmt g a => if s.returned || s.skipping then s else if evalC s g then act o s a else s
  | .procErr =>
    if s.returned then s else
    let r := Gen.ProxyError.processError peOps { s with skipping := false }
    { r.1 with returned := r.2.2 }
  | .finish => { s with returned := true }

/-- the three append functions and the callers' facts -/
structure Progs where
  appendHeaders : Prog
  appendData : Prog
  appendTrailers : Prog
  present : Part → Bool → Bool → Bool      -- (part, data stored, trailers stored): is the part written
  eosArg : Part → Bool → Bool → Bool       -- … with which endStream argument
  guarded : Part → Bool

def Progs.prog (P : Progs) : Part → Prog
  | .headers => P.appendHeaders
  | .data => P.appendData
  | .trailers => P.appendTrailers

/-- the regenerated programs and callers -/
def genProgs : Progs where
  appendHeaders := Gen.ProxyReplyWrite.appendHeaders
  appendData := Gen.ProxyReplyWrite.appendData
  appendTrailers := Gen.ProxyReplyWrite.appendTrailers
  present := fun p d t => match p with
    | .headers => headersPresent true d t
    | .data => dataPresent true d t
    | .trailers => trailersPresent true d t
  eosArg := fun p d t => match p with
    | .headers => headersEos true d t
    | .data => dataEos true d t
    | .trailers => trailersEos true d t
  guarded := fun p => match p with
    | .headers => headersGuarded
    | .data => dataGuarded
    | .trailers => trailersGuarded

def partOps (P : Progs) (r : Reply) (p : Part) : List Op :=
  if P.present p r.hasBody r.hasTrailers then
    Op.enter p (P.eosArg p r.hasBody r.hasTrailers) (P.guarded p) :: (P.prog p).map (fun ga => Op.stmt ga.1 ga.2) ++ [Op.procErr]
  else []

/-- the worker's op list for one reply: the three response cases of `receive` in phase order, then `End` -/
def ops (P : Progs) (r : Reply) : List Op :=
  partOps P r .headers ++ partOps P r .data ++ partOps P r .trailers ++ [Op.finish]

def insertAt {α : Type} : Nat → α → List α → List α
  | 0, a, l => a :: l
  | _ + 1, _, [] => []
  | n + 1, a, x :: l => x :: insertAt n a l

def exec (o : Outs) (s : RW) (l : List Op) : RW := l.foldl (step o) s

/-- the start of the response pass: nothing written, not cleaned; the client may already be gone; the upstream stream may
still be open (head of a streamed response) -/
def start (clientGone upLive : Bool) : RW := { downReset := clientGone, downLive := !clientGone, upLive := upLive }

/-- how the client's departure reaches the stream: the stream layer resets the downstream stream (`reset`), or the proxy's
connection-event callback walks its active streams (`connClose`: it SKIPS a stream whose `upstreamProcessDone` is set) -/
def departure (viaConn : Bool) : Op := if viaConn then Op.connClose else Op.reset

/-- write reply `r` with sender outcomes `o`; the client's departure arrives before op number `rp` -/
def writeReply (P : Progs) (r : Reply) (o : Outs) (rp : Nat) (viaConn : Bool) (s : RW) : RW :=
  exec o s (insertAt rp (departure viaConn) (ops P r))

/-! ### reply shapes of MOSN's own replies (regenerated effects of `sendHijackReply[WithBody]`) -/

def effPresent (e : Gen.ProxyReply.Eff) (mine held : Bool) : Bool :=
  match e with
  | .clear => false
  | .set => mine
  | .keep => held

/-- the parts stored after `sendHijackReply` (no body) / `sendHijackReplyWithBody` (non-empty body), whatever was held before -/
def hijackShape (body heldData heldTrailers : Bool) : Reply :=
  ⟨effPresent (if body then Gen.ProxyReply.hijackBodyData else Gen.ProxyReply.hijackData) body heldData,
   effPresent (if body then Gen.ProxyReply.hijackBodyTrailers else Gen.ProxyReply.hijackTrailers) false heldTrailers⟩

/-! ### observations -/

def isClean : Ev → Bool
  | .clean => true
  | _ => false
def isEnd : Ev → Bool
  | .endStream => true
  | _ => false
def isCall : Ev → Bool
  | .call _ _ _ => true
  | _ => false
def isEosCall : Ev → Bool
  | .call _ eos _ => eos
  | _ => false

def cleans (s : RW) : Nat := (s.ev.filter isClean).length
def ends (s : RW) : Nat := (s.ev.filter isEnd).length

/-- every sender call that ends the stream is followed by `endStream` exactly once (and there is no `endStream` without
such a call before it): declarative, over the event list -/
def endsAfterEos : List Ev → Bool
  | [] => true
  | e :: r => if isEosCall e then (r.filter isEnd).length == 1 else !isEnd e && endsAfterEos r

/-- the sender calls a reply of shape `r` consists of when every part is written: headers, [data], [trailers], the last one
with end of stream -/
def expectedCalls (r : Reply) (o : Outs) : List Ev :=
  [Ev.call .headers (!r.hasBody && !r.hasTrailers) o.h] ++
  (if r.hasBody then [Ev.call .data (!r.hasTrailers) o.d] else []) ++
  (if r.hasTrailers then [Ev.call .trailers true o.t] else [])

/-! ### variants for the negation witnesses (NOT the code: what a "reset and return" on the error path would be) -/

/-- `appendHeaders` with `if err != nil { s.resetStream(); return }` -/
def earlyReturnHeaders : Progs :=
  { genProgs with appendHeaders := [(.tt, .store .eos), (.tt, .call), (.failed, .resetStream), (.failed, .ret), (.eos, .endStream)] }

/-- `appendData` that ends the stream only when the write succeeded -/
def dataEndsOnlyOnSuccess : Progs :=
  { genProgs with appendData := [(.tt, .store .eos), (.tt, .call), (.and .eos (.not .failed), .endStream)] }

end MosnVerif.Model.ReplyWrite
