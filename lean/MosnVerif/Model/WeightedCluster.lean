import MosnVerif.Gen.WeightedCluster
/-!
Model of `RouteRuleImplBase.ClusterName` (pkg/router/base_rule.go): the cumulative-weight scan over the
weighted-cluster map with the drawn value.  The map iteration order is a parameter (`List Entry`): every
theorem quantifies over every order.  The loop body (subtract, compare, return — and any `continue` / `break`) is
*regenerated* from the Go source (`Gen.WeightedCluster.stepCtl`).
-/
namespace MosnVerif.Model.WeightedCluster

abbrev Entry := String × Nat

/-- the scan exactly as the Go code performs it: one regenerated loop body per visited entry; the body ends in a
`return` (the selected cluster), in the next iteration (end of the body or `continue`), or in a `break`, which ends the
scan without a result (`ClusterName` then returns the route's default cluster). -/
def scan : List Entry → Int → Option String
  | [], _ => none
  | (n, w) :: r, v =>
    match Gen.WeightedCluster.stepCtl v (w : Int) n with
    | (_, .ret name) => some name
    | (_, .stop) => none
    | (v', .next) => scan r v'

/-- `ClusterName` for a draw `v` (the value of `rand.Intn(total)`); `none` = falls through to the default cluster. -/
def select (l : List Entry) (v : Nat) : Option String := scan l (v : Int)

def total (l : List Entry) : Nat := (l.map (·.2)).sum

/-- number of draws in `[0, k)` that select name `c` -/
def hits (l : List Entry) (c : String) (k : Nat) : Nat :=
  ((List.range k).filter (fun v => select l v == some c)).length

/-- reference scan over naturals: interval partition `[cum_{i-1}, cum_i)` -/
def selectRef : List Entry → Nat → Option String
  | [], _ => none
  | (n, w) :: r, v => if v < w then some n else selectRef r (v - w)

/-- executable property predicate used on implementation outputs: for the weight vector `l` (in any order) and
the observed results `res v` for every draw `v < total l`, each cluster is hit exactly `weight` times. -/
def specCounts (l : List Entry) (res : List (Option String)) : Bool :=
  res.length == total l &&
  l.all (fun e => (res.filter (· == some e.1)).length == e.2)

end MosnVerif.Model.WeightedCluster
