import MosnVerif.Gen.H2Frame
/-!
Model of the HTTP/2 frame header and of the padding / priority length arithmetic of DATA and HEADERS payloads as
implemented by MOSN (pkg/module/http2/mhttp2.go `MFramer.readFrameHeader/startWrite/endWrite`, frame.go
`parseDataFrame/parseHeadersFrame`).  Byte positions, shifts, the stream-id mask, the size guard, the flag bits
and the two padding tests are the regenerated `Gen.H2Frame` definitions.
Go's `byte(x >> s)` is `x / 2^s % 256`; `a<<16 | b<<8 | c` on bytes is `a*2^16 + b*2^8 + c`; `& (1<<31 - 1)` is `% 2^31`.
-/
namespace MosnVerif.Model.H2Frame
open MosnVerif.Gen.H2Frame

abbrev Bytes := List UInt8

structure FrameHeader where
  length : Nat
  type : Nat
  flags : Nat
  streamID : Nat
  deriving DecidableEq, Repr

def fieldVal (h : FrameHeader) : String → Nat
  | "ftype" => h.type
  | "flags" => h.flags
  | "streamID" => h.streamID
  | _ => 0

/-- `startWrite` followed by `endWrite` with a payload of `h.length` bytes: the 9 header bytes, or `none` for
`ErrFrameTooLarge`. -/
def encodeHeader (h : FrameHeader) : Option Bytes :=
  if writeTooLarge ≤ h.length then none
  else
    let base : Bytes := writeLayout.map (fun e => UInt8.ofNat (fieldVal h e.2.1 / 2 ^ e.2.2))
    some (writeLengthLayout.foldl (fun b e => b.set e.1 (UInt8.ofNat (h.length / 2 ^ e.2))) base)

def byteAt (b : Bytes) (i : Nat) : Nat := (b.getD i 0).toNat

/-- `MFramer.readFrameHeader`: `none` = fewer than `frameHeaderLen` bytes available (ErrAGAIN) -/
def parseHeader (b : Bytes) : Option FrameHeader :=
  if b.length < frameHeaderLen then none
  else some
    { length := (readLengthLayout.map (fun e => byteAt b e.1 * 2 ^ e.2)).sum
      type := byteAt b readTypeIdx
      flags := byteAt b readFlagsIdx
      streamID := (byteAt b readStreamIdx * 2 ^ 24 + byteAt b (readStreamIdx + 1) * 2 ^ 16 +
                   byteAt b (readStreamIdx + 2) * 2 ^ 8 + byteAt b (readStreamIdx + 3)) % (readStreamMask + 1) }

def hasFlag (flags bit : Nat) : Bool := flags / bit % 2 = 1   -- `flags & bit != 0` for a single-bit constant

inductive PErr
  | short      -- io.ErrUnexpectedEOF from readByte/readUint32
  | protocol   -- connection / stream error PROTOCOL_ERROR
  deriving DecidableEq, Repr

/-- `parseDataFrame` after the stream-id check: the data bytes of a DATA payload -/
def parseData (flags : Nat) (payload : Bytes) : Except PErr Bytes :=
  if hasFlag flags flagDataPadded then
    match payload with
    | [] => .error .short
    | ps :: r =>
      if dataPadTooBig ps.toNat r.length then .error .protocol else .ok (r.take (r.length - ps.toNat))
  else
    if dataPadTooBig 0 payload.length then .error .protocol else .ok payload

structure Priority where
  streamDep : Nat
  exclusive : Bool
  weight : Nat
  deriving DecidableEq, Repr

/-- the 5 priority bytes of a HEADERS payload: `v := readUint32; StreamDep = v & 0x7fffffff; Exclusive = (v != StreamDep)` -/
def decodePrio (a b c d w : UInt8) : Priority :=
  let v := a.toNat * 2 ^ 24 + b.toNat * 2 ^ 16 + c.toNat * 2 ^ 8 + d.toNat
  { streamDep := v % 2 ^ 31, exclusive := decide (v ≠ v % 2 ^ 31), weight := w.toNat }

/-- `WriteHeaders`: `v := StreamDep; if Exclusive { v |= 1<<31 }; writeUint32(v); writeByte(Weight)` -/
def encodePrio (pr : Priority) : Bytes :=
  let v := pr.streamDep + (if pr.exclusive then 2 ^ 31 else 0)
  [UInt8.ofNat (v / 2 ^ 24), UInt8.ofNat (v / 2 ^ 16), UInt8.ofNat (v / 2 ^ 8), UInt8.ofNat v, UInt8.ofNat pr.weight]

/-- `parseHeadersFrame` after the stream-id check: optional priority and the header block fragment -/
def parseHeaders (flags : Nat) (p : Bytes) : Except PErr (Option Priority × Bytes) :=
  let step1 : Except PErr (Nat × Bytes) :=
    if hasFlag flags flagHeadersPadded then
      match p with
      | [] => .error .short
      | pl :: r => .ok (pl.toNat, r)
    else .ok (0, p)
  match step1 with
  | .error e => .error e
  | .ok (padLength, p) =>
    let step2 : Except PErr (Option Priority × Bytes) :=
      if hasFlag flags flagHeadersPriority then
        match p with
        | a :: b :: c :: d :: w :: r => .ok (some (decodePrio a b c d w), r)
        | _ => .error .short
      else .ok (none, p)
    match step2 with
    | .error e => .error e
    | .ok (prio, p) =>
      if headersPadTooBig p.length padLength then .error .protocol
      else .ok (prio, p.take (p.length - padLength))

/-- payload written by `WriteDataPadded` (reference framer) / `WriteData`: optional pad-length byte, data, zero padding -/
def encodeData (data : Bytes) (pad : Option Nat) : Bytes :=
  match pad with
  | none => data
  | some k => UInt8.ofNat k :: (data ++ List.replicate k 0)

/-- payload written by `WriteHeaders` -/
def encodeHeaders (frag : Bytes) (padLength : Nat) (prio : Option Priority) : Bytes :=
  (if padLength ≠ 0 then [UInt8.ofNat padLength] else []) ++
  (match prio with
   | none => []
   | some pr => encodePrio pr) ++
  frag ++ List.replicate padLength 0

end MosnVerif.Model.H2Frame
