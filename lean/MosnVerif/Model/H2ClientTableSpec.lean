import MosnVerif.Model.H2ClientTable
/-!
Executable property predicate of C02 on what was observed of an HTTP/2 client stream connection after an operation: the
ids in the stream table and, per stream object, its id, the deliveries it was handed and how often it was reset.
Every piece of a delivery (header, body pieces, trailer) carries a LABEL saying which request it answers, every stream
object has its own label (`key`). For the implementation the label is the token (a frame addressed to stream object w
carries token w, the request of w is token w); for the model it is the stream id of the frame the piece came in.
Declarative: it never calls the model's `step`.
-/
namespace MosnVerif.Model.H2ClientTableSpec
open MosnVerif.Model.H2ClientTable

structure ODel where
  hdr : Option Int
  body : List Int
  trailer : Option Int
  deriving DecidableEq, Repr

structure OStr where
  id : Int
  key : Int
  got : List ODel
  resets : Nat
  deriving DecidableEq, Repr

structure Obs where
  tbl : List Int
  strs : List OStr
  deriving DecidableEq, Repr

/-- header, every body piece and the trailer of a delivery answer the request `key` -/
def delOwn (key : Int) (d : ODel) : Bool :=
  d.hdr == some key && d.body.all (· == key) && (d.trailer == none || d.trailer == some key)

/-- nobody holds more than one outcome (one delivery or one reset notification); a delivery consists only of pieces
answering the holder's own request; the table has no duplicate ids and holds only ids of streams not answered yet -/
def obsSpec (o : Obs) : Bool :=
  o.strs.all (fun x => decide (x.got.length + x.resets ≤ 1) && x.got.all (delOwn x.key)) &&
  decide (o.tbl.Nodup) && o.tbl.all (fun k => o.strs.any (fun x => x.id == k && x.got.isEmpty))

/-- ids of the streams whose request went out: odd when the counter started odd, below 2^31, pairwise distinct (fewer
than 2^31 requests per connection), increasing in allocation order -/
def obsSpecIds (firstOdd : Bool) (ids : List Int) : Bool :=
  let sent := ids.filter (· != 0)
  sent.all (fun i => decide (0 < i ∧ i < 2147483648) && (!firstOdd || i % 2 == 1)) && decide (sent.Nodup)

/-! ### between two snapshots: who may be affected by one operation -/
/-- `p before after` holds for every stream object that existed before (same position afterwards) -/
def strsKeep (p : Nat → OStr → OStr → Bool) (before after : Obs) : Bool :=
  (List.range before.strs.length).all (fun i => match before.strs[i]?, after.strs[i]? with
    | some b, some a => p i b a
    | _, _ => false)

def sameOutcome (b a : OStr) : Bool := a.got == b.got && a.resets == b.resets

/-- one frame with stream id `id` that left the connection open: stream objects registered under ANOTHER id keep their
deliveries and their reset notifications (nobody is answered or failed by somebody else's frame) -/
def frameStepSpec (id : Int) (before after : Obs) : Bool :=
  strsKeep (fun _ b a => b.id == id || sameOutcome b a) before after

/-- GOAWAY, SETTINGS, WINDOW_UPDATE, a new request: no existing stream object is answered or reset -/
def quietStepSpec (before after : Obs) : Bool := strsKeep (fun _ b a => sameOutcome b a) before after

/-- ResetStream of stream object `k` (`none`: a connection-wide reset / close): nobody is answered, and only `k` is reset -/
def resetStepSpec (k : Option Nat) (before after : Obs) : Bool :=
  strsKeep (fun i b a => a.got == b.got && (a.resets == b.resets || k == none || k == some i)) before after

def partLabel (p : Part) : Int := p.fid

def obsOf (s : Conn) : Obs :=
  { tbl := s.tbl.map (·.1),
    strs := (List.range s.nW).map (fun w =>
      let x := s.str w
      { id := x.id, key := x.id, resets := x.resets.length,
        got := x.got.map (fun d => { hdr := d.hdr.map partLabel, body := d.body.map partLabel, trailer := d.trailer.map partLabel }) }) }

end MosnVerif.Model.H2ClientTableSpec
