import MosnVerif.Model.ConfigDir
import MosnVerif.Gen.DirDump
/-!
# Update histories persisted in directory mode (C12)

In directory mode (`cluster_manager.clusters_configs`, `router_configs`) every dump rewrites the directory: one file per current
item, and — by the same scan — removal of the files of items that no longer exist.  `Gen.DirDump` regenerates the top-level
statements of the two `MarshalJSON` functions after their static-mode branch; `runSteps` interprets them over `Model.ConfigDir`'s
file system (`dumpLoop` is the item loop, `Gen.ConfigDir`'s regenerated file-name operations).  A `return` taken before the cleanup
(`returnIfEmpty` for an empty item list) leaves the directory as it is: the files of the removed items survive and the loader
brings the items back.

A history is a list of updates of the item list (put = add or replace by name, del, setAll), each followed by a dump into the SAME
directory.  Core Lean only.
-/
namespace MosnVerif.Model.DirHist
open MosnVerif.Model MosnVerif.Model.ConfigDir MosnVerif.Model.DirTypes MosnVerif.Gen.DirDump

/-- interpreter state: the directory, `files` (what ReadDir returned), `allFiles`, the names the item loop un-marked -/
structure DS where
  dir : Dir
  files : List Bytes := []
  all : List Bytes := []
  kept : List Bytes := []

def runSteps {α : Type} (ops : List NameOp) (enc : α → Json) (nameOf : α → Bytes) (clock : Nat → Bytes) (cs : List α) :
    List DStep → DS → Option Dir
  | [], s => some s.dir
  | .readDir :: r, s => runSteps ops enc nameOf clock cs r { s with files := s.dir.map (·.1) }
  | .collect :: r, s => runSteps ops enc nameOf clock cs r { s with all := s.files }
  | .returnIfEmpty :: r, s => if cs.isEmpty then some s.dir else runSteps ops enc nameOf clock cs r s
  | .returnIfOther :: _, s => some s.dir          -- an early return under a condition the model does not know: taken
  | .writeLoop :: r, s =>
    match dumpLoop ops enc nameOf clock 0 cs s.dir [] [] with
    | none => none
    | some (d', _, kept) => runSteps ops enc nameOf clock cs r { s with dir := d', kept := kept }
  | .cleanup :: r, s =>
    let stale := s.all.filter (fun n => !s.kept.contains n)
    runSteps ops enc nameOf clock cs r { s with dir := s.dir.filter (fun f => !stale.contains f.1) }
  | .finish :: _, s => some s.dir
  | .mkdir :: r, s => runSteps ops enc nameOf clock cs r s
  | .collectInit :: r, s => runSteps ops enc nameOf clock cs r s
  | .writtenInit :: r, s => runSteps ops enc nameOf clock cs r s

/-- `MarshalJSON` in directory mode, as the regenerated statement list says -/
def dirDump {α : Type} (steps : List DStep) (ops : List NameOp) (enc : α → Json) (nameOf : α → Bytes) (clock : Nat → Bytes)
    (d : Dir) (cs : List α) : Option Dir :=
  runSteps ops enc nameOf clock cs steps { dir := d }

def essential : DStep → Bool
  | .mkdir | .collectInit | .writtenInit => false
  | _ => true

/-- scan, collect, write every item, clean up, return — and no `return` in between -/
def stepsOK (steps : List DStep) : Bool :=
  steps.filter essential == [.readDir, .collect, .writeLoop, .cleanup, .finish]

/-! ## histories -/

inductive Upd (α : Type) where
  | put (c : α)            -- add, or replace the item of the same name (SetClusterConfig)
  | del (name : Bytes)     -- SetRemoveClusterConfig
  | setAll (cs : List α)   -- a complete update (SetRouter: the virtual hosts of a router)

def applyUpd {α : Type} (nameOf : α → Bytes) (items : List α) : Upd α → List α
  | .put c =>
    if items.any (fun x => nameOf x == nameOf c) then items.map (fun x => if nameOf x == nameOf c then c else x)
    else items ++ [c]
  | .del n => items.filter (fun x => nameOf x != n)
  | .setAll cs => cs

def histItems {α : Type} (nameOf : α → Bytes) (items : List α) (ups : List (Upd α × (Nat → Bytes))) : List α :=
  ups.foldl (fun it u => applyUpd nameOf it u.1) items

/-- a dump into the same directory after EVERY update (each at its own time) -/
def histDump {α : Type} (steps : List DStep) (ops : List NameOp) (enc : α → Json) (nameOf : α → Bytes) :
    Dir → List α → List (Upd α × (Nat → Bytes)) → Option Dir
  | d, _, [] => some d
  | d, items, (u, k) :: r =>
    match dirDump steps ops enc nameOf k d (applyUpd nameOf items u) with
    | none => none
    | some d' => histDump steps ops enc nameOf d' (applyUpd nameOf items u) r

/-! ## the executable instance the driver runs: items = (name, tag) -/

structure Item where
  name : String
  tag : Nat
deriving DecidableEq, Repr

def Item.bytes (it : Item) : Bytes := it.name.toUTF8.toList
/-- the document of an item (the tag in unary: the codec is the identity by computation) -/
def Item.enc (it : Item) : Json := .obj [("name", .str it.name), ("tag", .arr (List.replicate it.tag .null))]
def Item.dcd : Json → Option Item
  | .obj [("name", .str n), ("tag", .arr xs)] => some ⟨n, xs.length⟩
  | _ => none

/-- dump in the persisted mode, then reload: `none` = the dump or the reload failed -/
def dumpReload (dirMode : Bool) (steps : List DStep) (ops : List NameOp) (d : Dir) (items : List Item) : Dir × Option (List Item) :=
  if dirMode then
    match dirDump steps ops Item.enc Item.bytes (fun i => dec i) d items with
    | none => (d, none)
    | some d' => (d', unmarshalDynamic Item.dcd Gen.ConfigDir.readExt d')
  else (d, some items)

/-! ## the property predicate of a `dirh` case (declarative) -/
namespace Spec

inductive HOp where
  | putCluster (name : String) (tag : Nat)
  | delCluster (name : String)
  | setVhosts (vs : List (String × Nat))
deriving DecidableEq, Repr

/-- one step's observation: result, live clusters, reloaded clusters, live virtual hosts, reloaded virtual hosts
(`name:tag` strings sorted; `none` = the reload failed / no such router) -/
structure HObs where
  ok : Bool
  liveC : List String
  rebC : Option (List String)
  liveV : Option (List String)
  rebV : Option (List String)
deriving DecidableEq, Repr

def key (n : String) (t : Nat) : String := n ++ ":" ++ toString t

/-- what a fresh start from the dump has is what is live — after every step; a removed cluster is not reloaded, an added / updated
one is reloaded with its new tag, a complete update of the virtual hosts (the empty list included) is what is reloaded -/
def stepOk (op : HOp) (o : HObs) : Bool :=
  o.rebC == some o.liveC && o.rebV == o.liveV &&
  (match op with
   | .putCluster n t => !o.ok || o.liveC.contains (key n t)
   | .delCluster n => !o.ok || o.liveC.all (fun s => !(s.startsWith (n ++ ":")))
   | .setVhosts vs => !o.ok || (match o.liveV with
      | some l => vs.all (fun v => l.contains (key v.1 v.2)) && l.length == vs.length
      | none => vs.isEmpty))   -- a new router without virtual hosts has no tables (live and reloaded: `nil`)

def holds : List HOp → List HObs → Bool
  | [], [] => true
  | op :: ops, o :: os => stepOk op o && holds ops os
  | _, _ => false
end Spec

end MosnVerif.Model.DirHist
