import MosnVerif.Model.Huffman
import MosnVerif.Gen.HpackHuff
/-!
The Huffman decoding tree of pkg/module/http2/hpack/huffman.go as the code BUILDS it, and the walker that uses it.

* `huffTree` is the result of `buildRootHuffmanNode`: `addDecoderNode` folded over the regenerated code table
  (`Gen.Hpack.huffmanCodes / huffmanCodeLen`).  A `*node` is the index of the node in the list of allocated internal
  nodes (`newInternalNode()` appends one), `children[i]` is `Ent`: `nil`, a leaf `&node{sym, codeLen}` or a pointer.
  The loop guard, the decrement, both index expressions, the shift and the fill range are the regenerated
  `Gen.HpackHuff.add*` definitions (uint8 / uint32 wrap-around included); a Go panic (nil `children` dereference,
  index out of range) is `bad := true`.
* `walk` is `huffmanDecode(buf, maxLen, v)`, statement by statement, over `huffTree`; every expression is the
  regenerated `Gen.HpackHuff.dec*` definition.
* `goEncode` / `goEncodeLen` are `AppendHuffmanString` / `HuffmanEncodeLength` statement by statement (`Gen.HpackHuff.enc*`).
* `decodeSpecMax` is the declarative decoder of `Model.Huffman` (greedy prefix matching on the bit string, RFC 7541 §5.2)
  with the `maxLen` rule.
-/
namespace MosnVerif.Model.HuffTree
open MosnVerif.Gen.Hpack MosnVerif.Gen.HpackHuff MosnVerif.Model.Huffman

inductive Ent
  | none
  | leaf (sym codeLen : Nat)
  | ptr (id : Nat)
  deriving DecidableEq, Repr, Inhabited

/-- a `*node` slot as a 32-bit word: 0 = nil, `1 + 4·(sym + 256·codeLen)` = leaf, `2 + 4·id` = internal node `id` -/
def Ent.enc : Ent → Nat
  | .none => 0
  | .leaf sym codeLen => 1 + 4 * (sym % 256 + 256 * (codeLen % 256))
  | .ptr id => 2 + 4 * id

def Ent.dec (w : Nat) : Ent :=
  if w % 4 = 1 then .leaf (w / 4 % 256) (w / 1024)
  else if w % 4 = 2 then .ptr (w / 4)
  else .none

/-- The allocated internal nodes (node 0 is `lazyRootHuffmanNode`), each a `[256]*node`, as ONE array of 32-bit slots
packed into a number (slot `256·n + i` = `children[i]` of node `n`); `count` nodes are allocated.  (A packed number,
not a list of lists, because the kernel evaluates `Nat` arithmetic natively: `Lemmas/HuffTreeCheck` has the kernel build
this tree from the regenerated table and check every slot of it.) -/
structure Tree where
  cells : Nat
  count : Nat
  deriving Repr, DecidableEq

def slotBits : Nat := 32

def Tree.child (t : Tree) (n i : Nat) : Ent := Ent.dec (t.cells / 2 ^ (slotBits * (256 * n + i)) % 2 ^ slotBits)

/-- `a[pos] = w` on a packed array of 32-bit slots -/
def cellSet (cells pos w : Nat) : Nat :=
  cells % 2 ^ (slotBits * pos) + w * 2 ^ (slotBits * pos) + cells / 2 ^ (slotBits * pos + slotBits) * 2 ^ (slotBits * pos + slotBits)

def Tree.setChild (t : Tree) (n i : Nat) (e : Ent) : Tree := { t with cells := cellSet t.cells (256 * n + i) e.enc }

/-- `newInternalNode()`: a fresh `[256]*node` of nils; its id -/
def Tree.alloc (t : Tree) : Tree × Nat := ({ t with count := t.count + 1 }, t.count)

structure Build where
  tree : Tree
  /-- a Go panic happened (nil dereference / index out of range) -/
  bad : Bool
  deriving Repr

/-- the `for codeLen > 8` loop of `addDecoderNode`: returns the tree, `cur` and the remaining `codeLen` -/
def addDescend : Nat → Build → Nat → Nat → Nat → Build × Nat × Nat
  | 0, b, cur, _, codeLen => ({ b with bad := true }, cur, codeLen)
  | fuel + 1, b, cur, code, codeLen =>
    if addLoopGuard codeLen then
      let codeLen := addLoopDec codeLen
      let i := addDescIdx code codeLen
      match b.tree.child cur i with
      | .none =>
        let (t, id) := b.tree.alloc
        addDescend fuel { b with tree := t.setChild cur i (.ptr id) } id code codeLen
      | .ptr id => addDescend fuel b id code codeLen
      | .leaf _ _ => ({ b with bad := true }, cur, codeLen)   -- `cur.children` of a leaf is nil
    else (b, cur, codeLen)

/-- the fill loop `for i := start; i < start+end; i++ { cur.children[i] = &node{sym: sym, codeLen: codeLen} }` -/
def addFill (t : Tree) (cur sym codeLen start : Nat) : Nat → Tree
  | 0 => t
  | k + 1 => addFill (t.setChild cur start (.leaf sym codeLen)) cur sym codeLen (start + 1) k

/-- `addDecoderNode(sym, code, codeLen)` -/
def addDecoderNode (b : Build) (sym code codeLen : Nat) : Build :=
  let (b, cur, codeLen) := addDescend 32 b 0 code codeLen
  let shift := addShift codeLen
  let start := addStart code shift
  let fend := addEnd shift
  let stop := addFillEnd start fend
  { tree := addFill b.tree cur sym codeLen start (stop - start), bad := b.bad || decide (stop > 256) }

/-- one iteration of `for i, code := range huffmanCodes { addDecoderNode(byte(i), code, huffmanCodeLen[i]) }`
(both tables are Go arrays of the same length — checked by the extractor, `Gen.HpackHuff.tableArrayLen` — so
`huffmanCodeLen[i]` is the i-th element of the zipped tables) -/
def buildStep (b : Build) (cli : (Nat × Nat) × Nat) : Build := addDecoderNode b (cli.2 % 256) cli.1.1 cli.1.2

/-- `buildRootHuffmanNode()` -/
def buildRoot : Build :=
  ((huffmanCodes.zip huffmanCodeLen).zipIdx 0).foldl buildStep
    { tree := { cells := 0, count := 1 }, bad := decide (huffmanCodes.length ≠ tableLen) }

def huffTree : Tree := buildRoot.tree

/-- the tree as lists (for printing / comparing with the real one) -/
def Tree.rows (t : Tree) : List (List Ent) := (List.range t.count).map (fun n => (List.range 256).map (fun i => t.child n i))

/-! ### the walker -/

structure WSt where
  n : Nat          -- the current node
  cur : Nat        -- `cur` (uint)
  cbits : Nat      -- uint8
  sbits : Nat      -- uint8
  out : Bytes      -- `buf`, reversed
  deriving Repr

/-- the `for cbits >= 8` loop -/
def inner (t : Tree) (maxLen : Nat) : Nat → WSt → Except HErr WSt
  | 0, st => .ok st
  | fuel + 1, st =>
    if decInnerGuard st.cbits then
      match t.child st.n (decInnerIdx st.cur st.cbits) with
      | .none => .error .invalid
      | .leaf sym codeLen =>
        if decMaxLenHit maxLen st.out.length then .error .strLen else
        let cbits := decLeafBits st.cbits codeLen
        inner t maxLen fuel { st with out := UInt8.ofNat sym :: st.out, cbits := cbits, n := 0, sbits := decLeafSbits cbits }
      | .ptr id => inner t maxLen fuel { st with n := id, cbits := decDescBits st.cbits }
    else .ok st

/-- the `for _, b := range v` loop -/
def feed (t : Tree) (maxLen : Nat) : Bytes → WSt → Except HErr WSt
  | [], st => .ok st
  | b :: r, st =>
    match inner t maxLen 16 { st with cur := decFeed st.cur b.toNat, cbits := decFeedBits st.cbits, sbits := decFeedSbits st.sbits } with
    | .error e => .error e
    | .ok st => feed t maxLen r st

/-- the trailing `for cbits > 0` loop -/
def tail (t : Tree) (maxLen : Nat) : Nat → WSt → Except HErr WSt
  | 0, st => .ok st
  | fuel + 1, st =>
    if decTailGuard st.cbits then
      match t.child st.n (decTailIdx st.cur st.cbits) with
      | .none => .error .invalid
      | .ptr _ => if decTailBreak true 0 st.cbits then .ok st else .error .invalid   -- an internal node: `children != nil`
      | .leaf sym codeLen =>
        if decTailBreak false codeLen st.cbits then .ok st else
        if decMaxLenHit maxLen st.out.length then .error .strLen else
        let cbits := decLeafBits st.cbits codeLen
        tail t maxLen fuel { st with out := UInt8.ofNat sym :: st.out, cbits := cbits, n := 0, sbits := decLeafSbits cbits }
    else .ok st

def WSt.init : WSt := { n := 0, cur := 0, cbits := 0, sbits := 0, out := [] }

/-- `huffmanDecode(buf, maxLen, v)` -/
def walk (maxLen : Nat) (v : Bytes) : Except HErr Bytes :=
  match feed huffTree maxLen v WSt.init with
  | .error e => .error e
  | .ok st =>
    match tail huffTree maxLen 9 st with
    | .error e => .error e
    | .ok st =>
      if decSbitsBad st.sbits then .error .invalid
      else if decMaskBad st.cur (decMask st.cbits) then .error .invalid
      else .ok st.out.reverse

/-! ### the encoder, statement by statement -/

/-- `dst[len(dst)-1] |= t` -/
def orLast (dst : List Nat) (t : Nat) : List Nat :=
  match dst.reverse with
  | [] => []
  | x :: r => ((x ||| t) :: r).reverse

/-- the `for` loop of `appendByteToHuffmanCode` -/
def appendCode : Nat → List Nat → Nat → Nat → Nat → List Nat × Nat
  | 0, dst, rembits, _, _ => (dst, rembits)
  | fuel + 1, dst, rembits, code, nbits =>
    if encFits rembits nbits then (orLast dst (encLowByte code rembits nbits), encFitsDec rembits nbits)
    else
      let dst := orLast dst (encHighByte code rembits nbits)
      let nbits := encSpillDec rembits nbits
      let rembits := encRemReset
      if encDone nbits then (dst, rembits) else appendCode fuel (dst ++ [0]) rembits code nbits

/-- `AppendHuffmanString(nil, s)` (bytes as numbers) -/
def goEncodeNat (s : Bytes) : List Nat :=
  let r := s.foldl (fun (acc : List Nat × Nat) c =>
    let dst := if acc.2 == encRemFull then acc.1 ++ [0] else acc.1
    appendCode 8 dst acc.2 (codeOf c.toNat) (lenOf c.toNat)) ([], encRemInit)
  if r.2 < encRemFull then orLast r.1 (encEosByte Gen.HpackHuff.eosCode Gen.HpackHuff.eosLen r.2) else r.1

def goEncode (s : Bytes) : Bytes := (goEncodeNat s).map UInt8.ofNat

/-- `HuffmanEncodeLength(s)` -/
def goEncodeLen (s : Bytes) : Nat := encLenRound (s.foldl (fun n c => encLenTerm n (lenOf c.toNat)) 0)

/-! ### declarative decoder with the `maxLen` rule -/

def decodeStepMax (maxLen : Nat) (m : Option (Nat × List Bool)) (bits : List Bool) (acc : Bytes)
    (k : List Bool → Bytes → Except HErr Bytes) : Except HErr Bytes :=
  match m with
  | some (sym, rest) =>
    if maxLen ≠ 0 ∧ acc.length = maxLen then .error .strLen
    else k rest (UInt8.ofNat sym :: acc)
  | none => if bits.length < 8 ∧ bits.all id then .ok acc.reverse else .error .invalid

def decodeBitsMax (maxLen : Nat) : Nat → List Bool → Bytes → Except HErr Bytes
  | 0, _, _ => .error .invalid
  | fuel + 1, bits, acc => decodeStepMax maxLen (matchSym bits) bits acc (decodeBitsMax maxLen fuel)

def decodeSpecMax (maxLen : Nat) (v : Bytes) : Except HErr Bytes :=
  decodeBitsMax maxLen (8 * v.length + 1) (bytesToBits v) []

end MosnVerif.Model.HuffTree
