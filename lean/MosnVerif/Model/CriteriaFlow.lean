import MosnVerif.Gen.CriteriaFlow
import MosnVerif.Model.SubsetRequest
/-!
ONE request selects a host SEVERAL times (`chooseHost` again after a filter's re-choose-host, `doRetry`): the criteria are
recomputed by `downStream.MetadataMatchCriteria` at every selection from the CURRENT request-level variable and the CURRENT
route entry. Between two selections a stream filter may store another map in the variable, edit the stored map, unset the
variable, or replace the route entry.

* Regenerated: `Gen.CriteriaFlow.memoized` (the function keeps a result across calls), `reads`, the selection sites;
  `Gen.SubsetRequest.assemble` (the merge) and `Gen.SubsetRequest.varCopiedBeforeMerge` (the route's pairs are written into
  a copy of the variable's map, not into the map itself).
* `select` interprets them: with `memoized` a later selection re-uses the first result; without the copy the route's pairs
  stay in the variable's map.
-/
namespace MosnVerif.Model.CriteriaFlow
open MosnVerif MosnVerif.Model.Subset MosnVerif.Model.SubsetRequest

structure S where
  /-- the request-level variable (`none`: unset) -/
  var : Option Meta
  /-- the criteria object of the current route entry for the current cluster -/
  route : Option Path
  memo : Option (Option Path) := none

/-- the variable's map after one call of `MetadataMatchCriteria` -/
def varAfter (copied : Bool) (route : Option Path) (var : Option Meta) : Option Meta :=
  if copied then var else
  var.map (fun m => (Gen.SubsetRequest.assemble copyRoute id id id id true route.isSome (⟨route, m⟩ : St)).var)

/-- one host selection: the criteria handed to the balancer, the state afterwards -/
def select (memoized copied : Bool) (s : S) : Option Path × S :=
  match (if memoized then s.memo else none) with
  | some c => (c, s)
  | none =>
    let r := assemble s.route s.var
    (r.used, { var := varAfter copied s.route s.var, route := r.route, memo := if memoized then some r.used else none })

inductive Step where
  /-- a filter stores a new map in the variable (`none`: unsets it) -/
  | store (m : Option Meta)
  /-- a filter writes pairs into the stored map -/
  | put (kvs : Meta)
  /-- a filter deletes a key of the stored map -/
  | del (k : Key)
  /-- the route entry is replaced (re-match, `SetRouteEntry`): the criteria object of the new entry -/
  | route (r : Option Path)
  /-- `chooseHost` / `doRetry` -/
  | select
deriving Repr, Inhabited

def edit (s : S) : Step → S
  | .store m => { s with var := m }
  | .put kvs => { s with var := s.var.map (fun m => kvs.foldl (fun acc kv => mapSet kv acc) m) }
  | .del k => { s with var := s.var.map (fun m => m.filter (fun kv => kv.1 != k)) }
  | .route r => { s with route := r }
  | .select => s

/-- every selection of the request: (state current at that selection, criteria used) -/
def run (memoized copied : Bool) : S → List Step → List (S × Option Path)
  | _, [] => []
  | s, .select :: r => (s, (select memoized copied s).1) :: run memoized copied (select memoized copied s).2 r
  | s, st :: r => run memoized copied (edit s st) r

def runGen : S → List Step → List (S × Option Path) :=
  run Gen.CriteriaFlow.memoized Gen.SubsetRequest.varCopiedBeforeMerge

end MosnVerif.Model.CriteriaFlow
