import MosnVerif.Model.Bytes
import MosnVerif.Gen.C01Tars
import MosnVerif.Gen.FrameConsts
/-!
Envelope model of the tars codec (`pkg/protocol/xprotocol/tars/{protocol,decoder,encoder,command}.go`) and of the
writer side of TarsGo v1.1.4 (`tars/protocol/codec/codec.go` `Write_*`, `res/requestf/{RequestPacket,ResponsePacket}.go`
`WriteTo`), modelled from its source.

  totalLen(4, includes itself) | packet (tars TLV: head byte = tag<<4 | type, …)

Unlike the other codecs tars has **no fast path**: `Encode` always re-serialises the decoded packet with TarsGo and
prefixes the new total length.  The forwarded frame therefore equals the received one (up to the id field) only for
packets in TarsGo's canonical form, and the `context` / `status` maps are Go maps: their entries are written in Go's
map iteration order, which the model takes as a parameter (the entry *lists* of the packet).
TarsGo's reader (`ReadFrom`) is a black box: the model's decode takes the packet it yields as a parameter.
-/
namespace MosnVerif.Model.Tars
open MosnVerif.Model MosnVerif.Model.Bytes

/-- `Buffer.WriteHead`: one byte `tag<<4 | type`, or `0xF0 | type` followed by the tag when tag ≥ 15 -/
def head (ty tag : Nat) : Bytes :=
  if tag < 15 then [UInt8.ofNat (tag * 16 + ty)] else [UInt8.ofNat (240 + ty), UInt8.ofNat tag]

/-- two's complement of a signed value on `w` bytes -/
def twos (w : Nat) (v : Int) : Nat := (v % (256 ^ w : Nat)).toNat

/-- `Write_int8`: ZERO_TAG (12) for 0, else BYTE (0) + 1 byte -/
def wInt8 (v : Int) (tag : Nat) : Bytes :=
  if v = 0 then head 12 tag else head 0 tag ++ be 1 (twos 1 v)

/-- `Write_int16`: falls to `Write_int8` inside [-128, 127], else SHORT (1) + 2 bytes -/
def wInt16 (v : Int) (tag : Nat) : Bytes :=
  if -128 ≤ v ∧ v ≤ 127 then wInt8 v tag else head 1 tag ++ be 2 (twos 2 v)

/-- `Write_int32`: falls to `Write_int16` inside [-32768, 32767], else INT (2) + 4 bytes -/
def wInt32 (v : Int) (tag : Nat) : Bytes :=
  if -32768 ≤ v ∧ v ≤ 32767 then wInt16 v tag else head 2 tag ++ be 4 (twos 4 v)

/-- `Write_string`: STRING1 (6) + 1-byte length up to 255 bytes, else STRING4 (7) + 4-byte length -/
def wString (s : Bytes) (tag : Nat) : Bytes :=
  if s.length > 255 then head 7 tag ++ be 4 s.length ++ s else head 6 tag ++ be 1 s.length ++ s

/-- a `map<string,string>` field: MAP (8) head, entry count (int32, tag 0), then key (tag 0) / value (tag 1) strings -/
def wMap (es : List (Bytes × Bytes)) (tag : Nat) : Bytes :=
  head 8 tag ++ wInt32 es.length 0 ++ es.flatMap (fun e => wString e.1 0 ++ wString e.2 1)

/-- a `vector<byte>` field: SIMPLE_LIST (13) head, BYTE head (tag 0), length (int32, tag 0), the bytes -/
def wBuf (b : Bytes) (tag : Nat) : Bytes :=
  head 13 tag ++ head 0 0 ++ wInt32 b.length 0 ++ b

structure Req where
  iVersion : Int
  cPacketType : Int
  iMessageType : Int
  iRequestId : Int
  sServantName : Bytes
  sFuncName : Bytes
  sBuffer : Bytes
  iTimeout : Int
  context : List (Bytes × Bytes)   -- in the order Go iterates the map when writing
  status : List (Bytes × Bytes)
  deriving Repr, DecidableEq

structure Resp where
  iVersion : Int
  cPacketType : Int
  iRequestId : Int
  iMessageType : Int
  iRet : Int
  sBuffer : Bytes
  status : List (Bytes × Bytes)
  sResultDesc : Bytes
  context : List (Bytes × Bytes)
  deriving Repr, DecidableEq

/-- the part of a request before the request id, the id field, and the part after it -/
def reqPre (p : Req) : Bytes := wInt16 p.iVersion 1 ++ wInt8 p.cPacketType 2 ++ wInt32 p.iMessageType 3
def reqPost (p : Req) : Bytes :=
  wString p.sServantName 5 ++ wString p.sFuncName 6 ++ wBuf p.sBuffer 7 ++ wInt32 p.iTimeout 8 ++
  wMap p.context 9 ++ wMap p.status 10

/-- `RequestPacket.WriteTo` -/
def wReq (p : Req) : Bytes := reqPre p ++ wInt32 p.iRequestId 4 ++ reqPost p

def respPre (p : Resp) : Bytes := wInt16 p.iVersion 1 ++ wInt8 p.cPacketType 2
def respPost (p : Resp) : Bytes :=
  wInt32 p.iMessageType 4 ++ wInt32 p.iRet 5 ++ wBuf p.sBuffer 6 ++ wMap p.status 7 ++ wString p.sResultDesc 8 ++
  wMap p.context 9

/-- `ResponsePacket.WriteTo` -/
def wResp (p : Resp) : Bytes := respPre p ++ wInt32 p.iRequestId 3 ++ respPost p

/-- `encodeRequest` / `encodeResponse`: 4-byte total length (itself included) + packet -/
def envelope (body : Bytes) : Bytes := be 4 (Gen.C01Tars.MessageSizeLen + body.length) ++ body

/-- `SetRequestId(id)`: `int32(id)` -/
def idOf (id : Nat) : Int :=
  let v : Nat := id % 4294967296
  if v < 2147483648 then (v : Int) else (v : Int) - 4294967296

def encodeReq (p : Req) (id : Nat) : Bytes := envelope (wReq { p with iRequestId := idOf id })
def encodeResp (p : Resp) (id : Nat) : Bytes := envelope (wResp { p with iRequestId := idOf id })

/-- `tarsprotocol.TarsRequest` as used by `Decode`: how many bytes the frame at the head of `b` has, if it is complete.
(`PACKAGE_LESS` and `PACKAGE_ERROR` — announced length < 4 or > 10485760 — both make `Decode` return `nil, nil`.) -/
def frameLen? (b : Bytes) : Option Nat :=
  if b.length < 4 then none
  else
    let n := getBE b 0 4
    if n < 4 ∨ n > 10485760 then none
    else if b.length < n then none
    else some n

/-- [c08l9] `TarsRequest` answers PACKAGE_ERROR (the announced length can never become a package): `Decode` returns a
decode error when the regenerated flag says so (since fix 'tars invalid package length'; `nil, nil` before) -/
def packageError (b : Bytes) : Bool :=
  decide (4 ≤ b.length) && (decide (getBE b 0 4 < 4) || decide (getBE b 0 4 > 10485760)) &&
    Gen.FrameConsts.tars_packageErrorFails

/-- where the TarsGo reader starts inside the frame (regenerated: it used to be 0, which broke frames ≥ 256 bytes) -/
def packetOf (frame : Bytes) : Bytes := frame.drop Gen.C01Tars.readerOffsetRequest

end MosnVerif.Model.Tars
