import MosnVerif.Gen.TlsSds
import MosnVerif.Model.TlsSelect
/-!
Model of an sds-backed TLS context under configuration updates (pkg/mtls/secret_manager.go): the `sdsProvider` of one
index (`server_<listener>` / `client_<cluster>`) is shared by every context manager built for that listener / cluster.
Its state is (config = `p.config`, secret = `p.info` once `Full()`, context = `p.value`: which configuration and which
secret the `tlsContext` in force was built from).

* `NewProvider(index, cfg)` (every listener / cluster add or update) → `updateConfig cfg`: store the configuration and —
  REGENERATED `Gen.TlsSds.updateConfigRebuilds` — rebuild the context (`p.update()`); `g` is the value of whatever
  condition guards the rebuild in the source (today: none), an oracle the theorems quantify over.
* a secret push (`setCertificate` / `setValidation`) stores the secret and rebuilds (`secretPushRebuilds`).
* `update()` does nothing until the secret is complete and builds from the STORED configuration.

Assumption: secrets delivered by sds parse (newTLSContext succeeds). An empty push (`CertificatePEM == ""`) keeps the
secret and rebuilds. Core Lean only.
-/
namespace MosnVerif.Model.TlsSds
open MosnVerif.Gen.TlsSds MosnVerif.Gen.TlsPolicy MosnVerif.Model.TlsSelect

structure Prov (κ σ : Type) where
  config : κ
  secret : Option σ
  ctx : Option (κ × σ)
  deriving DecidableEq, Repr

inductive SOp (κ σ : Type) where
  | update (cfg : κ) (g : Bool)   -- listener / cluster update carrying this TLS configuration
  | push (s : σ)                  -- the sds server delivers a (new) secret
  | pushEmpty                     -- a push without certificate: nothing stored, the callbacks still run
  deriving DecidableEq, Repr

variable {κ σ : Type}

/-- `sdsProvider.update` -/
def rebuild (p : Prov κ σ) : Prov κ σ :=
  match p.secret with
  | none => if updateNeedsFull then p else { p with ctx := none }
  | some s => if updateBuildsFromStoredConfig then { p with ctx := some (p.config, s) } else p

def step (p : Prov κ σ) : SOp κ σ → Prov κ σ
  | .update cfg g =>
    let p' := if updateConfigStores then { p with config := cfg } else p
    if updateConfigRebuilds g then rebuild p' else p'
  | .push s => let p' := { p with secret := some s }; if secretPushRebuilds then rebuild p' else p'
  | .pushEmpty => if secretPushRebuilds then rebuild p else p

/-- `addOrUpdateSdsProvider` for a new index: the provider starts with the secret its pem provider already holds
(`s0`), then `updateConfig cfg0` -/
def create (cfg0 : κ) (s0 : Option σ) (g : Bool) : Prov κ σ := step ⟨cfg0, s0, none⟩ (.update cfg0 g)

def run (cfg0 : κ) (s0 : Option σ) (g : Bool) (ops : List (SOp κ σ)) : Prov κ σ := ops.foldl step (create cfg0 s0 g)

/-! ### Spec: latest configuration, latest secret (plain recursion, nothing regenerated) -/

def latestCfg : κ → List (SOp κ σ) → κ
  | c, [] => c
  | _, .update c _ :: r => latestCfg c r
  | c, _ :: r => latestCfg c r

def latestSecret : Option σ → List (SOp κ σ) → Option σ
  | s, [] => s
  | _, .push s :: r => latestSecret (some s) r
  | s, _ :: r => latestSecret s r

/-- the context that must be in force -/
def specCtx (cfg0 : κ) (s0 : Option σ) (ops : List (SOp κ σ)) : Option (κ × σ) :=
  (latestSecret s0 ops).map (fun s => (latestCfg cfg0 ops, s))

/-! ### observations of the differential run (kind sdsu) -/

/-- the policy part of a listener TLS context: the fields that are NOT in the tls.Config template -/
structure LPol where
  verify : Bool
  require : Bool
  sname : Name
  deriving DecidableEq, Repr

/-- the policy part of a cluster TLS context -/
structure CPol where
  insecure : Bool
  snSet : Bool
  hook : Bool      -- the `type` extension with a ClientHandshakeVerify hook
  deriving DecidableEq, Repr

def defaultCN : Name := "default.sdsu.test".toList
def sdsCN : Name := "cert.sdsu.test".toList

/-- the listener of the run: context 0 static (`default.sdsu.test`, no client authentication), context 1 the sds one -/
def listenerCtxs (ctx : Option (LPol × Nat)) : List Ctx :=
  [⟨true, defaultCN, [defaultCN], [], []⟩,
   match ctx with
   | none => ⟨false, [], [], [], []⟩
   | some (pol, _) => ⟨true, sdsCN, [sdsCN], [], pol.sname⟩]

/-- handshake of a client (SNI, certificate class) with the listener whose sds context was built with policy `pol`
(`none` = not built yet): (the sds context answers, the server accepts) -/
def listenerPick (pol : Option LPol) (sni : Name) (peer : Peer) : Option (Bool × Bool) :=
  match select (listenerCtxs (pol.map (fun q => (q, 0)))) sni [] with
  | .config (some 0) => some (false, serverAccepts (getClientAuth false false) peer)
  | .config (some _) =>
    match pol with
    | some pol => some (true, serverAccepts (getClientAuth pol.require pol.verify) peer)
    | none => none
  | _ => none

def specListenerPick (pol : Option LPol) (sni : Name) (peer : Peer) : Option (Bool × Bool) :=
  match specSelect (listenerCtxs (pol.map (fun q => (q, 0)))) sni [] with
  | some 0 => some (false, true)
  | some _ =>
    match pol with
    | some pol => some (true, specServerAccepts pol.require pol.verify peer)
    | none => none
  | none => none

/-- which certificate answers (`none` = the static one, `some k` = secret k) and whether the server accepts -/
def withSecret (ctx : Option (LPol × Nat)) (r : Option (Bool × Bool)) : Option (Option Nat × Bool) :=
  r.map (fun (sds, ok) => (if sds then ctx.map (·.2) else none, ok))

def listenerObs (ctx : Option (LPol × Nat)) (sni : Name) (peer : Peer) : Option (Option Nat × Bool) :=
  withSecret ctx (listenerPick (ctx.map (·.1)) sni peer)

def specListenerObs (ctx : Option (LPol × Nat)) (sni : Name) (peer : Peer) : Option (Option Nat × Bool) :=
  withSecret ctx (specListenerPick (ctx.map (·.1)) sni peer)

/-- the server names / SNI values the differential run uses -/
def snA : Name := "a.sdsu.test".toList
def snB : Name := "b.sdsu.test".toList
def snNone : Name := "none.sdsu.test".toList

/-- upstream handshake of the cluster's context with a server presenting `cert`: `none` = no context yet (not probed),
otherwise (client certificate k was offered, the client side accepts) -/
def clusterObs (ctx : Option (CPol × Nat)) (cert : ServerCert) (hookOK : Bool) : Option (Nat × Bool) :=
  ctx.map (fun (pol, k) => (k, clientAccepts pol.hook pol.insecure pol.snSet cert hookOK))

def specClusterObs (ctx : Option (CPol × Nat)) (cert : ServerCert) (hookOK : Bool) : Option (Nat × Bool) :=
  ctx.map (fun (pol, k) => (k, specClientAccepts pol.hook pol.insecure pol.snSet cert hookOK))

end MosnVerif.Model.TlsSds
