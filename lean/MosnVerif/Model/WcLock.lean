import MosnVerif.Gen.WcLock
/-!
Concurrent requests drawing from ONE shared random generator (property C06: `RouteRuleImplBase.ClusterName` owns one
`math/rand.Rand`, which is not safe for concurrent use; the same shape in the `random` / least-active / peak-EWMA balancers and
the round-robin factory).

* `Gen/WcLock.lean` is the regenerated **lock structure** of every site: statements in source order as steps
  (`lock`, `unlock`, `initRng`, `draw`, `alias`, `drawAlias`, `escape`, `atomicOp`, `other`).
* The generator is modelled by its **stream**: an arbitrary function `stream : Nat → Nat`; the generator's state is the position
  `pos`, `next` = *read the state; compute the output `stream pos`; write the state `pos + 1`*. A `draw` / `drawAlias` step is
  executed as TWO atomic steps of the machine (read half, write half): between them any other thread may run. Inside the mutex
  nobody else can touch the generator; outside it two requests may read the same state.
* Any number of requests (one thread id each) run their step programs under an arbitrary **schedule** (a list of thread ids;
  scheduling a finished or blocked thread is a stutter). `sync.Mutex`: `lock` is enabled only while nobody holds the mutex.
* Lazy creation (`initRng`) creates the generator iff it does not exist (position 0 of its stream). A draw through a nil pointer
  is a panic: the request dies (and keeps what it holds).
* `log` is a ghost: (request, output) in the order in which outputs were handed out.
-/
namespace MosnVerif.Model.WcLock
open MosnVerif.Gen.WcLock

structure Thread where
  todo : List Step
  /-- generator state read by the first half of a draw in progress -/
  rd : Option Nat := none
  /-- the local copy of the pointer is non-nil -/
  ali : Bool := false
  /-- outputs handed to this request, oldest first -/
  got : List Nat := []

structure Conf where
  /-- the rule's generator exists (`rri.randInstance != nil`) -/
  created : Bool
  /-- state of the generator: position in its stream -/
  pos : Nat
  holder : Option Nat
  threads : Nat → Thread
  /-- ghost: (request, output) in hand-out order -/
  log : List (Nat × Nat)

def setThread (th : Nat → Thread) (t : Nat) (v : Thread) : Nat → Thread := fun u => if u = t then v else th u

/-- one half of `next` on the generator reached through a pointer that is valid iff `valid`. -/
def drawStep (stream : Nat → Nat) (c : Conf) (t : Nat) (r : List Step) (valid : Bool) : Conf :=
  let th := c.threads t
  if valid then
    match th.rd with
    | none => { c with threads := setThread c.threads t { th with rd := some c.pos } }
    | some p =>
      { c with pos := p + 1, log := c.log ++ [(t, stream p)],
               threads := setThread c.threads t { th with todo := r, rd := none, got := th.got ++ [stream p] } }
  else { c with threads := setThread c.threads t { th with todo := [], rd := none } }

/-- thread `t` executes the head `a` of its program (rest `r`). -/
def stepHead (stream : Nat → Nat) (c : Conf) (t : Nat) (a : Step) (r : List Step) : Conf :=
  let th := c.threads t
  match a with
  | .lock => if c.holder = none then { c with holder := some t, threads := setThread c.threads t { th with todo := r } } else c
  | .unlock =>
    { c with holder := if c.holder = some t then none else c.holder, threads := setThread c.threads t { th with todo := r } }
  | .initRng =>
    if c.created then { c with threads := setThread c.threads t { th with todo := r } }
    else { c with created := true, pos := 0, threads := setThread c.threads t { th with todo := r } }
  | .draw => drawStep stream c t r c.created
  | .drawAlias => drawStep stream c t r th.ali
  | .alias => { c with threads := setThread c.threads t { th with todo := r, ali := c.created } }
  | .atomicOp =>
    { c with pos := c.pos + 1, log := c.log ++ [(t, stream c.pos)],
             threads := setThread c.threads t { th with todo := r, got := th.got ++ [stream c.pos] } }
  | .escape => { c with threads := setThread c.threads t { th with todo := r } }
  | .other => { c with threads := setThread c.threads t { th with todo := r } }

/-- thread `t` is scheduled for one atomic step. -/
def stepThread (stream : Nat → Nat) (c : Conf) (t : Nat) : Conf :=
  match (c.threads t).todo with
  | [] => c
  | a :: r => stepHead stream c t a r

def runSched (stream : Nat → Nat) (c : Conf) (sched : List Nat) : Conf := sched.foldl (stepThread stream) c

/-- request `t` runs `progs t`; the generator exists already iff `created0` (then at the start of its stream). -/
def initConf (progs : Nat → List Step) (created0 : Bool) : Conf :=
  { created := created0, pos := 0, holder := none, threads := fun t => { todo := progs t }, log := [] }

/-- `safe held inited p`: running `p` from a point where the mutex is held iff `held` and the generator is known to exist iff
`inited`, every access to the shared generator — lazy creation, a method call on it, a copy of the pointer, a method call through
a copy — happens while the mutex is held (and after the creation check), the mutex is taken only when free and released only
when held, the pointer does not escape, and there is no raw / atomic access mixed in. -/
def safe : Bool → Bool → List Step → Bool
  | _, _, [] => true
  | h, i, .lock :: r => !h && safe true i r
  | h, i, .unlock :: r => h && safe false i r
  | h, _, .initRng :: r => h && safe h true r
  | h, i, .draw :: r => h && i && safe h i r
  | h, i, .alias :: r => h && i && safe h i r
  | h, i, .drawAlias :: r => h && i && safe h i r
  | _, _, .escape :: _ => false
  | _, _, .atomicOp :: _ => false
  | h, i, .other :: r => safe h i r

/-- **lock discipline** of a program that starts without the mutex and without knowing that the generator exists. -/
def disciplined (p : List Step) : Bool := safe false false p

/-- the discipline of a site whose generator is created by the constructor, before the object is shared (no lazy creation). -/
def disciplinedCreated (p : List Step) : Bool := safe false true p

/-- a cursor that is only ever accessed by single atomic read-modify-write operations. -/
def atomicOnly (p : List Step) : Bool := p.all (fun a => a == .atomicOp || a == .other)

def isDraw (a : Step) : Bool := a == .draw || a == .drawAlias

/-- outputs handed out so far, in hand-out order. -/
def handed (c : Conf) : List Nat := c.log.map (·.2)

/-- the first `n` outputs of the generator. -/
def prefixOf (stream : Nat → Nat) (n : Nat) : List Nat := (List.range n).map stream

/-- the seeded shape "copy the pointer under the lock, draw after the unlock" as the extractor renders it. Used for the
machine-checked negative witness only. -/
def drawAfterUnlock : List Step := [.other, .lock, .initRng, .alias, .unlock, .drawAlias, .other]

end MosnVerif.Model.WcLock
