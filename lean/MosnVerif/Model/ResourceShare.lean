import MosnVerif.Gen.ResourceShare
import MosnVerif.Gen.Resource
/-!
# Which resource-manager OBJECT a cluster uses across runtime updates (C10, builder c10p10)

The breaker resources (`Connections / PendingRequests / Requests / Retries`) live in a `resourcemanager` OBJECT that belongs to a
cluster-info OBJECT; a runtime update (`AddOrUpdatePrimaryCluster`, `AddOrUpdateClusterAndHost`, the adapter's `Trigger*` used by
xDS → `clusterManager.UpdateCluster`) builds a NEW cluster with a new info and a FRESH manager, runs the handler chain, then
publishes the new cluster.  What is in flight gives its unit back through the object it remembers:

* a retry slot through the cluster info captured when the request was routed (`retryState.cluster`)           — `Path.info i`;
* a request slot through the pool's host: `host.ClusterInfo()` evaluated WHEN the stream is destroyed        — `Path.host h`;
* a stream-proxy connection is taken on the info of the snapshot and given back through `host.ClusterInfo()`.
  (which site uses which path is regenerated: `Gen.ResourceShare.sites`).

The model keeps the object graph with identities — managers, infos (→ manager), hosts (→ info, mutable: `SetClusterInfo`), the
published cluster (info, host set), the live holders with the path they will use — and INTERPRETS the regenerated programs:
`Gen.ResourceShare.handler` (UpdateClusterResourceManagerHandler), `stores` (updateResourceValue), `primaryChain` /
`andHostChain`.  `Increase / Decrease / CanCreate` are the regenerated `Gen.Resource.*` (no-ops while `max = 0`).
`Code` makes the programs a parameter: the theorems are about `Code.gen`, the negation witnesses about edited programs.
Core Lean only.
-/
namespace MosnVerif.Model.ResourceShare
open MosnVerif.Gen.ResourceShare

structure V4 (α : Type) where
  conn : α
  pend : α
  req : α
  retr : α
deriving DecidableEq, Repr

def V4.get {α : Type} (v : V4 α) : Res → α
  | .conn => v.conn | .pend => v.pend | .req => v.req | .retr => v.retr

def V4.set {α : Type} (v : V4 α) (r : Res) (a : α) : V4 α :=
  match r with
  | .conn => { v with conn := a } | .pend => { v with pend := a }
  | .req => { v with req := a } | .retr => { v with retr := a }

def V4.const {α : Type} (a : α) : V4 α := ⟨a, a, a, a⟩

/-- thresholds (0 = unlimited) -/
abbrev Thr := V4 Nat

/-- a `resourcemanager` object -/
structure Mgr where
  max : V4 Nat
  cur : V4 Int
deriving DecidableEq, Repr

def upd {α : Type} (f : Nat → α) (k : Nat) (v : α) : Nat → α := fun x => if x = k then v else f x

/-- how a holder reaches the manager: through a cluster-info object / through a host's CURRENT info -/
inductive Path where
  | info (i : Nat)
  | host (h : Nat)
deriving DecidableEq, Repr

structure Holder where
  id : Nat
  res : Res
  rel : Path
deriving DecidableEq, Repr

/-- the regenerated programs as a parameter -/
structure Code where
  handler : List Act
  stores : List Store
  primary : List Step
  andHost : List Step
deriving DecidableEq, Repr

def Code.gen : Code :=
  ⟨MosnVerif.Gen.ResourceShare.handler, MosnVerif.Gen.ResourceShare.stores, MosnVerif.Gen.ResourceShare.primaryChain,
   MosnVerif.Gen.ResourceShare.andHostChain⟩

structure State where
  mgr : Nat → Mgr
  nMgr : Nat
  infoMgr : Nat → Nat
  nInfo : Nat
  hostInfo : Nat → Nat
  nHost : Nat
  /-- the info of the PUBLISHED cluster (`clustersMap[name]`) -/
  cur : Nat
  /-- the host objects of the published cluster's host set -/
  hosts : List Nat
  live : List Holder
  /-- the active gauges, keyed by NAME in the metrics registry (`Gen.ResourceShare.stats_*`): one counter per resource kind -/
  gauge : V4 Int

def init (thr : Thr) (nHosts : Nat) : State :=
  { mgr := fun _ => ⟨thr, V4.const 0⟩, nMgr := 1, infoMgr := fun _ => 0, nInfo := 1, hostInfo := fun _ => 0, nHost := nHosts,
    cur := 0, hosts := List.range nHosts, live := [], gauge := V4.const 0 }

def validPath (s : State) : Path → Bool
  | .info i => decide (i < s.nInfo)
  | .host h => decide (h < s.nHost)

def mgrOf (s : State) : Path → Nat
  | .info i => s.infoMgr i
  | .host h => s.infoMgr (s.hostInfo h)

/-- the manager of the CURRENT snapshot: `cm.GetClusterSnapshot(name).ClusterInfo().ResourceManager()` -/
def curMgr (s : State) : Mgr := s.mgr (s.infoMgr s.cur)

def canCreate (m : Mgr) (r : Res) : Bool := MosnVerif.Gen.Resource.canCreate (m.max.get r : Nat) (m.cur.get r)
def incr (m : Mgr) (r : Res) : Mgr := { m with cur := m.cur.set r (MosnVerif.Gen.Resource.increase (m.max.get r : Nat) (m.cur.get r)) }
def decr (m : Mgr) (r : Res) : Mgr := { m with cur := m.cur.set r (MosnVerif.Gen.Resource.decrease (m.max.get r : Nat) (m.cur.get r)) }

def count (r : Res) : List Holder → Nat
  | [] => 0
  | h :: l => (if h.res = r then 1 else 0) + count r l

def findId (id : Nat) : List Holder → Option Holder
  | [] => none
  | h :: l => if h.id = id then some h else findId id l

def removeId (id : Nat) : List Holder → List Holder
  | [] => []
  | h :: l => if h.id = id then l else h :: removeId id l

/-- admission: `CanCreate()` on the manager reached through `take`, then `Increase()` there; the holder will release through `rel` -/
def acquire (s : State) (id : Nat) (r : Res) (take rel : Path) : State × Bool :=
  if validPath s take && validPath s rel then
    let m := mgrOf s take
    if canCreate (s.mgr m) r then
      ({ s with mgr := upd s.mgr m (incr (s.mgr m) r), live := s.live ++ [⟨id, r, rel⟩],
                gauge := s.gauge.set r (s.gauge.get r + 1) }, true)
    else (s, false)
  else (s, false)

/-- the holder ends: `Decrease()` on the manager its path reaches NOW -/
def release (s : State) (id : Nat) : State :=
  match findId id s.live with
  | none => s
  | some h =>
    let m := mgrOf s h.rel
    { s with mgr := upd s.mgr m (decr (s.mgr m) h.res), live := removeId id s.live,
             gauge := s.gauge.set h.res (s.gauge.get h.res - 1) }

/-! ## the regenerated programs, interpreted -/

def fldGet (m : Mgr) (r : Res) : Fld → Int
  | .max => (m.max.get r : Nat)
  | .cur => m.cur.get r

def fldSet (m : Mgr) (r : Res) (f : Fld) (v : Int) : Mgr :=
  match f with
  | .max => { m with max := m.max.set r v.toNat }
  | .cur => { m with cur := m.cur.set r v }

def formalObj (p0 p1 : Nat) : Formal → Nat
  | .p0 => p0 | .p1 => p1

/-- one store of `updateResourceValue(p0, p1)` -/
def runStore (p0 p1 : Nat) (mgr : Nat → Mgr) (st : Store) : Nat → Mgr :=
  let v : Int := match st.src with
    | .fld p r f => fldGet (mgr (formalObj p0 p1 p)) r f
    | .lit n => n
  upd mgr (formalObj p0 p1 st.p) (fldSet (mgr (formalObj p0 p1 st.p)) st.r st.f v)

def runStores (stores : List Store) (mgr : Nat → Mgr) (p0 p1 : Nat) : Nat → Mgr := stores.foldl (runStore p0 p1) mgr

/-- the handler's two manager variables -/
structure HV where
  old : Option Nat
  new : Option Nat
deriving DecidableEq, Repr

def HV.get (v : HV) : Side → Option Nat
  | .old => v.old | .new => v.new
def HV.set (v : HV) (x : Side) (m : Nat) : HV :=
  match x with
  | .old => { v with old := some m } | .new => { v with new := some m }

def sideInfo (oldI newI : Nat) : Side → Nat
  | .old => oldI | .new => newI

/-- `UpdateClusterResourceManagerHandler(oc, nc)`, statement by statement (`oc` exists: the first creation is `init`) -/
def runActs (code : Code) (oldI newI : Nat) (sameType : Bool) : List Act → HV → State → State
  | [], _, s => s
  | .skipIfNoOld :: r, v, s => runActs code oldI newI sameType r v s
  | .skipIfTypeDiffers :: r, v, s => if sameType then runActs code oldI newI sameType r v s else s
  | .read x of :: r, v, s => runActs code oldI newI sameType r (v.set x (s.infoMgr (sideInfo oldI newI of))) s
  | .alias info x :: r, v, s =>
    match v.get x with
    | some m => runActs code oldI newI sameType r v { s with infoMgr := upd s.infoMgr (sideInfo oldI newI info) m }
    | none => runActs code oldI newI sameType r v s
  | .fresh info :: r, v, s =>
    runActs code oldI newI sameType r v
      { s with mgr := upd s.mgr s.nMgr ⟨(s.mgr (s.infoMgr (sideInfo oldI newI info))).max, V4.const 0⟩, nMgr := s.nMgr + 1,
               infoMgr := upd s.infoMgr (sideInfo oldI newI info) s.nMgr }
  | .update a0 a1 :: r, v, s =>
    match v.get a0, v.get a1 with
    | some p0, some p1 => runActs code oldI newI sameType r v { s with mgr := runStores code.stores s.mgr p0 p1 }
    | _, _ => runActs code oldI newI sameType r v s
  | .copyCur d dr sd sr :: r, v, s =>
    match v.get d, v.get sd with
    | some md, some ms =>
      runActs code oldI newI sameType r v { s with mgr := upd s.mgr md (fldSet (s.mgr md) dr .cur ((s.mgr ms).cur.get sr)) }
    | _, _ => runActs code oldI newI sameType r v s
  | .setCur d dr n :: r, v, s =>
    match v.get d with
    | some md => runActs code oldI newI sameType r v { s with mgr := upd s.mgr md (fldSet (s.mgr md) dr .cur n) }
    | none => runActs code oldI newI sameType r v s

/-- one step of an update handler chain; the second component is the host set the NEW cluster ends up with -/
def runStep (code : Code) (oldI newI : Nat) (sameType : Bool) (nNew : Nat) (acc : State × List Nat) : Step → State × List Nat
  | .resource => (runActs code oldI newI sameType code.handler ⟨none, none⟩ acc.1, acc.2)
  | .cleanOld => acc
  | .transfer => acc
  | .inheritHosts =>
    ({ acc.1 with hostInfo := fun h => if acc.1.hosts.contains h then newI else acc.1.hostInfo h }, acc.1.hosts)
  | .newHosts =>
    ({ acc.1 with hostInfo := fun h => if decide (acc.1.nHost ≤ h ∧ h < acc.1.nHost + nNew) then newI else acc.1.hostInfo h,
                  nHost := acc.1.nHost + nNew }, List.range' acc.1.nHost nNew)

/-- `clusterManager.UpdateCluster(cluster, chain)`: `NewCluster` (new info, FRESH manager with the new thresholds and counters 0 —
`Gen.ResourceShare.newInfo_freshManager / freshManager_cursZero`), the chain, then the publication -/
def update (code : Code) (s : State) (primary : Bool) (thr : Thr) (sameType : Bool) (nNew : Nat) : State :=
  let s1 : State := { s with mgr := upd s.mgr s.nMgr ⟨thr, V4.const 0⟩, nMgr := s.nMgr + 1,
                             infoMgr := upd s.infoMgr s.nInfo s.nMgr, nInfo := s.nInfo + 1 }
  let res := (if primary then code.primary else code.andHost).foldl (runStep code s.cur s.nInfo sameType nNew) (s1, [])
  { res.1 with cur := s.nInfo, hosts := res.2 }

inductive Op where
  | acquire (id : Nat) (r : Res) (take rel : Path)
  | release (id : Nat)
  | update (primary : Bool) (thr : Thr) (sameType : Bool) (nNew : Nat)
deriving DecidableEq, Repr

def step (code : Code) (s : State) : Op → State
  | .acquire id r take rel => (acquire s id r take rel).1
  | .release id => release s id
  | .update p thr st n => update code s p thr st n

def run (code : Code) (s : State) (ops : List Op) : State := ops.foldl (step code) s

def allRes : List Res := [.conn, .pend, .req, .retr]

/-- an update does not move a threshold between 0 (unlimited: `Increase / Decrease` are no-ops) and non-zero while a unit of that
resource is held.  Histories that do are the known finding `threshold_through_zero` (Props/C10). -/
def zeroStableOp (s : State) : Op → Bool
  | .update _ thr _ _ => allRes.all (fun r => count r s.live == 0 || (((curMgr s).max.get r == 0) == (thr.get r == 0)))
  | _ => true

def zeroStable (code : Code) (s : State) : List Op → Bool
  | [] => true
  | op :: r => zeroStableOp s op && zeroStable code (step code s op) r

/-- what the harness reads after an operation: `Cur()` and `Max()` of the four resources on the manager of the CURRENT snapshot,
the active gauges -/
structure Obs where
  cur : V4 Int
  max : V4 Nat
  gauge : V4 Int
deriving DecidableEq, Repr

def observe (s : State) : Obs := ⟨(curMgr s).cur, (curMgr s).max, s.gauge⟩

end MosnVerif.Model.ResourceShare
