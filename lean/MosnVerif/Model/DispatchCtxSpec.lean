import MosnVerif.Model.DispatchCtx
/-!
Executable property predicate of the per-frame isolation check (kind `ctx` of C02 and C07).  Declarative: written
against the frames of the case only; it never runs the model's `frameStep` and does not mention the regenerated shape.

Observation of the implementation: for every request the receiver was handed (in order) what it reads back from the
frame / stream / context it kept — once after the `Dispatch` call that delivered it returned (`as`), once after the
last read (`bs`) — the identity class of its context (`cls`), and the ids of the heartbeat acknowledgements written.
-/
namespace MosnVerif.Model.DispatchCtx

/-- what the receiver of a request must find: the id, headers/body token and raw-bytes token of ITS frame -/
def expect (f : Frame) : Seen where
  fid := some f.id
  ftok := some f.tokF
  sid := if f.kind = .oneway then none else some f.id
  vid := some f.id
  rtok := some f.tokR

/-- (1) exactly the request / one-way frames are delivered, each once, in order; (2) each receiver sees its own frame,
right after the read and at the end; (3) no two receivers hold the same context (each hands its context back to the
pools when its request ends: a shared one would be released twice); (4) each heartbeat is acknowledged once with its id -/
def specCtx (frames : List Frame) (as bs : List Seen) (cls : List Nat) (acks : List Nat) : Bool :=
  let want := (frames.filter (·.kind.delivers)).map expect
  as == want && bs == want && cls.length == want.length && decide cls.Nodup &&
  acks == (frames.filter (·.kind = .heartbeat)).map (·.id)

end MosnVerif.Model.DispatchCtx
