import MosnVerif.Model.HpackInt
import MosnVerif.Model.Huffman
/-!
Model of MOSN's HPACK encoder and decoder (pkg/module/http2/hpack: encode.go, hpack.go, tables.go) over the
regenerated static table: dynamic table add / evict / resize, index arithmetic with the static table,
`Encoder.WriteField` with `searchTable` / `shouldIndex` and the pending "Header Table Size Update", and the decoder's
`parseHeaderFieldRepr` family run over a complete header block (`DecodeFull`).
As in Go, `ents` is oldest-first; HPACK dynamic index `i` (1 = newest) is `ents[len - i]`; the id maps of
`headerFieldTable` always point to the newest live entry with a given name / name-value pair (`lastIdx`).
-/
namespace MosnVerif.Model.HpackTable
open MosnVerif.Gen.Hpack MosnVerif.Model.HpackInt

structure Field where
  name : Bytes
  value : Bytes
  sensitive : Bool := false
  deriving DecidableEq, Repr

abbrev Entry := Bytes × Bytes

/-- `HeaderField.Size()` -/
def entrySize (e : Entry) : Nat := e.1.length + e.2.length + 32

def staticEntries : List Entry := staticTable.map (fun e => (e.1.toUTF8.toList, e.2.toUTF8.toList))
def staticLen : Nat := staticEntries.length

structure DynTab where
  ents : List Entry      -- oldest first
  size : Nat
  maxSize : Nat
  deriving DecidableEq, Repr

/-- `for dt.size > dt.maxSize && n < len { size -= ents[n].Size(); n++ }; evictOldest(n)` -/
def evictGo (maxSize : Nat) : List Entry → Nat → List Entry × Nat
  | [], size => ([], size)
  | e :: r, size => if size > maxSize then evictGo maxSize r (size - entrySize e) else (e :: r, size)

def DynTab.evict (t : DynTab) : DynTab :=
  let x := evictGo t.maxSize t.ents t.size
  { t with ents := x.1, size := x.2 }

def DynTab.setMaxSize (t : DynTab) (v : Nat) : DynTab := ({ t with maxSize := v }).evict

def DynTab.add (t : DynTab) (e : Entry) : DynTab :=
  ({ t with ents := t.ents ++ [e], size := t.size + entrySize e }).evict

/-- 1-based position of the last element satisfying `p`, 0 if none -/
def lastIdx (p : Entry → Bool) (l : List Entry) : Nat :=
  (l.zipIdx.foldl (fun acc (e, k) => if p e then k + 1 else acc) 0)

/-- `headerFieldTable.search` as a position (0 = none): (position, nameValueMatch) -/
def searchPos (l : List Entry) (f : Field) : Nat × Bool :=
  let nv := if f.sensitive then 0 else lastIdx (fun e => e.1 == f.name && e.2 == f.value) l
  if nv ≠ 0 then (nv, true) else (lastIdx (fun e => e.1 == f.name) l, false)

/-! ### encoder -/

structure Enc where
  tab : DynTab
  minSize : Nat
  maxSizeLimit : Nat
  tableSizeUpdate : Bool
  deriving DecidableEq, Repr

def uint32Max : Nat := 4294967295

def Enc.new : Enc :=
  { tab := { ents := [], size := 0, maxSize := initialHeaderTableSize }, minSize := uint32Max,
    maxSizeLimit := initialHeaderTableSize, tableSizeUpdate := false }

def Enc.setMaxDynamicTableSize (e : Enc) (v : Nat) : Enc :=
  let v := if v > e.maxSizeLimit then e.maxSizeLimit else v
  { e with minSize := if v < e.minSize then v else e.minSize, tableSizeUpdate := true, tab := e.tab.setMaxSize v }

def Enc.setMaxDynamicTableSizeLimit (e : Enc) (v : Nat) : Enc :=
  if e.tab.maxSize > v then { e with maxSizeLimit := v, tableSizeUpdate := true, tab := e.tab.setMaxSize v }
  else { e with maxSizeLimit := v }

/-- `Encoder.searchTable` -/
def searchTable (e : Enc) (f : Field) : Nat × Bool :=
  let (i, nv) := searchPos staticEntries f
  if nv then (i, true) else
  let (jp, nvd) := searchPos e.tab.ents f
  let j := if jp = 0 then 0 else e.tab.ents.length + 1 - jp    -- idToIndex on a dynamic table
  if nvd || (i == 0 && j != 0) then (j + staticLen, nvd) else (i, false)

/-- `appendHpackString` -/
def appendString (s : Bytes) : Bytes :=
  let hl := Huffman.encodeLen s
  if hl < s.length then orFirst 0x80 (appendVarInt 7 hl) ++ Huffman.encode s
  else appendVarInt 7 s.length ++ s

/-! ### header field representations (RFC 7541 §6): the layer between table logic and bytes -/

inductive LitKind
  | incremental   -- 6.2.1, 6-bit name index, type bits 01
  | without       -- 6.2.2, 4-bit name index, type bits 0000
  | never         -- 6.2.3, 4-bit name index, type bits 0001
  deriving DecidableEq, Repr

inductive Rep
  | indexed (i : Nat)
  /-- `nameIdx = 0`: the name is given literally -/
  | literal (kind : LitKind) (nameIdx : Nat) (name value : Bytes)
  | sizeUpdate (v : Nat)
  deriving DecidableEq, Repr

def LitKind.prefixBits : LitKind → Nat
  | .incremental => 6
  | _ => 4

def LitKind.typeByte : LitKind → Nat
  | .incremental => 0x40
  | .without => 0
  | .never => 0x10

/-- `encodeTypeByte(indexing, sensitive)` as a representation kind -/
def litKind (indexing sensitive : Bool) : LitKind :=
  if sensitive then .never else if indexing then .incremental else .without

/-- `appendIndexed` / `appendNewName` / `appendIndexedName` / `appendTableSize` -/
def serialize : Rep → Bytes
  | .indexed i => orFirst 0x80 (appendVarInt 7 i)
  | .sizeUpdate v => orFirst 0x20 (appendVarInt 5 v)
  | .literal k 0 name value => [UInt8.ofNat k.typeByte] ++ appendString name ++ appendString value
  | .literal k (i + 1) _ value => orFirst k.typeByte (appendVarInt k.prefixBits (i + 1)) ++ appendString value

/-- the table part of `Encoder.WriteField`: new encoder state and the representations written -/
def Enc.plan (e : Enc) (f : Field) : Enc × List Rep :=
  let (e, pre) :=
    if e.tableSizeUpdate then
      let r1 := if e.minSize < e.tab.maxSize then [Rep.sizeUpdate e.minSize] else []
      ({ e with tableSizeUpdate := false, minSize := uint32Max }, r1 ++ [Rep.sizeUpdate e.tab.maxSize])
    else (e, [])
  let (idx, nvMatch) := searchTable e f
  if nvMatch then (e, pre ++ [Rep.indexed idx])
  else
    let indexing := !f.sensitive && decide (entrySize (f.name, f.value) ≤ e.tab.maxSize)
    let e' := if indexing then { e with tab := e.tab.add (f.name, f.value) } else e
    -- with a name index the name itself is not written
    (e', pre ++ [Rep.literal (litKind indexing f.sensitive) idx (if idx = 0 then f.name else []) f.value])

/-- `Encoder.WriteField`: new encoder state and the bytes written -/
def Enc.writeField (e : Enc) (f : Field) : Enc × Bytes :=
  let (e', rs) := e.plan f
  (e', rs.flatMap serialize)

/-! ### decoder -/

inductive DErr
  | needMore | invalid | strLen | huffman
  deriving DecidableEq, Repr

structure Dec where
  tab : DynTab
  allowedMax : Nat
  firstField : Bool
  maxStrLen : Nat
  deriving DecidableEq, Repr

def Dec.new (maxSize : Nat) : Dec :=
  { tab := { ents := [], size := 0, maxSize := maxSize }, allowedMax := maxSize, firstField := true, maxStrLen := 0 }

/-- `Decoder.at` -/
def Dec.at (d : Dec) (i : Nat) : Option Entry :=
  if i = 0 then none
  else if i ≤ staticLen then staticEntries[i - 1]?
  else if i > d.tab.ents.length + staticLen then none
  else d.tab.ents[d.tab.ents.length - (i - staticLen)]?

def liftErr : Err → DErr
  | .needMore => .needMore
  | .overflow => .invalid
  | .strLen => .strLen

/-- `Decoder.readString` (with `wantStr`): the decoded octets and the remaining bytes -/
def readString (maxStrLen : Nat) (p : Bytes) : Except DErr (Bytes × Bytes) :=
  match readStringRaw maxStrLen p with
  | .error e => .error (liftErr e)
  | .ok (isHuff, raw, rest) =>
    if !isHuff then .ok (raw, rest)
    else match Huffman.decode maxStrLen raw with
      | .ok s => .ok (s, rest)
      | .error .invalid => .error .huffman
      | .error .strLen => .error .strLen

def parseLiteral (maxStrLen : Nat) (k : LitKind) (buf : Bytes) : Except DErr (Rep × Bytes) :=
  match readVarInt k.prefixBits buf with
  | .error e => .error (liftErr e)
  | .ok (nameIdx, buf) =>
    let nameR : Except DErr (Bytes × Bytes) := if nameIdx > 0 then .ok ([], buf) else readString maxStrLen buf
    match nameR with
    | .error e => .error e
    | .ok (name, buf) =>
      match readString maxStrLen buf with
      | .error e => .error e
      | .ok (value, buf) => .ok (.literal k nameIdx name value, buf)

/-- the syntactic half of `parseHeaderFieldRepr`: one representation off the front of `buf` (no table access).
In Go the table lookups of `parseFieldIndexed/parseFieldLiteral` are interleaved with the reads; the interleaving only
decides WHICH error a doubly malformed representation reports, and every decoding error ends the connection. -/
def parseOne (maxStrLen : Nat) (buf : Bytes) : Except DErr (Rep × Bytes) :=
  match buf with
  | [] => .error .needMore
  | b :: _ =>
    let b := b.toNat
    if b / 128 % 2 = 1 then
      match readVarInt 7 buf with
      | .error e => .error (liftErr e)
      | .ok (idx, rest) => .ok (.indexed idx, rest)
    else if b / 64 = 1 then parseLiteral maxStrLen .incremental buf
    else if b / 16 = 0 then parseLiteral maxStrLen .without buf
    else if b / 16 = 1 then parseLiteral maxStrLen .never buf
    else if b / 32 = 1 then
      match readVarInt 5 buf with
      | .error e => .error (liftErr e)
      | .ok (size, rest) => .ok (.sizeUpdate size, rest)
    else .error .invalid

def callEmit (d : Dec) (f : Field) : Except DErr Unit :=
  if d.maxStrLen ≠ 0 ∧ (f.name.length > d.maxStrLen ∨ f.value.length > d.maxStrLen) then .error .strLen else .ok ()

/-- the name of a literal representation: from the table when a name index is given -/
def Dec.resolveName (d : Dec) (nameIdx : Nat) (name : Bytes) : Except DErr Bytes :=
  if nameIdx > 0 then
    match d.at nameIdx with
    | none => .error .invalid
    | some e => .ok e.1
  else .ok name

/-- the table half of `parseFieldIndexed` / `parseFieldLiteral` / `parseDynamicTableSizeUpdate`: new decoder state
and the field emitted -/
def Dec.apply (d : Dec) : Rep → Except DErr (Dec × Option Field)
  | .indexed idx =>
    match d.at idx with
    | none => .error .invalid
    | some e =>
      let f : Field := { name := e.1, value := e.2 }
      match callEmit d f with
      | .error e => .error e
      | .ok _ => .ok ({ d with firstField := false }, some f)
  | .literal k nameIdx name value =>
    match d.resolveName nameIdx name with
    | .error e => .error e
    | .ok name =>
      let d' := if k = .incremental then { d with tab := d.tab.add (name, value) } else d
      let f : Field := { name := name, value := value, sensitive := decide (k = .never) }
      match callEmit d f with
      | .error e => .error e
      | .ok _ => .ok ({ d' with firstField := false }, some f)
  | .sizeUpdate size =>
    -- "MUST occur at the beginning of the first header block": firstField stays set across size updates
    if !d.firstField && decide (d.tab.size > 0) then .error .invalid
    else if size > d.allowedMax then .error .invalid
    else .ok ({ d with tab := d.tab.setMaxSize size }, none)

/-- `Decoder.parseHeaderFieldRepr` -/
def parseRepr (d : Dec) (buf : Bytes) : Except DErr (Dec × Option Field × Bytes) :=
  match parseOne d.maxStrLen buf with
  | .error e => .error e
  | .ok (r, rest) =>
    match d.apply r with
    | .error e => .error e
    | .ok (d', f) => .ok (d', f, rest)

/-- `Decoder.Write(p)` followed by `Close()` on a complete block: the emitted fields, or an error -/
def decodeLoop : Nat → Dec → Bytes → List Field → Except DErr (Dec × List Field)
  | 0, _, _, _ => .error .invalid
  | fuel + 1, d, buf, acc =>
    if buf.isEmpty then .ok ({ d with firstField := true }, acc.reverse) else
    match parseRepr d buf with
    | .error e => .error e       -- errNeedMore at the end of the block = "truncated headers"
    | .ok (d', f, rest) => decodeLoop fuel d' rest (match f with | some f => f :: acc | none => acc)

def Dec.decodeFull (d : Dec) (block : Bytes) : Except DErr (Dec × List Field) :=
  decodeLoop (block.length + 1) d block []

def consOpt (f : Option Field) (fs : List Field) : List Field :=
  match f with
  | some f => f :: fs
  | none => fs

/-- the decoder run on representations instead of bytes (what `decodeFull ∘ serialize` computes) -/
def Dec.applyAll (d : Dec) : List Rep → Except DErr (Dec × List Field)
  | [] => .ok ({ d with firstField := true }, [])
  | r :: rs =>
    match d.apply r with
    | .error e => .error e
    | .ok (d', f) =>
      match Dec.applyAll d' rs with
      | .error e => .error e
      | .ok (d'', fs) => .ok (d'', consOpt f fs)

end MosnVerif.Model.HpackTable
