import MosnVerif.Model.HpackInt
import MosnVerif.Model.Huffman
/-!
Model of MOSN's HPACK encoder and decoder (pkg/module/http2/hpack: encode.go, hpack.go, tables.go) over the
regenerated static table: dynamic table add / evict / resize, index arithmetic with the static table,
`Encoder.WriteField` with `searchTable` / `shouldIndex` and the pending "Header Table Size Update", and the decoder's
`parseHeaderFieldRepr` family run over a complete header block (`DecodeFull`).
As in Go, `ents` is oldest-first; HPACK dynamic index `i` (1 = newest) is `ents[len - i]`; the id maps of
`headerFieldTable` always point to the newest live entry with a given name / name-value pair (`lastIdx`).
-/
namespace MosnVerif.Model.HpackTable
open MosnVerif.Gen.Hpack MosnVerif.Model.HpackInt

structure Field where
  name : Bytes
  value : Bytes
  sensitive : Bool := false
  deriving DecidableEq, Repr

abbrev Entry := Bytes × Bytes

/-- `HeaderField.Size()` -/
def entrySize (e : Entry) : Nat := e.1.length + e.2.length + 32

def staticEntries : List Entry := staticTable.map (fun e => (e.1.toUTF8.toList, e.2.toUTF8.toList))
def staticLen : Nat := staticEntries.length

structure DynTab where
  ents : List Entry      -- oldest first
  size : Nat
  maxSize : Nat
  deriving DecidableEq, Repr

/-- `for dt.size > dt.maxSize && n < len { size -= ents[n].Size(); n++ }; evictOldest(n)` -/
def evictGo (maxSize : Nat) : List Entry → Nat → List Entry × Nat
  | [], size => ([], size)
  | e :: r, size => if size > maxSize then evictGo maxSize r (size - entrySize e) else (e :: r, size)

def DynTab.evict (t : DynTab) : DynTab :=
  let x := evictGo t.maxSize t.ents t.size
  { t with ents := x.1, size := x.2 }

def DynTab.setMaxSize (t : DynTab) (v : Nat) : DynTab := ({ t with maxSize := v }).evict

def DynTab.add (t : DynTab) (e : Entry) : DynTab :=
  ({ t with ents := t.ents ++ [e], size := t.size + entrySize e }).evict

/-- 1-based position of the last element satisfying `p`, 0 if none -/
def lastIdx (p : Entry → Bool) (l : List Entry) : Nat :=
  (l.zipIdx.foldl (fun acc (e, k) => if p e then k + 1 else acc) 0)

/-- `headerFieldTable.search` as a position (0 = none): (position, nameValueMatch) -/
def searchPos (l : List Entry) (f : Field) : Nat × Bool :=
  let nv := if f.sensitive then 0 else lastIdx (fun e => e.1 == f.name && e.2 == f.value) l
  if nv ≠ 0 then (nv, true) else (lastIdx (fun e => e.1 == f.name) l, false)

/-! ### encoder -/

structure Enc where
  tab : DynTab
  minSize : Nat
  maxSizeLimit : Nat
  tableSizeUpdate : Bool
  deriving DecidableEq, Repr

def uint32Max : Nat := 4294967295

def Enc.new : Enc :=
  { tab := { ents := [], size := 0, maxSize := initialHeaderTableSize }, minSize := uint32Max,
    maxSizeLimit := initialHeaderTableSize, tableSizeUpdate := false }

def Enc.setMaxDynamicTableSize (e : Enc) (v : Nat) : Enc :=
  let v := if v > e.maxSizeLimit then e.maxSizeLimit else v
  { e with minSize := if v < e.minSize then v else e.minSize, tableSizeUpdate := true, tab := e.tab.setMaxSize v }

def Enc.setMaxDynamicTableSizeLimit (e : Enc) (v : Nat) : Enc :=
  if e.tab.maxSize > v then { e with maxSizeLimit := v, tableSizeUpdate := true, tab := e.tab.setMaxSize v }
  else { e with maxSizeLimit := v }

/-- `Encoder.searchTable` -/
def searchTable (e : Enc) (f : Field) : Nat × Bool :=
  let (i, nv) := searchPos staticEntries f
  if nv then (i, true) else
  let (jp, nvd) := searchPos e.tab.ents f
  let j := if jp = 0 then 0 else e.tab.ents.length + 1 - jp    -- idToIndex on a dynamic table
  if nvd || (i == 0 && j != 0) then (j + staticLen, nvd) else (i, false)

/-- `appendHpackString` -/
def appendString (s : Bytes) : Bytes :=
  let hl := Huffman.encodeLen s
  if hl < s.length then orFirst 0x80 (appendVarInt 7 hl) ++ Huffman.encode s
  else appendVarInt 7 s.length ++ s

def typeByte (indexing sensitive : Bool) : Nat := if sensitive then 0x10 else if indexing then 0x40 else 0

/-- `Encoder.WriteField`: new encoder state and the bytes written -/
def Enc.writeField (e : Enc) (f : Field) : Enc × Bytes :=
  let (e, pre) :=
    if e.tableSizeUpdate then
      let b1 := if e.minSize < e.tab.maxSize then orFirst 0x20 (appendVarInt 5 e.minSize) else []
      ({ e with tableSizeUpdate := false, minSize := uint32Max }, b1 ++ orFirst 0x20 (appendVarInt 5 e.tab.maxSize))
    else (e, [])
  let (idx, nvMatch) := searchTable e f
  if nvMatch then (e, pre ++ orFirst 0x80 (appendVarInt 7 idx))
  else
    let indexing := !f.sensitive && decide (entrySize (f.name, f.value) ≤ e.tab.maxSize)
    let e' := if indexing then { e with tab := e.tab.add (f.name, f.value) } else e
    if idx = 0 then
      (e', pre ++ [UInt8.ofNat (typeByte indexing f.sensitive)] ++ appendString f.name ++ appendString f.value)
    else
      (e', pre ++ orFirst (typeByte indexing f.sensitive) (appendVarInt (if indexing then 6 else 4) idx) ++ appendString f.value)

/-! ### decoder -/

inductive DErr
  | needMore | invalid | strLen | huffman
  deriving DecidableEq, Repr

structure Dec where
  tab : DynTab
  allowedMax : Nat
  firstField : Bool
  maxStrLen : Nat
  deriving DecidableEq, Repr

def Dec.new (maxSize : Nat) : Dec :=
  { tab := { ents := [], size := 0, maxSize := maxSize }, allowedMax := maxSize, firstField := true, maxStrLen := 0 }

/-- `Decoder.at` -/
def Dec.at (d : Dec) (i : Nat) : Option Entry :=
  if i = 0 then none
  else if i ≤ staticLen then staticEntries[i - 1]?
  else if i > d.tab.ents.length + staticLen then none
  else d.tab.ents[d.tab.ents.length - (i - staticLen)]?

def liftErr : Err → DErr
  | .needMore => .needMore
  | .overflow => .invalid
  | .strLen => .strLen

/-- `Decoder.readString` (with `wantStr`): the decoded octets and the remaining bytes -/
def readString (maxStrLen : Nat) (p : Bytes) : Except DErr (Bytes × Bytes) :=
  match readStringRaw maxStrLen p with
  | .error e => .error (liftErr e)
  | .ok (isHuff, raw, rest) =>
    if !isHuff then .ok (raw, rest)
    else match Huffman.decode maxStrLen raw with
      | .ok s => .ok (s, rest)
      | .error .invalid => .error .huffman
      | .error .strLen => .error .strLen

def callEmit (d : Dec) (f : Field) : Except DErr Unit :=
  if d.maxStrLen ≠ 0 ∧ (f.name.length > d.maxStrLen ∨ f.value.length > d.maxStrLen) then .error .strLen else .ok ()

def parseLiteral (d : Dec) (n : Nat) (indexed never : Bool) (buf : Bytes) : Except DErr (Dec × Option Field × Bytes) :=
  match readVarInt n buf with
  | .error e => .error (liftErr e)
  | .ok (nameIdx, buf) =>
    let nameR : Except DErr (Bytes × Bytes) :=
      if nameIdx > 0 then
        match d.at nameIdx with
        | none => .error .invalid
        | some e => .ok (e.1, buf)
      else readString d.maxStrLen buf
    match nameR with
    | .error e => .error e
    | .ok (name, buf) =>
      match readString d.maxStrLen buf with
      | .error e => .error e
      | .ok (value, buf) =>
        let d' := if indexed then { d with tab := d.tab.add (name, value) } else d
        let f : Field := { name := name, value := value, sensitive := never }
        match callEmit d f with
        | .error e => .error e
        | .ok _ => .ok (d', some f, buf)

/-- `Decoder.parseHeaderFieldRepr` (precondition: `buf` non-empty) -/
def parseRepr (d : Dec) (buf : Bytes) : Except DErr (Dec × Option Field × Bytes) :=
  match buf with
  | [] => .error .needMore
  | b :: _ =>
    let b := b.toNat
    if b / 128 % 2 = 1 then
      -- indexed
      match readVarInt 7 buf with
      | .error e => .error (liftErr e)
      | .ok (idx, rest) =>
        match d.at idx with
        | none => .error .invalid
        | some e =>
          let f : Field := { name := e.1, value := e.2 }
          match callEmit d f with
          | .error e => .error e
          | .ok _ => .ok (d, some f, rest)
    else if b / 64 = 1 then parseLiteral d 6 true false buf
    else if b / 16 = 0 then parseLiteral d 4 false false buf
    else if b / 16 = 1 then parseLiteral d 4 false true buf
    else if b / 32 = 1 then
      -- dynamic table size update
      if !d.firstField && decide (d.tab.size > 0) then .error .invalid else
      match readVarInt 5 buf with
      | .error e => .error (liftErr e)
      | .ok (size, rest) =>
        if size > d.allowedMax then .error .invalid
        else .ok ({ d with tab := d.tab.setMaxSize size }, none, rest)
    else .error .invalid

def isSizeUpdate (buf : Bytes) : Bool :=
  match buf with
  | b :: _ => b.toNat / 32 = 1
  | [] => false

/-- `Decoder.Write(p)` followed by `Close()` on a complete block: the emitted fields, or an error -/
def decodeLoop : Nat → Dec → Bytes → List Field → Except DErr (Dec × List Field)
  | 0, _, _, _ => .error .invalid
  | fuel + 1, d, buf, acc =>
    if buf.isEmpty then .ok ({ d with firstField := true }, acc.reverse) else
    match parseRepr d buf with
    | .error e => .error e       -- errNeedMore at the end of the block = "truncated headers"
    | .ok (d', f, rest) =>
      let d' := if isSizeUpdate buf then d' else { d' with firstField := false }
      decodeLoop fuel d' rest (match f with | some f => f :: acc | none => acc)

def Dec.decodeFull (d : Dec) (block : Bytes) : Except DErr (Dec × List Field) :=
  decodeLoop (block.length + 1) d block []

end MosnVerif.Model.HpackTable
