import MosnVerif.Model.FilterMachine
/-!
The executable property predicate of C14 over the *observable* token list of one stream (what the harness records on
the real proxy core: receiver/sender filter invocations, pool `NewStream` calls, downstream sender calls), written
declaratively and independently of the regenerated code (`processError`, switches, handlers are NOT used here).

`Obs.f`/`Obs.fs` carry the verdict the scripted filter returned on that invocation (`annot` recomputes it from the
scripts by counting invocations — the same function is applied to the implementation's and the model's tokens).
-/
namespace MosnVerif.Model.FilterSpec
open MosnVerif.Gen.FilterPhase MosnVerif.Model.FilterChain MosnVerif.Model.FilterMachine

inductive Obs where
  | f (i : Nat) (p : RPhase) (v : Verdict)
  | fs (i : Nat) (st : FStatus)
  | un | uf
  | dh (status : Option Nat) (eos : Bool)
  | dd (eos : Bool)
  | dt
  deriving DecidableEq, Repr

/-- tokens as recorded (no verdicts) -/
inductive Raw where
  | f (i : Nat) (p : RPhase)
  | fs (i : Nat)
  | un | uf
  | dh (status : Option Nat) (eos : Bool)
  | dd (eos : Bool)
  | dt
  deriving DecidableEq, Repr

def Obs.raw : Obs → Raw
  | .f i p _ => .f i p
  | .fs i _ => .fs i
  | .un => .un | .uf => .uf
  | .dh s e => .dh s e | .dd e => .dd e | .dt => .dt

/-- observable tokens of the model trace -/
def flatEv : Ev → List Obs
  | .rpass p _ invs => invs.map (fun iv => .f iv.1 p iv.2)
  | .spass _ invs => invs.map (fun iv => .fs iv.1 iv.2)
  | .up refused => [if refused then .uf else .un]
  | .dh s e => [.dh s e]
  | .dd e => [.dd e]
  | .dt => [.dt]
  | .unmodelled _ => []

def flat (t : List Ev) : List Obs := t.flatMap flatEv

/-- attach to every recorded invocation the verdict its script yields (n-th invocation of filter i) -/
def annotGo (c : Cfg) : List Raw → (Nat → Nat) → (Nat → Nat) → List Obs
  | [], _, _ => []
  | .f i p :: r, rc, sc =>
    .f i p ((c.recv.getD i ⟨p, []⟩).verdictAt (rc i)) :: annotGo c r (bump rc i) sc
  | .fs i :: r, rc, sc =>
    .fs i ((c.send.getD i ⟨[]⟩).statusAt (sc i)) :: annotGo c r rc (bump sc i)
  | .un :: r, rc, sc => .un :: annotGo c r rc sc
  | .uf :: r, rc, sc => .uf :: annotGo c r rc sc
  | .dh s e :: r, rc, sc => .dh s e :: annotGo c r rc sc
  | .dd e :: r, rc, sc => .dd e :: annotGo c r rc sc
  | .dt :: r, rc, sc => .dt :: annotGo c r rc sc

def annot (c : Cfg) (l : List Raw) : List Obs := annotGo c l (fun _ => 0) (fun _ => 0)

/-! ### the predicate -/

def RPhase.ord : RPhase → Nat
  | .BeforeRoute => 0 | .AfterRoute => 1 | .AfterChooseHost => 2

def recvObs : List Obs → List (Nat × RPhase × Verdict)
  | [] => []
  | .f i p v :: r => (i, p, v) :: recvObs r
  | _ :: r => recvObs r

def sendObs : List Obs → List (Nat × FStatus)
  | [] => []
  | .fs i st :: r => (i, st) :: sendObs r
  | _ :: r => sendObs r

/-- every invocation is of a configured filter, in the phase it is configured for -/
def phasesOK (c : Cfg) (l : List (Nat × RPhase × Verdict)) : Bool :=
  l.all (fun (i, p, _) => match c.recv[i]? with | some f => f.phase == p | none => false)

/-- order / once / resume on consecutive receiver invocations: phases never go back; inside a phase the next
invocation has a larger index and follows a filter that continued — except directly after an honoured re-match /
re-choose request, where the SAME filter is invoked next (earlier ones are not re-run); nothing runs after a
termination. -/
def orderOK : List (Nat × RPhase × Verdict) → Bool
  | (i, p, v) :: (j, q, w) :: r =>
    (v.status != .termination) &&
    (if p == q then (if accepted p v.status then j == i else continues v.status && i < j)
     else RPhase.ord p < RPhase.ord q) &&
    orderOK ((j, q, w) :: r)
  | _ => true

def forwarded (l : List Obs) : Bool := l.any (fun o => o == .un || o == .uf)

/-! completeness of the passes ("filters run in configured order": none is skipped) -/

/-- no configured receiver filter of phase `q` has an index in [lo, hi) -/
def noneOf (c : Cfg) (q : RPhase) (lo hi : Nat) : Bool :=
  (List.range (hi - lo)).all (fun d => match c.recv[lo + d]? with | some f => f.phase != q | none => true)

def noneFrom (c : Cfg) (q : RPhase) (lo : Nat) : Bool := noneOf c q lo c.recv.length

def phasesBefore : RPhase → List RPhase
  | .BeforeRoute => [] | .AfterRoute => [.BeforeRoute] | .AfterChooseHost => [.BeforeRoute, .AfterRoute]
def phasesAfter : RPhase → List RPhase
  | .BeforeRoute => [.AfterRoute, .AfterChooseHost] | .AfterRoute => [.AfterChooseHost] | .AfterChooseHost => []
def phasesBetween (p q : RPhase) : List RPhase :=
  (phasesAfter p).filter (fun x => (phasesBefore q).contains x)

/-- the very first invocation is of the first filter of its phase, and the earlier phases have no filters -/
def headOK (c : Cfg) (a : Nat × RPhase × Verdict) : Bool :=
  noneOf c a.2.1 0 a.1 && (phasesBefore a.2.1).all (fun x => noneFrom c x 0)

/-- two consecutive invocations: inside a pass the second is the NEXT filter of the phase; a resumed pass restarts at
the requesting filter (checked by `orderOK`); when the phase changes the old pass ended properly (a continuing last
filter was the last of its phase), the new pass starts at the FIRST filter of its phase, and the phases in between have
no filters -/
def compStep (c : Cfg) (a b : Nat × RPhase × Verdict) : Bool :=
  if a.2.1 == b.2.1 then accepted a.2.1 a.2.2.status || noneOf c a.2.1 (a.1 + 1) b.1
  else (!continues a.2.2.status || noneFrom c a.2.1 (a.1 + 1)) && noneOf c b.2.1 0 b.1 &&
    (phasesBetween a.2.1 b.2.1).all (fun x => noneFrom c x 0)

def compChain (c : Cfg) : List (Nat × RPhase × Verdict) → Bool
  | a :: b :: r => compStep c a b && compChain c (b :: r)
  | _ => true

/-- a request that reached the pool had every pass: the last invocation ended its pass properly and the later phases
have no filters -/
def compLast (c : Cfg) (a : Nat × RPhase × Verdict) : Bool :=
  (!continues a.2.2.status || noneFrom c a.2.1 (a.1 + 1)) && (phasesAfter a.2.1).all (fun x => noneFrom c x 0)

def completeOK (c : Cfg) (l : List Obs) : Bool :=
  match recvObs l with
  | [] => !forwarded l || c.recv.isEmpty
  | a :: r => headOK c a && compChain c (a :: r) &&
    (!forwarded l || match (a :: r).getLast? with | some z => compLast c z | none => true)

/-- no receiver filter runs once the response side started -/
def noRecvAfterSend : List Obs → Bool
  | [] => true
  | .fs _ _ :: r => (recvObs r).isEmpty && noRecvAfterSend r
  | .dh _ _ :: r => (recvObs r).isEmpty && noRecvAfterSend r
  | _ :: r => noRecvAfterSend r

def denied (l : List Obs) : Bool := (recvObs l).any (fun (_, _, v) => v.isDeny)

def count (p : Obs → Bool) (l : List Obs) : Nat := (l.filter p).length

def isDh : Obs → Bool | .dh _ _ => true | _ => false
def isDd : Obs → Bool | .dd _ => true | _ => false
def isDt : Obs → Bool | .dt => true | _ => false
def isFs : Obs → Bool | .fs _ _ => true | _ => false

/-- all sender-filter invocations precede the response headers -/
def sendBeforeReply : List Obs → Bool
  | [] => true
  | .dh _ _ :: r => (sendObs r).isEmpty
  | _ :: r => sendBeforeReply r

/-- each sender filter once per response: the sender invocations are either absent (no response was produced) or exactly
one in-order run; they precede the response; the downstream sender sees at most one headers/data/trailers call -/
def sendOK (c : Cfg) (l : List Obs) : Bool :=
  ((sendObs l).isEmpty || sendObs l == sendRun c.send 0) &&
  sendBeforeReply l && count isDh l ≤ 1 && count isDd l ≤ 1 && count isDt l ≤ 1 &&
  (count isDh l == 0 || (sendObs l == sendRun c.send 0))

def answered (l : List Obs) : Bool := (recvObs l).any (fun (_, _, v) => v.act.answers)

def terminated (l : List Obs) : Bool :=
  (recvObs l).any (fun (_, _, v) => v.status == .termination) || (sendObs l).any (fun (_, st) => st == .termination)

def againCount (l : List Obs) : Nat := ((recvObs l).filter (fun (_, p, v) => accepted p v.status)).length

def replyObs : List Obs → List Obs
  | [] => []
  | .dh s e :: r => .dh s e :: replyObs r
  | .dd e :: r => .dd e :: replyObs r
  | .dt :: r => .dt :: replyObs r
  | _ :: r => replyObs r

/-- single_reply: when a filter answered (and nothing terminated the stream and it is not one-way), the downstream
sender receives exactly the answer's headers (+ body), after one full run of the sender filters -/
def singleReplyOK (c : Cfg) (l : List Obs) : Bool :=
  if answered l && !terminated l && !c.env.oneway then
    match replyOf ((recvObs l).map (fun x => x.2.2)) (none, none) with
    | (some r, code) =>
      replyObs l == (.dh code (!r.data) :: (if r.data then [.dd true] else [])) &&
      sendObs l == sendRun c.send 0
    | _ => false
  else true

/-- order, once, resume, deny_not_forwarded, sender-once -/
def specSafety (c : Cfg) (l : List Obs) : Bool :=
  phasesOK c (recvObs l) && orderOK (recvObs l) && completeOK c l && noRecvAfterSend l &&
  (!denied l || !forwarded l) && sendOK c l

def spec (c : Cfg) (l : List Obs) : Bool := specSafety c l && singleReplyOK c l

end MosnVerif.Model.FilterSpec
