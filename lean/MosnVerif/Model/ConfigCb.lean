import MosnVerif.Model.ConfigPairs2
import MosnVerif.Gen.ConfigCb
/-!
# The effective circuit-breaker thresholds of a cluster (C19)

`cluster.NewResourceManager(clusterConfig.CirBreThresholds)` (pkg/upstream/cluster/resource_manager.go) gives the four
resources of a cluster their limits: the members of `Thresholds[<index>]` named in the **regenerated** plan
`Gen.ConfigCb.plan` (resource, default constant, index, field of `v2.Thresholds`) when the list is not empty, the default
constants otherwise.  MOSN does not group thresholds by priority: only that one entry counts, so an entry that sets no
limit matters as much as any other — dropping it from the dump moves another entry to the front.  Core Lean only.
-/
namespace MosnVerif.Model.ConfigCb
open MosnVerif.Model MosnVerif.Model.ConfigCodec MosnVerif.Model.GoTypes

/-- a `uint32` member as a number -/
def numOf : CVal → Nat
  | .num l => if l == "0" then 0 else l.toNat?.getD 0
  | _ => 0

/-- the members of the entries, as numbers, in field order -/
def entries : CVal → List (List Nat)
  | .slice _ vs => vs.map (fun v => match v with | .struct ms => ms.map numOf | _ => [])
  | _ => []

/-- every field of the table is a number -/
def allNum : Fields → Bool
  | .nil => true
  | .cons _ _ sh r => (match sh with | .num => true | _ => false) && allNum r

/-- `NewResourceManager` on the entries: `names` = the Go field names of `v2.Thresholds` in declaration order -/
def effectiveOf (names : List String) (plan : List (String × Nat × Nat × String)) (es : List (List Nat)) : List Nat :=
  plan.map (fun p =>
    match es with
    | [] => p.2.1
    | _ => ((es.getD p.2.2.1 []).getD (names.idxOf p.2.2.2) 0))

/-- the Go field names of the regenerated `Thresholds` table -/
def thresholdNames : List String :=
  match G.find "Thresholds" with
  | some d => d.fields.map (·.name)
  | none => []

/-- the limits the cluster's resource manager gets (connections, pending requests, requests, retries) -/
def effective (x : CVal) : List Nat := effectiveOf thresholdNames MosnVerif.Gen.ConfigCb.plan (entries x)

end MosnVerif.Model.ConfigCb
