import MosnVerif.Gen.C08Matchers
import MosnVerif.Gen.C08H2Parse
import MosnVerif.Model.H2ReadLoop
/-!
C08: the regenerated checked-access programs (Gen/C08Matchers, Gen/C08H2Parse) put to work.

* `matcherOf`: what `ProtocolMatch` of each registered stream factory answers, by protocol name, read back as an
  `api.MatchResult` (`errToMR`: nil / EAGAIN / FAILED ↦ success / again / failed): the xprotocol matchers go through the
  regenerated result mapping of `stream/xprotocol/factory.go ProtocolMatch` (`xfactory_result`), the HTTP/1 and HTTP/2
  factories answer nil / EAGAIN / FAILED themselves.
* `genParse`: the payload-parser oracle of `Model/H2ReadLoop` replaced by the regenerated parsers: the bytes of one
  complete frame (9-byte header + payload, as `MFramer.ReadFrame` slices them out of the read buffer) are parsed by
  `h2p_parse`; nil error ⇒ `ok`, StreamError ⇒ `stream`, every other error ⇒ `conn` (ReadFrame hands it on; Dispatch
  treats it as a connection error).  `genParse?` keeps the `oob` case visible (Props: it never occurs).
Core Lean only.
-/
namespace MosnVerif.Model.CheckedWire
open MosnVerif.Model.CheckedGo MosnVerif.Gen.C08Matchers MosnVerif.Gen.C08H2Parse

def errToMR : Err → MR
  | .nil => .success
  | .again => .again
  | _ => .failed

def mapErr (x : Chk Err) : Chk MR := x.bind (fun e => .ok (errToMR e))

def matcherNames : List String := ["bolt", "boltv2", "dubbo", "thrift", "tars", "http1", "http2"]

/-- an xprotocol matcher behind `streamConnFactory.ProtocolMatch` (regenerated result mapping `xfactory_result`) -/
def viaFactory (m : Bytes → Chk MR) (b : Bytes) : Chk MR := (m b).bind (fun r => .ok (errToMR (xfactory_result r)))

def matcherOf : String → Option (Bytes → Chk MR)
  | "bolt" => some (viaFactory bolt_matcher)
  | "boltv2" => some (viaFactory boltv2_matcher)
  | "dubbo" => some (viaFactory dubbo_matcher)
  | "thrift" => some (viaFactory thrift_matcher)
  | "tars" => some (viaFactory tars_matcher)
  | "http1" => some (fun b => mapErr (http1_matcher b))
  | "http2" => some (fun b => mapErr (http2_matcher b))
  | _ => none

def mrTok : MR → String
  | .failed => "failed"
  | .success => "success"
  | .again => "again"

def matchTok : Chk MR → String
  | .ok r => mrTok r
  | .oob => "panic"

/-! ## HTTP/2 payload parsers -/

def fhOf (h : MosnVerif.Model.H2ReadLoop.FH) : FH := ⟨h.len, h.ty, h.flags, h.sid⟩

/-- the regenerated parser of the frame's type run on the bytes of ONE frame (header + payload); `none` = out-of-range access -/
def genParse? (frame : Bytes) : Option MosnVerif.Model.H2ReadLoop.PRes :=
  match MosnVerif.Model.H2ReadLoop.hdrOf frame with
  | .ok h =>
    match h2p_parse (fhOf h) (frame.drop 9) with
    | .ok (_, .nil) => some .ok
    | .ok (_, .stream _) => some .stream
    | .ok (_, _) => some .conn
    | .oob => none
  | _ => some .conn

def genParse (frame : Bytes) : MosnVerif.Model.H2ReadLoop.PRes := (genParse? frame).getD .conn

/-- the HTTP/2 read path with NO oracle for the payload parsers: only the verdict on a complete header block (HPACK
decoding + field validation) stays a parameter -/
def genOrc (group : Bytes → MosnVerif.Model.H2ReadLoop.PRes) : MosnVerif.Model.H2ReadLoop.Orc := ⟨genParse, group⟩

def hexDigit (n : Nat) : Char := if n < 10 then Char.ofNat (48 + n) else Char.ofNat (87 + n)
def hexOf (b : Bytes) : String :=
  if b.isEmpty then "-" else String.ofList (b.flatMap (fun x => [hexDigit (x.toNat / 16), hexDigit (x.toNat % 16)]))

def joinS (sep : String) : List String → String
  | [] => ""
  | [a] => a
  | a :: r => a ++ sep ++ joinS sep r

def errTok : Err → String
  | .nil => "nil"
  | .eof => "eof"
  | .again => "again"
  | .failed => "failed"
  | .conn c => s!"conn:{c}"
  | .stream c => s!"stream:{c}"
  | .other => "other"

/-- `ok:<bytes fields>:<integer fields>` (both in alphabetical order of the Go field path) | `eof` | `conn:<code>` |
`stream:<code>` | `panic` -/
def parseTok : Chk (Frm × Err) → String
  | .oob => "panic"
  | .ok (f, .nil) =>
    "ok:" ++ (if f.bs.isEmpty then "_" else joinS "," (f.bs.map hexOf)) ++ ":" ++
      (if f.vs.isEmpty then "_" else joinS "," (f.vs.map toString))
  | .ok (_, e) => errTok e

/-! ## declarative reference for the predicate of kind `h2pay` (RFC 7540 §6: frame layouts; independent of Gen) -/

/-- length of the fragment / data / debug data a well-formed payload carries; `none`: the layout does not fit -/
def refFragLen (ty flags : Nat) (payload : Bytes) : Option Nat :=
  let n := payload.length
  let padded := flags.testBit 3
  let pad := if padded then (payload.headD 0).toNat else 0
  let padOct := if padded then 1 else 0
  let fits (fixed : Nat) : Option Nat := if padOct + fixed + pad ≤ n ∧ padOct ≤ n then some (n - padOct - fixed - pad) else none
  match ty with
  | 0 => fits 0                                          -- DATA
  | 1 => fits (if flags.testBit 5 then 5 else 0)         -- HEADERS (+ PRIORITY: E/dependency/weight)
  | 2 => if n = 5 then some 0 else none                  -- PRIORITY
  | 3 => if n = 4 then some 0 else none                  -- RST_STREAM
  | 4 => if n % 6 = 0 then some n else none              -- SETTINGS
  | 5 => fits 4                                          -- PUSH_PROMISE
  | 6 => if n = 8 then some 8 else none                  -- PING
  | 7 => if 8 ≤ n then some (n - 8) else none            -- GOAWAY
  | 8 => if n = 4 then some 0 else none                  -- WINDOW_UPDATE
  | _ => some n                                          -- CONTINUATION, unknown types

end MosnVerif.Model.CheckedWire
