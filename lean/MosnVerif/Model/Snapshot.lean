import MosnVerif.Gen.Snapshot
/-!
Publication of a cluster's `(hostSet, lb)` pair (`pkg/upstream/cluster/cluster.go`): `simpleCluster.UpdateHosts` builds a
balancer over the new host set and stores a NEW `clusterSnapshot` record into an `atomic.Value`; a lookup
(`Snapshot()` + `LoadBalancer().ChooseHost` + `HostSet()`) loads the cell once and reads both components from the record
it loaded.

* `Gen/Snapshot.lean` is the regenerated step program of `UpdateHosts` (source order; origin of the components of the
  stored record; writes into an already published record), the number of loads in `Snapshot()` and the number of
  writes to `clusterSnapshot` fields elsewhere in the package.
* Host sets are identified by the number of the `UpdateHosts` call that installs them (0 = the initial one); a balancer
  is identified by the number of the host set it was built over.  A record is *coherent* when both numbers agree.
* Any number of updaters and readers (one thread id each) run under an arbitrary schedule (list of thread ids).
  `atomic.Value` Store/Load are single steps (trusted); records live in a memory `address → record`.
-/
namespace MosnVerif.Model.Snapshot
open MosnVerif.Gen.Snapshot

/-- a `clusterSnapshot` record: the host set its balancer was built over, and the host set it carries. -/
structure Rec where
  lb : Nat
  hs : Nat
deriving Repr, DecidableEq, Inhabited

structure Cluster where
  lbInstance : Nat := 0
  hostSet : Nat := 0
  /-- memory of snapshot records -/
  recs : Nat → Rec := fun _ => ⟨0, 0⟩
  /-- the address held by the atomic cell `sc.snapshot` -/
  cur : Nat := 0
  /-- allocator: addresses `< next` are in use -/
  next : Nat := 1
  /-- `sc.mutex` -/
  holder : Option Nat := none
  /-- ghost: the host-set numbers of all records ever stored into the cell (0 = initial) -/
  published : List Nat := [0]

/-- a lookup: `snap := Snapshot()` (one load), `snap.LoadBalancer()`, `snap.HostSet()`. -/
inductive RState where
  | start
  | loaded (addr : Nat)
  | gotLB (addr lbv : Nat)
  | done (lbv hsv : Nat)
deriving Repr, DecidableEq, Inhabited

inductive Thread where
  /-- `UpdateHosts(hostSet number ver)`: local `lb` (number of the host set it was built over), remaining steps -/
  | upd (ver lb : Nat) (todo : List UStep)
  | rd (st : RState)
deriving Inhabited

structure Conf where
  cl : Cluster := {}
  threads : Nat → Thread

def pick (s : Src) (fresh field : Nat) : Nat := match s with | .fresh => fresh | .field => field

def setRec (m : Nat → Rec) (a : Nat) (r : Rec) : Nat → Rec := fun k => if k = a then r else m k
def setThread (th : Nat → Thread) (t : Nat) (v : Thread) : Nat → Thread := fun u => if u = t then v else th u

/-- thread `t` is scheduled for one step. -/
def step (c : Conf) (t : Nat) : Conf :=
  match c.threads t with
  | .rd .start => { c with threads := setThread c.threads t (.rd (.loaded c.cl.cur)) }
  | .rd (.loaded a) => { c with threads := setThread c.threads t (.rd (.gotLB a (c.cl.recs a).lb)) }
  | .rd (.gotLB a x) => { c with threads := setThread c.threads t (.rd (.done x (c.cl.recs a).hs)) }
  | .rd (.done _ _) => c
  | .upd _ _ [] => c
  | .upd v lb (a :: r) =>
    let adv (lb' : Nat) := setThread c.threads t (.upd v lb' r)
    match a with
    | .buildLB => { c with threads := adv v }
    | .lock => if c.cl.holder.isNone then { cl := { c.cl with holder := some t }, threads := adv lb } else c
    | .unlock => { cl := { c.cl with holder := if c.cl.holder = some t then none else c.cl.holder }, threads := adv lb }
    | .setLbInstance => { cl := { c.cl with lbInstance := lb }, threads := adv lb }
    | .setHostSet => { cl := { c.cl with hostSet := v }, threads := adv lb }
    | .publish l h =>
      let r : Rec := ⟨pick l lb c.cl.lbInstance, pick h v c.cl.hostSet⟩
      { cl := { c.cl with recs := setRec c.cl.recs c.cl.next r, cur := c.cl.next, next := c.cl.next + 1,
                          published := c.cl.published ++ [r.hs] },
        threads := adv lb }
    | .mutLb s =>
      { cl := { c.cl with recs := setRec c.cl.recs c.cl.cur { c.cl.recs c.cl.cur with lb := pick s lb c.cl.lbInstance } },
        threads := adv lb }
    | .mutHs s =>
      { cl := { c.cl with recs := setRec c.cl.recs c.cl.cur { c.cl.recs c.cl.cur with hs := pick s v c.cl.hostSet },
                          published := c.cl.published ++ [pick s v c.cl.hostSet] },
        threads := adv lb }
    | .notifyHC => { c with threads := adv lb }

def run (c : Conf) (sched : List Nat) : Conf := sched.foldl step c

/-- thread ids `1 … ` below `nUpd + 1` are updaters (thread `v` installs host set number `v` with program `prog`), all
other ids are readers. -/
def initConf (prog : List UStep) (nUpd : Nat) : Conf :=
  { threads := fun t => if 1 ≤ t ∧ t ≤ nUpd then .upd t 0 prog else .rd .start }

/-- **publication discipline**: every store into the cell is a NEW record both of whose components come from this call
— the balancer already built over the argument (`built`), and the argument itself — and a published record is never
written. -/
def okFrom (built : Bool) : List UStep → Bool
  | [] => true
  | .buildLB :: r => okFrom true r
  | .publish l h :: r => built && l == .fresh && h == .fresh && okFrom built r
  | .mutLb _ :: _ => false
  | .mutHs _ :: _ => false
  | _ :: r => okFrom built r

def publishOk (prog : List UStep) : Bool := okFrom false prog

/-- the regenerated code publishes coherently and reads through one load. -/
def coherentPublication : Bool :=
  publishOk updateHosts && snapshotLoads == 1 && foreignSnapshotWrites == 0

/-- what a finished lookup saw. -/
def seen (c : Conf) (t : Nat) : Option (Nat × Nat) :=
  match c.threads t with
  | .rd (.done x y) => some (x, y)
  | _ => none

/-- the "update the published record in place" shape (used only for the machine-checked negative witness). -/
def updateInPlace : List UStep :=
  [.buildLB, .lock, .setLbInstance, .setHostSet, .mutLb .fresh, .mutHs .fresh, .notifyHC, .unlock]

end MosnVerif.Model.Snapshot
