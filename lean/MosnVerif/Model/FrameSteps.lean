import MosnVerif.Model.KVBlock
import MosnVerif.Gen.FrameLen
import MosnVerif.Gen.FrameConsts
/-!
`frameStep` of every xprotocol: what one `XProtocol.Decode` call answers on a buffer, as
`envelope <header stage> <body stage>` (Model/Framing.lean).  Offsets of the length fields, the frame-length
expressions, every length test, the `Drain` argument, the dispatch bytes and the cmd-type switch are the
*regenerated* definitions of `Gen.FrameLen` (read off the current decoder.go / protocol.go).

* bolt / boltv2 (`bolt/protocol.go`, `boltv2/protocol.go`): `Decode` looks at the first byte — the sibling protocol's
  code delegates to the sibling's `Decode` — then, once `LessLen` bytes are there, switches on the cmd type byte to
  `decodeRequest` / `decodeResponse` (unknown type: error).  The first byte is otherwise **not** checked.
  Body stage: the KV header block (`xprotocol.DecodeHeader`), see Model/KVBlock.lean.
* dubbo: 16-byte header, payload length at [12:16]; magic not checked by `Decode`.  Body stage: for a non-event request
  the hessian2 service metadata is parsed (black box = oracle on the frame bytes).
* dubbothrift: 4-byte message size (not counting itself) + 2-byte magic needed; body stage = bounds of the header
  (recovered panics) + thrift binary protocol (black box).
* tars: TarsGo `TarsRequest` (4-byte total length, `< 4` or `> maxPackageLength` ⇒ PACKAGE_ERROR, which `Decode` maps to
  a decode error — regenerated flag `tars_packageErrorFails`; it was "need more data" before the [c08l9] fix); body stage = TarsGo packet reader (black box).

Integers: lengths are `Nat` (Go: `int` is 64-bit; the `uint32` sums in dubbo/dubbothrift `decodeFrame` are exact for
buffers below 4 GiB).  Core Lean only.
-/
namespace MosnVerif.Model.FrameSteps
open MosnVerif.Model.Framing MosnVerif.Model.FrameBytes MosnVerif.Model.KVBlock
open MosnVerif.Gen.FrameLen MosnVerif.Gen.FrameConsts

/-- one `decodeRequest` / `decodeResponse` of bolt or boltv2 -/
structure Layout where
  hdrLen : Nat
  short1 : Nat → Bool
  cl  : Nat × Nat
  hl  : Nat × Nat
  ctl : Nat × Nat
  flen : Nat → Nat → Nat → Nat
  short2 : Nat → Nat → Bool
  drain : Nat → Nat
  hidx : Nat → Nat
  cidx : Nat → Nat → Nat

inductive LayId where
  | v1req | v1resp | v2req | v2resp
deriving Repr, DecidableEq

def layoutOf : LayId → Layout
  | .v1req => ⟨bolt_RequestHeaderLen, bolt_req_short1, bolt_req_classLen, bolt_req_headerLen, bolt_req_contentLen,
      bolt_req_frameLen, bolt_req_short2, bolt_req_drain, bolt_req_headerIndex, bolt_req_contentIndex⟩
  | .v1resp => ⟨bolt_ResponseHeaderLen, bolt_resp_short1, bolt_resp_classLen, bolt_resp_headerLen, bolt_resp_contentLen,
      bolt_resp_frameLen, bolt_resp_short2, bolt_resp_drain, bolt_resp_headerIndex, bolt_resp_contentIndex⟩
  | .v2req => ⟨boltv2_RequestHeaderLen, boltv2_req_short1, boltv2_req_classLen, boltv2_req_headerLen,
      boltv2_req_contentLen, boltv2_req_frameLen, boltv2_req_short2, boltv2_req_drain, boltv2_req_headerIndex,
      boltv2_req_contentIndex⟩
  | .v2resp => ⟨boltv2_ResponseHeaderLen, boltv2_resp_short1, boltv2_resp_classLen, boltv2_resp_headerLen,
      boltv2_resp_contentLen, boltv2_resp_frameLen, boltv2_resp_short2, boltv2_resp_drain, boltv2_resp_headerIndex,
      boltv2_resp_contentIndex⟩

/-- the two length tests and the frame length of a `decodeRequest/Response` -/
def layoutHdr (L : Layout) (b : Bytes) : Hdr :=
  if L.short1 b.length then .needMore else
  let n := L.flen (fld b L.cl) (fld b L.hl) (fld b L.ctl)
  if L.short2 b.length n then .needMore else .len (L.drain n)

inductive Sel where
  | needMore | error | lay (id : LayId)
deriving Repr, DecidableEq

/-- `switch cmdType { case …: return decodeX }` -/
def sw (table : List (Nat × Nat)) (v : Nat) : Option Nat := (table.find? (fun r => r.1 == v)).map (·.2)

def v1rules (b : Bytes) : Sel :=
  if !bolt_enough b.length then .needMore else
  match sw bolt_switch (u8 b bolt_cmdTypeIdx) with
  | some 0 => .lay .v1req
  | some _ => .lay .v1resp
  | none => .error

def v2rules (b : Bytes) : Sel :=
  if !boltv2_enough b.length then .needMore else
  match sw boltv2_switch (u8 b boltv2_cmdTypeIdx) with
  | some 0 => .lay .v2req
  | some _ => .lay .v2resp
  | none => .error

/-- `bolt.Decode` (`v2 = false`) / `boltv2.Decode` (`v2 = true`) up to the choice of the decode function; the mutual
delegation on the first byte is unrolled with fuel (in Go an endless delegation would be a stack overflow: `error`). -/
def boltSel : Nat → Bool → Bytes → Sel
  | 0, _, _ => .error
  | k+1, false, b =>
    if bolt_nonEmpty b.length && bolt_isOther (u8 b bolt_codeIdx) then boltSel k true b else v1rules b
  | k+1, true, b =>
    if boltv2_nonEmpty b.length && boltv2_isOther (u8 b boltv2_codeIdx) then boltSel k false b else v2rules b

def selFuel : Nat := 3

def boltHdr (v2 : Bool) (b : Bytes) : Hdr :=
  match boltSel selFuel v2 b with
  | .needMore => .needMore
  | .error => .error
  | .lay id => layoutHdr (layoutOf id) b

/-- the KV header block of a complete bolt frame -/
def boltBlock (L : Layout) (f : Bytes) : Bytes :=
  let h := L.hidx (fld f L.cl)
  (f.take (L.cidx h (fld f L.hl))).drop h

def boltOk (v2 : Bool) (f : Bytes) : Bool :=
  match boltSel selFuel v2 f with
  | .lay id => let L := layoutOf id
    if fld f L.hl > 0 then isOk (safe (boltBlock L f)) else true
  | _ => false

def frameStep_bolt : Bytes → Step Bytes := envelope (boltHdr false) (boltOk false)
def frameStep_boltv2 : Bytes → Step Bytes := envelope (boltHdr true) (boltOk true)

/-! dubbo -/
def dubboHdr (b : Bytes) : Hdr :=
  if !dubbo_enough1 b.length then .needMore else
  if !dubbo_enough2 b.length (fld b dubbo_payLoadLen) then .needMore else
  .len (dubbo_drain (dubbo_frameLen (fld b dubbo_dataLen)))

/-- `decodeFrame` consults hessian2 only for a request (flag bit 7) that is not an event (flag bit 5) -/
def dubboUsesOracle (f : Bytes) : Bool :=
  let flag := u8 f dubbo_FlagIdx
  !(flag.testBit 5) && flag.testBit 7

def dubboOk (oracle : Bytes → Bool) (f : Bytes) : Bool := if dubboUsesOracle f then oracle f else true

def frameStep_dubbo (oracle : Bytes → Bool) : Bytes → Step Bytes := envelope dubboHdr (dubboOk oracle)

/-! dubbothrift -/
def thriftHdr (b : Bytes) : Hdr :=
  if !thrift_enough1 b.length then .needMore else
  if !thrift_enough2 b.length (fld b thrift_sizeField) then .needMore else
  .len (thrift_drain (thrift_frameLength (fld b thrift_messageLen)))

def thriftBody (f : Bytes) : Bytes :=
  (f.take (thrift_bodyHi (fld f thrift_messageLen))).drop thrift_bodyLo

/-- `decodeFrame` slices `body[frame.HeaderLength:]` and `body[HeaderIdx:]`: out of range ⇒ recovered panic ⇒ error -/
def thriftBoundsOk (f : Bytes) : Bool :=
  let body := thriftBody f
  decide (thrift_HeaderIdx ≤ body.length) && decide (fld body thrift_headerLength ≤ body.length)

def thriftOk (oracle : Bytes → Bool) (f : Bytes) : Bool := thriftBoundsOk f && oracle f

def frameStep_thrift (oracle : Bytes → Bool) : Bytes → Step Bytes := envelope thriftHdr (thriftOk oracle)

/-! tars -/
def tarsHdr (b : Bytes) : Hdr :=
  if b.length < tars_lenFieldSize then .needMore else            -- PACKAGE_LESS
  let n := be b 0 tars_lenFieldSize
  if n < tars_minPackageLength ∨ n > tars_maxPackageLength then      -- PACKAGE_ERROR: [c08l9] a decode error since fix
    (if tars_packageErrorFails then .error else .needMore) else      --   'tars invalid package length' (regenerated; before: nil, nil)
  if b.length < n then .needMore else .len n                     -- PACKAGE_LESS / PACKAGE_FULL

def frameStep_tars (oracle : Bytes → Bool) : Bytes → Step Bytes := envelope tarsHdr oracle

/-- protocols by the names used on the case lines -/
def frameStepOf (proto : String) (oracle : Bytes → Bool) : Option (Bytes → Step Bytes) :=
  match proto with
  | "bolt" => some frameStep_bolt
  | "boltv2" => some frameStep_boltv2
  | "dubbo" => some (frameStep_dubbo oracle)
  | "thrift" => some (frameStep_thrift oracle)
  | "tars" => some (frameStep_tars oracle)
  | _ => none

end MosnVerif.Model.FrameSteps
