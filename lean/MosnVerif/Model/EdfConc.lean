import MosnVerif.Gen.EdfLock
import MosnVerif.Model.EdfHeap
/-!
Concurrent callers of the EDF scheduler (`pkg/upstream/cluster/edf.go`).

* `Gen/EdfLock.lean` is the regenerated **step program** of `NextAndPush` / `Add`: the statements in source order,
  including where `edf.lock` is taken and released.
* Part 1 (generic): a machine in which any number of calls (one *thread id* per call; a goroutine issuing several
  calls is several ids, which only restricts the schedules) run their step programs against one shared state under an
  arbitrary **schedule** (a list of thread ids; scheduling a finished or blocked thread is a stutter).  Mutual exclusion
  is by the `lock` / `unlock` steps (`sync.Mutex`: `lock` is enabled only while nobody holds the mutex).
* Part 2 (concrete): what each step does to the heap scheduler of `Model/EdfHeap.lean`.  The local variable `entry`
  is a *pointer* to a queued `edfEntry`; the model represents it by the entry's item (distinct per cell) and performs
  every `entry.x = …` on the cell that currently holds that item — wherever a concurrent `Fix` may have moved it.
  The arithmetic is the regenerated `Gen/Edf.lean`.
-/
namespace MosnVerif.Model.EdfConc
open MosnVerif.Gen MosnVerif.Gen.EdfLock

/-! ### Part 1: threads, schedules, the mutex -/

structure Thread (L : Type) where
  todo : List Step
  loc : L

/-- one call: the critical-section body it would run sequentially and its initial local state. -/
structure Call (L : Type) where
  prog : List Step
  l0 : L

structure Conf (S L : Type) where
  shared : S
  holder : Option Nat
  threads : Nat → Thread L
  /-- ghost: thread ids in the order in which they released the mutex. -/
  done : List Nat

variable {S L : Type}

/-- a step outside the lock vocabulary: new shared state, new local state, and whether the call returns early
(`if edf.items.Empty() { return nil }`; an early return releases the mutex if the caller holds it). -/
abbrev Exec (S L : Type) := Step → S → L → S × L × Bool

def setThread (th : Nat → Thread L) (t : Nat) (v : Thread L) : Nat → Thread L := fun u => if u = t then v else th u

/-- thread `t` is scheduled for one step. -/
def stepThread (exec : Exec S L) (c : Conf S L) (t : Nat) : Conf S L :=
  let th := c.threads t
  match th.todo with
  | [] => c
  | a :: r =>
    if a = .lock then
      if c.holder.isNone then { c with holder := some t, threads := setThread c.threads t { th with todo := r } } else c
    else if a = .unlock then
      if c.holder = some t then
        { c with holder := none, threads := setThread c.threads t { th with todo := r }, done := c.done ++ [t] }
      else { c with threads := setThread c.threads t { th with todo := r } }
    else
      let o := exec a c.shared th.loc
      let r' := if o.2.2 then (if c.holder = some t then [Step.unlock] else []) else r
      { c with shared := o.1, threads := setThread c.threads t { todo := r', loc := o.2.1 } }

def runSched (exec : Exec S L) (c : Conf S L) (sched : List Nat) : Conf S L := sched.foldl (stepThread exec) c

def initConf (calls : Nat → Call L) (s0 : S) : Conf S L :=
  { shared := s0, holder := none, threads := fun t => ⟨(calls t).prog, (calls t).l0⟩, done := [] }

/-- uninterrupted execution of lock-free steps by one caller. -/
def runBody (exec : Exec S L) : List Step → S → L → S × L
  | [], s, l => (s, l)
  | a :: r, s, l =>
    let o := exec a s l
    if o.2.2 then (o.1, o.2.1) else runBody exec r o.1 o.2.1

def lockFree (l : List Step) : Bool := l.all (fun a => a != .lock && a != .unlock)

/-- the part of a step program between its first and its last step. -/
def middle (p : List Step) : List Step := (p.drop 1).dropLast

/-- **lock discipline**: the program takes the mutex first, releases it last, and never touches it in between — it
holds the lock from before the peek until after the fix (and the evaluation of the return value). -/
def lockHeld (p : List Step) : Bool :=
  p.head? == some .lock && p.getLast? == some .unlock && decide (2 ≤ p.length) && lockFree (middle p)

/-- the calls in `order` executed one after the other: final shared state and each call's final local state. -/
def serial (exec : Exec S L) (calls : Nat → Call L) : List Nat → S → S × List (Nat × L)
  | [], s => (s, [])
  | t :: r, s =>
    let o := runBody exec (middle (calls t).prog) s (calls t).l0
    let q := serial exec calls r o.1
    (q.1, (t, o.2) :: q.2)

/-! ### Part 2: the steps of `edf.go` on the heap scheduler -/

open MosnVerif.Model.EDF MosnVerif.Model.EdfHeap

structure Local where
  /-- arguments of `Add(item, weight)` -/
  arg : Nat × Rat := (0, 0)
  /-- `entry` (pointer to a queued entry, represented by its item) -/
  entry : Option Nat := none
  /-- `weight` returned by the callback -/
  weight : Rat := 0
  /-- `entry` of `Add` (a fresh object, not yet queued) -/
  fresh : Option Entry := none
  /-- the returned value: `some (some i)` = item `i`, `some none` = `nil` -/
  result : Option (Option Nat) := none
deriving Inhabited

/-- the cell that currently holds the entry with item `it`. -/
def posOf (h : Heap Entry) (it : Nat) : Nat :=
  ((List.range h.size).find? (fun p => (h.elements p).item == it)).getD 0

/-- `entry.field = …` through the pointer. -/
def updEntry (s : HSched) (it : Nat) (f : Entry → Entry) : HSched :=
  let p := posOf s.items it
  { s with items := { s.items with elements := upd s.items.elements p (f (s.items.elements p)) } }

def exec (wf : Nat → Rat) : Exec HSched Local := fun a s l =>
  match a with
  | .checkEmpty => if s.items.size = 0 then (s, { l with result := some none }, true) else (s, l, false)
  | .peek => (s, { l with entry := some (peek s.items).item }, false)
  | .setTime =>
    match l.entry with
    | some it => ({ s with now := Edf.nextTime (s.items.elements (posOf s.items it)).deadline }, l, false)
    | none => (s, l, false)
  | .callback =>
    match l.entry with
    | some it => (s, { l with weight := wf it }, false)
    | none => (s, l, false)
  | .setDeadline =>
    match l.entry with
    | some it => (updEntry s it (fun e => { e with deadline := Edf.nextDeadline e.deadline l.weight }), l, false)
    | none => (s, l, false)
  | .setWeight =>
    match l.entry with
    | some it => (updEntry s it (fun e => { e with weight := l.weight }), l, false)
    | none => (s, l, false)
  | .setQueued =>
    match l.entry with
    | some it => ({ updEntry s it (fun e => { e with queued := s.clock + 1 }) with clock := s.clock + 1 }, l, false)
    | none => (s, l, false)
  | .fix => ({ s with items := fix less s.items 0 }, l, false)
  | .ret => (s, { l with result := some l.entry }, false)
  | .newEntry =>
    ({ s with clock := s.clock + 1 },
     { l with fresh := some { item := l.arg.1, deadline := Edf.addDeadline s.now l.arg.2, weight := l.arg.2, queued := s.clock + 1 } },
     false)
  | .push =>
    match l.fresh with
    | some e => ({ s with items := push less s.items e }, l, false)
    | none => (s, l, false)
  | .lock => (s, l, false)
  | .unlock => (s, l, false)

/-- every thread id is one `NextAndPush(weightFunc)` call running step program `prog`. -/
def napCalls (prog : List Step) : Nat → Call Local := fun _ => { prog := prog, l0 := {} }

/-- one sequential `NextAndPush`: the returned value (`none` = `nil`, empty queue) and the successor state. -/
def seqCall (s : HSched) (wf : Nat → Rat) : Option Nat × HSched :=
  match s.nextAndPush wf with
  | none => (none, s)
  | some (i, s') => (some i, s')

/-- `n` sequential calls: returned values and final state. -/
def seqCalls (s : HSched) (wf : Nat → Rat) : Nat → List (Option Nat) × HSched
  | 0 => ([], s)
  | n + 1 => let o := seqCall s wf; let q := seqCalls o.2 wf n; (o.1 :: q.1, q.2)

/-- the values returned by the calls that have released the mutex, in release order. -/
def returned (c : Conf HSched Local) : List (Option (Option Nat)) := c.done.map (fun t => (c.threads t).loc.result)

/-- the "release the lock around the callback" shape ("keep user callbacks out of the critical section"): what the
extractor reads off that variant of `NextAndPush`. Used only for the machine-checked negative witness. -/
def unlockAroundCallback : List Step :=
  [.lock, .checkEmpty, .peek, .setTime, .unlock, .callback, .lock, .setDeadline, .setWeight, .setQueued, .fix, .ret, .unlock]

end MosnVerif.Model.EdfConc
