import MosnVerif.Gen.RecvOrder
/-!
Stream objects with identity and generation (C02, kind `sgen`).

The client stream OBJECT of an HTTP/1 (or xprotocol) exchange lives inside pooled per-request buffers
(`httpBuffers.clientStream`, `streamBuffers.clientStream`): when the exchange is finished the buffers go back to the pool and
the next exchange re-initialises the SAME object (a new *generation*). `client.NewStream` (pkg/stream/client.go) allocates
one receiver wrapper per stream which keeps the receiver it was created with and a POINTER to the stream object
(`Gen.RecvOrder.wrapperPerStream`, `wrapperKeepsPointer`). When a response is read on a connection, the I/O goroutine of
that connection runs the wrapper's `OnReceive`, whose action list `prog` is regenerated from the Go AST
(`Gen.RecvOrder.wrapperOnReceive`); its `destroy` acts on whatever generation the object has by then, its `deliver`
notifies the wrapper's own receiver.

Threads: one proxy worker per exchange (`take`: take pooled buffers `o`, lease a connection from the pool, new stream;
`send`; `finish`: only after it was notified - give the buffers back) and one I/O goroutine per connection (`read`: the next
response on the wire is read, `conn.stream` is picked and cleared, the picked stream's wrapper starts; `io k`: the next
action of k's running wrapper). A schedule is any list of these events; an event whose precondition fails is a no-op.

Pool: `avail` is the LIFO list of idle connections (connPool.availableClients, taken from / appended at the end);
`DestroyStream` on a live generation fires its listeners: the pool takes the connection registered on THAT generation
back (activeClient.OnDestroyStream) and the exchange of that generation sees the event.
-/
namespace MosnVerif.Model.StreamGen
open MosnVerif.Gen.RecvOrder (Act)

structure Ex where
  taken : Bool := false
  obj : Nat := 0
  gen : Nat := 0
  conn : Nat := 0
  sent : Bool := false
  pc : Option (List Act) := none   -- remaining actions of this exchange's running wrapper (none: not started)
  rtok : Nat := 0                  -- the answer its wrapper was started with (token = exchange that was asked)
  got : List Nat := []
  done : Bool := false
  dcount : Nat := 0                -- OnDestroyStream events its stream listener saw
  early : Bool := false            -- ... one of them before its response was read

structure Obj where
  gen : Nat := 0
  owner : Option Nat := none       -- exchange holding the buffers (none: in the pool)
  cur : Nat := 0                   -- exchange that made the current generation
  lis : Nat := 0                   -- connection whose pool client listens on the current generation
  live : Bool := false             -- listeners registered and not destroyed yet

/-- one DestroyStream executed by a wrapper -/
structure Rec where
  ex : Nat
  genMade : Nat            -- generation the wrapper's stream had when the wrapper was created
  genHit : Nat             -- generation the object had when DestroyStream ran
  own : Nat                -- connection of the wrapper's exchange
  gave : Option Nat        -- connection the pool took back
  deriving DecidableEq, Repr

structure St where
  ex : Nat → Ex := fun _ => {}
  obj : Nat → Obj := fun _ => {}
  avail : List Nat := []
  nconn : Nat := 0
  wire : Nat → List Nat := fun _ => []     -- per connection: requests written and not answered yet
  slot : Nat → Option Nat := fun _ => none -- per connection: clientStreamConnection.stream
  log : List Rec := []

inductive Ev | take (k o : Nat) | send (k : Nat) | read (c : Nat) | io (k : Nat) | finish (k : Nat)
  deriving DecidableEq, Repr

def upd {α : Type} (f : Nat → α) (i : Nat) (v : α) : Nat → α := fun j => if j = i then v else f j

def lease (s : St) : Nat × List Nat × Nat :=
  match s.avail with
  | c :: r => (c, r, s.nconn)
  | [] => (s.nconn, [], s.nconn + 1)

def doDestroy (s : St) (k : Nat) : St :=
  let e := s.ex k
  let ob := s.obj e.obj
  if ob.live then
    let t := s.ex ob.cur
    { s with obj := upd s.obj e.obj { ob with live := false },
             avail := ob.lis :: s.avail,
             ex := upd s.ex ob.cur { t with dcount := t.dcount + 1, early := t.early || t.pc.isNone },
             log := ⟨k, e.gen, ob.gen, e.conn, some ob.lis⟩ :: s.log }
  else { s with log := ⟨k, e.gen, ob.gen, e.conn, none⟩ :: s.log }

def step (prog : List Act) (s : St) : Ev → St
  | .take k o =>
    let e := s.ex k
    let ob := s.obj o
    if e.taken || ob.owner.isSome then s else
    let l := lease s
    { s with ex := upd s.ex k { e with taken := true, obj := o, gen := ob.gen + 1, conn := l.1 },
             obj := upd s.obj o { gen := ob.gen + 1, owner := some k, cur := k, lis := l.1, live := true },
             avail := l.2.1, nconn := l.2.2, slot := upd s.slot l.1 (some k) }
  | .send k =>
    let e := s.ex k
    if !e.taken || e.sent || e.done then s else
    { s with ex := upd s.ex k { e with sent := true }, wire := upd s.wire e.conn (s.wire e.conn ++ [k]) }
  | .read c =>
    match s.wire c with
    | [] => s
    | j :: r =>
      match s.slot c with
      | none => { s with wire := upd s.wire c r }
      | some k => { s with wire := upd s.wire c r, slot := upd s.slot c none,
                           ex := upd s.ex k { s.ex k with pc := some prog, rtok := j } }
  | .io k =>
    let e := s.ex k
    match e.pc with
    | some (a :: p) =>
      let s1 := { s with ex := upd s.ex k { e with pc := some p } }
      match a with
      | .destroy => doDestroy s1 k
      | .deliver => { s with ex := upd s.ex k { e with pc := some p, got := e.got ++ [e.rtok] } }
      | _ => s1
    | _ => s
  | .finish k =>
    let e := s.ex k
    if !e.taken || e.done || e.got.isEmpty then s else
    { s with ex := upd s.ex k { e with done := true },
             obj := upd s.obj e.obj { s.obj e.obj with owner := none, live := false } }

def run (prog : List Act) (s : St) (evs : List Ev) : St := evs.foldl (step prog) s

/-- the order the code has -/
def realProg : List Act := MosnVerif.Gen.RecvOrder.wrapperOnReceive

end MosnVerif.Model.StreamGen
