import MosnVerif.Model.Framing
/-!
The buffered dispatch loop for decoders that carry connection state (HTTP/2: "client preface consumed?"): same shape as
Model/Framing.lean, the decoder additionally threads a state `σ` that changes only when a frame is produced
(`pkg/stream/http2/stream.go Dispatch` + `pkg/protocol/http2/codec.go serverCodec.Decode`).  Core Lean only.
-/
namespace MosnVerif.Model.FramingS
open MosnVerif.Model.Framing

variable {F σ : Type}

/-- prefix-stability, in every state -/
structure SStable (d : σ → Bytes → Step (F × σ)) : Prop where
  pos     : ∀ s p f n, d s p = .frame f n → 0 < n ∧ n ≤ p.length
  ext     : ∀ s p f n e, d s p = .frame f n → d s (p ++ e) = .frame f n
  errExt  : ∀ s p e, d s p = .error → d s (p ++ e) = .error

/-- the loop of `Dispatch`: (frames, residue, failed, state).  HTTP/2's `Dispatch` has no "buffer empty" test: it calls
`Decode` on the empty buffer, which answers ErrAGAIN; `emptyStops` says whether the loop tests for emptiness first. -/
def sdrain (d : σ → Bytes → Step (F × σ)) : Nat → σ → Bytes → List F × Bytes × Bool × σ
  | 0, s, buf => ([], buf, false, s)
  | fuel+1, s, buf =>
    match d s buf with
    | .needMore => ([], buf, false, s)
    | .error => ([], buf, true, s)
    | .frame (f, s') n =>
      let r := sdrain d fuel s' (buf.drop n)
      (f :: r.1, r.2.1, r.2.2.1, r.2.2.2)

structure SConn (F σ : Type) where
  buf : Bytes
  out : List F
  failed : Bool
  st : σ

def sfeed (d : σ → Bytes → Step (F × σ)) (c : SConn F σ) (chunk : Bytes) : SConn F σ :=
  if c.failed then { c with buf := c.buf ++ chunk } else
  let b := c.buf ++ chunk
  let r := sdrain d (b.length + 1) c.st b
  { buf := r.2.1, out := c.out ++ r.1, failed := r.2.2.1, st := r.2.2.2 }

def srun (d : σ → Bytes → Step (F × σ)) (s0 : σ) (chunks : List Bytes) : SConn F σ :=
  chunks.foldl (sfeed d) { buf := [], out := [], failed := false, st := s0 }

end MosnVerif.Model.FramingS
