import MosnVerif.Model.StreamTable
/-!
Executable property predicate of C02 on what was observed after each operation on a client stream connection:
the counter, the ids in the table, and per stream object its id, the responses it was handed (request id of the frame,
token of the reply) and its reset notifications.  Declarative: it never calls the model's `step`.
-/
namespace MosnVerif.Model.StreamTable

structure OWaiter where
  id     : Int
  got    : List (Int × Nat)
  resets : Nat
  deriving DecidableEq, Repr

structure ObsC where
  base    : Int
  table   : List Int
  waiters : List OWaiter
  deriving DecidableEq, Repr

/-- one observation: nobody holds more than one response, a response is only held by the stream whose id it
carries, ids in the table are distinct and belong to streams that have not been answered yet. -/
def obsSpecC (o : ObsC) : Bool :=
  o.waiters.all (fun w => decide (w.got.length ≤ 1) && w.got.all (fun g => g.1 == w.id)) &&
  decide (o.table.Nodup) &&
  o.table.all (fun k => o.waiters.any (fun w => w.id == k && w.got.isEmpty))

/-- across streams: no reply (token) was handed over twice; with fewer than one generator period of allocations
(always the case in a run of the harness) the ids of all stream objects are distinct. -/
def obsSpecGlobal (o : ObsC) : Bool :=
  decide ((o.waiters.flatMap (fun w => w.got.map (·.2))).Nodup) && decide ((o.waiters.map (·.id)).Nodup)

/-- a reply frame with request id `id` and token `tok` between two observations -/
def replySpec (id : Int) (tok : Nat) (before after : ObsC) : Bool :=
  if before.table.contains id then
    -- delivered to the one stream registered under this id, entry removed, nothing else touched
    after.table == before.table.filter (· != id) &&
    after.waiters.length == before.waiters.length &&
    (List.zip before.waiters after.waiters).all (fun (b, a) =>
      if b.id == id && b.got.isEmpty then a == { b with got := [(id, tok)] } else a == b)
  else after == before   -- unknown, duplicate or already completed id: dropped, nothing changes

def obsOf (s : Conn) : ObsC :=
  { base := s.base, table := s.table.map (·.1),
    waiters := (List.range s.nW).map (fun w => { id := (s.waiter w).id, got := (s.waiter w).got, resets := (s.waiter w).resets }) }

/-- reference closed forms of the id generators (independent of the regenerated code) -/
def refId (p : Proto) (x : Int) : Int :=
  match p with
  | .bolt | .boltv2 => x % 4294967296
  | .dubbo | .thrift => x % 18446744073709551616
  | .tars => let y := x % 4294967296; if y < 2147483648 then y else y + 18446744069414584320

end MosnVerif.Model.StreamTable
