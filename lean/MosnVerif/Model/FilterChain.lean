import MosnVerif.Gen.FilterPhase
import MosnVerif.Gen.ProxyReply
/-!
Model of the stream-filter chain of one stream: `DefaultStreamFilterChainImpl.RunReceiverFilter` / `RunSenderFilter`
(pkg/streamfilter/chain.go) with their index cursors, the phase filter, the status handlers of the proxy
(`downStream.receiverFilterStatusHandler` / `senderFilterStatusHandler`) and what a filter may do on its handler
before it returns (`SendHijackReply[WithBody]`, `SendDirectResponse`, `TerminateStream`).

Regenerated from the Go source (Gen.FilterPhase): the status constants, the `switch filterStatus` of both loops
(`recvSwitch`, `sendSwitch`), both status handlers.  Hand-written here: the loop skeleton (cursor, phase filter, order of
filter call → status handler → switch) — checked by the correspondence run.

Regenerated as well (Gen.ProxyReply, proxy3 growth): what `SendHijackReply` / `SendHijackReplyWithBody` / `SendDirectResponse`
do to the response data and trailers the stream ALREADY holds (clear them, replace them by the answer's own, leave them) —
so an answering filter that lets the chain go on, followed by a header-only deny of a later filter, is modelled as the
code does it.

A chain is a list of filters; a filter is a phase plus a *script*: invocation `n` of the filter (within one stream)
returns `script[min n (len-1)]` (empty script = always Continue).  Theorems quantify over all chains and all scripts.
-/
namespace MosnVerif.Model.FilterChain
open MosnVerif.Gen.FilterPhase

/-- what a receiver filter does on its handler before returning -/
inductive Act where
  | none
  | hijack (code : Nat) (body : Bool)   -- SendHijackReply / SendHijackReplyWithBody
  | direct                              -- SendDirectResponse(headers, nil, nil)
  | terminate (code : Nat)              -- TerminateStream(code)
  deriving DecidableEq, Repr

structure Verdict where
  act : Act := .none
  status : FStatus := .Continue
  deriving DecidableEq, Repr

structure RFilter where
  phase : RPhase
  script : List Verdict
  deriving Repr

structure SFilter where
  script : List FStatus
  deriving Repr

def scriptAt {α} (dflt : α) (script : List α) (n : Nat) : α :=
  script.getD (min n (script.length - 1)) dflt

def RFilter.verdictAt (f : RFilter) (n : Nat) : Verdict := scriptAt {} f.script n
def SFilter.statusAt (f : SFilter) (n : Nat) : FStatus := scriptAt .Continue f.script n

/-- a verdict that answers the request locally -/
def Act.answers : Act → Bool
  | .hijack _ _ => true
  | .direct => true
  | _ => false

/-- a verdict that denies the request: answers it, or terminates it (status or handler call) -/
def Verdict.isDeny (v : Verdict) : Bool :=
  v.act.answers || (match v.act with | .terminate _ => true | _ => false) || v.status == .termination

/-- the pending local/upstream response: `downstreamRespHeaders != nil` with data / trailers presence -/
structure Resp where
  data : Bool
  trailers : Bool
  deriving DecidableEq, Repr

/-- the part of the downStream state filters and their handlers touch -/
structure FState where
  cursor : Nat := 0                 -- receiverFiltersIndex
  cphase : RPhase := .BeforeRoute   -- receiverFiltersIndexPhase
  scursor : Nat := 0                -- senderFiltersIndex
  again : Nat := InitPhase          -- receiverFiltersAgainPhase
  direct : Bool := false            -- directResponse
  resp : Option Resp := none        -- downstreamRespHeaders/DataBuf/Trailers
  statusVar : Option Nat := none    -- x-mosn-status variable (what the downstream codec renders)
  cleaned : Bool := false           -- downstreamCleaned
  upRespReceived : Bool := false    -- upstreamResponseReceived
  rcalls : Nat → Nat := fun _ => 0  -- invocations of receiver filter i so far
  scalls : Nat → Nat := fun _ => 0

def bump (f : Nat → Nat) (i : Nat) : Nat → Nat := fun j => if j = i then f j + 1 else f j

/-- the stream holds response data / trailers (`downstreamRespDataBuf != nil` / `downstreamRespTrailers != nil`) -/
def heldData (s : FState) : Bool := match s.resp with | some r => r.data | none => false
def heldTrailers (s : FState) : Bool := match s.resp with | some r => r.trailers | none => false

/-- presence of a response part after a reply path with the regenerated effect `e`: `mine` = this answer has such a part -/
def applyEff (e : Gen.ProxyReply.Eff) (mine held : Bool) : Bool :=
  match e with
  | .clear => false
  | .set => mine
  | .keep => held

def hijackDataEff (body : Bool) : Gen.ProxyReply.Eff := if body then Gen.ProxyReply.hijackBodyData else Gen.ProxyReply.hijackData
def hijackTrailersEff (body : Bool) : Gen.ProxyReply.Eff := if body then Gen.ProxyReply.hijackBodyTrailers else Gen.ProxyReply.hijackTrailers

/-- downStream.sendHijackReply / sendHijackReplyWithBody: the held data / trailers are cleared, replaced by the reply's own,
or left as they are — as the regenerated effects say -/
def sendHijack (s : FState) (code : Nat) (body : Bool) : FState :=
  { s with statusVar := some code,
           resp := some ⟨applyEff (hijackDataEff body) body (heldData s), applyEff (hijackTrailersEff body) false (heldTrailers s)⟩,
           direct := true }

/-- streamReceiverFilterHandler.SendDirectResponse(headers, nil, nil) -/
def sendDirect (s : FState) : FState :=
  { s with resp := some ⟨applyEff Gen.ProxyReply.directData false (heldData s), applyEff Gen.ProxyReply.directTrailers false (heldTrailers s)⟩,
           direct := true }

/-- downStream.cleanStream as far as the filters are concerned (CAS on downstreamCleaned) -/
def cleanStream (s : FState) : FState := { s with cleaned := true }

def applyAct (s : FState) : Act → FState
  | .none => s
  | .hijack code body => sendHijack s code body
  | .direct => sendDirect s
  | .terminate code =>
    -- streamReceiverFilterHandler.TerminateStream: refused when a response exists, the stream is cleaned, or the CAS on
    -- upstreamResponseReceived fails
    if s.resp.isSome || s.cleaned || s.upRespReceived then s
    else sendHijack { s with upRespReceived := true } code false

def applyHandler (e : HEffect) (p : RPhase) (s : FState) : FState :=
  match e with
  | .none => s
  | .clean => cleanStream s
  | .again on target => if p = on then { s with again := target } else s

abbrev Inv := Nat × Verdict      -- one receiver-filter invocation: (index, verdict returned)
abbrev SInv := Nat × FStatus

/-- the `for ; d.receiverFiltersIndex < len(d.receiverFilters); d.receiverFiltersIndex++` loop over the filters from the
cursor on; `idx` is the loop variable (= the cursor field in Go), the list is `receiverFilters[idx:]`.
Returns the state after the loop and the invocations made, in order. -/
def recvLoop (p : RPhase) : List RFilter → Nat → FState → FState × List Inv
  | [], _, s => ({ s with cursor := 0 }, [])
  | f :: rest, idx, s =>
    if f.phase ≠ p then recvLoop p rest (idx + 1) s
    else
      let v := f.verdictAt (s.rcalls idx)
      let s := { s with rcalls := bump s.rcalls idx }
      let s := applyAct s v.act                                  -- filter.OnReceive
      let s := applyHandler (receiverHandler v.status) p s       -- statusHandler(phase, filterStatus)
      match recvSwitch v.status with
      | .next => let (s', l) := recvLoop p rest (idx + 1) s; (s', (idx, v) :: l)
      | .resetReturn => ({ s with cursor := 0 }, [(idx, v)])
      | .keepReturn => ({ s with cursor := idx, cphase := if keepRecordsPhase then p else s.cphase }, [(idx, v)])

/-- where a pass of phase `p` starts: the regenerated guard in front of the loop (the kept cursor only resumes a pass of
the phase it was kept in) -/
def startOf (s : FState) (p : RPhase) : Nat := recvStart s.cursor (s.cphase == p)

/-- RunReceiverFilter(phase): state after, invocations made -/
def runRecv (chain : List RFilter) (p : RPhase) (s : FState) : FState × List Inv :=
  recvLoop p (chain.drop (startOf s p)) (startOf s p) s

def sendLoop : List SFilter → Nat → FState → FState × List SInv
  | [], _, s => ({ s with scursor := 0 }, [])
  | f :: rest, idx, s =>
    let st := f.statusAt (s.scalls idx)
    let s := { s with scalls := bump s.scalls idx }
    let s := applyHandler (senderHandler st) .BeforeRoute s      -- senderFilterStatusHandler (phase is not consulted)
    match sendSwitch st with
    | .next => let (s', l) := sendLoop rest (idx + 1) s; (s', (idx, st) :: l)
    | .resetReturn => ({ s with scursor := 0 }, [(idx, st)])
    | .keepReturn => ({ s with scursor := idx }, [(idx, st)])

/-- RunSenderFilter(BeforeSend): every sender filter is registered at the only sender phase -/
def runSend (chain : List SFilter) (s : FState) : FState × List SInv :=
  sendLoop (chain.drop s.scursor) s.scursor s

/-! ### vocabulary of the theorems -/

/-- invocation indices strictly increasing and all ≥ `lb` -/
def ascFrom : Nat → List Inv → Prop
  | _, [] => True
  | lb, iv :: r => lb ≤ iv.1 ∧ ascFrom (iv.1 + 1) r

def sascFrom : Nat → List SInv → Prop
  | _, [] => True
  | lb, iv :: r => lb ≤ iv.1 ∧ sascFrom (iv.1 + 1) r

/-- the status asks for a re-run of an earlier phase (re-match-route / re-choose-host) -/
def asksAgain (st : FStatus) : Prop := st = .ReMatchRoute ∨ st = .ReChooseHost

instance : DecidablePred asksAgain := fun st => by unfold asksAgain; infer_instance

/-- where the cursor stands after a pass: at the last invoked filter if it asked for a re-run, else 0 -/
def cursorAfter (invs : List Inv) : Nat :=
  match invs.getLast? with
  | some iv => if asksAgain iv.2.status then iv.1 else 0
  | none => 0

/-- the reply the handler calls of a sequence of invocations ask for: (pending response, status code), folding
SendHijackReply / SendDirectResponse / TerminateStream in order — declarative reference, used by the predicate -/
def replyOf : List Verdict → Option Resp × Option Nat → Option Resp × Option Nat
  | [], acc => acc
  | v :: r, (resp, code) =>
    replyOf r (match v.act with
      | .none => (resp, code)
      | .hijack k b => (some ⟨b, false⟩, some k)
      | .direct => (some ⟨false, false⟩, code)
      | .terminate k => if resp.isSome then (resp, code) else (some ⟨false, false⟩, some k))

/-- the status lets the loop go on to the next filter (Continue; an unknown status string behaves the same) -/
def continues : FStatus → Bool
  | .Continue => true
  | .unknown => true
  | _ => false

/-- a re-run request the proxy honours: re-match only from an AfterRoute filter, re-choose only from an AfterChooseHost
filter — declarative reference -/
def accepted (p : RPhase) (st : FStatus) : Bool :=
  (p == .AfterRoute && st == .ReMatchRoute) || (p == .AfterChooseHost && st == .ReChooseHost)

/-- the sender invocations one response makes: filters 0,1,2,… in order, each with its first scripted status, up to
and including the first one that does not continue — declarative reference -/
def sendRun : List SFilter → Nat → List SInv
  | [], _ => []
  | f :: r, i => (i, f.statusAt 0) :: (if continues (f.statusAt 0) then sendRun r (i + 1) else [])

end MosnVerif.Model.FilterChain
