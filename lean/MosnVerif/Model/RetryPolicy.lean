import MosnVerif.Gen.RetryPolicyBuild
import MosnVerif.Gen.ProxyTimeout
import MosnVerif.Model.Retry
/-!
The route's retry policy FROM CONFIGURATION to the two places of the proxy core that read it.

`NewRouteRuleImplBase` (pkg/router/base_rule.go) builds a `retryPolicyImpl` from the configured `retry_policy`
(`Gen.RetryPolicyBuild.buildCond` = the regenerated condition under which it does, `field*` = the regenerated configuration
expression stored in each field).  The proxy never sees the configuration, only the accessors of that object
(`acc*`, regenerated statement by statement, including their answers on the nil policy):
`parseProxyTimeout` reads `TryTimeout()`, `newRetryState` reads `RetryOn()`, `NumRetries()`, and `doRetryCheck` reads
`RetryableStatusCodes()`.  `effectivePolicy cfg` is the composition; `machinePolicy` hands it to the attempt machine
(`Model/Retry.lean`) and `effectiveTimeouts` to the regenerated `parseProxyTimeout`.

`retry_on = false` does not switch everything off in MOSN: the per-try timeout still bounds every attempt (the timer is armed by
`setupPerReqTimeout` whenever the effective TryTimeout is > 0) and refused connects are retried with the budget
`max 3 num_retries`.  So the object has to be built for every configured policy, whatever `retry_on` says.
Core Lean only.
-/
namespace MosnVerif.Model.RetryPolicy
open MosnVerif.Gen.RetryPolicyBuild MosnVerif.Gen.ProxyTimeout

/-- `retry_policy` of a route as configured (`v2.RetryPolicy`): durations in ns -/
structure RetryCfg where
  retryOn : Bool
  retryTimeout : Int
  numRetries : Nat
  statusCodes : List Nat
deriving Repr, DecidableEq

/-- the `retryPolicyImpl` object of the rule (`none` = the nil pointer) -/
structure Built where
  retryOn : Bool
  retryTimeout : Int
  numRetries : Int
  statusCodes : List Int
deriving Repr, DecidableEq

def codesInt (c : RetryCfg) : List Int := c.statusCodes.map Int.ofNat

/-- `NewRouteRuleImplBase`, the retry-policy part: regenerated guard, regenerated field expressions -/
def build : Option RetryCfg → Option Built
  | none =>
    -- route.Route.RetryPolicy == nil: the guard is evaluated with hasPolicy = false (a guard that lets this through would
    -- dereference nil; the model then stores zero values)
    if buildCond false false 0 0 [] then some ⟨false, 0, 0, []⟩ else none
  | some c =>
    if buildCond true c.retryOn c.retryTimeout c.numRetries (codesInt c) then
      some { retryOn := fieldRetryOn true c.retryOn c.retryTimeout c.numRetries (codesInt c),
             retryTimeout := fieldRetryTimeout true c.retryOn c.retryTimeout c.numRetries (codesInt c),
             numRetries := fieldNumRetries true c.retryOn c.retryTimeout c.numRetries (codesInt c),
             statusCodes := fieldStatusCodes true c.retryOn c.retryTimeout c.numRetries (codesInt c) }
    else none

/-- what the proxy core can observe of a rule's retry policy: the answers of the four accessors -/
structure Effective where
  retryOn : Bool
  tryTimeout : Int
  numRetries : Int
  statusCodes : List Int
deriving Repr, DecidableEq

/-- `rule.Policy().RetryPolicy().{RetryOn,TryTimeout,NumRetries,RetryableStatusCodes}()` on the stored object (nil included) -/
def accessors : Option Built → Effective
  | none => ⟨accRetryOn false false 0 0 [], accTryTimeout false false 0 0 [], accNumRetries false false 0 0 [], accStatusCodes false false 0 0 []⟩
  | some b => ⟨accRetryOn true b.retryOn b.retryTimeout b.numRetries b.statusCodes,
               accTryTimeout true b.retryOn b.retryTimeout b.numRetries b.statusCodes,
               accNumRetries true b.retryOn b.retryTimeout b.numRetries b.statusCodes,
               accStatusCodes true b.retryOn b.retryTimeout b.numRetries b.statusCodes⟩

/-- configuration → what the proxy core reads -/
def effectivePolicy (cfg : Option RetryCfg) : Effective := accessors (build cfg)

/-- declarative reference (written without regenerated code): every configured field reaches its accessor, for every value of
`retry_on`; a route without `retry_policy` answers the zero values -/
def specEffective : Option RetryCfg → Effective
  | none => ⟨false, 0, 0, []⟩
  | some c => ⟨c.retryOn, c.retryTimeout, c.numRetries, c.statusCodes.map Int.ofNat⟩

/-- the effective (global, per-try) timeouts of a request matched to a route with this configuration (`parseProxyTimeout`
reads the route's per-try timeout through the accessor) -/
def effectiveTimeouts (parseInt : String → Option Int) (cfg : Option RetryCfg) (routeGlobal : Int)
    (hdrTry hdrGlobal varTry varGlobal : Option String) : Int × Int :=
  parseProxyTimeout parseInt 0 0 true routeGlobal (effectivePolicy cfg).tryTimeout hdrTry hdrGlobal varTry varGlobal

/-- the policy the attempt machine runs under: `newRetryState` reads `RetryOn()`/`NumRetries()`, `doRetryCheck` the code list;
a per-try timer is armed for every attempt iff the effective per-try timeout is > 0 (`setupPerReqTimeout`) -/
def machinePolicy (e : Effective) (tryTimeout : Int) (disable : Bool) : Retry.Policy :=
  { retryOn := e.retryOn, numRetries := e.numRetries.toNat, codes := e.statusCodes.map Int.toNat,
    tryTimeout := decide (tryTimeout > 0), disable := disable }

/-- the attempt machine of a request on a route with this configuration -/
def routePolicy (parseInt : String → Option Int) (cfg : Option RetryCfg) (routeGlobal : Int)
    (hdrTry hdrGlobal varTry varGlobal : Option String) (disable : Bool) : Retry.Policy :=
  machinePolicy (effectivePolicy cfg) (effectiveTimeouts parseInt cfg routeGlobal hdrTry hdrGlobal varTry varGlobal).2 disable

/-- a label of consecutive-failure histories: the outcome with an admitting breaker and a healthy next host -/
def failLabel (o : Retry.Outcome) (host : Nat) : Retry.Label := ⟨o, true, some host⟩

end MosnVerif.Model.RetryPolicy
