import MosnVerif.Gen.C08H2Alloc
/-!
C08 (allocation): the header list `MFramer.readMetaFrame` builds (`mh.Fields = append(mh.Fields, hf)`) under the
MAX_HEADER_LIST_SIZE budget.  The emit callback is run as the regenerated step program `Gen.C08H2Alloc.h2a_emitOps`
(statement order as in the source), its comparison and its budget update are the regenerated `h2a_listOver` /
`h2a_listTake`, a field's size is the regenerated `h2a_fieldSize`.  Core Lean only.
-/
namespace MosnVerif.Model.H2Alloc
open MosnVerif.Gen.C08H2Alloc

structure ESt where
  remain : Int          -- remainSize
  kept : List Int       -- sizes of the fields appended to mh.Fields, in order
  enabled : Bool        -- hdec.emitEnabled
  truncated : Bool      -- mh.Truncated
deriving Repr, DecidableEq

/-- one statement of the emit callback on a field of size `size`; `false` = the callback returned.
`check` (field validation) and `size` change neither the list nor the budget (a failed validation switches emitting off
as well: fewer fields; the bound below is for any behaviour of the validation that lets the field through). -/
def emitOp (size : Int) (s : ESt) : String → ESt × Bool
  | "test" => if h2a_listOver size s.remain then ({ s with enabled := false, truncated := true }, false) else (s, true)
  | "take" => ({ s with remain := h2a_listTake s.remain size }, true)
  | "append" => ({ s with kept := s.kept ++ [size] }, true)
  | _ => (s, true)

def runOps (size : Int) : List String → ESt → ESt
  | [], s => s
  | op :: r, s =>
    match emitOp size s op with
    | (s', true) => runOps size r s'
    | (s', false) => s'

/-- `Decoder.callEmit`: the callback runs only while emitting is enabled (`SetEmitEnabled(false)` is never undone
inside a header block) -/
def emitField (ops : List String) (s : ESt) (nv : Nat × Nat) : ESt :=
  if s.enabled then runOps (h2a_fieldSize nv.1 nv.2) ops s else s

/-- a whole header block: the decoded fields as (name length, value length), budget `limit = fr.maxHeaderListSize()` -/
def emitAll (ops : List String) (limit : Int) (fields : List (Nat × Nat)) : ESt :=
  fields.foldl (emitField ops) ⟨limit, [], true, false⟩

def sum : List Int → Int
  | [] => 0
  | x :: r => x + sum r

end MosnVerif.Model.H2Alloc
