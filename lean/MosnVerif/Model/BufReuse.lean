import MosnVerif.Gen.BufReset
/-!
Per-request buffers of the HTTP/1 stream layer recycled through a pool (pkg/stream/http/buffer.go `httpBuffers`,
`httpBufferCtx.Reset`; taken with `httpBuffersByContext`, given back by `downStream.giveStream -> ctx.Give`).

An object has, for each of the four fasthttp messages it holds (server request / server response / client request /
client response), a header part and a body part; a part is the list of exchange tokens it currently carries.
What `Reset` clears is the REGENERATED table `Gen.BufReset.http` (which fields of `httpBuffers` are reset, wholly or
only a sub-field such as `.Header`). How an exchange uses the object is hand-modelled from pkg/stream/http/stream.go:

* `fasthttp.Request.ReadLimitBody` / `Response.Read` overwrite header and body of the message they read;
* `clientStream.AppendHeaders` / `serverStream.AppendHeaders(ResponseHeader)`: `CopyTo` resets the target header first;
* `clientStream.AppendData` (`SetBody`) / `serverStream.AppendData` (`SetBodyRaw`) run ONLY when there is a body: a
  body-less message leaves the body part of the pooled object as it is;
* a local reply (`serverStream.AppendHeaders(RequestHeader)`, hijack) sets the status and ADDS the request's headers to
  the response header without resetting it; a direct response with a body sets the body, one without does not;
* a HEAD response is written without its body (`SkipBody`).
Core Lean only.
-/
namespace MosnVerif.Model.BufReuse
open MosnVerif.Gen.BufReset

abbrev Slot := List String

structure Obj where
  sReqH : Slot
  sReqB : Slot
  sRespH : Slot
  sRespB : Slot
  cReqH : Slot
  cReqB : Slot
  cRespH : Slot
  cRespB : Slot
  deriving DecidableEq, Repr

def Obj.zero : Obj := ⟨[], [], [], [], [], [], [], []⟩

/-- does Reset clear part `sub` of field `f`? (`*buf = T{}`, a reset of the whole field, or of exactly that part) -/
def clearsPart (c : BufCtx) (f sub : String) : Bool :=
  c.whole || c.clears.contains (f, []) || c.clears.contains (f, [sub])

/-- every field of the buffers struct is reset as a whole (or the struct is assigned its zero value) -/
def fullReset (c : BufCtx) : Bool := c.whole || c.fields.all (fun f => c.clears.contains (f, []))

def msgFields : List String := ["serverRequest", "serverResponse", "clientRequest", "clientResponse"]

/-- the four message fields of the model are fields of the regenerated struct -/
def covers (c : BufCtx) : Bool := msgFields.all (fun f => c.fields.contains f)

def keep (clr : Bool) (s : Slot) : Slot := if clr then [] else s

def resetObj (c : BufCtx) (o : Obj) : Obj :=
  { sReqH := keep (clearsPart c "serverRequest" "Header") o.sReqH
    sReqB := keep (clearsPart c "serverRequest" "body") o.sReqB
    sRespH := keep (clearsPart c "serverResponse" "Header") o.sRespH
    sRespB := keep (clearsPart c "serverResponse" "body") o.sRespB
    cReqH := keep (clearsPart c "clientRequest" "Header") o.cReqH
    cReqB := keep (clearsPart c "clientRequest" "body") o.cReqB
    cRespH := keep (clearsPart c "clientResponse" "Header") o.cRespH
    cRespB := keep (clearsPart c "clientResponse" "body") o.cRespB }

/-- one exchange as planned: `fwd` it reaches the upstream (client stream used), `ans = some b` the upstream answers
(with a body iff `b`), otherwise the proxy replies locally (`direct` = body of a direct response, if any) -/
structure Ex where
  k : Nat
  fwd : Bool
  head : Bool
  reqBody : Bool
  ans : Option Bool
  direct : Option String
  status : Nat
  deriving DecidableEq, Repr

def qtok (k : Nat) : String := s!"q{k}"
def rtok (k : Nat) : String := s!"r{k}"

structure Out where
  status : Nat
  respH : Slot
  respB : Slot
  up : Option (Slot × Slot)
  deriving DecidableEq, Repr

/-- the exchange acts on the object it was handed -/
def serve (o : Obj) (e : Ex) : Obj × Out :=
  -- the server stream connection reads the request into serverRequest
  let o := { o with sReqH := [qtok e.k], sReqB := if e.reqBody then [qtok e.k] else [] }
  -- forwarded: headers copied into clientRequest, body set only when there is one
  let o := if e.fwd then { o with cReqH := o.sReqH, cReqB := if o.sReqB.isEmpty then o.cReqB else o.sReqB } else o
  let up := if e.fwd then some (o.cReqH, o.cReqB) else none
  let o := match e.ans with
    | some b =>
      -- the client stream connection reads the answer into clientResponse; the server stream copies the header and
      -- sets the body only when there is one
      let o := { o with cRespH := [rtok e.k], cRespB := if b && !e.head then [rtok e.k] else [] }
      { o with sRespH := o.cRespH, sRespB := if o.cRespB.isEmpty then o.sRespB else o.cRespB }
    | none =>
      { o with sRespH := o.sRespH ++ o.sReqH, sRespB := match e.direct with | some d => [d] | none => o.sRespB }
  (o, { status := e.status, respH := o.sRespH, respB := if e.head then [] else o.sRespB, up := up })

/-- the pool hands out the object at position `pick`, or a new one -/
def takeObj (pool : List Obj) (pick : Nat) : Obj × List Obj :=
  match pool[pick]? with
  | some o => (o, pool.eraseIdx pick)
  | none => (Obj.zero, pool)

def step (c : BufCtx) (pool : List Obj) (x : Ex × Nat) : List Obj × Out :=
  let t := takeObj pool x.2
  let r := serve t.1 x.1
  (resetObj c r.1 :: t.2, r.2)

def run (c : BufCtx) : List Obj → List (Ex × Nat) → List Out
  | _, [] => []
  | pool, x :: xs => (step c pool x).2 :: run c (step c pool x).1 xs

/-! ### the property predicate (declarative; independent of the regenerated table) -/

def expectedBody (e : Ex) : Slot :=
  if e.head then [] else
  match e.ans with
  | some true => [rtok e.k]
  | some false => []
  | none => match e.direct with | some d => [d] | none => []

/-- what a party of exchange `e` receives carries only tokens of exchange `e`: the client's response has the planned
status, header tokens of `e` only and exactly the planned body (none for a body-less answer); the upstream receives the
request iff it is forwarded, with the request's token and exactly the request's body -/
def ownOut (e : Ex) (o : Out) : Bool :=
  o.status == e.status &&
  o.respH.all (fun t => t == qtok e.k || t == rtok e.k) &&
  o.respB == expectedBody e &&
  (match o.up with
   | none => !e.fwd
   | some (h, b) => e.fwd && h == [qtok e.k] && b == (if e.reqBody then [qtok e.k] else []))

end MosnVerif.Model.BufReuse
