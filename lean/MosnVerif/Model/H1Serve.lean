import MosnVerif.Gen.C08H1Loop
/-!
# The HTTP/1 read path (pkg/stream/http/stream.go) — C08 "no unbounded loop, no wedge, limits"

The connection's read goroutine hands its buffer to `Dispatch`, which pushes it through the unbuffered channel `bufChan`
(`for buffer.Len() > 0 { bufChan <- buffer; <-endRead }`); the `serve()` goroutine pulls from that channel inside
`streamConnection.Read`, behind a `bufio.Reader` of the configured head size, and parses with fasthttp
(`Request.ReadLimitBody` / `Response.Read`): a BLACK BOX, here an oracle `parse` from the bytes that have arrived and were
not consumed to: a message that consumed `n` bytes (`cont`: its body was read behind `Expect: 100-continue`, `close`: it
asks for the connection to be closed), need-more (the call blocks in `Read`), an error, a panic.

What a turn of `serve()` does per class of answer (`Policy`) is REGENERATED from the Go AST (`Gen/C08H1Loop`).
`turn` / `Returns` (small-step, no fuel) / `run` (fuel, for the driver).  `dispatchOn`: what a `Dispatch` call does given
the state of the pipe; `headRead`: bufio + fasthttp on a message head.  Core Lean only.
-/
namespace MosnVerif.Model.H1Serve
open MosnVerif.Gen.C08H1Loop

/-- one answer of the parser as `serve()` sees it -/
inductive PStep where
  | msg (n : Nat) (cont close : Bool)
  | needMore (cont : Bool)
  | err (cont : Bool)
  | panic (cont : Bool)
  deriving DecidableEq, Repr

/-- what the connection / the proxy sees: request or response delivered, response written, `100 Continue` written,
`400` written, Close called, stream reset -/
inductive Ev where
  | q | r | c | b | x | t
  deriving DecidableEq, Repr

structure Policy where
  w100 : Nat
  detects : Nat
  okAgain : Bool
  errW400 : Nat
  errCloses : Nat
  errResets : Nat
  errAgain : Bool
  panicW400 : Nat
  panicCloses : Nat
  panicResets : Nat
  /-- server: the proxy's answer is written on this connection and a `close` request closes it (serverStream.endStream,
  hand-written); client: the answer goes elsewhere -/
  responds : Bool
  deriving DecidableEq, Repr

/-- serverStreamConnection.serve as it is written (regenerated) -/
def srvPolicy : Policy :=
  { w100 := h1_srvW100, detects := h1_srvDetects, okAgain := h1_srvOkAgain, errW400 := h1_srvLoudW400,
    errCloses := h1_srvLoudCloses, errResets := 0, errAgain := h1_srvErrAgain, panicW400 := h1_srvPanicW400,
    panicCloses := h1_srvPanicCloses, panicResets := 0, responds := true }

/-- clientStreamConnection.serve as it is written (regenerated) -/
def cliPolicy : Policy :=
  { w100 := 0, detects := 1, okAgain := h1_cliOkAgain, errW400 := 0, errCloses := h1_cliErrCloses,
    errResets := h1_cliErrResets, errAgain := h1_cliErrAgain, panicW400 := 0, panicCloses := 0,
    panicResets := h1_cliPanicResets, responds := false }

/-- how `serve()` ends: blocked in Read waiting for more bytes | the failure was acted upon (connection closed / waiting
stream reset) and serve returned | serve is gone and nobody was told (the connection stays open without a reader) -/
inductive Fin where
  | waiting | closed | dead
  deriving DecidableEq, Repr

structure Cfg where
  buf : List UInt8
  calls : Nat
  evs : List Ev
  deriving DecidableEq, Repr

def rep (n : Nat) (e : Ev) : List Ev := List.replicate n e

/-- ONE turn of the loop: the configuration behind it and, when the loop does not go round again, how serve ended -/
def turn (p : Policy) (parse : List UInt8 → PStep) (c : Cfg) : Cfg × Option Fin :=
  match parse c.buf with
  | .msg n cont close =>
    let evs := c.evs ++ (if cont then rep p.w100 .c else []) ++ rep p.detects .q ++
      (if p.responds then [Ev.r] else []) ++ (if close && p.responds then [Ev.x] else [])
    let c' : Cfg := { buf := c.buf.drop n, calls := c.calls + 1, evs := evs }
    if close && p.responds then (c', some .closed)
    else if p.okAgain then (c', none) else (c', some .dead)
  | .needMore cont =>
    ({ c with calls := c.calls + 1, evs := c.evs ++ (if cont then rep p.w100 .c else []) }, some .waiting)
  | .err cont =>
    let evs := c.evs ++ (if cont then rep p.w100 .c else []) ++ rep p.errW400 .b ++ rep p.errCloses .x ++ rep p.errResets .t
    let c' : Cfg := { c with calls := c.calls + 1, evs := evs }
    if p.errAgain then (c', none)
    else (c', some (if p.errCloses > 0 || p.errResets > 0 then .closed else .dead))
  | .panic cont =>
    let evs := c.evs ++ (if cont then rep p.w100 .c else []) ++ rep p.panicW400 .b ++ rep p.panicCloses .x ++ rep p.panicResets .t
    ({ c with calls := c.calls + 1, evs := evs }, some (if p.panicCloses > 0 || p.panicResets > 0 then .closed else .dead))

/-- `Returns p parse c c' f`: serve entered in configuration `c` stops turning in configuration `c'`, ended as `f` -/
inductive Returns (p : Policy) (parse : List UInt8 → PStep) : Cfg → Cfg → Fin → Prop where
  | done {c : Cfg} {f : Fin} : (turn p parse c).2 = some f → Returns p parse c (turn p parse c).1 f
  | more {c c' : Cfg} {f : Fin} : (turn p parse c).2 = none → Returns p parse (turn p parse c).1 c' f → Returns p parse c c' f

/-- executable loop: `none` = out of fuel -/
def run (p : Policy) (parse : List UInt8 → PStep) : Nat → Cfg → Option (Cfg × Fin)
  | 0, _ => none
  | fuel + 1, c =>
    match turn p parse c with
    | (c', some f) => some (c', f)
    | (c', none) => run p parse fuel c'

/-- the parser as the property needs it: a message consumed at least one of the bytes it was given -/
def Progress (parse : List UInt8 → PStep) : Prop :=
  ∀ b n cont close, parse b = .msg n cont close → 0 < n ∧ n ≤ b.length

/-- a failure (error or panic) is acted upon: the connection is closed or the waiting stream is reset; a message keeps
the loop going -/
def Policy.Contained (p : Policy) : Prop :=
  p.errAgain = false ∧ (p.errCloses > 0 ∨ p.errResets > 0) ∧ (p.panicCloses > 0 ∨ p.panicResets > 0) ∧ p.okAgain = true

instance (p : Policy) : Decidable p.Contained := by unfold Policy.Contained; exact inferInstance

/-- scripted parser for the driver: the recorded answers keyed by the number of bytes still unconsumed -/
def scripted (script : List (Nat × PStep)) (b : List UInt8) : PStep :=
  match script.find? (fun e => e.1 == b.length) with
  | some e => e.2
  | none => .needMore false

/-! ## the pipe between the read goroutine and serve() -/

structure Pipe where
  bufChanClosed : Bool
  serveReads : Bool
  deriving DecidableEq, Repr

inductive DOut where
  | returns            -- Dispatch returns (nothing to hand over, or the send on the closed channel panicked and was recovered)
  | handsOver          -- serve() takes the bytes
  | blockedUntilClose  -- nobody receives: the send blocks until Reset closes the channel
  | panics
  deriving DecidableEq, Repr

/-- one `Dispatch(buffer)` with `len` bytes on a pipe in state `p` -/
def dispatchOn (recovers : Bool) (p : Pipe) (len : Nat) : DOut :=
  if len = 0 then .returns
  else if p.bufChanClosed then (if recovers then .returns else .panics)
  else if p.serveReads then .handsOver else .blockedUntilClose

/-- a Close of the connection reaches `Reset`, which closes `bufChan` (server: the stream connection listens to its
connection's events) -/
def srvCloseReachesPipe : Bool := h1_srvListens && h1_srvCloseEventResets && h1_resetCloses.contains "bufChan"

/-- the pipe of a server connection behind a turn that called Close `closes` times and goes on / does not go on -/
def srvPipeAfter (closes : Nat) (again : Bool) : Pipe := ⟨decide (closes > 0) && srvCloseReachesPipe, again⟩

/-- a serve goroutine blocked in Read is released by Reset -/
def readReleasedByReset : Bool := h1_readEndsOnClosed && h1_resetCloses.contains "bufChan"

/-! ## the head limit: bufio.Reader + fasthttp's header reader -/

/-- bufio.NewReaderSize: at least 16 bytes (Go standard library) -/
def effReader (size : Nat) : Nat := if size < 16 then 16 else size

inductive HeadOut where
  | parsed | needMore | tooLarge
  deriving DecidableEq, Repr

/-- a head of `headLen` bytes (through the empty line) of which `avail` bytes have arrived, read through a bufio.Reader
of `size` bytes: fasthttp peeks at everything buffered, and asks for one more byte than buffered when the head is not
complete — `ErrBufferFull` (-> ErrSmallBuffer, a loud error) once the buffer is full.  Second component: bytes buffered. -/
def headRead (size headLen avail : Nat) : HeadOut × Nat :=
  let cap := effReader size
  let buffered := if avail < cap then avail else cap
  if headLen ≤ buffered then (.parsed, buffered)
  else if buffered = cap then (.tooLarge, buffered)
  else (.needMore, buffered)

end MosnVerif.Model.H1Serve
