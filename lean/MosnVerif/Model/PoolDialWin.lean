import MosnVerif.Gen.Pool
import MosnVerif.Gen.PoolDestroy
import MosnVerif.Gen.PoolDial
/-!
pool10: the windows between "the dial succeeded" and "the pool's books know the connection", and the accounting window of
the ping-pong `NewStream`, as interleaving points of the regenerated statement programs (`Gen.PoolDial`).

* `ppDialProg` (newActiveClient after `Connect()`, then GetActiveClient's guarded increment) runs with the close handler
  (`ppCloseProg`) inserted at ANY position: `dialClosedAt p`.
* `ppNewStreamProg` (listener registration, the three increments, the closed test) runs with a connection close at any
  position: `nsRun`.
* the multiplex `init`: whether the dial and the store are under `clientMux` and whether the close handler needs it
  (`Gen.PoolDial.mxDialLocked / mxStoreLocked / mxCloseLocked / mxInitSkipsGoaway`) decide what the slot holds after an
  event inside the dial: `mxAfterInit`.
The handler of a close event is one atomic step (it runs under `clientMux` in both pools; its gauge movements commute).
-/
namespace MosnVerif.Model.PoolDialWin
open MosnVerif.Gen.Pool MosnVerif.Gen.PoolDestroy MosnVerif.Gen.PoolDial

structure Books where
  total : Int := 0
  cnH : Int := 0
  cnC : Int := 0
  rqH : Int := 0
  rqC : Int := 0
  q : Int := 0
  deriving DecidableEq, Repr

/-- one regenerated counter movement (`mr`: max_requests) -/
def move (mr : Int) (b : Books) : Nat → Books
  | 0 => { b with rqH := b.rqH - 1 }
  | 1 => { b with rqC := b.rqC - 1 }
  | 2 => { b with q := resDecrease mr b.q }
  | 10 => { b with rqH := b.rqH + 1 }
  | 11 => { b with rqC := b.rqC + 1 }
  | 12 => { b with q := resIncrease mr b.q }
  | 20 => { b with cnH := b.cnH - 1 }
  | 21 => { b with cnC := b.cnC - 1 }
  | 22 => { b with cnH := b.cnH + 1 }
  | 23 => { b with cnC := b.cnC + 1 }
  | 30 => { b with total := b.total + 1 }
  | 31 => { b with total := b.total - 1 }
  | 32 => if b.total > 0 then { b with total := b.total - 1 } else b   -- a decrement "guarded against underflow"
  | _ => b

def run (mr : Int) (b : Books) (l : List Nat) : Books := l.foldl (move mr) b

/-- the dial window with the close handler `close` run after the first `p` statements of `dial` -/
def dialClosedAtWith (dial close : List Nat) (mr : Int) (b : Books) (p : Nat) : Books :=
  run mr b (dial.take p ++ close ++ dial.drop p)

def dialClosedAt (mr : Int) (b : Books) (p : Nat) : Books := dialClosedAtWith ppDialProg ppCloseProg mr b p

/-- the request part of OnDestroyStream (0,1,2 of the regenerated program) -/
def destroyMoves : List Nat := ppDestroyProg.filter (· ≤ 2)

/-- state of one ping-pong NewStream after the client was obtained -/
structure NS where
  b : Books
  listening : Bool := false   -- the pool's end listener is registered on the stream
  done : Bool := false        -- end.OnDestroyStream has passed its once-guard
  connClosed : Bool           -- the connection is closed
  refused : Bool := false
  deriving DecidableEq, Repr

/-- the stream's end as heard by the pool: only a registered listener hears it, once -/
def NS.hearEnd (mr : Int) (s : NS) : NS :=
  if s.listening && !s.done then { s with b := run mr s.b destroyMoves, done := true } else s

/-- a close of the connection at this point: the pool's handler, then the reset of the stream in the stream table -/
def NS.closeNow (close : List Nat) (mr : Int) (s : NS) : NS :=
  if s.connClosed then s else ({ s with b := run mr s.b close, connClosed := true }).hearEnd mr

/-- one statement of NewStream's tail; `ev` = position (index into the program) after which the connection closes -/
def nsStmt (close : List Nat) (mr : Int) (s : NS) (c : Nat) : NS :=
  if s.refused then s else
  match c with
  | 50 => { s with listening := true }
  | 51 => if s.connClosed then
      -- ResetStream (tells a registered listener, then destroys) and the explicit end.OnDestroyStream(): once together
      { (if s.done then s else { s with b := run mr s.b destroyMoves, done := true }) with refused := true }
    else s
  | 10 | 11 | 12 => { s with b := move mr s.b c }
  | _ => s

def nsRunWith (prog close : List Nat) (mr : Int) (s : NS) (closeAfter : Option Nat) : NS :=
  (prog.zipIdx.foldl (fun (s : NS) (ci : Nat × Nat) =>
    let s1 := nsStmt close mr s ci.1
    if closeAfter = some ci.2 then s1.closeNow close mr else s1) s)

def nsRun (mr : Int) (s : NS) (closeAfter : Option Nat) : NS := nsRunWith ppNewStreamProg ppCloseProg mr s closeAfter

/-- what slot 0 of the multiplex pool holds after `init` whose dial succeeded, by the event inside the dial:
`none` the slot is empty (after the pending close handler has run), `some true` a Connected client with an open
connection, `some false` a Connected client whose connection is CLOSED. -/
inductive MxEv | none | close | goAway deriving DecidableEq, Repr

def mxAfterInitWith (dialLocked storeLocked closeLocked skipsGoaway : Bool) : MxEv → Option Bool
  | .none => some true
  | .close =>
    -- the handler needs clientMux: with the dial under the lock it runs after the store and finds this client;
    -- otherwise it ran while the slot held the placeholder and deleted nothing
    if dialLocked && storeLocked && closeLocked then Option.none else some false
  | .goAway =>
    -- OnGoAway closes the connection; the handler leaves a GoAway client alone; init decides
    if skipsGoaway then Option.none else some false

def mxAfterInit : MxEv → Option Bool := mxAfterInitWith mxDialLocked mxStoreLocked mxCloseLocked mxInitSkipsGoaway

/-! ### the sequential machines the harness lines are compared with -/

structure PP where
  mc : Int
  mr : Int
  b : Books := {}
  idle : List Nat := []
  opn : List Bool := []            -- per connection: open
  streams : List (Nat × Bool) := []  -- per stream: connection, in flight
  deriving Repr

def setAt {α} (l : List α) (i : Nat) (v : α) : List α := l.set i v

def indexOf (l : List Nat) (c : Nat) : Nat := (l.findIdx? (· == c)).getD l.length

/-- position in `ppDialProg` / `ppNewStreamProg` of a yield site -/
def siteCode : Nat → Nat | 0 => 40 | 1 => 41 | 3 => 42 | 4 => 43 | _ => 99

inductive Res | ok (c : Nat) | cf | ovf | none deriving DecidableEq, Repr

/-- the stream part of NewStream on connection `c` (closed already or not), event after statement index `ev` -/
def PP.streamPart (s : PP) (c : Nat) (closedAlready : Bool) (ev : Option Nat) : PP × Res :=
  let r := nsRun s.mr { b := s.b, connClosed := closedAlready } ev
  let s1 := { s with b := r.b, opn := if r.connClosed then setAt s.opn c false else s.opn }
  if r.refused then (s1, .cf) else ({ s1 with streams := s1.streams ++ [(c, true)] }, .ok c)

/-- NewStream with a closing event at `site` (none: no event) -/
def PP.newStream (s : PP) (site : Option Nat) : PP × Res :=
  if !canCreate s.mr s.b.q then (s, .ovf) else
  if s.idle.isEmpty then
    if ppCanNew s.mc s.b.total then
      let c := s.opn.length
      let dialEv := match site with
        | some st => if st ≤ 1 then some (indexOf ppDialProg (siteCode st) + 1) else Option.none
        | Option.none => Option.none
      let b1 := match dialEv with
        | some p => dialClosedAt s.mr s.b p
        | Option.none => run s.mr s.b ppDialProg
      let nsEv := match site with
        | some st => if st ≥ 3 then some (indexOf ppNewStreamProg (siteCode st)) else Option.none
        | Option.none => Option.none
      ({ s with b := b1, opn := s.opn ++ [dialEv.isNone] }).streamPart c dialEv.isSome nsEv
    else (s, .ovf)
  else if ppReuseRefused s.mc s.b.total s.idle.length then (s, .ovf)
  else
    let c := s.idle.getLast?.getD 0
    let nsEv := match site with
      | some st => if st ≥ 3 then some (indexOf ppNewStreamProg (siteCode st)) else Option.none
      | Option.none => Option.none
    ({ s with idle := s.idle.dropLast }).streamPart c false nsEv

def PP.response (s : PP) (si : Nat) : PP :=
  match s.streams[si]? with
  | some (c, true) =>
    let s1 := { s with b := run s.mr s.b destroyMoves, streams := setAt s.streams si (c, false) }
    if s.opn.getD c false then { s1 with idle := s1.idle ++ [c] } else s1
  | _ => s

def PP.connClose (s : PP) (c : Nat) : PP :=
  if s.opn.getD c false then
    let live := s.streams.any (fun x => x.1 == c && x.2)
    let b1 := run s.mr s.b ppCloseProg
    { s with b := if live then run s.mr b1 destroyMoves else b1, opn := setAt s.opn c false,
             idle := s.idle.filter (· != c), streams := s.streams.map (fun x => if x.1 == c then (x.1, false) else x) }
  else s

inductive Op
  | new (site : Option Nat) (closes : Bool)
  | response (s : Nat)
  | connClose (c : Nat)
  deriving Repr

def PP.step (s : PP) : Op → PP × Res
  | .new site closes => s.newStream (if closes then site else Option.none)
  | .response si => (s.response si, .none)
  | .connClose c => (s.connClose c, .none)

def PP.trace (s : PP) : List Op → List (Res × PP)
  | [] => []
  | op :: ops => let (s1, r) := s.step op; (r, s1) :: PP.trace s1 ops

/-- the multiplex pool, slot 0 -/
structure MX where
  mr : Int
  b : Books := {}
  slot : Option Nat := none     -- the Connected client's connection
  opn : List Bool := []
  streams : List (Nat × Bool) := []
  deriving Repr

inductive MOp
  | init (ev : MxEv)
  | new
  | response (s : Nat)
  | connClose (c : Nat)
  deriving Repr

inductive MRes | t | f | ok (c : Nat) | cf | ovf | none deriving DecidableEq, Repr

def mxCloseMoves : List Nat := [20, 21]

def MX.step (s : MX) : MOp → MX × MRes
  | .init ev =>
    match s.slot with
    | some _ => (s, .t)
    | Option.none =>
      let c := s.opn.length
      let b1 := run s.mr s.b (mxDialProg ++ (if ev = .none then [] else mxCloseMoves))
      ({ s with b := b1, opn := s.opn ++ [decide (ev = .none)], slot := (mxAfterInit ev).map (fun _ => c) }, .f)
  | .new =>
    match s.slot with
    | Option.none => (s, .cf)
    | some c =>
      if !canCreate s.mr s.b.q then (s, .ovf)
      else if s.opn.getD c false then
        ({ s with b := run s.mr s.b ppTakeProg, streams := s.streams ++ [(c, true)] }, .ok c)
      else (s, .cf)
  | .response si =>
    match s.streams[si]? with
    | some (c, true) => ({ s with b := run s.mr s.b destroyMoves, streams := setAt s.streams si (c, false) }, .none)
    | _ => (s, .none)
  | .connClose c =>
    if s.opn.getD c false then
      let n := (s.streams.filter (fun x => x.1 == c && x.2)).length
      let b1 := run s.mr s.b mxCloseMoves
      ({ s with b := (List.replicate n ()).foldl (fun b _ => run s.mr b destroyMoves) b1, opn := setAt s.opn c false,
                slot := if s.slot = some c then Option.none else s.slot,
                streams := s.streams.map (fun x => if x.1 == c then (x.1, false) else x) }, .none)
    else (s, .none)

def MX.trace (s : MX) : List MOp → List (MRes × MX)
  | [] => []
  | op :: ops => let (s1, r) := s.step op; (r, s1) :: MX.trace s1 ops

end MosnVerif.Model.PoolDialWin
