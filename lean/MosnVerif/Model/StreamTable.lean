import MosnVerif.Gen.StreamIds
/-!
Model of the client side of an xprotocol stream connection (`pkg/stream/xprotocol/conn.go` `streamConn`):
the per-connection id counter `clientStreamIDBase`, the table `clientStreams : id → waiting client stream`, and what
the stream client (`pkg/stream/client.go`) layers on top (the receiver wrapper destroys the stream, then hands the
response over).  Request ids come from the regenerated per-protocol generators of `Gen.StreamIds`
(`uint32` wrap for bolt/boltv2, sign-extended `int32` for tars, plain `uint64` for dubbo / dubbo-thrift).

The table is an association list with Go-map semantics (an insert replaces the entry of the same key, a delete
removes it): `lookup_insert` / `lookup_erase` in `Lemmas/StreamTable.lean` are the refinement to a finite map.
-/
namespace MosnVerif.Model.StreamTable
open MosnVerif.Gen.StreamIds

inductive Proto | bolt | boltv2 | dubbo | thrift | tars
  deriving DecidableEq, Repr

/-- `GenerateRequestID(&clientStreamIDBase)`: (new counter, request id) -/
def gen : Proto → Int → Int × Int
  | .bolt => genBolt | .boltv2 => genBoltV2 | .dubbo => genDubbo | .thrift => genThrift | .tars => genTars

abbrev Table := List (Int × Nat)

def lookup (t : Table) (k : Int) : Option Nat := (t.find? (fun e => e.1 == k)).map (·.2)
def erase (t : Table) (k : Int) : Table := t.filter (fun e => !(e.1 == k))
def insert (t : Table) (k : Int) (v : Nat) : Table := (k, v) :: erase t k

structure Waiter where
  id         : Int                    -- xStream.id: the id the stream was created with
  registered : Bool := true           -- a receiver was given (not one-way)
  connReset  : Bool := false          -- xStream.connReset
  live       : Bool := true           -- BaseStream.state = reset (not yet destroyed)
  got        : List (Int × Nat) := []  -- OnReceive calls: (request id of the frame, token of the reply)
  resets     : Nat := 0               -- OnResetStream notifications
  deriving Repr

structure Conn where
  proto  : Proto
  base   : Int                 -- clientStreamIDBase
  table  : Table := []         -- clientStreams
  nW     : Nat := 0
  waiter : Nat → Waiter := fun _ => { id := 0 }

inductive Op
  | newStream (oneway : Bool)          -- streamConn.NewStream(ctx, receiver | nil)
  | reply (id : Int) (tok : Nat)       -- a response frame with request id `id` is dispatched
  | resetStream (w : Nat)              -- xStream.ResetStream on the w-th stream (timeout / downstream reset)
  | connReset                          -- streamConn.Reset (connection closed)
  | setBase (v : Int)                  -- verif hook: pre-set the counter
  deriving Repr

def Conn.updW (s : Conn) (w : Nat) (f : Waiter → Waiter) : Conn :=
  { s with waiter := fun k => if k = w then f (s.waiter w) else s.waiter k }

/-- `BaseStream.ResetStream` on waiter `w`: listeners are told once, only while the stream is not destroyed. -/
def baseReset (s : Conn) (w : Nat) : Conn :=
  if (s.waiter w).live then s.updW w (fun x => { x with resets := x.resets + 1, live := false }) else s

/-- `streamConn.Reset`: every stream in the table is flagged `connReset` and reset; the table itself is left alone. -/
def resetAll (s : Conn) : List (Int × Nat) → Conn
  | [] => s
  | (_, w) :: r => resetAll (baseReset (s.updW w (fun x => { x with connReset := true })) w) r

def step (s : Conn) : Op → Conn
  | .newStream oneway =>
    let (b, id) := gen s.proto s.base
    let s1 : Conn := { s with base := b, nW := s.nW + 1,
                              waiter := fun k => if k = s.nW then { id := id, registered := !oneway } else s.waiter k }
    if registers (!oneway) then { s1 with table := insert s.table id s.nW } else s1
  | .reply id tok =>
    match lookup s.table id with
    | none => s                                   -- unknown / already completed id: dropped
    | some w =>
      -- delete, then (client.go wrapper) destroy the stream, then OnReceive
      ({ s with table := erase s.table id }).updW w (fun x => { x with live := false, got := x.got ++ [(id, tok)] })
  | .resetStream w =>
    if w < s.nW then
      let x := s.waiter w
      let s1 := if resetDeletes clientStream x.connReset then { s with table := erase s.table x.id } else s
      baseReset s1 w
    else s
  | .connReset => resetAll s s.table
  | .setBase v => { s with base := u64 v }

def run (s : Conn) : List Op → Conn
  | [] => s
  | op :: r => run (step s op) r

def init (p : Proto) (base : Int) : Conn := { proto := p, base := u64 base }

/-! ### observation after each operation (same tokens as the harness) -/
def natSort (l : List Int) : List Int := l.foldr (fun x acc => (acc.filter (· < x)) ++ [x] ++ (acc.filter (fun y => !(y < x)))) []

def render (s : Conn) : String :=
  let ids := natSort (s.table.map (·.1))
  let ws := (List.range s.nW).map (fun w =>
    let x := s.waiter w
    s!"{x.id}:{",".intercalate (x.got.map (fun g => s!"{g.1}/{g.2}"))}:{x.resets}")
  s!"b{s.base};t{",".intercalate (ids.map toString)};w{";".intercalate ws}"

def trace (s : Conn) : List Op → List Conn
  | [] => []
  | op :: r => step s op :: trace (step s op) r

end MosnVerif.Model.StreamTable
