import MosnVerif.Model.FramingS
import MosnVerif.Model.FrameBytes
import MosnVerif.Model.Match
import MosnVerif.Gen.FrameLen
import MosnVerif.Gen.FrameConsts
/-!
HTTP/2 frame extraction on the server side: `serverCodec.Decode` (pkg/protocol/http2/codec.go) =
`MFramer.ReadPreface` once, then `MFramer.ReadFrame(ctx, data, 0)` (pkg/module/http2/mhttp2.go).

* state: has the 24-byte client preface been consumed?  `ReadPreface` drains it *without* producing a frame and `Decode`
  goes on to `ReadFrame` in the same call; in the model the preface is a silent item (`none`) after which the loop
  decodes again — the same thing, since `Dispatch` loops anyway.
* `ReadFrame`: 9-byte header (24-bit length, type, flags, 31-bit stream id) at offset `off`; `Length > maxReadSize` ⇒
  ErrFrameTooLarge; payload not buffered ⇒ ErrAGAIN; payload parser of the type (pure function of the frame: `parseOk`);
  `checkFrameOrder`; a HEADERS frame without END_HEADERS pulls the following CONTINUATION frames of the same stream in
  the same call (`readMetaFrame`, recursion at offset `off+size`) and everything is drained at once
  (`data.Drain(size + msize)`); if any of them is incomplete the whole call answers ErrAGAIN and the framer state is
  restored.  HPACK decoding of the assembled block (stateful) is the oracle `groupOk`.
Length tests, sizes and the `Drain` argument are regenerated (`Gen.FrameLen.h2_*`).  Core Lean only.
-/
namespace MosnVerif.Model.FrameH2
open MosnVerif.Model.Framing MosnVerif.Model.FramingS MosnVerif.Model.FrameBytes
open MosnVerif.Gen.FrameLen MosnVerif.Gen.FrameConsts

structure FH where
  len : Nat
  ty : Nat
  flags : Nat
  sid : Nat
deriving Repr, DecidableEq

def fh (b : Bytes) (off : Nat) : FH :=
  ⟨be b off (off + 3), u8 b (off + 3), u8 b (off + 4), be b (off + 5) (off + 9) % 2147483648⟩

inductive One where
  | needMore | error | ok (h : FH)
deriving Repr, DecidableEq

/-- header + size checks + payload parser of the frame at `off` -/
def one (maxRead : Nat) (parseOk : Bytes → Bool) (b : Bytes) (off : Nat) : One :=
  if h2_hdrShort b.length off then .needMore else
  let h := fh b off
  if h2_tooLarge h.len maxRead then .error else
  if h2_incomplete h.len b.length off then .needMore else
  if parseOk ((b.take (off + h2_size h.len)).drop off) then .ok h else .error

def endHeaders (h : FH) : Bool := h.flags.testBit 2

/-- `readMetaFrame`: CONTINUATION frames from `off` (= size of HEADERS + `ms`) until END_HEADERS; answers the
accumulated `msize` -/
def cont (maxRead : Nat) (parseOk : Bytes → Bool) (b : Bytes) (size0 sid : Nat) : Nat → Nat → Hdr
  | 0, _ => .needMore      -- unreachable: every frame is ≥ 9 bytes and the fuel is the buffer length
  | fuel+1, ms =>
    match one maxRead parseOk b (size0 + ms) with
    | .needMore => .needMore
    | .error => .error
    | .ok h =>
      if h.ty ≠ http2_FrameContinuation ∨ h.sid ≠ sid then .error else      -- checkFrameOrder
      if endHeaders h then .len (ms + h2_size h.len) else cont maxRead parseOk b size0 sid fuel (ms + h2_size h.len)

/-- one top-level `ReadFrame(ctx, data, 0)`: total number of bytes drained -/
def h2Hdr (maxRead : Nat) (parseOk : Bytes → Bool) (b : Bytes) : Hdr :=
  match one maxRead parseOk b 0 with
  | .needMore => .needMore
  | .error => .error
  | .ok h =>
    if h.ty = http2_FrameContinuation then .error                            -- unexpected CONTINUATION
    else if h.ty = http2_FrameHeaders ∧ endHeaders h = false then
      match cont maxRead parseOk b (h2_size h.len) h.sid b.length 0 with
      | .len ms => .len (h2_drain (h2_size h.len) ms)
      | r => r
    else if h2_drains h.ty then .len (h2_drain (h2_size h.len) 0) else .error

/-- `serverCodec.Decode`; items: `none` = preface consumed, `some bytes` = one frame (or HEADERS+CONTINUATION group) -/
def h2Step (maxRead : Nat) (parseOk groupOk : Bytes → Bool) : Bool → Bytes → Step (Option Bytes × Bool)
  | false, b =>
    if b.length < http2_preface.length then .needMore
    else if MosnVerif.Model.Match.nats (b.take http2_preface.length) = http2_preface then .frame (none, true) http2_preface.length
    else .error
  | true, b =>
    match h2Hdr maxRead parseOk b with
    | .needMore => .needMore
    | .error => .error
    | .len n => if groupOk (b.take n) then .frame (some (b.take n), true) n else .error

end MosnVerif.Model.FrameH2
