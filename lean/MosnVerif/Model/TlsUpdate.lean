import MosnVerif.Gen.TlsUpdate
import MosnVerif.Model.TlsSelect
/-!
Model of the TLS side of a listener's life in `connHandler.AddOrUpdateListener` (pkg/server/handler.go): a listener is
the pair (stored configuration = `al.listener.Config()`, what a dump shows; live context manager = `al.tlsMng`, what
`OnAccept` asks for every new connection). `AddOrUpdateListener lc` either adds the listener (the manager is built by
`newActiveListener` from `lc`) or updates it: the replacement manager is built by `mtls.NewTLSServerContextManager` from
a scratch `v2.Listener` whose Name / Inspector / TLS contexts come from the expressions *regenerated* in
`Gen.TlsUpdate.updMgrCfg` (fields of the update `lc` or of the configuration being replaced), the stored configuration
is rewritten per `Gen.TlsUpdate.updStored`, and the manager is swapped iff `updInstalls`. An operation whose manager
cannot be built (bad certificate, no certificate without fallback) is rejected before anything is changed.

The second half models TLS 1.2 / 1.3 session RESUMPTION at the level of the trust table: between the full handshake
that issued the ticket and the resumed one the server's view of the peer certificate may change (clock passes the
certificate's NotAfter, the context's CA is replaced); the handshake result must be the trust table's for the peer
class *as it is now* (`peerAfter`), resumed or not. The forked crypto/tls is a black box: this part is tied
differentially only.
-/
namespace MosnVerif.Model.TlsUpdate
open MosnVerif.Gen.TlsPolicy MosnVerif.Gen.TlsUpdate MosnVerif.Model.TlsSelect

/-- a TLS context of a configuration together with the identity of its certificate object (the harness numbers the
AddOrUpdateListener calls; the theorems hold for every tagging) -/
abbrev TCtx := Nat × Ctx

abbrev LCfg := ListenerTls TCtx

/-- the live `serverContextManager`: `inspector`, `providers` (one per TLS context, in order) and the listener name
its sds providers are indexed by -/
structure Manager where
  name : String
  inspector : Bool
  providers : List TCtx
  deriving DecidableEq, Repr

/-- `mtls.NewTLSServerContextManager cfg` (the inspector source is regenerated) -/
def newManager (cfg : LCfg) : Manager := ⟨cfg.name, mngInspector cfg, cfg.contexts⟩

/-- `mng.Enabled()`: some provider is ready -/
def Manager.enabled (m : Manager) : Bool := m.providers.any (·.2.ready)

/-- an active listener -/
structure LState where
  stored : LCfg
  live : Manager
  deriving DecidableEq, Repr

/-- one `AddOrUpdateListener` call for the listener's name; `buildOk` = NewTLSServerContextManager succeeds on the
configuration it is given (oracle: certificate parsing is outside the model) -/
structure Op where
  lc : LCfg
  buildOk : Bool
  deriving DecidableEq, Repr

/-- add branch -/
def addListener (lc : LCfg) : LState := ⟨addStored lc, newManager (addMgrCfg lc)⟩

/-- update branch (regenerated sources) -/
def updateListener (st : LState) (lc : LCfg) : LState :=
  ⟨updStored st.stored lc, if updInstalls then newManager (updMgrCfg st.stored lc) else st.live⟩

def apply : Option LState → Op → Option LState
  | none, op => if op.buildOk then some (addListener op.lc) else none
  | some st, op => if op.buildOk then some (updateListener st op.lc) else some st

/-- the listener after a sequence of AddOrUpdateListener calls -/
def run (ops : List Op) : Option LState := ops.foldl apply none

/-- the configuration of the last accepted call -/
def lastAccepted (ops : List Op) : Option LCfg := ((ops.filter (·.buildOk)).getLast?).map (·.lc)

/-- what `OnAccept` does with a TCP connection whose first byte is `first` -/
def LState.conn (st : LState) (first : Nat) : ConnResult :=
  connDecision true st.live.enabled st.live.inspector false first

/-- the context a ClientHello is answered with -/
def LState.select (st : LState) (sni : Name) (protos : List Name) : Outcome :=
  MosnVerif.Model.TlsSelect.select (st.live.providers.map (·.2)) sni protos

/-- the certificate object presented: (tag, index in the live provider list) -/
def LState.presented (st : LState) (sni : Name) (protos : List Name) : Option (Nat × Nat) :=
  if st.live.enabled then
    match st.select sni protos with
    | .config (some i) => (st.live.providers[i]?).map (fun p => (p.1, i))
    | _ => none
  else none

/-! ### Spec (declarative, no regenerated code): the policy in force is the last accepted configuration's -/

/-- plaintext is served on a listener configured by `lc` (contexts all static, i.e. ready): it is not a TLS listener,
or inspector mode allows it -/
def specPlainServed (lc : LCfg) (first : Nat) : Bool :=
  !(lc.contexts.any (·.2.ready)) || (lc.inspector && first != 22)

/-- the certificate the statement's selection rule picks among the contexts of `lc` -/
def specPresented (lc : LCfg) (sni : Name) (protos : List Name) : Option (Nat × Nat) :=
  match specSelect (lc.contexts.map (·.2)) sni protos with
  | some i => (lc.contexts[i]?).map (fun p => (p.1, i))
  | none => none

/-- last accepted configuration, by plain recursion -/
def specLast : Option LCfg → List Op → Option LCfg
  | cur, [] => cur
  | cur, op :: r => specLast (if op.buildOk then some op.lc else cur) r

/-! ### resumption: the server's view of the peer certificate changes between two handshakes -/

inductive Change where
  | none      -- nothing changes
  | clock     -- time passes the NotAfter of the peer's leaf certificate (CA still valid)
  | caSwap    -- the CA of the answering context is now the OTHER authority
  deriving DecidableEq, Repr

/-- the class of the same certificate after the change -/
def peerAfter : Change → Peer → Peer
  | .none, p => p
  | .clock, .rightCA => .expired
  | .clock, p => p
  | .caSwap, .rightCA => .otherCA
  | .caSwap, .otherCA => .rightCA
  | .caSwap, p => p     -- stolenKey: possession fails whatever the chain; expired / self-signed / none stay refused

/-- result of the second handshake (a session ticket of the first one is offered when there is one): the trust table
applied to the peer class as it is now — whether the handshake is abbreviated or full -/
def secondAccepts (auth : Int) (ch : Change) (p : Peer) : Bool := serverAccepts auth (peerAfter ch p)

end MosnVerif.Model.TlsUpdate
