import MosnVerif.Model.Bolt
/-!
Declarative reference for the bolt family, written from the wire-format tables in the comments of
`bolt/protocol.go` / `boltv2/protocol.go` with *literal* offsets (nothing regenerated is used here).  It is the
`Spec` side of C01: the executable property predicate evaluated on the implementation's outputs, and the statement
`Props.C01` proves about the model's outputs.

  bolt   request : proto(1) type(1) cmdcode(2) ver2(1) requestId(4) codec(1) timeout(4) classLen(2) headerLen(2) contentLen(4)
  bolt   response: proto(1) type(1) cmdcode(2) ver2(1) requestId(4) codec(1) respstatus(2) classLen(2) headerLen(2) contentLen(4)
  boltv2 request : proto(1) ver1(1) type(1) cmdcode(2) ver2(1) requestId(4) codec(1) switch(1) timeout(4) classLen(2) headerLen(2) contentLen(4)
  boltv2 response: proto(1) ver1(1) type(1) cmdcode(2) ver2(1) requestId(4) codec(1) switch(1) respstatus(2) classLen(2) headerLen(2) contentLen(4)
-/
namespace MosnVerif.Model.Bolt.Ref
open MosnVerif.Model MosnVerif.Model.Bytes

def v1req : Kind :=
  { id := .v1req, hdrLen := 22, cls := (14, 16), hdr := (16, 18), cnt := (18, 22),
    frameLen := fun c h n => 22 + c + h + n, headerIndex := fun c => 22 + c, contentIndex := fun hi h => hi + h,
    idIdx := 5, idWidth := 4,
    decodeMeta := fun b oneway =>
      { proto := 1, cmdType := if oneway then 2 else 1, cmdCode := getBE b 2 4, version := getBE b 4 5,
        reqId := getBE b 5 9, codec := getBE b 9 10, timeout := getBE b 10 14 },
    encodeMeta := fun m c h n =>
      be 1 m.proto ++ be 1 m.cmdType ++ be 2 m.cmdCode ++ be 1 m.version ++ be 4 m.reqId ++ be 1 m.codec ++
      be 4 m.timeout ++ be 2 c ++ be 2 h ++ be 4 n }

def v1resp : Kind :=
  { id := .v1resp, hdrLen := 20, cls := (12, 14), hdr := (14, 16), cnt := (16, 20),
    frameLen := fun c h n => 20 + c + h + n, headerIndex := fun c => 20 + c, contentIndex := fun hi h => hi + h,
    idIdx := 5, idWidth := 4,
    decodeMeta := fun b _ =>
      { proto := 1, cmdType := 0, cmdCode := getBE b 2 4, version := getBE b 4 5,
        reqId := getBE b 5 9, codec := getBE b 9 10, status := getBE b 10 12 },
    encodeMeta := fun m c h n =>
      be 1 m.proto ++ be 1 m.cmdType ++ be 2 m.cmdCode ++ be 1 m.version ++ be 4 m.reqId ++ be 1 m.codec ++
      be 2 m.status ++ be 2 c ++ be 2 h ++ be 4 n }

def v2req : Kind :=
  { id := .v2req, hdrLen := 24, cls := (16, 18), hdr := (18, 20), cnt := (20, 24),
    frameLen := fun c h n => 24 + c + h + n, headerIndex := fun c => 24 + c, contentIndex := fun hi h => hi + h,
    idIdx := 6, idWidth := 4,
    decodeMeta := fun b oneway =>
      { proto := 2, cmdType := if oneway then 2 else 1, cmdCode := getBE b 3 5, version := getBE b 5 6,
        reqId := getBE b 6 10, codec := getBE b 10 11, timeout := getBE b 12 16,
        ver1 := getBE b 1 2, switchCode := getBE b 11 12 },
    encodeMeta := fun m c h n =>
      be 1 m.proto ++ be 1 m.ver1 ++ be 1 m.cmdType ++ be 2 m.cmdCode ++ be 1 m.version ++ be 4 m.reqId ++
      be 1 m.codec ++ be 1 m.switchCode ++ be 4 m.timeout ++ be 2 c ++ be 2 h ++ be 4 n }

def v2resp : Kind :=
  { id := .v2resp, hdrLen := 22, cls := (14, 16), hdr := (16, 18), cnt := (18, 22),
    frameLen := fun c h n => 22 + c + h + n, headerIndex := fun c => 22 + c, contentIndex := fun hi h => hi + h,
    idIdx := 6, idWidth := 4,
    decodeMeta := fun b _ =>
      { proto := 2, cmdType := 0, cmdCode := getBE b 3 5, version := getBE b 5 6,
        reqId := getBE b 6 10, codec := getBE b 10 11, status := getBE b 12 14,
        ver1 := getBE b 1 2, switchCode := getBE b 11 12 },
    encodeMeta := fun m c h n =>
      be 1 m.proto ++ be 1 m.ver1 ++ be 1 m.cmdType ++ be 2 m.cmdCode ++ be 1 m.version ++ be 4 m.reqId ++
      be 1 m.codec ++ be 1 m.switchCode ++ be 2 m.status ++ be 2 c ++ be 2 h ++ be 4 n }

def kindOf : KindId → Kind
  | .v1req => v1req
  | .v1resp => v1resp
  | .v2req => v2req
  | .v2resp => v2resp

/-- which frame kind the bytes announce, as the two codecs dispatch: first byte 2 (bolt codec) resp. 1 (boltv2 codec)
selects the other family; then the command type byte (offset 1 for bolt, 2 for boltv2): 1 request, 2 one-way, 0 response. -/
def classify (boltv2Codec : Bool) (b : Bytes) : Option (Kind × Bool) :=
  let v2 : Bool :=
    if boltv2Codec then !(decide (b.length > 0 ∧ byteAt b 0 = 1)) else decide (b.length > 0 ∧ byteAt b 0 = 2)
  if v2 then
    if b.length ≥ 22 then
      if byteAt b 2 = 1 then some (v2req, false)
      else if byteAt b 2 = 2 then some (v2req, true)
      else if byteAt b 2 = 0 then some (v2resp, false)
      else none
    else none
  else
    if b.length ≥ 20 then
      if byteAt b 1 = 1 then some (v1req, false)
      else if byteAt b 1 = 2 then some (v1req, true)
      else if byteAt b 1 = 0 then some (v1resp, false)
      else none
    else none

/-- reference decode: a complete, well-formed frame at the head of `b`, else `none` -/
def parse (boltv2Codec : Bool) (b : Bytes) : Option (Frame × Nat) :=
  match classify boltv2Codec b with
  | none => none
  | some (K, oneway) =>
    match decodeKind K oneway b with
    | .frame f n => some (f, n)
    | _ => none

/-- the lengths a frame header can carry: two 16-bit fields and one 32-bit field -/
def representable (f : Frame) : Bool :=
  f.cls.length ≤ 65535 && BoltHeader.encodeLen f.kvs ≤ 65535 && f.content.length ≤ 4294967295

/-- same logical content: fixed fields, class, header pairs, body -/
def sameContent (a b : Frame) : Bool :=
  a.kind == b.kind && a.fx == b.fx && a.cls == b.cls && a.kvs == b.kvs && a.content == b.content

/-- the three length fields of a decoded frame agree with its sections -/
def lengthsConsistent (f : Frame) : Bool :=
  f.classLen == f.cls.length && f.headerLen == BoltHeader.encodeLen f.kvs && f.contentLen == f.content.length

/-- **the C01 predicate for one forwarded bolt-family frame.**
`inp` are the received bytes, `modify` what the proxy / filters did to the decoded frame, `id` the id the stream layer
set, and (`accepted`, `n`, `out`) what the implementation did: whether `Decode` produced a frame, how many bytes it
consumed, and `Encode`'s result (`none` = error).
* a well-formed frame must be accepted, consuming exactly its length;
* untouched ⇒ forwarded bytes = received bytes with only the 4-byte request-id field overwritten;
* touched ⇒ either the modified message is representable and the output is a well-formed frame that parses back to
  exactly the modified content with consistent length fields and nothing after it, or it is not and `Encode` refused. -/
def holds (boltv2Codec : Bool) (inp : Bytes) (modify : Frame → Frame) (id : Nat)
    (accepted : Bool) (n : Nat) (out : Option Bytes) : Bool :=
  match parse boltv2Codec inp with
  | none => true
  | some (f, len) =>
    accepted && n == len &&
    let m := setId (modify f) id
    if !m.hdrChanged && !m.contentChanged then
      out == some (patch (inp.take len) (kindOf f.kind).idIdx (be 4 id))
    else if representable m then
      match out with
      | none => false
      | some o =>
        match parse boltv2Codec o with
        | some (m', n') => n' == o.length && sameContent m' m && lengthsConsistent m'
        | none => false
    else out == none

end MosnVerif.Model.Bolt.Ref
