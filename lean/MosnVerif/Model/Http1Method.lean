import MosnVerif.Gen.C01HttpMethod
/-!
The method of a request forwarded by the HTTP/1 client stream (`pkg/stream/http/stream.go`).

`serverStream.handleRequest` → `injectCtxVarFromProtocolHeaders` stores the received method in the method variable
(regenerated: `injectsReceivedMethod`), the proxy hands the downstream's header map (method still in it) to
`clientStream.AppendHeaders(ctx, headers, endStream)` with `endStream = (the request has no body)`; AppendHeaders writes a
default (GET / POST by `endStream`), `FillRequestHeadersFromCtxVar` overwrites it with the variable when that is set and
not empty, and the header map is copied to the request that is printed.  The statement sequence is regenerated
(`Gen.C01HttpMethod.appendHeadersMethod` / `fillMethod`).  A request converted from another protocol arrives with a fresh
header map (method unset, "") and no method variable.
-/
namespace MosnVerif.Model.Http1Method
open MosnVerif.Gen.C01HttpMethod

/-- fasthttp prints an unset method as GET -/
def printed (m : String) : String := if m == "" then "GET" else m

/-- HTTP/1 → HTTP/1 through the proxy: `recv` the method token received, `hasBody` whether a (non-empty) body came with it -/
def forwarded (recv : String) (hasBody : Bool) : String :=
  printed (appendHeadersMethod (!hasBody) injectsReceivedMethod (if injectsReceivedMethod then recv else "") recv)

/-- converted request: fresh header map, no method variable (`variable.GetString` fails) -/
def converted (hasBody : Bool) : String := printed (appendHeadersMethod (!hasBody) false "" "")

/-- reference (independent of the regenerated code): the default rule -/
def defaultRule (hasBody : Bool) : String := if hasBody then "POST" else "GET"

/-- the other statement order (default written after the variable, guarded by "is it still GET"), for the negation witness -/
def swapped (endStream : Bool) (errNil : Bool) (method : String) (m : String) : String :=
  let m := fillMethod errNil method m
  let m := if isMethod "GET" m && !endStream then "POST" else m
  m

end MosnVerif.Model.Http1Method
