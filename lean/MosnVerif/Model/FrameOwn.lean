import MosnVerif.Model.FrameSteps
import MosnVerif.Gen.FrameOwn
/-!
Content locality and ownership of decoded messages (C07, second half of the statement: *contents* of message `i` are
the same for every chunking).

A. `envelopeC h v parse`: one `XProtocol.Decode` call that also produces the decoded CONTENT of the frame.  `h` is the
   header stage (length tests, regenerated, Model/FrameSteps), `parse` the payload field parser (KV block, hessian2,
   thrift, TarsGo reader: a black box, any function), and `v : View` says which bytes that parser is CONSTRUCTED ON:
   the private copy of exactly the frame (`frameCopy`: `rawData := make([]byte, frameLen); copy(rawData, buf[:frameLen])`)
   or everything that is buffered (`buffered`: `data.Bytes()[4:]`).  `viewOf proto` is computed from the REGENERATED
   lists of `Gen.FrameOwn` (every use of the read buffer in the decode functions, the slice each TarsGo reader is
   constructed on): an open slice / the whole buffer handed to anything but a length scanner makes it `buffered`.
B. ownership of HTTP/2 bodies: the DATA payload `HandleFrame` returns is a window of the connection read buffer; the
   stream layer hands a body object to the receiver (the proxy's worker reads it after Dispatch returned, while the IO
   goroutine reads on into the same memory).  `Body.owned` = bytes copied into a buffer of their own
   (`GetIoBuffer(len(data))` + `Write(data)`), `Body.view` = `NewIoBufferBytes(data)`: a window of the read buffer.
   `passOf` classifies the regenerated handleFrame facts.
Core Lean only.
-/
namespace MosnVerif.Model.FrameOwn
open MosnVerif.Model.Framing MosnVerif.Model.FrameSteps MosnVerif.Gen.FrameOwn

/-! ### A. which bytes the payload parser sees -/

inductive View where
  | frameCopy | buffered
deriving Repr, DecidableEq

def window (v : View) (b : Bytes) (n : Nat) : Bytes :=
  match v with
  | .frameCopy => b.take n
  | .buffered => b

/-- `Decode` with content: frame = (raw frame bytes, decoded content) -/
def envelopeC {C : Type} (h : Bytes → Hdr) (v : View) (parse : Bytes → Option C) (b : Bytes) : Step (Bytes × C) :=
  match h b with
  | .needMore => .needMore
  | .error => .error
  | .len n =>
    match parse (window v b n) with
    | some c => .frame (b.take n, c) n
    | none => .error

def isNum (s : String) : Bool := !s.isEmpty && s.toList.all Char.isDigit

/-- calls that are handed the whole read buffer and only determine the frame length (TarsGo's TarsRequest) or log a
prefix of it (CheckBigFrame) -/
def scanners : List String := ["tarsprotocol.TarsRequest", "CheckBigFrame", "bolt.CheckBigFrame"]

/-- upper bounds of closed slices of the read buffer that lie inside the frame: the frame length itself and header
constants (the header is complete when decodeX runs: the length tests of Gen.FrameLen) -/
def boundedHi : List String :=
  ["frameLen", "frame.FrameLength", "MessageLenSize", "(IdIdx + IdLen)", "(DataLenIdx + DataLenSize)"]

def boundedIdx : List String := ["FlagIdx", "StatusIdx"]

/-- a use of the read buffer that cannot see beyond the frame -/
def useLocal (u : BufUse) : Bool :=
  if u.kind == "slice" then isNum u.hi || boundedHi.contains u.hi
  else if u.kind == "index" then isNum u.lo || boundedIdx.contains u.lo
  else if u.kind == "arg" then scanners.contains u.ctx
  else u.kind == "alias" || u.kind == "drain"        -- "open", "open-arg", "other": not local

def usesLocal (l : List BufUse) : Bool := !l.isEmpty && l.all useLocal

/-- a field parser constructed on a private copy of exactly the bytes that are drained -/
def siteLocal (s : ParserSite) : Bool := s.copyLen != "" && s.copyLen == s.drain

def viewIf (b : Bool) : View := if b then .frameCopy else .buffered

def viewOf (proto : String) : View :=
  match proto with
  | "bolt" => viewIf (usesLocal bolt_uses)
  | "boltv2" => viewIf (usesLocal boltv2_uses)
  | "dubbo" => viewIf (usesLocal dubbo_uses)
  | "thrift" => viewIf (usesLocal thrift_uses)
  | "tars" => viewIf (usesLocal tars_uses && !tars_readers.isEmpty && tars_readers.all siteLocal)
  | _ => .buffered

def hdrOf (proto : String) : Option (Bytes → Hdr) :=
  match proto with
  | "bolt" => some (boltHdr false)
  | "boltv2" => some (boltHdr true)
  | "dubbo" => some dubboHdr
  | "thrift" => some thriftHdr
  | "tars" => some tarsHdr
  | _ => none

/-- `Decode` of protocol `proto` with content, for a payload parser `parse` -/
def contentStep {C : Type} (proto : String) (parse : Bytes → Option C) : Option (Bytes → Step (Bytes × C)) :=
  (hdrOf proto).map (fun h => envelopeC h (viewOf proto) parse)

/-- C07 predicate of a `pkt` case (declarative, independent of regenerated code): the decoded contents that came out
are, in order, the contents the frames have when each is decoded alone; nothing failed; the residue is the tail. -/
def specPkt (streamLen : Nat) (frames : List (Nat × String)) (got : List String) (residue : Nat) (failed : Bool) : Bool :=
  got == frames.map (·.2) && !failed && residue + (frames.map (·.1)).sum == streamLen

/-! ### B. ownership of delivered HTTP/2 bodies -/

/-- contents of the backing array of the connection read buffer -/
abbrev Mem := List UInt8

inductive Body where
  | owned (b : Bytes)
  | view (off len : Nat)
deriving Repr, DecidableEq

/-- what a reader of the body object finds while the read buffer memory holds `m` -/
def Body.read (m : Mem) : Body → Bytes
  | .owned b => b
  | .view off len => (m.drop off).take len

inductive Pass where
  | copy | alias
deriving Repr, DecidableEq

/-- a use of the payload variable that does not let the slice escape -/
def payloadUseCopies (u : PayloadUse) : Bool :=
  u.kind == "def" || u.kind == "nil-test" || (u.kind == "arg" && (u.what == "len" || u.what == "stream.recData.Write"))

/-- constructors of the body buffer that allocate fresh memory -/
def freshCtors : List String := ["buffer.GetIoBuffer(len(data))", "buffer.NewPipeBuffer(len(data))", "buffer.GetIoBuffer(0)"]

def passOf (uses : List PayloadUse) (ctors handed : List String) : Pass :=
  if !uses.isEmpty && uses.all payloadUseCopies && ctors.all freshCtors.contains &&
     handed.all (fun h => h == "nil" || h == "stream.recData") then .copy else .alias

def passServer : Pass := passOf h2_server_payload h2_server_recData h2_server_handed
def passClient : Pass := passOf h2_client_payload h2_client_recData h2_client_handed

/-- events of one message's body on a connection: a DATA frame whose payload is the window [off, off+len) of the read
buffer as it is now; a later read that leaves the buffer memory with arbitrary other contents (reset + write,
compaction, growth by reslicing: all of them rewrite the array) -/
inductive Ev where
  | data (off len : Nat) (endStream : Bool)
  | refill (m : Mem)
deriving Repr, DecidableEq

structure St where
  mem : Mem
  recData : Option Body      -- stream.recData
  sent : Bytes               -- the payload bytes as they arrived (ghost)
  delivered : Option Body    -- body argument of OnReceive
deriving Repr, DecidableEq

def St.init (m : Mem) : St := { mem := m, recData := none, sent := [], delivered := none }

def step (p : Pass) (s : St) : Ev → St
  | .refill m => { s with mem := m }
  | .data off len es =>
    let payload := (s.mem.drop off).take len
    let r : Body := match s.recData with
      | none => (match p with
                 | .copy => .owned payload            -- GetIoBuffer(len(data)); Write(data)
                 | .alias => .view off len)           -- NewIoBufferBytes(data)
      | some b => .owned (Body.read s.mem b ++ payload)    -- Write(data) appends a copy
    { s with recData := some r, sent := s.sent ++ payload, delivered := if es then some r else s.delivered }

def run (p : Pass) (m0 : Mem) (evs : List Ev) : St := evs.foldl (step p) (St.init m0)

/-- C07 predicate of an `h2own` case: what the receiver finds in the objects it kept — when it was handed them and
again after all reads of the case and a rewrite of the read buffer — is what the peer sent, message by message. -/
def specOwn (sent atDelivery atEnd : List String) (failed : Bool) : Bool :=
  atDelivery == sent && atEnd == sent && !failed

end MosnVerif.Model.FrameOwn
