import MosnVerif.Model.PoolWin
import MosnVerif.Model.PoolMxWin
import MosnVerif.Gen.PoolPlace
/-!
pool9 — `place` (the stream is created on the client's connection) and `listen` (the pool starts to listen to it) as
SEPARATE statements of `NewStream` for the HTTP/1 pool, the xprotocol ping-pong pool and the binding pool, with a
connection close allowed between them.

1. `h1Progs` / `ppProgs` / `bindProgs`: the regenerated NewStream programs (`Gen/PoolPlace`, source order, codes of
   `Gen/PoolDestroyMx`) as handler programs of the interleaving model `Model/PoolMxWin` — every statement one step, any
   other label (a close of the connection, another NewStream, the end of a request) between any two.  `placeVisible` is
   the regenerated fact whether the codec's NewStream makes the stream resettable by a connection event before it
   returns (xprotocol stream table: yes; HTTP/1: no — the stream is reset only after its request was sent).
   The client choice (idle list / slot / dial) is the books' business and moves no ledger column: statement 28 stands for
   it, the theorems hold for every slot the label names.  The close test and the put-back of the ping-pong
   OnDestroyStream (codes 3 4 5 of `Gen/PoolDestroy`) move no ledger column either (`Stmt.bad`: no-op) — they are the
   subject of `Model/PoolWin`.
2. `yieldNew`: the same regenerated program interpreted on the state of `Model/PoolWin` with the connection closed by
   MOSN right after `place` (what the harness operation `Y` of kind `win` does through the yield hook); `closeAt = false`
   is the ordinary NewStream and must equal `PoolWin.newStream` (checked by the driver on every `N`).
-/
namespace MosnVerif.Model.PoolPlace
open MosnVerif.Gen.PoolPlace MosnVerif.Gen.PoolDestroy
open MosnVerif.Model.PoolMxWin (Progs Stmt splitPre splitPost)

def h1Progs : Progs :=
  { nsPre := splitPre (h1NewStreamProg.map .ofCode), nsPost := splitPost (h1NewStreamProg.map .ofCode),
    destroy := h1DestroyProg.map .ofCode, reset := [.markActive], close := h1CloseGauges.map .ofCode, goAway := [],
    delMoves := [], dialMoves := h1DialGauges, hearsFirst := true, placeVisible := h1PlaceVisible }

def ppProgs : Progs :=
  { nsPre := splitPre (ppNewStreamProg.map .ofCode), nsPost := splitPost (ppNewStreamProg.map .ofCode),
    destroy := ppDestroyProg.map .ofCode, reset := [.markActive], close := ppCloseGauges.map .ofCode, goAway := [],
    delMoves := [], dialMoves := ppDialGauges, hearsFirst := true, placeVisible := xPlaceVisible }

/-- binding pool: one upstream client per downstream connection (`slots 0` = the entry of the downstream connection in
use), dial inside NewStream under the pool's mutex, `removeFromPool` in the close handler (36 through code 39) -/
def bindProgs : Progs :=
  { nsPre := splitPre (bindNewStreamProg.map .ofCode), nsPost := splitPost (bindNewStreamProg.map .ofCode),
    destroy := bindDestroyProg.map .ofCode, reset := bindResetProg.map .ofCode, close := bindCloseProg.map .ofCode, goAway := [],
    delMoves := [36], dialMoves := bindDialMoves, hearsFirst := true, placeVisible := xPlaceVisible }

/-- the order before the fixes: listen, takes, NO closed-connection test (what `poolPingPong.NewStream` and
`poolBinding.NewStream` were) -/
def unfixedPost : List Stmt := [.loadSlot, .chkNil, .place, .listen, .incHost, .incCluster, .incRes]

/-! ### the regenerated program on the ping-pong state (`Model/PoolWin`) -/
open MosnVerif.Model.PoolWin
open MosnVerif.Model.Pool (Kind Dial Res)
open MosnVerif.Gen.Pool (canCreate)

def nsProg : Kind → List Nat | .h1 => h1NewStreamProg | .pp => ppNewStreamProg
def visible : Kind → Bool | .h1 => h1PlaceVisible | .pp => xPlaceVisible

structure Ns where
  c      : Nat := 0
  placed : Bool := false   -- the stream exists
  dead   : Bool := false   -- reset before anybody listened
  heard  : Bool := false   -- the pool listens to it
  res    : Res := .none
  stop   : Bool := false

def drainAll : Nat → State → State := drain

/-- MOSN closes connection `c` (synchronously: the pool's close handler, then the codec client resets what is in the
stream table) -/
def closeNow (s : State) (c : Nat) : State :=
  if (s.client c).netOpen then poolOnClose { s.updC c (fun cl => { cl with netOpen := false }) with openN := s.openN - 1 } c else s

def nsStmt (d : Dial) (closeAt : Bool) (s : State) (x : Ns) : Nat → State × Ns
  | 31 => if canCreate s.maxReq s.reqCur then (s, x) else (s, { x with res := .overflow, stop := true })
  | 28 => match acquire s d with
    | (s1, .ok c) => (s1, { x with c := c, res := .ok c })
    | (s1, r) => (s1, { x with res := r })
  | 30 => match x.res with | .ok _ => (s, x) | _ => (s, { x with stop := true })
  | 32 =>
    if closeAt then (closeNow s x.c, { x with placed := true, dead := visible s.kind })
    else (s, { x with placed := true })
  | 47 => (s, { x with heard := !x.dead })
  | 48 =>
    if (s.client x.c).netOpen then (s, x) else
    -- the connection is found closed: the stream is reset (if it was not) and the pool's listener is told once
    (drain 64 { s with tasks := s.tasks ++ [(x.c, s.prog)] }, { x with res := .connFail false, heard := false, stop := true })
  | code => (applyMove s code, x)

def nsRun (d : Dial) (closeAt : Bool) : List Nat → State → Ns → State × Ns
  | [], s, x => (s, x)
  | code :: rest, s, x =>
    if x.stop then (s, x) else
    let (s1, x1) := nsStmt d closeAt s x code
    nsRun d closeAt rest s1 x1

/-- NewStream as its regenerated program; `closeAt`: MOSN closes the connection right after the stream was created.
A stream the pool hears of is in flight; one on a closed connection that was NOT reset (HTTP/1) fails when its request is
sent: connection failed ⇒ OnResetStream + OnDestroyStream. -/
def yieldNew (s : State) (d : Dial) (closeAt : Bool) : State × Res :=
  let (s1, x) := nsRun d closeAt (nsProg s.kind) s {}
  match x.res with
  | .ok c =>
    if x.heard then
      let s2 := { s1.updC c (fun cl => { cl with live := true }) with liveN := s1.liveN + 1 }
      if (s2.client c).netOpen then (s2, .ok c)
      else
        (drain 64 { s2.updC c (fun cl => { cl with live := false, dirty := true }) with
                    liveN := s2.liveN - 1, tasks := s2.tasks ++ [(c, s2.prog)] }, .ok c)
    else (s1, .ok c)   -- handed out, never heard of: what was taken is never given back
  | r => (s1, r)

end MosnVerif.Model.PoolPlace
