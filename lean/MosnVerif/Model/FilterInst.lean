import MosnVerif.Gen.FilterFactories
/-!
C14, many streams: filter INSTANCES and configuration UPDATES (core Lean only).

* The stream-filter manager is a map listener → published chain; `AddOrUpdateStreamFilterConfig(l, cfg)` publishes
  `createStreamFilterFactoryFromConfig cfg` (entries of unknown type are dropped) — for an unknown key directly
  (`NewStreamFilterFactory`), for a known key through `UpdateFactory` (regenerated: `Gen.FilterFactories.updateFactory`).
* `NewStreamDetect` of stream `s` on listener `l` (event `create`) calls `CreateFilterChain` of every published factory:
  a factory whose `CreateFilterChain` allocates (`fresh`, regenerated per package) yields a new object, otherwise the ONE
  object the factory owns; `AddStreamReceiverFilter` stores the handler of stream `s` in the object (`SetReceiveFilterHandler`).
* `OnReceive` of stream `s` (event `run`) runs the receive phases in order (BeforeRoute, AfterRoute, AfterChooseHost); inside a
  phase the filters of that phase in configuration order; a filter that denies the request (`deny s k = some code`) calls
  `SendHijackReply(code)` ON THE HANDLER ITS OBJECT HOLDS and returns Stop (rest of the phase skipped); after each phase the
  stream looks at ITS OWN pending reply (`processError`): pending ⇒ replied with it, never forwarded; nothing pending
  after the last phase ⇒ forwarded upstream.
Events of different streams interleave arbitrarily (an event is atomic: one call of NewStreamDetect / one worker pass).
-/
namespace MosnVerif.Model.FilterInst

def setAt {β : Type} (f : Nat → β) (a : Nat) (b : β) : Nat → β := fun x => if x = a then b else f x

/-- static parameters of a run: which filter ids have a registered type, which factories allocate per call, the phase a
filter id registers for (0,1,2), what each filter decides about each stream's request, the regenerated UpdateFactory -/
structure P where
  known : Nat → Bool
  fresh : Nat → Bool
  phase : Nat → Nat
  deny : Nat → Nat → Option Nat
  upd : List Nat → List Nat → List Nat

inductive Ev where
  | upd (l : Nat) (cfg : List Nat)
  | create (s l : Nat)
  | run (s : Nat)
  deriving Repr, DecidableEq

/-- outcome of a request: ids of the filters that ran, and the local reply (`none` = forwarded upstream) -/
abbrev Outcome := List Nat × Option Nat

structure S where
  next : Nat := 0
  handler : Nat → Nat := fun _ => 0
  chain : Nat → Option (List (Nat × Nat)) := fun _ => none
  pending : Nat → Option Nat := fun _ => none
  out : Nat → Option Outcome := fun _ => none

structure W where
  pub : Nat → Option (List Nat) := fun _ => none
  st : S := {}

/-- CreateFilterChain of every published factory for stream `s`: (filter id, object) list, allocator, handler slots -/
def inst (p : P) (s : Nat) : List Nat → Nat → (Nat → Nat) → List (Nat × Nat) × Nat × (Nat → Nat)
  | [], n, h => ([], n, h)
  | k :: ks, n, h =>
    let o := if p.fresh k then 2 * n + 1 else 2 * k
    let n' := if p.fresh k then n + 1 else n
    let r := inst p s ks n' (setAt h o s)
    ((k, o) :: r.1, r.2.1, r.2.2)

/-- one phase pass of stream `s`: the write a denying filter makes (stream whose handler its object holds, code), log -/
def runPhase (p : P) (s : Nat) (handler : Nat → Nat) : List (Nat × Nat) → List Nat → Option (Nat × Nat) × List Nat
  | [], log => (none, log)
  | ko :: r, log =>
    match p.deny s ko.1 with
    | some c => (some (handler ko.2, c), log ++ [ko.1])
    | none => runPhase p s handler r (log ++ [ko.1])

def runFrom (p : P) (s : Nat) (handler : Nat → Nat) (ch : List (Nat × Nat)) :
    List Nat → (Nat → Option Nat) → List Nat → (Nat → Option Nat) × Outcome
  | [], pend, log => (pend, (log, none))
  | ph :: phs, pend, log =>
    let r := runPhase p s handler (ch.filter (fun ko => p.phase ko.1 == ph)) log
    let pend' := match r.1 with
      | some tc => setAt pend tc.1 (some tc.2)
      | none => pend
    match pend' s with
    | some c => (pend', (r.2, some c))
    | none => runFrom p s handler ch phs pend' r.2

def phases : List Nat := [0, 1, 2]

def stepS (p : P) (pub : Nat → Option (List Nat)) (st : S) : Ev → S
  | .upd _ _ => st
  | .create s l =>
    match st.chain s with
    | some _ => st
    | none =>
      let r := inst p s ((pub l).getD []) st.next st.handler
      { st with chain := setAt st.chain s (some r.1), next := r.2.1, handler := r.2.2 }
  | .run s =>
    match st.chain s, st.out s with
    | some ch, none =>
      let r := runFrom p s st.handler ch phases st.pending []
      { st with pending := r.1, out := setAt st.out s (some r.2) }
    | _, _ => st

def stepPub (p : P) (pub : Nat → Option (List Nat)) : Ev → Nat → Option (List Nat)
  | .upd l cfg =>
    let new := cfg.filter p.known
    match pub l with
    | none => setAt pub l (some new)                   -- NewStreamFilterFactory(config)
    | some old => setAt pub l (some (p.upd old new))   -- factory.UpdateFactory(config)
  | _ => pub

def step (p : P) (w : W) (e : Ev) : W := { pub := stepPub p w.pub e, st := stepS p w.pub w.st e }

def exec (p : P) (evs : List Ev) : W := evs.foldl (step p) {}

/-! ### declarative references -/

/-- the configuration of the latest update of listener `l` in a history -/
def lastCfg (l : Nat) (evs : List Ev) : Option (List Nat) :=
  evs.foldl (fun acc e => match e with
    | .upd l' cfg => if l' = l then some cfg else acc
    | _ => acc) none

def expPhase (d : Nat → Option Nat) : List Nat → List Nat → List Nat × Option Nat
  | [], log => (log, none)
  | k :: r, log =>
    match d k with
    | some c => (log ++ [k], some c)
    | none => expPhase d r (log ++ [k])

def expFrom (p : P) (d : Nat → Option Nat) (ids : List Nat) : List Nat → List Nat → Outcome
  | [], log => (log, none)
  | ph :: phs, log =>
    match expPhase d (ids.filter (fun k => p.phase k == ph)) log with
    | (log', some c) => (log', some c)
    | (log', none) => expFrom p d ids phs log'

/-- what a request of stream `s` does on the chain `ids`, by the filters' decisions about THAT request alone -/
def expect (p : P) (s : Nat) (ids : List Nat) : Outcome := expFrom p (p.deny s) ids phases []

/-- the seeded-change shape of UpdateFactory (negation witness): an empty new list leaves the old one published -/
def keepOnEmpty (old new : List Nat) : List Nat := if new.isEmpty then old else new

end MosnVerif.Model.FilterInst
