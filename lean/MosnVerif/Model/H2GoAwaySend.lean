import MosnVerif.Gen.H2GoAway
import MosnVerif.Model.Flow
/-!
The SEND side and the control frames of an HTTP/2 server connection after its graceful GOAWAY
(pkg/module/http2/mhttp2.go, `MServerConn.processWindowUpdate / processSettings / processPing / processPriority /
processGoAway`), composed with the flow-control model of C18 (`Model/Flow.lean`, side `server`).

`Model/H2GoAway.lean` is the receive side (HEADERS / DATA / RST_STREAM of streams up to the last stream id are still
processed).  A response that is being written when the GOAWAY goes out needs more than that: a body larger than the
flow-control window (64 KiB by default) only completes if the WINDOW_UPDATE frames (stream and connection level) and
the SETTINGS of the peer are still processed after the GOAWAY.

State = the flow-control state of `Model.Flow` (windows, bodies, wire trace) + the go-away state.  Events:
* `shutdown`    `serverStreamConnection.GoAway()` → `GracefulShutdown()` (graceful, code `gracefulCode`)
* `peerGoAway`  a GOAWAY frame of the peer (`processGoAway` → `startGracefulShutdownInternal`)
* `open len`    HEADERS of a new request arrive and the proxy answers with a body of `len` bytes — ignored by
                `processHeaders` once a GOAWAY was sent (regenerated `headersIgnored`: the id is above the last stream id)
* `flow l`      a label of the flow model: a sender pass (`send i`), WINDOW_UPDATE (stream / connection), SETTINGS
* `ping`, `priority`

Regenerated (`Gen.H2GoAway`): for each handler the Bool over (inGoAway, goAwayCode) under which it drops the frame.
-/
namespace MosnVerif.Model.H2GoAwaySend
open MosnVerif.Gen.H2GoAway MosnVerif.Model

/-- (inGoAway, goAwayCode) ↦ the frame is dropped -/
structure Rules where
  wu : Bool → Int → Bool
  settings : Bool → Int → Bool
  ping : Bool → Int → Bool

/-- the code as it is -/
def codeRules : Rules := ⟨windowUpdateIgnored, settingsIgnored, pingIgnored⟩

inductive Ev
  | shutdown
  | peerGoAway
  | open (len : Nat)
  | flow (l : Flow.Label)
  | ping
  | priority
deriving Repr

structure St where
  flow : Flow.St
  inGoAway : Bool
  code : Int
  /-- GOAWAY frames written -/
  goAways : Nat
  pingAcks : Nat
  settingsAcks : Nat

def St.initial : St := ⟨Flow.St.initial .server, false, 0, 0, 0, 0⟩

def isWu : Flow.Label → Bool
  | .wuStream _ _ => true
  | .wuConn _ => true
  | _ => false

def isSettings : Flow.Label → Bool
  | .setInit _ => true
  | .setMaxFrame _ => true
  | _ => false

/-- `goAway(gracefulCode)`: idempotent -/
def graceful (s : St) : St :=
  if s.flow.closed then s else
  if goAwayOnce && s.inGoAway then s else { s with inGoAway := true, code := gracefulCode, goAways := s.goAways + 1 }

def stepWith (r : Rules) (s : St) : Ev → St
  | .shutdown => graceful s
  | .peerGoAway => if peerGoAwayStartsGraceful then graceful s else s
  | .open len =>
    -- the new stream has the next odd id, above every earlier one
    if headersIgnored s.inGoAway s.code (2 * (s.flow.count : Int) + 1) (2 * (s.flow.count : Int) - 1) then s
    else { s with flow := Flow.step s.flow (.openStream len) }
  | .flow l =>
    if isWu l then
      if r.wu s.inGoAway s.code then s else { s with flow := Flow.step s.flow l }
    else if isSettings l then
      if s.flow.closed || r.settings s.inGoAway s.code then s else
      let f := Flow.step s.flow l
      { s with flow := f, settingsAcks := if f.closed then s.settingsAcks else s.settingsAcks + 1 }
    else { s with flow := Flow.step s.flow l }
  | .ping => if s.flow.closed || r.ping s.inGoAway s.code then s else { s with pingAcks := s.pingAcks + 1 }
  | .priority => s   -- `priorityHasEffect = false`

def step (s : St) (e : Ev) : St := stepWith codeRules s e

def runWith (r : Rules) (s : St) (evs : List Ev) : St := evs.foldl (stepWith r) s
def run (s : St) (evs : List Ev) : St := runWith codeRules s evs

/-- the schedule of the flow model that an event list amounts to when the go-away changes nothing but the admission
of new streams: `g` = a GOAWAY has been sent -/
def labelsFrom (g : Bool) : List Ev → List Flow.Label
  | [] => []
  | .shutdown :: r => labelsFrom true r
  | .peerGoAway :: r => labelsFrom true r
  | .open len :: r => if g then labelsFrom g r else .openStream len :: labelsFrom g r
  | .flow l :: r => l :: labelsFrom g r
  | .ping :: r => labelsFrom g r
  | .priority :: r => labelsFrom g r

def Ev.wf : Ev → Bool
  | .flow l => l.wf
  | _ => true

/-- the seeded defect class: WINDOW_UPDATE dropped once a GOAWAY was sent (the shape of `processPriority`) -/
def ignoreWuRules : Rules := ⟨fun g _ => g, settingsIgnored, pingIgnored⟩

/-- greedy senders: every stream's sender loop runs until it blocks (`fuel` rounds over all streams) -/
def pumpAll (f : Flow.St) : Nat → Flow.St
  | 0 => f
  | k + 1 => pumpAll ((List.range f.count).foldl (fun a i => Flow.sendStep a i) f) k

end MosnVerif.Model.H2GoAwaySend
