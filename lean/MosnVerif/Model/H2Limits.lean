import MosnVerif.Gen.H2Limits
import MosnVerif.Gen.C08H2Settings
import MosnVerif.Gen.H2Frame
import MosnVerif.Gen.Flow

/-!
# C18 (c18r6): the limits of MOSN's HTTP/2 framer and connections

`readOutcome` is what `MFramer.ReadFrame` answers for ONE frame described by its header fields, the pad-length octet and the
number of buffered octets, built from the decision functions regenerated from the Go source (`Gen.H2Limits`, `Gen.H2Frame`).
`refOutcome` is the same question answered from RFC 7540 (§4.1, §4.2, §6.1–§6.10) with plain comparisons over `Nat`.
The payload octets the harness sends are all equal to `fill` except the pad-length octet, so the only payload-dependent
decisions are the padding tests and "WINDOW_UPDATE increment = 0" (`fill = 0`).
Core Lean only.
-/
namespace MosnVerif.Model.H2Limits
open MosnVerif.Gen

inductive Out where
  | again                 -- ErrAGAIN: header or payload not completely buffered
  | tooLarge              -- ErrFrameTooLarge
  | ok (n : Nat)          -- parsed; n = data / header-block-fragment length (DATA, HEADERS, PUSH_PROMISE), else the payload length
  | conn (code : Nat)     -- connection error
  | stream (code : Nat)   -- stream error
  | short                 -- io.ErrUnexpectedEOF of readByte / readUint32: payload shorter than its fixed fields
  deriving DecidableEq, Repr

structure Frame where
  ty : Nat
  flags : Nat
  sid : Nat
  len : Nat
  pad : Nat     -- value of the pad-length octet (first payload octet of a PADDED frame)
  fill : Nat    -- value of every other payload octet
  deriving Repr

def hasFlag (flags bit : Nat) : Bool := (flags / bit) % 2 == 1

def protoErr : Nat := H2Limits.errCodeProtocol
def sizeErr : Nat := H2Limits.errCodeFrameSize

/-! ## the model: MOSN's code, decisions regenerated -/

abbrev iLen (n : Nat) : Int := (n : Int)

/-- parseDataFrame -/
def parseData (f : Frame) : Out :=
  if f.sid == 0 then .conn protoErr else
  if hasFlag f.flags H2Frame.flagDataPadded then
    if f.len == 0 then .short else
    if H2Frame.dataPadTooBig (iLen f.pad) (iLen (f.len - 1)) then .conn protoErr else .ok (f.len - 1 - f.pad)
  else
    if H2Frame.dataPadTooBig 0 (iLen f.len) then .conn protoErr else .ok f.len

/-- parseHeadersFrame (fr.ReadMetaHeaders = nil: the HeadersFrame itself is returned) -/
def parseHeaders (f : Frame) : Out :=
  if f.sid == 0 then .conn protoErr else
  let padded := hasFlag f.flags H2Frame.flagHeadersPadded
  if padded && f.len == 0 then .short else
  let p1 := if padded then f.len - 1 else f.len
  let padLength := if padded then f.pad else 0
  let prio := hasFlag f.flags H2Frame.flagHeadersPriority
  if prio && p1 < 5 then .short else
  let p2 := if prio then p1 - 5 else p1
  if H2Frame.headersPadTooBig (iLen p2) (iLen padLength) then .stream protoErr else .ok (p2 - padLength)

/-- parsePushPromise (FlagPushPromisePadded = 8) -/
def parsePush (f : Frame) : Out :=
  if f.sid == 0 then .conn protoErr else
  let padded := hasFlag f.flags 8
  if padded && f.len == 0 then .short else
  let p1 := if padded then f.len - 1 else f.len
  let padLength := if padded then f.pad else 0
  if p1 < 4 then .short else
  if H2Limits.pushPadTooBig (iLen padLength) (iLen (p1 - 4)) then .conn protoErr else .ok (p1 - 4 - padLength)

/-- typeFrameParser(fh.Type)(…) followed by checkFrameOrder for a frame that is the first of its connection -/
def parse (f : Frame) : Out :=
  if f.ty == H2Frame.frameData then parseData f
  else if f.ty == H2Frame.frameHeaders then parseHeaders f
  else if f.ty == H2Frame.framePriority then
    if f.sid == 0 then .conn protoErr else
    if H2Limits.priorityBadLength (iLen f.len) then .conn sizeErr else .ok f.len
  else if f.ty == H2Frame.frameRSTStream then
    if H2Limits.rstBadLength (iLen f.len) then .conn sizeErr else
    if f.sid == 0 then .conn protoErr else .ok f.len
  else if f.ty == H2Frame.frameSettings then
    if H2Limits.settingsAckWithPayload (hasFlag f.flags H2Frame.flagSettingsAck) (iLen f.len) then .conn sizeErr else
    if f.sid != 0 then .conn protoErr else
    if H2Limits.settingsBadLength (iLen f.len) then .conn sizeErr else .ok f.len
  else if f.ty == H2Frame.framePushPromise then parsePush f
  else if f.ty == H2Frame.framePing then
    if H2Limits.pingBadLength (iLen f.len) then .conn sizeErr else
    if f.sid != 0 then .conn protoErr else .ok f.len
  else if f.ty == H2Frame.frameGoAway then
    if f.sid != 0 then .conn protoErr else
    if H2Limits.goAwayBadLength (iLen f.len) then .conn sizeErr else .ok f.len
  else if f.ty == H2Frame.frameWindowUpdate then
    if H2Limits.windowUpdateBadLength (iLen f.len) then .conn sizeErr else
    if H2Limits.windowUpdateZero (iLen f.fill) then (if f.sid == 0 then .conn protoErr else .stream protoErr) else .ok f.len
  else if f.ty == H2Frame.frameContinuation then
    .conn protoErr      -- stream id 0, or checkFrameOrder: CONTINUATION without a preceding HEADERS
  else .ok f.len

/-- Framer.SetMaxReadFrameSize(v): the limit ReadFrame then uses -/
def setMaxRead (v : Nat) : Nat := if H2Limits.readSizeClamped (iLen v) then H2Limits.readSizeClamp.toNat else v

/-- MFramer.ReadFrame(data, off = 0) with `avail` octets buffered and read limit `limit` -/
def readOutcome (limit avail : Nat) (f : Frame) : Out :=
  if H2Limits.readHeaderIncomplete (iLen avail) 0 then .again else
  if H2Limits.readSizeTestFirst then
    if H2Limits.readTooLarge (iLen f.len) (iLen limit) then .tooLarge else
    if H2Limits.readPayloadIncomplete (iLen f.len) (iLen avail) 0 then .again else parse f
  else
    if H2Limits.readPayloadIncomplete (iLen f.len) (iLen avail) 0 then .again else
    if H2Limits.readTooLarge (iLen f.len) (iLen limit) then .tooLarge else parse f

/-! ## the reference: RFC 7540 -/

def refParse (f : Frame) : Out :=
  match f.ty with
  | 0 => -- DATA §6.1
    if f.sid = 0 then .conn 1 else
    if hasFlag f.flags 8 then
      if f.len = 0 then .short else if f.pad > f.len - 1 then .conn 1 else .ok (f.len - 1 - f.pad)
    else .ok f.len
  | 1 => -- HEADERS §6.2
    if f.sid = 0 then .conn 1 else
    let fixed := (if hasFlag f.flags 8 then 1 else 0) + (if hasFlag f.flags 32 then 5 else 0)
    let padLength := if hasFlag f.flags 8 then f.pad else 0
    if f.len < fixed then .short else
    if padLength > f.len - fixed then .stream 1 else .ok (f.len - fixed - padLength)
  | 2 => if f.sid = 0 then .conn 1 else if f.len ≠ 5 then .conn 6 else .ok f.len          -- PRIORITY §6.3
  | 3 => if f.len ≠ 4 then .conn 6 else if f.sid = 0 then .conn 1 else .ok f.len          -- RST_STREAM §6.4
  | 4 => -- SETTINGS §6.5
    if hasFlag f.flags 1 ∧ f.len > 0 then .conn 6 else
    if f.sid ≠ 0 then .conn 1 else if f.len % 6 ≠ 0 then .conn 6 else .ok f.len
  | 5 => -- PUSH_PROMISE §6.6
    if f.sid = 0 then .conn 1 else
    let fixed := (if hasFlag f.flags 8 then 1 else 0) + 4
    let padLength := if hasFlag f.flags 8 then f.pad else 0
    if f.len < fixed then .short else
    if padLength > f.len - fixed then .conn 1 else .ok (f.len - fixed - padLength)
  | 6 => if f.len ≠ 8 then .conn 6 else if f.sid ≠ 0 then .conn 1 else .ok f.len          -- PING §6.7
  | 7 => if f.sid ≠ 0 then .conn 1 else if f.len < 8 then .conn 6 else .ok f.len          -- GOAWAY §6.8
  | 8 => -- WINDOW_UPDATE §6.9
    if f.len ≠ 4 then .conn 6 else
    if f.fill = 0 then (if f.sid = 0 then .conn 1 else .stream 1) else .ok f.len
  | 9 => .conn 1                                                                          -- stray CONTINUATION §6.10
  | _ => .ok f.len                                                                        -- unknown types are ignored §4.1

/-- RFC 7540 §4.1/§4.2: 9-octet header; a frame is refused iff its payload length exceeds the limit the receiver
advertised (whatever else is wrong with it); otherwise it is parsed once completely received. -/
def refOutcome (limit avail : Nat) (f : Frame) : Out :=
  if avail < 9 then .again
  else if f.len > limit then .tooLarge
  else if avail < 9 + f.len then .again
  else refParse f

/-! ## settings values and window updates at connection level -/

/-- what a connection answers to one SETTINGS parameter: 0 = accepted, else the code of the connection error.
parseSettingsFrame's test first; then, on the side whose ForeachSetting callback calls it first ([c08l9] regenerated:
Gen/C08H2Settings.serverValidatesFirst / clientValidatesFirst — serverConn.processSetting for MServerConn, the callback of
MClientConn.processSettings since fix 'SETTINGS values of an upstream are validated'), Setting.Valid; the client's own
INITIAL_WINDOW_SIZE test comes after it. -/
def settingCode (server : Bool) (id val : Nat) : Nat :=
  let validates := if server then C08H2Settings.serverValidatesFirst else C08H2Settings.clientValidatesFirst
  if H2Limits.settingsFrameWindowTooBig (iLen val) (id == H2Limits.settingInitialWindowSize) then H2Limits.errCodeFlowControl
  else if validates && H2Limits.settingInvalidCode (iLen id) (iLen val) != 0 then (H2Limits.settingInvalidCode (iLen id) (iLen val)).toNat
  else if !server && id == H2Limits.settingInitialWindowSize && H2Limits.clientWindowTooBig (iLen val) then H2Limits.errCodeFlowControl
  else 0

/-- RFC 7540 §6.5.2 (both endpoints: a value outside its range is a connection error whoever receives it) -/
def refSettingCode (_server : Bool) (id val : Nat) : Nat :=
  if id = 4 ∧ val > 2147483647 then 3
  else if id = 2 ∧ val ≠ 0 ∧ val ≠ 1 then 1
  else if id = 5 ∧ (val < 16384 ∨ val > 16777215) then 1
  else 0

/-- connection-level WINDOW_UPDATE on send window `w`: (new window, 0 = ok / error code) -/
def windowUpdate (w : Int) (inc : Nat) : Int × Nat :=
  if H2Limits.windowUpdateZero (iLen inc) then (w, H2Limits.errCodeProtocol)
  else
    let r := Flow.add w (iLen inc)
    if r.2 then (r.1, 0) else (w, H2Limits.errCodeFlowControl)

/-- RFC 7540 §6.9 / §6.9.1 -/
def refWindowUpdate (w : Int) (inc : Nat) : Int × Nat :=
  if inc = 0 then (w, 1) else if w + inc > 2147483647 then (w, 3) else (w + inc, 0)

end MosnVerif.Model.H2Limits
