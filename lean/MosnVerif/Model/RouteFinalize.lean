import MosnVerif.Model.Headers
import MosnVerif.Gen.RouteFinalize
/-!
Model of `FinalizeRequestHeaders` of the three HTTP route rules (pkg/router/http_rule.go) on a request that ARRIVES WITH
STATE: an incoming header map (client controlled, and written by every MOSN hop before this one), the path variable and
the host variable.  The two functions of pkg/router/base_rule.go (`finalizeRequestHeaders`, `finalizePathHeader`) and the
order in which a rule calls them are regenerated statement by statement (`Gen/RouteFinalize.lean`); this file only supplies
the concrete request state (association-list header map of `Model/Headers.lean`) and the declarative specification.
-/
namespace MosnVerif.Model.RouteFinalize
open MosnVerif.Model.Headers MosnVerif.Gen.HeaderMutation MosnVerif.Gen.RouteFinalize

/-- a request as a hop sees it -/
structure Req where
  hdrs : Hdrs
  /-- the path variable (`none` = unset: `variable.GetString` fails) -/
  path : Option String
  /-- the host variable types.VarIstioHeaderHost -/
  host : Option String
deriving Repr

/-- the operations of the regenerated functions on the concrete request; the route-level parser and the virtual-host
(+ router-config) parsers run in the regenerated `requestOrder` -/
def ops (l : Levels) : Ops Req where
  getHeader := fun s k => get s.hdrs k
  setHeader := fun s k v => { s with hdrs := set s.hdrs k v }
  getPath := fun s => s.path
  setPath := fun s v => { s with path := some v }
  getHost := fun s => s.host
  setHost := fun s v => { s with host := some v }
  evalRoute := fun s => { s with hdrs := finalize (requestOrder.take 1) l s.hdrs }
  evalVhost := fun s => { s with hdrs := finalize (requestOrder.drop 1) l s.hdrs }

inductive Kind where
  | path | prefix | regex
deriving DecidableEq, Repr

def orderOf : Kind → List Step
  | .path => orderPath | .prefix => orderPrefix | .regex => orderRegex

/-- one configured route of one hop -/
structure Route where
  kind : Kind
  /-- the rule's own path / prefix / regex string: the `matchedPath` argument -/
  matched : String
  cfg : Cfg
  levels : Levels
  /-- `ReplaceAllString` of the compiled regex_rewrite pattern with the configured substitution (black box) -/
  regexReplace : String → String
  env : HostEnv

def applyStep (r : Route) (s : Req) : Step → Req
  | .requestHeaders => finalizeRequestHeaders (ops r.levels) r.cfg r.env s
  | .pathHeader => finalizePathHeader (ops r.levels) r.cfg r.regexReplace r.matched s

/-- `<rule>.FinalizeRequestHeaders(ctx, headers, requestInfo)` -/
def finalizeRequest (r : Route) (s : Req) : Req := (orderOf r.kind).foldl (applyStep r) s

/-! ### declarative specification (independent of the regenerated code) -/

/-- the rewritten path of a received path `p`, `none` when no rewrite applies: prefix_rewrite wins over regex_rewrite; a
prefix rewrite applies when `p` starts with the rule's own matcher string; a regex rewrite when it changes the path -/
def specRewrite (r : Route) (p : String) : Option String :=
  if p = "" then none
  else if r.cfg.prefixRewrite ≠ "" then
    (if r.matched.toList.isPrefixOf p.toList then some (r.cfg.prefixRewrite ++ String.ofList (p.toList.drop r.matched.length)) else none)
  else if r.cfg.regex ≠ "" ∧ r.cfg.hasPattern = true then
    (if r.regexReplace p ≠ p then some (r.regexReplace p) else none)
  else none

/-- the path variable after the hop: a function of the RECEIVED path only -/
def specPath (r : Route) (p : Option String) : Option String :=
  match p with
  | none => none
  | some p => some ((specRewrite r p).getD p)

def rewrites (r : Route) (p : Option String) : Bool :=
  match p with
  | none => false
  | some p => (specRewrite r p).isSome

/-- value of header `k` after the hop: the received path when a rewrite applied and `k` is the original-path header —
whatever the request carried there —, otherwise the fold of the configured mutations naming `k` over the incoming value -/
def specHeader (r : Route) (s : Req) (k : String) : Option String :=
  if rewrites r s.path = true ∧ k = headerOriginalPath then s.path
  else specValue (specOps r.levels) k (get s.hdrs k)

/-- the host variable after the hop -/
def specHost (r : Route) (s : Req) : Option String :=
  if r.cfg.hostRewrite ≠ "" then some r.cfg.hostRewrite
  else if r.cfg.autoHostRewriteHeader ≠ "" then
    match specValue (specOps r.levels) r.cfg.autoHostRewriteHeader (get s.hdrs r.cfg.autoHostRewriteHeader) with
    | some v => some v
    | none => s.host
  else if r.cfg.autoHostRewrite = true ∧ r.env.hasSnapshot = true ∧ r.env.clusterType = strictDNSCluster then some r.env.upstreamHostname
  else s.host

end MosnVerif.Model.RouteFinalize
