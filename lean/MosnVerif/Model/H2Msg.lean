import MosnVerif.Gen.C01H2Map
/-!
HTTP/2 message fidelity through MOSN: downstream HTTP/2 → proxy variables / header maps → upstream HTTP/2, and the two
cross-protocol pairings (HTTP/1.1 listener → HTTP/2 cluster `x12`, HTTP/2 listener → HTTP/1.1 cluster `x21`) MOSN serves
with the `httpTohttp2` / `http2Tohttp` transcoder stream filters.

A message on an HTTP/2 stream (`Wire`) = pseudo fields, ordered regular field list, DATA payloads as framed, optional
trailer block, END_STREAM placement.  The stream layer turns it into what the proxy sees (`Inner`: Go `http.Header` maps —
association lists keyed by the case-folded name, values in arrival order — a data buffer, a trailer map) and back into a
`Wire`.  The DECISIONS are regenerated from the Go source (`Gen/C01H2Map`): which request part goes into which proxy
variable, what `clientStream.AppendHeaders` builds the upstream request from (symbolically executed), what is delivered
to the proxy (header-only / full, trailer guard), `AppendTrailers`, the encoder's own / connection-specific field names,
the Content-Length rule of `MStream.WriteHeader`, where END_STREAM goes, and that the transcoders copy every value.
Black boxes are parameters (`Oracles`): Go's `net/url` (ParseRequestURI, EscapedPath), fasthttp's path normaliser, the
HTTP/1 target builder (`Model/HttpUri`).  Go map iteration order is not modelled: the order ACROSS field names is not an
observable of this code (every comparison is per name), the order of the values of one name is.
-/
namespace MosnVerif.Model.H2Msg
open MosnVerif.Gen

abbrev Bytes := List UInt8
abbrev Field := Bytes × Bytes

def lowerByte (b : UInt8) : UInt8 := if 65 ≤ b ∧ b ≤ 90 then b + 32 else b
def lower (s : Bytes) : Bytes := s.map lowerByte

/-! names (lower case) -/
def nCookie : Bytes := [99, 111, 111, 107, 105, 101]
def nTrailer : Bytes := [116, 114, 97, 105, 108, 101, 114]
def nHost : Bytes := [104, 111, 115, 116]
def nUA : Bytes := [117, 115, 101, 114, 45, 97, 103, 101, 110, 116]
def nCL : Bytes := [99, 111, 110, 116, 101, 110, 116, 45, 108, 101, 110, 103, 116, 104]
def nDate : Bytes := [100, 97, 116, 101]
def nCT : Bytes := [99, 111, 110, 116, 101, 110, 116, 45, 116, 121, 112, 101]
def nMethod : Bytes := [109, 101, 116, 104, 111, 100]
def nScheme : Bytes := [115, 99, 104, 101, 109, 101]
def nAuthority : Bytes := [97, 117, 116, 104, 111, 114, 105, 116, 121]
def nPath : Bytes := [112, 97, 116, 104]
def nStatus : Bytes := [115, 116, 97, 116, 117, 115]
def semiSp : Bytes := [59, 32]
def qmark : UInt8 := 63
def sHTTP : Bytes := [104, 116, 116, 112]
def mPOST : Bytes := [80, 79, 83, 84]
def mPUT : Bytes := [80, 85, 84]
def mPATCH : Bytes := [80, 65, 84, 67, 72]
def mHEAD : Bytes := [72, 69, 65, 68]

/-! ### Go's `http.Header`: association list keyed by the case-folded name, values in arrival order -/
abbrev HMap := List (Bytes × List Bytes)

def HMap.vals : HMap → Bytes → List Bytes
  | [], _ => []
  | (k', vs) :: r, k => if k' = k then vs else HMap.vals r k

def HMap.add : HMap → Bytes → Bytes → HMap
  | [], k, v => [(k, [v])]
  | (k', vs) :: r, k, v => if k' = k then (k', vs ++ [v]) :: r else (k', vs) :: HMap.add r k v

def HMap.del (m : HMap) (k : Bytes) : HMap := m.filter (fun e => e.1 ≠ k)

/-- replace the value list of an existing key (no-op when absent) -/
def HMap.setVals : HMap → Bytes → List Bytes → HMap
  | [], _, _ => []
  | (k', vs) :: r, k, ws => if k' = k then (k', ws) :: r else (k', vs) :: HMap.setVals r k ws

def HMap.has (m : HMap) (k : Bytes) : Bool := m.any (fun e => e.1 = k)

def ofFields (fs : List Field) : HMap := fs.foldl (fun m f => m.add (lower f.1) f.2) []
def toFields (m : HMap) : List Field := m.flatMap (fun e => e.2.map (fun v => (e.1, v)))

/-- values of the fields whose case-folded name is `n`, in order (multiplicity and relative order) -/
def valuesOf (n : Bytes) (fs : List Field) : List Bytes := (fs.filter (fun f => lower f.1 = n)).map (·.2)
/-- values of the fields named exactly `n` -/
def valuesAt (n : Bytes) (fs : List Field) : List Bytes := (fs.filter (fun f => f.1 = n)).map (·.2)

def joinWith (sep : Bytes) : List Bytes → Bytes
  | [] => []
  | [x] => x
  | x :: r => x ++ sep ++ joinWith sep r

/-! ### messages -/

/-- a message as it is framed on an HTTP/2 stream -/
structure Wire where
  pseudo : List Field            -- names without the colon
  fields : List Field
  chunks : List Bytes            -- DATA payloads
  trailers : Option (List Field) -- a trailer block (HEADERS with END_STREAM after the DATA frames)
  endOnHeaders : Bool            -- END_STREAM on the HEADERS frame: no DATA frame, no trailer block
  deriving Repr, DecidableEq

def Wire.body (w : Wire) : Bytes := w.chunks.flatten
def pseudoGet (p : List Field) (n : Bytes) : Bytes := ((p.find? (fun f => f.1 = n)).map (·.2)).getD []

/-- what the stream layer hands to the proxy (`OnReceive(ctx, headers, data, trailers)`); `a`, `b`, `c` = method, host,
request URI of a request / status of a response (in `a`) -/
structure Inner where
  a : Bytes
  b : Bytes
  c : Bytes
  hdr : HMap
  data : Option Bytes
  trailers : Option HMap
  deriving Repr, DecidableEq

/-! ### regenerated facts the functions below are built from -/

def fullArgs : List String := ["stream.ctx", "stream.header", "stream.recData", "stream.trailer"]
def headOnlyArgs : List String := ["stream.ctx", "header", "nil", "nil"]

/-- serverStreamConnection.handleFrame hands the trailer block of the request to the proxy -/
def srvPassesTrailers : Bool :=
  C01H2Map.serverFullDelivery == fullArgs && C01H2Map.serverTrailerGuard == "hasTrailer" &&
  C01H2Map.serverTrailerSource == "stream.h2s.Request.Trailer"
def srvHeaderOnly : Bool := C01H2Map.serverHeaderOnlyDelivery == headOnlyArgs
def cliPassesTrailers : Bool :=
  C01H2Map.clientFullDelivery == fullArgs && C01H2Map.clientTrailerGuard == "trailer != nil" && C01H2Map.clientTrailerSource == "trailer"
def cliHeaderOnly : Bool := C01H2Map.clientHeaderOnlyDelivery == headOnlyArgs

def appendTrailersForm : List String :=
  ["if:trailers != nil", "*mhttp2.HeaderMap:s.h2s.Trailer=&trailer.H", "default:header=mhttp2.EncodeHeader(trailer);s.h2s.Trailer=&header", "endStream"]
/-- client/serverStream.AppendTrailers store every non-nil trailer map in the stream that is encoded -/
def cliSendsTrailers : Bool := C01H2Map.clientAppendTrailers == appendTrailersForm
def srvSendsTrailers : Bool := C01H2Map.serverAppendTrailers == appendTrailersForm

/-- END_STREAM placement: the HEADERS frame ends the stream iff there is neither a data buffer nor a trailer map; after the
DATA frames an empty DATA frame ends it iff the trailer map is nil or empty, else the trailer block does -/
def endStreamForm : List String :=
  ["MStream.SendResponse:endHeader=ms.SendData == nil && ms.Trailer == nil",
   "MClientStream.RoundTrip:endStream=cc.SendData == nil && cc.Trailer == nil",
   "MClientStream.writeDataAndTrailer:dataEnds=cc.Trailer == nil || len(*cc.Trailer) == 0",
   "MStream.WriteTrailers:trailerFrame=len(trailers) > 0"]
def endStreamAsModelled : Bool := C01H2Map.endStreamFacts == endStreamForm

/-- the variable a request part is stored in by the HTTP/2 server stream (`none`: not stored) -/
def srvVar (src : String) : List (String × Bool) :=
  (C01H2Map.serverVarSets.filter (fun e => e.2.1 == src)).map (fun e => (e.1, e.2.2))

/-! ### black boxes -/
structure Oracles where
  /-- `url.ParseRequestURI(p)` of the path part (before the first `?`) of `:path`, then `EscapedPath()`; none = parse error -/
  escaped : Bytes → Option Bytes
  /-- `URL.Path` of the same parse (unescaped) -/
  urlPath : Bytes → Bytes
  /-- `(&url.URL{Path: p, RawPath: r}).EscapedPath()`, "/" when that is empty -/
  escapedOf : Bytes → Bytes → Bytes
  /-- fasthttp's path normalisation of an HTTP/1 request target's path -/
  fhNorm : Bytes → Bytes
  /-- `url.PathUnescape` (none = error) -/
  unescape : Bytes → Option Bytes
  /-- HTTP/1 client stream: `buildUrlFromCtxVar` applied to (path, pathOriginal, query) — `Model/HttpUri` -/
  h1Target : Bytes → Bytes → Bytes → Bytes

/-- split `:path` / an HTTP/1 request target at the first `?`: (path, had a `?`, query) -/
def splitTarget (t : Bytes) : Bytes × Bool × Bytes :=
  let p := t.takeWhile (· ≠ qmark)
  let r := t.dropWhile (· ≠ qmark)
  (p, !r.isEmpty, r.drop 1)

/-! ### HTTP/2 server stream: request `Wire` → `Inner` (mhttp2 `processRequest`, stream.go `handleFrame`) -/

/-- a header map produced by something that is NOT "append every value" (an assignment, a map[string]string): only the last
value of a name survives -/
def convert (keepsAll : Bool) (h : HMap) : HMap :=
  if keepsAll then h else h.map (fun e => (e.1, (e.2.getLast?.map (fun v => [v])).getD []))

/-- the loops of mhttp2.go that collect received fields into the http.Header maps, in the append-every-value form -/
def reqKeepsAll : Bool := C01H2Map.reqCollect == ["rp.header.Add(sc.canonicalHeader(hf.Name),hf.Value)"]
def respKeepsAll : Bool :=
  C01H2Map.respCollect == ["key:=http.CanonicalHeaderKey(hf.Name);if:key == \"Trailer\";then:t:=res.Trailer;then:t=make(http.Header);then:res.Trailer=t;else:header[key]=append(header[key],hf.Value)"]
def reqTrailerKeepsAll : Bool :=
  C01H2Map.reqTrailerCollect == ["key:=sc.canonicalHeader(hf.Name);if:!httpguts.ValidTrailerHeader(key);st.trailer[key]=append(st.trailer[key],hf.Value)"]
def respTrailerKeepsAll : Bool :=
  C01H2Map.respTrailerCollect == ["key:=http.CanonicalHeaderKey(hf.Name);trailer[key]=append(trailer[key],hf.Value)"]

def collectFields (keepsAll : Bool) (fs : List Field) : HMap := convert keepsAll (ofFields fs)

/-- `processRequest`: several Cookie values are joined with the regenerated separator -/
def joinCookies (h : HMap) : HMap :=
  if (h.vals nCookie).length > 1 then h.setVals nCookie [joinWith C01H2Map.cookieSeparator (h.vals nCookie)] else h

def decodeTrailers (passes keepsAll : Bool) (t : Option (List Field)) : HMap :=
  match t with
  | some fs => if passes then collectFields keepsAll fs else []
  | none => []

/-- the request's header map as the proxy sees it: fields collected, cookie crumbs joined, the Trailer announcement deleted -/
def srvHdr (w : Wire) : HMap :=
  let h0 := collectFields reqKeepsAll w.fields
  if C01H2Map.reqDeletesTrailerField then (joinCookies h0).del nTrailer else joinCookies h0

def srvHost (w : Wire) : Bytes :=
  let auth := pseudoGet w.pseudo nAuthority
  if auth = [] then ((collectFields reqKeepsAll w.fields).vals nHost).headD [] else auth

def srvDecode (w : Wire) : Inner :=
  if w.endOnHeaders && srvHeaderOnly then
    { a := pseudoGet w.pseudo nMethod, b := srvHost w, c := pseudoGet w.pseudo nPath, hdr := srvHdr w, data := none, trailers := none }
  else
    { a := pseudoGet w.pseudo nMethod, b := srvHost w, c := pseudoGet w.pseudo nPath, hdr := srvHdr w,
      data := if C01H2Map.serverEmptyBodyBuffer || w.body ≠ [] then some w.body else none,
      trailers := some (decodeTrailers srvPassesTrailers reqTrailerKeepsAll w.trailers) }

/-- the proxy variables after the HTTP/2 server stream stored them (`serverVarSets`) -/
def srvVars (O : Oracles) (i : Inner) : String → Option Bytes := fun name =>
  let (p, _, q) := splitTarget i.c
  let src (s : String) : Option Bytes :=
    if s == "Method" then some i.a else if s == "Host" then some i.b
    else if s == "URL.Path" then some (O.urlPath p) else if s == "URL.EscapedPath()" then some ((O.escaped p).getD [])
    else if s == "URL.RawQuery" then some q else if s == "scheme" then some sHTTP else none
  match C01H2Map.serverVarSets.find? (fun e => e.1 == name) with
  | some (_, s, onlyNonEmpty) =>
    match src s with
    | some v => if onlyNonEmpty && v = [] then none else some v
    | none => none
  | none => none

/-! ### HTTP/2 client stream: `Inner` → request `Wire` (`clientStream.AppendHeaders`, transport.go `encodeHeaders`,
mhttp2 `RoundTrip` / `writeDataAndTrailer`) -/

def parseNat? (b : Bytes) : Option Nat :=
  if b = [] then none else
  b.foldl (fun (acc : Option Nat) (x : UInt8) => match acc with
    | some n => if 48 ≤ x ∧ x ≤ 57 then some (n * 10 + (x.toNat - 48)) else none
    | none => none) (some 0)

def natBytes (n : Nat) : Bytes := (toString n).toUTF8.toList

/-- transport.go `shouldSendReqContentLength` (modelled, not regenerated) -/
def reqSendsCL (method : Bytes) (cl : Int) : Option Nat :=
  if cl > 0 then some cl.toNat else if cl < 0 then none
  else if method = mPOST ∨ method = mPUT ∨ method = mPATCH then some 0 else none

/-- user-agent: only the first value is written (regenerated flag) -/
def uaVals (vs : List Bytes) : List Bytes := if C01H2Map.reqUAFirstOnly then vs.take 1 else vs

/-- one entry of the header map in the request encoder: own fields (host, content-length) and connection-specific ones are
skipped, of user-agent only the first value is written and an empty one is omitted -/
def reqEntry (e : Bytes × List Bytes) : Option (Bytes × List Bytes) :=
  if C01H2Map.reqOwnFields.contains e.1 || C01H2Map.reqConnSpecific.contains e.1 then none
  else if e.1 = nUA then
    (if C01H2Map.reqUAOmitEmpty && (uaVals e.2).headD [] = [] then none else some (e.1, uaVals e.2))
  else some e

/-- regular request fields written from the header map -/
def reqFieldsOf (h : HMap) : List Field := toFields (h.filterMap reqEntry)

def clField : Option Nat → List Field
  | some n => [(nCL, natBytes n)]
  | none => []

/-- a data buffer written as DATA frames: the flow-control window decides the cut points (`sizes`, any list) -/
def splitBy (d : Bytes) : List Nat → List Bytes
  | [] => if d = [] then [] else [d]
  | n :: r => if d = [] then [] else if n = 0 ∨ n ≥ d.length then [d] else d.take n :: splitBy (d.drop n) r

/-- what follows the HEADERS frame: DATA frames, then a trailer block when the trailer map is non-empty, else END_STREAM on
an (empty) DATA frame -/
def trailerBlock (sends : Bool) (t : Option HMap) : Option (List Field) :=
  match t with
  | some m => if sends && endStreamAsModelled && !(toFields m).isEmpty then some (toFields m) else none
  | none => none

def cliEncode (O : Oracles) (fromH2 : Bool) (V : String → Option Bytes) (remote : Bytes) (i : Inner) (bodyOpen : Bool)
    (win : List Nat) : Wire :=
  let endStream := i.data.isNone && i.trailers.isNone
  let hasCL := i.hdr.has nCL
  let b := C01H2Map.clientAppendHeaders fromH2 endStream false (i.a, i.b, i.c) V ((i.hdr.vals nHost).head?) remote hasCL (i.hdr.has nUA) O.unescape O.fhNorm
  let (p0, hadQ, q0) := splitTarget i.c
  let path :=
    if b.urlFromVars then
      let p := O.escapedOf b.path b.rawPath
      if b.rawQuery = [] then p else p ++ [qmark] ++ b.rawQuery
    else
      let p := (O.escaped p0).getD []
      if hadQ then p ++ [qmark] ++ q0 else p
  -- req.ContentLength: the Content-Length entry when there is one; else the request's own (HTTP/2 downstream: -1 with a
  -- body to come, 0 without), a converted request: -1 when the length is unknown (regenerated), else 0
  let cl : Int :=
    match (i.hdr.vals nCL).head? with
    | some v => ((parseNat? v).getD 0 : Nat)
    | none => if fromH2 then (if bodyOpen then -1 else 0) else (if b.unknownLength then -1 else 0)
  let clF : List Field := clField (reqSendsCL b.method cl)
  { pseudo := [(nAuthority, b.host), (nMethod, b.method), (nPath, path), (nScheme, b.scheme)],
    fields := reqFieldsOf i.hdr ++ clF,
    chunks := match i.data with
      | some d => splitBy d win
      | none => [],
    trailers := trailerBlock cliSendsTrailers i.trailers,
    endOnHeaders := endStream && endStreamAsModelled }

/-! ### HTTP/2 → HTTP/2 request -/
def fwdReqH2 (O : Oracles) (remote : Bytes) (win : List Nat) (w : Wire) : Wire :=
  let i := srvDecode w
  cliEncode O true (srvVars O i) remote i (!w.endOnHeaders) win

/-! ### responses: HTTP/2 client stream `Wire` → `Inner` (mhttp2 `handleResponse`, stream.go `handleFrame`), HTTP/2 server
stream `Inner` → `Wire` (`serverStream.AppendHeaders`, `MStream.WriteHeader`, write.go `encodeHeaders`, `WriteTrailers`) -/

def cliDecode (w : Wire) : Inner :=
  let hdr := (collectFields respKeepsAll w.fields).del nTrailer
  if w.endOnHeaders && cliHeaderOnly then
    { a := pseudoGet w.pseudo nStatus, b := [], c := [], hdr := hdr, data := none, trailers := none }
  else
    { a := pseudoGet w.pseudo nStatus, b := [], c := [], hdr := hdr,
      data := if C01H2Map.clientEmptyBodyBuffer || w.body ≠ [] then some w.body else none,
      trailers := some (decodeTrailers cliPassesTrailers respTrailerKeepsAll w.trailers) }

def bodyAllowed (status : Nat) : Bool := !((100 ≤ status && status ≤ 199) || status == 204 || status == 304)

/-- one entry of the response header map in write.go `encodeHeaders`: of transfer-encoding only "trailers" is written -/
def respEntry (e : Bytes × List Bytes) : Bytes × List Bytes :=
  if e.1 = C01H2Map.respTEName then (e.1, e.2.filter (· = C01H2Map.respTEKeeps)) else e

/-- `MStream.WriteHeader` deletes the connection-specific fields (regenerated list) before the map is written -/
def respKeep (e : Bytes × List Bytes) : Bool := !C01H2Map.respDropped.contains e.1

def respFieldsOf (h : HMap) : List Field := toFields ((h.filter respKeep).map respEntry)

def optField (n v : Bytes) : List Field := if v = [] then [] else [(n, v)]

def srvEncode (isHead : Bool) (i : Inner) (win : List Nat) : Wire :=
  let status := (parseNat? i.a).getD 0
  let up := (i.hdr.vals nCL).head?
  let upValid := (up.bind parseNat?).isSome
  let dataEmpty := (i.data.getD []) = []
  let clen := C01H2Map.respContentLength isHead status bodyAllowed dataEmpty upValid up
  let end_ := i.data.isNone && i.trailers.isNone
  let endH := C01H2Map.respEndOnHeaders (end_ && endStreamAsModelled) isHead
  { pseudo := [(nStatus, i.a)],
    fields := respFieldsOf (i.hdr.del nCL) ++ optField nCL clen ++ optField nCT C01H2Map.respContentType,
    chunks := if endH then [] else match i.data with
      | some d => splitBy d win
      | none => [],
    trailers := if endH then none else trailerBlock srvSendsTrailers i.trailers,
    endOnHeaders := endH }

def fwdRespH2 (isHead : Bool) (win : List Nat) (w : Wire) : Wire := srvEncode isHead (cliDecode w) win

/-! ### cross protocol.  An HTTP/1 message is a `Wire` too: pseudo = (`method`, `path`) of the request line / `status`,
`Host` a regular field, one chunk = the body, chunked trailers.  fasthttp reads and prints it (black box); what is
modelled is the documented mapping on header maps: the transcoders copy every value of every field (regenerated), the
HTTP/2 encoder drops the connection-specific names, `Host` ↔ `:authority`, request target ↔ `:path`. -/

/-- observed fasthttp rule (as in `Model/Http1Msg`): User-Agent, Content-Type and Server live in dedicated byte-slice fields
where "empty" means "absent" — such a field with an empty value does not survive fasthttp's parser / printer -/
def nServer : Bytes := [115, 101, 114, 118, 101, 114]
def keepSpecial (e : Bytes × List Bytes) : Bool := !((e.1 = nUA || e.1 = nCT || e.1 = nServer) && e.2.all (· = []))
def dropEmptySpecial (h : HMap) : HMap := h.filter keepSpecial

def transcoderKeepsAll (name : String) : Bool :=
  (C01H2Map.transcoders.find? (fun e => e.1 == name)).map (fun e => e.2.1) == some true


/-- HTTP/1.1 downstream → HTTP/2 upstream, request.  fasthttp: the header map of the parsed request (cookies joined with
"; ", the Host value also parsed into the URI host, lower-cased); the HTTP/1 server stream stores method / host / path
(normalised) / pathOriginal / query (when not empty); trailers do not exist on the HTTP/1 stream (`trailers = nil`) and a
body of length 0 is `data = nil`. -/
def x12Req (O : Oracles) (remote : Bytes) (win : List Nat) (w : Wire) : Wire :=
  let (p, _, q) := splitTarget (pseudoGet w.pseudo nPath)
  let h0 := ofFields w.fields
  let host := lower ((h0.vals nHost).headD [])
  let V : String → Option Bytes := fun n =>
    if n == "VarMethod" then some (pseudoGet w.pseudo nMethod) else if n == "VarHost" then some host
    else if n == "VarIstioHeaderHost" then some host else if n == "VarPath" then some (O.fhNorm p)
    else if n == "VarPathOriginal" then some p else if n == "VarQueryString" then (if q = [] then none else some q) else none
  let hdr := convert (transcoderKeepsAll "httpTohttp2.TranscodingRequest") (dropEmptySpecial (joinCookies h0))
  let i : Inner := { a := [], b := [], c := [], hdr := hdr, data := if w.body = [] then none else some w.body, trailers := none }
  cliEncode O false V remote i false win

/-- HTTP/2 upstream → HTTP/1.1 downstream, response: header map of the response (the `trailer` announcement consumed by the
HTTP/2 client), every value copied; no trailers on the HTTP/1 stream -/
def x12Resp (w : Wire) : Wire :=
  let i := cliDecode w
  { pseudo := [(nStatus, i.a)],
    fields := toFields (dropEmptySpecial (convert (transcoderKeepsAll "httpTohttp2.TranscodingResponse") i.hdr)),
    chunks := [(i.data.getD [])], trailers := none, endOnHeaders := false }

/-- HTTP/2 downstream → HTTP/1.1 upstream, request -/
def x21Req (O : Oracles) (w : Wire) : Wire :=
  let i := srvDecode w
  let V := srvVars O i
  let target := O.h1Target ((V "VarPath").getD []) ((V "VarPathOriginal").getD []) ((V "VarQueryString").getD [])
  let host := match V "VarIstioHeaderHost" with
    | some h => if h = [] then (V "VarHost").getD [] else h
    | none => (V "VarHost").getD []
  { pseudo := [(nMethod, (V "VarMethod").getD []), (nPath, target)],
    fields := (nHost, host) :: toFields ((dropEmptySpecial (convert (transcoderKeepsAll "http2Tohttp.TranscodingRequest") i.hdr)).del nHost),
    chunks := [(i.data.getD [])], trailers := none, endOnHeaders := false }

/-- HTTP/1.1 upstream → HTTP/2 downstream, response -/
def x21Resp (isHead : Bool) (win : List Nat) (w : Wire) : Wire :=
  let hdr := convert (transcoderKeepsAll "http2Tohttp.TranscodingResponse") (dropEmptySpecial (ofFields w.fields))
  let i : Inner := { a := pseudoGet w.pseudo nStatus, b := [], c := [], hdr := hdr,
                     data := if w.body = [] then none else some w.body, trailers := none }
  srvEncode isHead i win

/-! ### declarative reference (`Spec`): written against the messages only, no regenerated definition -/

/-- field names that are not carried from one HTTP/2 hop to the next as they are: the `trailer` announcement is consumed by
the codec, `content-length` is (re)written by the encoder (checked by `clOK`), `host` is the authority.  (`date`: a Date added to
a response that had none is removed by the harness before the comparison; one that was sent must arrive unchanged.) -/
def h2Exempt : List Bytes := [nTrailer, nCL, nHost]

def connSpecific : List Bytes :=
  [[99, 111, 110, 110, 101, 99, 116, 105, 111, 110], [107, 101, 101, 112, 45, 97, 108, 105, 118, 101],
   [112, 114, 111, 120, 121, 45, 99, 111, 110, 110, 101, 99, 116, 105, 111, 110],
   [116, 114, 97, 110, 115, 102, 101, 114, 45, 101, 110, 99, 111, 100, 105, 110, 103], [117, 112, 103, 114, 97, 100, 101]]

/-- cross protocol: additionally the connection-specific fields (never forwarded into HTTP/2, owned by the HTTP/1 hop) and
`te` / `expect` -/
def crossExempt : List Bytes := h2Exempt ++ connSpecific ++ [[116, 101], [101, 120, 112, 101, 99, 116]]

def names (fs : List Field) : List Bytes := (fs.map (fun f => lower f.1)).eraseDups

/-- per-name comparison: same values, same multiplicity, same relative order; `cookie` crumbs may be joined with "; " -/
def sameValues (n : Bytes) (sent got : List Field) : Bool :=
  if n = nCookie then joinWith semiSp (valuesOf n sent) = joinWith semiSp (valuesOf n got)
  else valuesOf n sent = valuesOf n got

def fieldsPreserved (exempt : List Bytes) (sent got : List Field) : Bool :=
  (names sent ++ names got).all (fun n => exempt.contains n || sameValues n sent got)

def isLowerName (n : Bytes) : Bool := lower n = n

def trailersSame (sent got : Option (List Field)) : Bool :=
  let s := sent.getD []
  let g := got.getD []
  (names s ++ names g).all (fun n => valuesOf n s = valuesOf n g)

/-- content-length, when present at the receiver, is the length of the body (HEAD / 304: the value that was sent) -/
def clOK (keepSent : Bool) (sent got : List Field) (body : Bytes) : Bool :=
  match valuesOf nCL got with
  | [] => true
  | [v] => if keepSent then valuesOf nCL sent = [v] else parseNat? v = some body.length
  | _ => false

/-- a request received on an HTTP/2 stream vs. the request sent on one: everything but the content-length clause -/
def specReqH2core (sent got : Wire) : Bool :=
  pseudoGet got.pseudo nMethod = pseudoGet sent.pseudo nMethod &&
  pseudoGet got.pseudo nPath = pseudoGet sent.pseudo nPath &&
  pseudoGet got.pseudo nAuthority = pseudoGet sent.pseudo nAuthority &&
  pseudoGet got.pseudo nScheme = sHTTP && got.pseudo.length = 4 &&
  fieldsPreserved h2Exempt sent.fields got.fields &&
  got.fields.all (fun f => isLowerName f.1) &&
  got.body = sent.body && trailersSame sent.trailers got.trailers

def specReqH2 (sent got : Wire) : Bool := specReqH2core sent got && clOK false sent.fields got.fields sent.body

def specRespH2 (isHead : Bool) (sent got : Wire) : Bool :=
  let st := pseudoGet sent.pseudo nStatus
  pseudoGet got.pseudo nStatus = st && got.pseudo.length = 1 &&
  fieldsPreserved h2Exempt sent.fields got.fields &&
  got.fields.all (fun f => isLowerName f.1) &&
  clOK (isHead || st = [51, 48, 52]) sent.fields got.fields sent.body &&
  got.body = sent.body && trailersSame sent.trailers got.trailers

def lowerEq (a b : Bytes) : Bool := lower a = lower b

/-- HTTP/1.1 request sent, HTTP/2 request received -/
def specX12Req (sent got : Wire) : Bool :=
  pseudoGet got.pseudo nMethod = pseudoGet sent.pseudo nMethod &&
  pseudoGet got.pseudo nPath = pseudoGet sent.pseudo nPath &&
  lowerEq (pseudoGet got.pseudo nAuthority) ((valuesOf nHost sent.fields).headD []) &&
  pseudoGet got.pseudo nScheme = sHTTP &&
  fieldsPreserved crossExempt sent.fields got.fields &&
  got.fields.all (fun f => isLowerName f.1 && !connSpecific.contains f.1) &&
  clOK false sent.fields got.fields sent.body &&
  got.body = sent.body && trailersSame sent.trailers got.trailers

/-- HTTP/2 response sent, HTTP/1.1 response received -/
def specX12Resp (sent got : Wire) : Bool :=
  pseudoGet got.pseudo nStatus = pseudoGet sent.pseudo nStatus &&
  fieldsPreserved crossExempt sent.fields got.fields &&
  got.body = sent.body && trailersSame sent.trailers got.trailers

/-- HTTP/2 request sent, HTTP/1.1 request received -/
def specX21Req (sent got : Wire) : Bool :=
  pseudoGet got.pseudo nMethod = pseudoGet sent.pseudo nMethod &&
  pseudoGet got.pseudo nPath = pseudoGet sent.pseudo nPath &&
  lowerEq ((valuesOf nHost got.fields).headD []) (pseudoGet sent.pseudo nAuthority) &&
  (valuesOf nHost got.fields).length = 1 &&
  fieldsPreserved crossExempt sent.fields got.fields &&
  got.body = sent.body && trailersSame sent.trailers got.trailers

/-- HTTP/1.1 response sent, HTTP/2 response received -/
def specX21Resp (isHead : Bool) (sent got : Wire) : Bool :=
  let st := pseudoGet sent.pseudo nStatus
  pseudoGet got.pseudo nStatus = st &&
  fieldsPreserved crossExempt sent.fields got.fields &&
  got.fields.all (fun f => isLowerName f.1 && !connSpecific.contains f.1) &&
  clOK (isHead || st = [51, 48, 52]) sent.fields got.fields sent.body &&
  got.body = sent.body && trailersSame sent.trailers got.trailers

end MosnVerif.Model.H2Msg
