import MosnVerif.Model.FrameSpec
/-!
Executable property predicate of C07 at the connection read loop (declarative reference: depends neither on regenerated
code nor on the read-loop model).  Evaluated by the driver on the implementation's output.  Core Lean only.
-/
namespace MosnVerif.Model.ReadLoopSpec
open MosnVerif.Model.Framing MosnVerif.Model.FrameSpec

/-- a peer wrote `stream` (frames of the lengths `lens`, then possibly an incomplete one) in some chunks with some
stalls and closed: the connection read all of it (`readSizes` = sizes of its reads), the frames that came out are exactly
the frames of the stream — in order, each once, byte-identical —, exactly the incomplete tail is left in the read buffer
and nothing failed: delivered stream = written stream. -/
def specReadLoop (stream : Bytes) (lens readSizes : List Nat) (frames : List Bytes) (residue : Bytes) (failed : Bool) : Bool :=
  readSizes.sum == stream.length && specSeg stream lens frames residue failed

end MosnVerif.Model.ReadLoopSpec
