import MosnVerif.Gen.Transfer
/-!
Model of the connection-transfer message codec of `pkg/network/transfer.go` (hot upgrade: an xprotocol connection is
handed to the new process together with the bytes already read from it and the serialized TLS state).

On the unix socket, after the type byte (and the fd as ancillary data), the sender writes

* transfer read : `transferBuildHead(len data, len tls) ++ data ++ tls`   (`transferReadSendData`)
* transfer write: `transferBuildHead(len data, connection id) ++ data`     (`transferWriteSendData`)
* id reply      : 4 bytes big-endian                                       (`transferSendID`)

and the receiver reads a fixed-size head, then exactly the announced number of payload bytes, looping over short
reads (`transferRecvMsg`), so decoding is a function of the concatenated stream.  Header length, field offsets, the
payload-length expression and the two result slices are *regenerated* from the Go source (`Gen.Transfer`).
A stream that ends early makes the receiver fail (`none`).
-/
namespace MosnVerif.Model.Transfer
open MosnVerif.Gen.Transfer

abbrev Bytes := List UInt8

/-- `binary.BigEndian.PutUint32(_, uint32(n))`: the four big-endian bytes of `n mod 2^32`. -/
def putU32 (n : Nat) : Bytes :=
  [UInt8.ofNat (n / 16777216 % 256), UInt8.ofNat (n / 65536 % 256), UInt8.ofNat (n / 256 % 256), UInt8.ofNat (n % 256)]

/-- `binary.BigEndian.Uint32` of the first four bytes. -/
def getU32 : Bytes → Nat
  | a :: b :: c :: d :: _ => a.toNat * 16777216 + b.toNat * 65536 + c.toNat * 256 + d.toNat
  | _ => 0

/-- copy `b` into `buf` at offset `off` (what `PutUint32(buf[off:], v)` does to `buf`). -/
def writeAt (buf : Bytes) (off : Nat) (b : Bytes) : Bytes :=
  buf.take off ++ b ++ buf.drop (off + b.length)

/-- `transferBuildHead(s1, s2)` -/
def buildHead (s1 s2 : Nat) : Bytes :=
  writeAt (writeAt (List.replicate headLen 0) encOff1 (putU32 s1)) encOff2 (putU32 s2)

/-- `transferRecvMsg(uc, n)`: exactly `n` bytes of the stream, or failure when the stream ends first. -/
def recvMsg (stream : Bytes) (n : Nat) : Option (Bytes × Bytes) :=
  if stream.length < n then none else some (stream.take n, stream.drop n)

/-- `transferRecvHead`: (first field, second field, rest of the stream). -/
def recvHead (stream : Bytes) : Option (Nat × Nat × Bytes) :=
  match recvMsg stream recvHeadLen with
  | none => none
  | some (h, rest) => some (getU32 (h.drop decOff1), getU32 (h.drop decOff2), rest)

/-- Go slice expression `b[lo:hi]` (`hi = none`: to the end). -/
def slice (b : Bytes) (lo : Int) (hi : Option Int) : Bytes :=
  ((b.take (match hi with | some h => h.toNat | none => b.length)).drop lo.toNat)

/-- what `transferReadSendData` puts on the wire for buffered read bytes `data` and TLS bytes `tls`. -/
def encodeRead (data tls : Bytes) : Bytes :=
  (if readHeadIsDataThenTls then buildHead data.length tls.length else buildHead tls.length data.length) ++ data ++ tls

/-- `transferReadRecvData`: (buffered read bytes, TLS bytes, unread rest of the stream). -/
def decodeRead (stream : Bytes) : Option (Bytes × Bytes × Bytes) :=
  match recvHead stream with
  | none => none
  | some (s1, s2, r) =>
    match recvMsg r (readPayloadLen s1 s2).toNat with
    | none => none
    | some (p, rest) =>
      some (slice p (readDataLo s1 s2) (readDataHi s1 s2), slice p (readTlsLo s1 s2) (readTlsHi s1 s2), rest)

/-- what `transferWriteSendData` puts on the wire. -/
def encodeWrite (id : Nat) (data : Bytes) : Bytes :=
  (if writeSendLenFirst then buildHead data.length id else buildHead id data.length) ++ data

/-- `transferWriteRecvData`: (connection id, write-buffer bytes, unread rest). -/
def decodeWrite (stream : Bytes) : Option (Nat × Bytes × Bytes) :=
  match recvHead stream with
  | none => none
  | some (f1, f2, r) =>
    let size := if writeRecvSizeFirst then f1 else f2
    let id := if writeRecvSizeFirst then f2 else f1
    match recvMsg r size with
    | none => none
    | some (p, rest) => some (id, p, rest)

/-- `transferSendID` / `transferRecvID` (`transferErr` = 0 on a short stream). -/
def encodeID (id : Nat) : Bytes := writeAt (List.replicate idLen 0) 0 (putU32 id)
def decodeID (stream : Bytes) : Nat :=
  match recvMsg stream idRecvLen with
  | none => transferErr
  | some (b, _) => getU32 b

/-- hand-over of one connection (`transferRead` in the old process, `transferHandler`/`transferNewConn` in the new one):
the read buffer and TLS bytes the new process's connection starts with. -/
def handover (buffered tls : Bytes) : Option (Bytes × Bytes) :=
  (decodeRead (encodeRead buffered tls)).map (fun r => (r.1, r.2.1))

/-- size classes of the byte pool behind `buffer.GetIoBuffer` (mosn.io/pkg, a black box): a buffer asked for with
exactly such a size has no free byte after the inherited data was written into it. -/
def poolClass (n : Nat) : Bool := [64, 128, 256, 512, 1024, 2048, 4096, 8192, 16384, 32768, 65536].contains n

/-- the new process keeps the transferred connection: its first `ReadOnce` must find free space in the inherited
buffer (a read of 0 bytes is taken for EOF by `connection.doRead` and closes the connection). -/
def adoptedSurvives (buffered : Nat) : Bool := !(inheritedBufferSpare == 0 && poolClass buffered)

/-- type byte of `transferSendType` (`withFD` = transfer read) and what `transferRecvType` makes of it. -/
def typeByte (withFD : Bool) : Nat := if withFD then typeRead else typeWrite
def recvIsWrite (b : Nat) : Bool := b == recvTypeWrite

end MosnVerif.Model.Transfer
