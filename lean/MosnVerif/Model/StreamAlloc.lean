import MosnVerif.Gen.C08StreamAlloc
/-!
[c08p10] C08 (allocation, stream layer): the buffer in which `serverStreamConnection.handleFrame` /
`clientStreamConnection.handleFrame` (pkg/stream/http2/stream.go) collect a request / response body that is not streamed
(`http2_use_stream` off: the default).  The size of the first allocation is the regenerated `sa_srv_collect` /
`sa_cli_collect` (a function of the length of the DATA payload being handled and of the announced content-length — which
the code as it is does not use); every DATA payload is then appended with `IoBuffer.Write`.

The capacity arithmetic of mosn.io/pkg v1.6.0 `buffer` (byte pool slot sizes, `newIoBuffer`, `ioBuffer.grow/copy`) is
written by hand from its source.  Core Lean only.
-/
namespace MosnVerif.Model.StreamAlloc
open MosnVerif.Gen.C08StreamAlloc

/-- `byteBufferPool.slot`: the slot sizes are 64·2^k (k = 0..21) -/
def slotGo : Nat → Nat → Nat → Nat
  | 0, c, _ => c
  | f + 1, c, size => if size ≤ c then c else slotGo f (2 * c) size

/-- `byteBufferPool.take(size)`: capacity of the slice handed out: the smallest slot ≥ size; beyond 2^27 exactly `size` -/
def poolCap (size : Nat) : Nat := if size > 134217728 then size else slotGo 21 64 size

/-- `newIoBuffer(capacity)` / `ioBuffer.Alloc(size)`: `≤ 0 ⇒ DefaultSize` (16) -/
def newCap (size : Int) : Nat := poolCap (if size ≤ 0 then 16 else size.toNat)

/-- `ioBuffer.copy(expand)`: what the pool is asked for when `n` more bytes do not fit -/
def growCap (cap n : Nat) : Nat :=
  poolCap ((if cap < 1024 then 1024 else if cap < 4194304 then 2 * cap else cap + cap / 4) + n)

structure Buf where
  cap : Nat
  len : Nat
deriving Repr, DecidableEq

/-- `ioBuffer.Write(p)`, `|p| = n`, nothing read yet (`off = 0`) -/
def Buf.write (b : Buf) (n : Nat) : Buf :=
  if b.len + n ≤ b.cap then { b with len := b.len + n } else ⟨growCap b.cap n, b.len + n⟩

/-- the body of ONE stream collected without streaming: `first recv ann` is the size the collecting buffer is allocated
with when the first DATA payload (`recv` bytes) arrives; the payloads are appended one by one -/
def collect (first : Int → Int → Int) (ann : Int) : List Nat → Option Buf
  | [] => none
  | n :: rest => some (rest.foldl Buf.write ((⟨newCap (first n ann), 0⟩ : Buf).write n))

def total : List Nat → Nat
  | [] => 0
  | n :: r => n + total r

/-- the bound of `stream_alloc_bounded`: a function of the RECEIVED bytes only -/
def capBound (received : Nat) : Nat := 8 * received + 4096

/-- `strconv.ParseInt(s, 10, 64)` with the error ignored (`req.ContentLength, _ = …`), as far as the harness needs it:
digits with an optional sign; out of range ⇒ the nearest int64; anything else ⇒ 0 -/
def parseInt64 (s : String) : Int :=
  let cs := s.toList
  let (neg, ds) := match cs with
    | '-' :: r => (true, r)
    | '+' :: r => (false, r)
    | r => (false, r)
  if ds.isEmpty || !ds.all Char.isDigit then 0 else
  let v : Nat := ds.foldl (fun a c => a * 10 + (c.toNat - 48)) 0
  if neg then (if v > 9223372036854775808 then -9223372036854775808 else -(v : Int))
  else (if v > 9223372036854775807 then 9223372036854775807 else (v : Int))

end MosnVerif.Model.StreamAlloc
