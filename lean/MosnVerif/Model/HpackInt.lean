import MosnVerif.Gen.Hpack
/-!
Model of HPACK primitive representations as implemented in pkg/module/http2/hpack (RFC 7541 §5):

* `appendVarInt` (encode.go) / `readVarInt` (hpack.go): prefix integers with an `n`-bit prefix, `n ∈ 1..8`;
* string literals without Huffman coding: `appendHpackString`'s plain branch / `Decoder.readString`.

Go's bit operations on `uint64`/`byte` are written arithmetically (`x & 127 = x % 128`, `x >> 7 = x / 128`,
`x << m = x * 2^m`, `0x80 | (x & 0x7f) = 128 + x % 128`, `dst[first] |= flags` = `+ flags` when the flag bits lie above
the prefix); `Lemmas/HpackInt.lean` proves these identities for the ranges used.  The overflow guard `m >= 63` of
`readVarInt` is the regenerated `Gen.Hpack.varintShiftLimit`.
-/
namespace MosnVerif.Model.HpackInt
open MosnVerif.Gen.Hpack

abbrev Bytes := List UInt8

/-- the continuation bytes of `appendVarInt`: `for ; i >= 128; i >>= 7 { append(0x80|(i&0x7f)) }; append(byte(i))` -/
def contBytes (i : Nat) : Bytes :=
  if 128 ≤ i then UInt8.ofNat (128 + i % 128) :: contBytes (i / 128) else [UInt8.ofNat i]
termination_by i
decreasing_by omega

/-- `appendVarInt(nil, n, i)` -/
def appendVarInt (n i : Nat) : Bytes :=
  let k := 2 ^ n - 1
  if i < k then [UInt8.ofNat i] else UInt8.ofNat k :: contBytes (i - k)

/-- `dst[first] |= flags` (flag bits above the prefix) -/
def orFirst (flags : Nat) : Bytes → Bytes
  | [] => []
  | b :: r => UInt8.ofNat (b.toNat + flags) :: r

inductive Err
  | needMore      -- errNeedMore
  | overflow      -- errVarintOverflow
  | strLen        -- ErrStringLength
  deriving DecidableEq, Repr

/-- the loop of `readVarInt` after the prefix byte: accumulator `i`, shift `m` -/
def readCont : Bytes → Nat → Nat → Except Err (Nat × Bytes)
  | [], _, _ => .error .needMore
  | b :: r, i, m =>
    let i := i + (b.toNat % 128) * 2 ^ m
    if b.toNat < 128 then .ok (i, r)
    else
      let m := m + 7
      if varintShiftLimit ≤ m then .error .overflow else readCont r i m

/-- `readVarInt(n, p)`: value and remaining bytes; on error nothing is consumed -/
def readVarInt (n : Nat) : Bytes → Except Err (Nat × Bytes)
  | [] => .error .needMore
  | b :: r =>
    let i := if n < 8 then b.toNat % 2 ^ n else b.toNat
    if i < 2 ^ n - 1 then .ok (i, r) else readCont r i 0

/-- `appendHpackString`'s branch without Huffman coding: 7-bit-prefix length (H bit 0) and the octets -/
def appendStringPlain (s : Bytes) : Bytes := appendVarInt 7 s.length ++ s

/-- `Decoder.readString` up to Huffman decoding: (H bit, raw octets, remaining bytes). `maxStrLen = 0` is unlimited. -/
def readStringRaw (maxStrLen : Nat) : Bytes → Except Err (Bool × Bytes × Bytes)
  | [] => .error .needMore
  | b :: r =>
    let isHuff := 128 ≤ b.toNat
    match readVarInt 7 (b :: r) with
    | .error e => .error e
    | .ok (strLen, p) =>
      if maxStrLen ≠ 0 ∧ maxStrLen < strLen then .error .strLen
      else if p.length < strLen then .error .needMore
      else .ok (isHuff, p.take strLen, p.drop strLen)

end MosnVerif.Model.HpackInt
