import MosnVerif.Model.EDF
/-!
Model of the array heap of `pkg/upstream/cluster/edfheap.go` (`fixUp`, `fixDown`, `Fix`, `Push`, `Peek`) as written:
the loops move elements along the path and write the saved element once at the end ("hole" technique).

The backing array `elements []*edfEntry` is a total memory `Nat → α` plus `size` (the capacity check of the Go slice is
not modelled: `newEdfScheduler(hosts.Size())` allocates one slot per host and every host is pushed once).
The order is a parameter `lt`; the scheduler instantiates it with the regenerated `edfEntryLess` (`EDF.less`).
-/
namespace MosnVerif.Model.EdfHeap

/-- `elements[i] = v` -/
def upd {α} (m : Nat → α) (i : Nat) (v : α) : Nat → α := fun k => if k = i then v else m k

structure Heap (α : Type) where
  elements : Nat → α
  size : Nat

variable {α : Type} (lt : α → α → Bool)

/-- loop of `fixUp`: while `i > 0` and `element < elements[parent]` move the parent down. Returns memory and final `i`. -/
def fixUpLoop (m : Nat → α) (element : α) (i : Nat) : (Nat → α) × Nat :=
  if h : i > 0 then
    let parent := (i - 1) / 2
    if lt element (m parent) then fixUpLoop (upd m i (m parent)) element parent
    else (m, i)
  else (m, i)
termination_by i
decreasing_by omega

/-- `fixUp(i)`: returns the heap and whether the element moved. -/
def fixUp (h : Heap α) (i : Nat) : Heap α × Bool :=
  let element := h.elements i
  let r := fixUpLoop lt h.elements element i
  if i = r.2 then (h, false) else ({ h with elements := upd r.1 r.2 element }, true)

/-- loop of `fixDown(i, n)`: while the smaller child is less than `element` move it up. -/
def fixDownLoop (m : Nat → α) (element : α) (i n : Nat) : (Nat → α) × Nat :=
  let child := i * 2 + 1
  if h : child < n then
    let child := if child + 1 < n && lt (m (child + 1)) (m child) then child + 1 else child
    if lt (m child) element then fixDownLoop (upd m i (m child)) element child n
    else (m, i)
  else (m, i)
termination_by n - i
decreasing_by all_goals (simp only [Bool.and_eq_true, decide_eq_true_eq] at *; split <;> omega)

/-- `fixDown(i, n)` -/
def fixDown (h : Heap α) (i n : Nat) : Heap α × Bool :=
  let element := h.elements i
  let r := fixDownLoop lt h.elements element i n
  if i = r.2 then (h, false) else ({ h with elements := upd r.1 r.2 element }, true)

/-- `Fix(i)`: `if !h.fixDown(i, h.size) { h.fixUp(i) }` -/
def fix (h : Heap α) (i : Nat) : Heap α :=
  let r := fixDown lt h i h.size
  if r.2 then r.1 else (fixUp lt r.1 i).1

/-- `Push(element)` -/
def push (h : Heap α) (e : α) : Heap α :=
  let n := h.size
  (fixUp lt { elements := upd h.elements n e, size := n + 1 } n).1

/-- `Peek()` -/
def peek (h : Heap α) : α := h.elements 0

def toList (h : Heap α) : List α := (List.range h.size).map h.elements

/-! ### the scheduler on top of the heap (`edf.go`), to be compared with the list scheduler of `Model/EDF.lean` -/

open MosnVerif.Model.EDF MosnVerif.Gen in
structure HSched where
  items : Heap Entry
  now : Rat := 0
  clock : Int := 0

open MosnVerif.Model.EDF MosnVerif.Gen in
def HSched.empty : HSched := { items := { elements := fun _ => default, size := 0 } }

open MosnVerif.Model.EDF MosnVerif.Gen in
/-- `Add(item, weight)` -/
def HSched.add (s : HSched) (item : Nat) (w : Rat) : HSched :=
  { s with items := push less s.items { item := item, deadline := Edf.addDeadline s.now w, weight := w, queued := s.clock + 1 }
           clock := s.clock + 1 }

open MosnVerif.Model.EDF MosnVerif.Gen in
/-- `NextAndPush(weightFunc)`: peek, advance the served entry in place, `Fix(0)`. -/
def HSched.nextAndPush (s : HSched) (wf : Nat → Rat) : Option (Nat × HSched) :=
  if s.items.size = 0 then none else
  let e := peek s.items
  let e' := repush e (wf e.item) (s.clock + 1)
  some (e.item, { items := fix less { s.items with elements := upd s.items.elements 0 e' } 0
                  now := Edf.nextTime e.deadline
                  clock := s.clock + 1 })

/-- the `Add` phase of `refresh` on the heap scheduler. -/
def HSched.initWith (wf : Nat → Rat) (n : Nat) : HSched :=
  (List.range n).foldl (fun s i => s.add i (wf i)) HSched.empty

/-- `k` consecutive `NextAndPush` calls; the served items. -/
def HSched.run (s : HSched) (wf : Nat → Rat) : Nat → List Nat × HSched
  | 0 => ([], s)
  | k + 1 =>
    match s.nextAndPush wf with
    | none => ([], s)
    | some (i, s') => let (r, s'') := HSched.run s' wf k; (i :: r, s'')

end MosnVerif.Model.EdfHeap
