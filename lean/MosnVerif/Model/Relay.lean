import MosnVerif.Model.Bytes
/-!
Model of the L4 relay of `pkg/filter/network/streamproxy/streamproxy.go` on top of `pkg/network/connection.go`:
two MOSN connection objects (towards the downstream peer and towards the upstream peer), each with a FIFO write
queue (`writeBufferChan` → `ioBuffers`), and the proxy callbacks that copy every read buffer to the other connection and
propagate closes.

* `OnData` / `onUpstreamData`: `other.Write(buffer.Clone())`.
* read loop gets EOF from a peer: that connection is closed (`Close(NoFlush, RemoteClose)`), the `RemoteClose` event makes
  the proxy call `other.Close(FlushWrite, …)`, which is `other.Write(buffer.NewIoBufferEOF())` — an EOF marker that
  travels through the *same* FIFO as the data.
* write loop: takes the next item; data goes to the socket, the EOF marker closes the connection
  (`Close(NoFlush, LocalClose)`), whose `LocalClose` event closes the other connection without flushing.
* `Write` on a closed connection fails and the buffer is dropped.

A schedule is an arbitrary list of these events (any interleaving of the two read loops and the two write loops).
-/
namespace MosnVerif.Model.Relay
open MosnVerif.Model

inductive Item where
  | data (b : Bytes)
  | eof
  deriving Repr, DecidableEq

inductive Side where
  | down | up
  deriving Repr, DecidableEq

def Side.other : Side → Side
  | .down => .up
  | .up => .down

/-- MOSN's connection object towards one peer -/
structure Conn where
  wq : List Item := []        -- pending writes, oldest first
  sent : Bytes := []          -- bytes written to the socket so far = what that peer receives
  closed : Bool := false      -- closed by MOSN (any way)
  aborted : Bool := false     -- closed without flushing (its peer went away, or the other side was closed locally)
  received : Bytes := []      -- bytes the read loop got from that peer so far
  eofSeen : Bool := false     -- the read loop got EOF from that peer
  deriving Repr

structure State where
  down : Conn := {}
  up : Conn := {}
  deriving Repr

def State.get (s : State) : Side → Conn
  | .down => s.down
  | .up => s.up

def State.set (s : State) (d : Side) (c : Conn) : State :=
  match d with
  | .down => { s with down := c }
  | .up => { s with up := c }

/-- `connection.Write`: queued unless the connection is already closed -/
def Conn.write (c : Conn) (i : Item) : Conn := if c.closed then c else { c with wq := c.wq ++ [i] }

/-- `Close(NoFlush, …)`: pending writes are dropped -/
def Conn.abort (c : Conn) : Conn := if c.closed then c else { c with closed := true, aborted := true, wq := [] }

inductive Ev where
  | read (d : Side) (b : Bytes)   -- the read loop of connection `d` delivered `b` to the proxy
  | peerClosed (d : Side)         -- the read loop of connection `d` hit EOF
  | write (d : Side)              -- the write loop of connection `d` processes its next queue item
  deriving Repr

def step (s : State) : Ev → State
  | .read d b =>
    let c := s.get d
    if c.closed || c.eofSeen then s       -- no read loop any more
    else
      let s := s.set d { c with received := c.received ++ b }
      s.set d.other ((s.get d.other).write (.data b))
  | .peerClosed d =>
    let c := s.get d
    if c.closed || c.eofSeen then s
    else
      -- RemoteClose: this connection is closed at once, the other one is closed with flush
      let s := s.set d { c with eofSeen := true, closed := true, aborted := true, wq := [] }
      s.set d.other ((s.get d.other).write .eof)
  | .write d =>
    let c := s.get d
    if c.closed then s
    else match c.wq with
      | [] => s
      | .data b :: r => s.set d { c with wq := r, sent := c.sent ++ b }
      | .eof :: _ =>
        -- flushed: close this connection; its LocalClose event closes the other one without flushing
        let s := s.set d { c with wq := [], closed := true }
        s.set d.other (s.get d.other).abort

def run (s : State) (evs : List Ev) : State := evs.foldl step s

/-- the data items of a write queue up to its EOF marker, concatenated -/
def pending : List Item → Bytes
  | [] => []
  | .data b :: r => b ++ pending r
  | .eof :: _ => []

end MosnVerif.Model.Relay
