import MosnVerif.Model.FilterChain
import MosnVerif.Gen.RetryState
/-!
The part of the downstream phase machine (pkg/proxy/downstream.go `OnReceive` task loop, `receive`, `processError`,
`waitNotify`, `chooseHost`, `appendHeaders/Data/Trailers`, `cleanStream`, upstream.go `appendHeaders`/`OnReceive`/
`OnResetStream`) that decides C14, for ONE stream, as a deterministic small-step machine: one `step` = one iteration of
the `for` loop of `receive` (one `case` of the phase switch including its `processError`).

Regenerated (Gen.FilterPhase): the Phase order, both loop bounds, `processError` (statement by statement, over the
accessor record `Ops`), which case runs which filter phase, the chain's switches and the status handlers.
Everything the environment decides is a parameter the theorems quantify over (`Env`): the result of every route match
and host choice (by invocation number), whether the pool refuses the stream, one-way, and the upstream event delivered
while the worker waits (`response | reset | asynchronous TerminateStream`).

Retries.  The route's retry policy and the `proxy_disable_retry` variable are part of the environment (`Env.pol`).
`chooseHost` creates the retry state (always, when a host was chosen: `newRetryState`), the REGENERATED `processError`
drops it in its direct-response branch (`clearRetryState`), `onUpstreamHeaders` (every response that goes through
`UpRecvHeader`, local replies included: the status is the x-mosn-status variable the hijack wrote) and `onUpstreamReset`
(reason of the pool refusal / upstream reset) consult it with the retry decision regenerated for C17
(`Gen.RetryState`: `doRetryCheck`, `shouldRetry`, `retry`, the two guards).  When the decision fires, `setupRetry` sets
`upstreamRequest.setupRetry`, the regenerated `processError` returns the phase `Retry`, and the task loop would run
`doRetry` — `ConnectionPool.NewStream` for the same request.  That is where this model stops: `ret` halts the run with
`retried = true` (what a retried request does afterwards is the subject of C03/C17's machine).  So `retried` means
"the request is (re)sent upstream".

Not modelled (assumptions, stated in props/C14.json): what follows a retry, no downstream reset, no timer fires, filters
do not write the response themselves (`AppendHeaders` on the handler), one upstream event while the worker waits — plus
([proxy8]) the reset of the accepted streamed response's upstream stream while the worker runs the sender filters
(`Env.upfReset`, `upfEvent`).
-/
namespace MosnVerif.Model.FilterMachine
open MosnVerif.Gen.FilterPhase MosnVerif.Model.FilterChain

/-- result of `matchRoute` as `chooseHost` sees it -/
inductive RouteRes where
  | found
  | none                                   -- s.route == nil: chooseHost answers 404
  | direct (code : Nat) (body : Bool)      -- direct-response / redirect rule: chooseHost answers itself
  deriving DecidableEq, Repr

inductive UpEvent where
  | resp (code : Nat) (data trailers : Bool)   -- upstreamRequest.OnReceive
  | reset                                      -- upstreamRequest.OnResetStream(reason)
  | terminate (code : Nat)                     -- TerminateStream(code) from another goroutine while the worker waits
  deriving DecidableEq, Repr

/-- the route's retry policy as `newRetryState` / `doRetryCheck` read it, and the `proxy_disable_retry` variable -/
structure RetryPol where
  disabled : Bool := true         -- proxy_disable_retry is set: nothing is ever retried
  retryOn : Bool := false         -- retry_on
  codes : List Nat := []          -- retriable status codes (empty: every code ≥ 500)
  numRetries : Nat := 0           -- num_retries (the budget is max 3 num_retries)
  deriving Repr

structure Env where
  route : Nat → RouteRes          -- k-th matchRoute
  host : Nat → Bool               -- k-th chooseHost: a healthy host and a pool exist
  poolFail : Bool                 -- connPool.NewStream refuses (overflow / connection failure)
  noRouteCode : Nat := 404        -- api.RouterUnavailableCode
  noHostCode : Nat := 502         -- api.NoHealthUpstreamCode
  resetCode : Nat := 502          -- types.ConvertReasonToCode(reason) of the pool refusal / upstream reset of this case
  resetReason : String := "StreamRemoteReset"   -- that reason (types.StreamResetReason)
  pol : RetryPol := {}
  oneway : Bool := false
  reqData : Bool := false
  reqTrailers : Bool := false
  up : UpEvent
  upfReset : Bool := false        -- [proxy8] the label `reset during UpFilter`: the upstream stream of the accepted (streamed) response is reset while the worker runs the sender filters

structure Cfg where
  recv : List RFilter
  send : List SFilter
  env : Env

/-- observable events.  A whole filter pass is ONE event (its start cursor and its invocations), so statements about
passes need no segmentation; `flat` below gives the token list the implementation is compared with. -/
inductive Ev where
  | rpass (p : RPhase) (start : Nat) (invs : List Inv)
  | spass (start : Nat) (invs : List SInv)
  | up (refused : Bool)                           -- pool.NewStream (admitted / refused)
  | dh (status : Option Nat) (eos : Bool)         -- responseSender.AppendHeaders
  | dd (eos : Bool)
  | dt
  | unmodelled (phase : Nat)                      -- the machine left the modelled fragment (never happens: see theorems)
  deriving DecidableEq, Repr

structure St extends FState where
  phase : Nat := InitPhase
  inner : Nat := 0                -- loop counter of `receive`
  outer : Nat := 0                -- completed calls of `receive` in the task loop
  halted : Bool := false          -- the task returned (or blocks forever in waitNotify)
  exhausted : Bool := false       -- … with the stream left unfinished: the task loop's budget ran out and nothing (or a pass that did not reach End) followed
  blocked : Bool := false         -- … because nothing will ever notify
  upstreamReset : Bool := false
  procDone : Bool := false        -- upstreamProcessDone
  upReq : Bool := false           -- s.upstreamRequest built by chooseHost
  rs : Option Nat := none         -- s.retryState (its retry budget), created by chooseHost
  retried : Bool := false         -- … because `processError` returned the phase Retry: the request is sent upstream again
  route : RouteRes := .none
  nMatch : Nat := 0
  nChoose : Nat := 0
  trace : List Ev := []

def emit (s : St) (e : Ev) : St := { s with trace := s.trace ++ [e] }

def liftF (s : St) (f : FState) : St := { s with toFState := f }

/-- downStream.cleanStream -/
def clean (s : St) : St := liftF s (cleanStream s.toFState)

/-- downStream.onUpstreamReset when the reset is not retried: answer with the code of the reset reason -/
def onUpstreamReset (code : Nat) (s : St) : St :=
  { liftF s (sendHijack s.toFState code false) with upstreamReset := false }

/-- `retryState.retry(ctx, headers, reason) == api.ShouldRetry`, composed from the regenerated pieces: `status` = the
x-mosn-status variable (`MappingHeaderStatusCode` fails when it is unset), `reason` = "" for response headers; the
Retries breaker admits (the clusters of C14 are unlimited) -/
def retryFires (e : Env) (budget : Nat) (status : Option Nat) (reason : String) : Bool :=
  let chk := Gen.RetryState.doRetryCheck true e.pol.disabled e.pol.retryOn status.isNone (Int.ofNat (status.getD 0))
    (e.pol.codes.map Int.ofNat) reason
  Gen.RetryState.retry (Gen.RetryState.shouldRetry (Int.ofNat budget) chk true).1 == Gen.RetryState.rcShouldRetry

/-- `onUpstreamHeaders` decides to retry: a retry state exists (regenerated guard) and the decision on the status fires
(`setupRetry` always succeeds here: no timer) -/
def headersRetry (c : Cfg) (s : St) : Bool :=
  match s.rs with
  | some b => Gen.RetryState.headersGuard true &&
      Gen.RetryState.headersRetryCond (if retryFires c.env b s.statusVar "" then Gen.RetryState.rcShouldRetry else Gen.RetryState.rcNoRetry)
  | none => Gen.RetryState.headersGuard false

/-- `onUpstreamReset` decides to retry: regenerated guard (reason, no response started yet, retry state) and decision -/
def resetRetry (c : Cfg) (s : St) : Bool :=
  match s.rs with
  | some b => Gen.RetryState.resetGuard c.env.resetReason false true &&
      Gen.RetryState.resetRetryCond (if retryFires c.env b none c.env.resetReason then Gen.RetryState.rcShouldRetry else Gen.RetryState.rcNoRetry)
  | none => Gen.RetryState.resetGuard c.env.resetReason false false

/-- `setupRetry()` as far as this model sees it: the CAS words are swung back -/
def setRetry (s : St) : St := liftF { s with upstreamReset := false } { s.toFState with upRespReceived := false }

/-- `d` = the value of `upstreamRequest.setupRetry` this call of `processError` reads: set by the `onUpstreamHeaders` of the
phase that just ran, or by the `onUpstreamReset` this very call makes — `processError` always consumes it, it never
survives the call -/
def ops (c : Cfg) (d : Bool) : Ops St where
  cleaned s := s.cleaned
  upstreamReset s := s.upstreamReset
  downstreamReset _ := false
  directResponse s := s.direct
  oneway _ := c.env.oneway
  curPhase s := s.phase
  upstreamProcessDone s := s.procDone
  setupRetry _ := d
  again s := s.again
  setDirectResponse s b := { s with direct := b }
  clearRetryState s := { s with rs := none }
  releaseRetry s := s
  setAgain s p := { s with again := p }
  setSetupRetry s _ := s
  onUpstreamReset s := if d then setRetry s else onUpstreamReset c.env.resetCode s
  resetStream s := clean s
  markDirectResponse s := s

/-- `receive` returned phase `p` to its caller.  `outer` counts the calls of `receive` that came back into the task loop of
OnReceive: `outer < taskLoopBound` = the loop calls `receive` again; `outer = taskLoopBound` = the budget is used up, what
follows the loop runs next (`finishStart`, a step of its own; the `processError` it calls hands the phase of the finishing
pass back through this function); `outer > taskLoopBound` = the finishing pass is running, and whatever it hands back nobody
looks at: anything but `End` (the phase `Retry` too — no `doRetry` follows) leaves the stream unfinished (`exhausted`;
never happens on the repaired code: theorem `never_abandoned`). -/
def ret (s : St) (p : Nat) : St :=
  if p = End then { s with halted := true, phase := p }
  else if s.outer > taskLoopBound then { s with halted := true, exhausted := true, phase := p }
  else if p = Retry then { s with halted := true, retried := true, phase := p }   -- doRetry: the request goes upstream again
  else { s with phase := p, inner := 0, outer := s.outer + 1 }

/-- `if p, err := s.processError(id); err != nil { return p }; phase++` -/
def afterPEd (c : Cfg) (d : Bool) (s : St) : St :=
  match processError (ops c d) false s with
  | (p, true, s') => ret s' p
  | (_, false, s') => { s' with phase := s'.phase + 1 }

/-- … after a phase whose body did not run `onUpstreamHeaders`: `setupRetry` can only be set by the `onUpstreamReset` that
`processError` itself calls (a pending upstream reset of a two-way request) -/
def afterPE (c : Cfg) (s : St) : St :=
  afterPEd c (s.upstreamReset && !c.env.oneway && resetRetry c s) s

def filterPass (c : Cfg) (p : RPhase) (s : St) : St :=
  let (f, invs) := runRecv c.recv p s.toFState
  emit (liftF s f) (.rpass p (startOf s.toFState p) invs)

def sendPass (c : Cfg) (s : St) : St :=
  let (f, invs) := runSend c.send s.toFState
  emit (liftF s f) (.spass s.scursor invs)

def isUpAdmitted : Ev → Bool
  | .up false => true
  | _ => false

def isDenyEv : Ev → Bool
  | .rpass _ _ invs => invs.any (fun iv => iv.2.isDeny)
  | _ => false

/-- [proxy8] the label `reset during UpFilter` of the shared downstream machine (`upResetL` enabled while `upfRunning`), as the
one further upstream event of this machine: the request was admitted upstream (`NewStream` in the trace), the head of a
streamed response (data / trailers still in flight: the client stream stays registered) was accepted, and while the worker
runs the sender filters of that response the stream is reset — `upstreamRequest.OnResetStream` raises `upstreamReset`, which
the `processError` that ends the UpFilter `case` finds at `s.phase == UpFilter`.  The event needs an upstream stream: it is
not enabled after a deny (redundant with "admitted upstream" by `deny_not_forwarded`; kept so that the reply-side invariant
does not depend on that theorem). -/
def upfEnabled (c : Cfg) (s : St) : Bool :=
  c.env.upfReset && s.upRespReceived && s.trace.any isUpAdmitted && !s.trace.any isDenyEv &&
    (match c.env.up with | .resp _ d t => d || t | _ => false)

def upfEvent (c : Cfg) (s : St) : St := if upfEnabled c s then { s with upstreamReset := true } else s

/-- the sender-filter `case` up to its `processError`: the sender pass, during which the upstream reset may arrive -/
def sendPassE (c : Cfg) (s : St) : St := upfEvent c (sendPass c s)

/-- downStream.chooseHost -/
def chooseHost (c : Cfg) (s : St) : St :=
  let s := { s with nChoose := s.nChoose + 1 }
  match s.route with
  | .none => liftF s (sendHijack s.toFState c.env.noRouteCode false)
  | .direct code body => liftF s (sendHijack s.toFState code body)
  | .found =>
    if c.env.host (s.nChoose - 1) then
      { s with upReq := true, rs := some (Gen.RetryState.initialBudget (Int.ofNat c.env.pol.numRetries)).toNat }
    else liftF s (sendHijack s.toFState c.env.noHostCode false)

/-- receiveHeaders → upstreamRequest.appendHeaders: pool.NewStream -/
def sendUpstream (c : Cfg) (s : St) : St :=
  if s.procDone || s.upstreamReset then s
  else if c.env.poolFail then { emit s (.up true) with upstreamReset := true }
  else emit s (.up false)

/-- the event that ends `waitNotify`'s wait -/
def deliver (c : Cfg) (s : St) : St :=
  match c.env.up with
  | .resp code data trailers =>
    if s.procDone || s.upstreamReset || s.upRespReceived then { s with halted := true, blocked := true }
    else { s with upRespReceived := true, resp := some ⟨data, trailers⟩, statusVar := some code }
  | .reset => { s with upstreamReset := true }
  | .terminate code =>
    if s.resp.isSome || s.cleaned || s.upRespReceived then { s with halted := true, blocked := true }
    else liftF s (sendHijack { s.toFState with upRespReceived := true } code false)

/-- upstreamRequest.receiveHeaders → onUpstreamHeaders → appendHeaders(endStream); endStream ends the stream -/
def respHeaders (s : St) (r : Resp) : St :=
  if s.procDone || s.upstreamReset then s
  else if !r.data && !r.trailers then clean (emit { s with procDone := true } (.dh s.statusVar true))
  else emit { s with procDone := false } (.dh s.statusVar false)

def respData (s : St) (r : Resp) : St :=
  if s.procDone || s.upstreamReset then s
  else if !r.trailers then clean (emit { s with procDone := true } (.dd true))
  else emit { s with procDone := false } (.dd false)

def respTrailers (s : St) : St :=
  if s.procDone || s.upstreamReset then s
  else clean (emit { s with procDone := true } .dt)

/-- one `case` of the switch in `receive` -/
def phaseCase (c : Cfg) (s : St) : St :=
  if s.phase = InitPhase then { s with phase := s.phase + 1 }
  else if s.phase = MatchRoute then
    afterPE c { s with route := c.env.route s.nMatch, nMatch := s.nMatch + 1 }
  else if s.phase = ChooseHost then afterPE c (chooseHost c s)
  else if s.phase = DownRecvHeader then
    if s.upReq then afterPE c (sendUpstream c s) else { emit s (.unmodelled s.phase) with halted := true }
  else if s.phase = DownRecvData then
    if c.env.reqData then afterPE c s else { s with phase := s.phase + 1 }
  else if s.phase = DownRecvTrailer then
    if c.env.reqTrailers then afterPE c s else { s with phase := s.phase + 1 }
  else if s.phase = Oneway then
    if c.env.oneway then afterPE c (clean s) else { s with phase := WaitNotify }
  else if s.phase = WaitNotify then
    let s := deliver c s
    if s.halted then s else afterPE c s
  else if s.phase = sendFilterPhase then afterPE c (sendPassE c s)
  else if s.phase = UpRecvHeader then
    match s.resp with
    | some r =>
      -- upstreamRequest.receiveHeaders → onUpstreamHeaders: the retry decision comes first
      if !(s.procDone || s.upstreamReset) && headersRetry c s then afterPEd c true (setRetry s)
      else afterPE c (respHeaders s r)
    | none => { s with phase := s.phase + 1 }
  else if s.phase = UpRecvData then
    match s.resp with
    | some r => if r.data then afterPE c (respData s r) else { s with phase := s.phase + 1 }
    | none => { s with phase := s.phase + 1 }
  else if s.phase = UpRecvTrailer then
    match s.resp with
    | some r => if r.trailers then afterPE c (respTrailers s) else { s with phase := s.phase + 1 }
    | none => { s with phase := s.phase + 1 }
  else if s.phase = End then ret s End
  else
    match recvPhaseOf s.phase with
    | some p => afterPE c (filterPass c p s)
    | none => { emit s (.unmodelled s.phase) with halted := true }   -- Retry (needs a retry policy) / out of range

/-- [proxy8] what follows the task loop when its budget is used up (regenerated: `Gen.FilterPhase.exhaustFinishes` = the loop
is followed by `s.onReentryExhausted(id, phase)`; `exhaustHijacks` = its guard `phase == MatchRoute || phase == ChooseHost`;
`exhaustCode` = api.InternalErrorCode): nothing if the stream is cleaned; when the last pass handed back a pending local
reply (UpFilter) or the one-way clean up (Oneway) the finishing pass starts there; otherwise `sendHijackReply(500)` and the
REGENERATED `processError` (`afterPE`) that takes it like every local reply — drops the retry state, clears the again-phase,
hands back UpFilter, or Oneway for a one-way request — and the finishing pass starts at that phase.  The following steps
run that pass.  On the code before the repair (`exhaustFinishes = false`) the task returns here: stream neither answered
nor cleaned. -/
def finishStart (c : Cfg) (s : St) : St :=
  if !exhaustFinishes then { s with halted := true, exhausted := true }
  else if s.cleaned then { s with halted := true }
  else if !exhaustHijacks s.phase then { s with outer := s.outer + 1 }
  else afterPE c (liftF s (sendHijack s.toFState exhaustCode false))

/-- one iteration of the `for i := 0; i <= End-InitPhase; i++` loop of `receive` (or, when the task loop's budget is used up,
what follows that loop) -/
def step (c : Cfg) (s : St) : St :=
  if s.halted then s
  else if s.outer = taskLoopBound then finishStart c s
  else if s.inner > receiveLoopBound then ret s End            -- "unexpected phase cycle time"
  else phaseCase c { s with inner := s.inner + 1 }

def run (c : Cfg) : Nat → St → St
  | 0, s => s
  | n + 1, s => run c n (step c s)

def init : St := {}

/-- more steps than the task can make: taskLoopBound calls of `receive` in the loop, the step after the loop and the finishing
pass, each at most receiveLoopBound+2 iterations -/
abbrev fuel : Nat := (taskLoopBound + 2) * (receiveLoopBound + 2)

def final (c : Cfg) : St := run c fuel init

def trace (c : Cfg) : List Ev := (final c).trace

/-! ### vocabulary of the theorems about passes -/

/-- scanning the trace from a cursor value and the phase it was kept in: a receiver pass of the SAME phase starts
exactly at the cursor the previous pass left (`cursorAfter`: the index of its last filter if that one asked for
re-match / re-choose, else 0); a pass of another phase starts at 0 -/
def resumeOK : Nat → RPhase → List Ev → Prop
  | _, _, [] => True
  | cur, cph, .rpass p st invs :: r => st = (if cur ≠ 0 ∧ p ≠ cph then 0 else cur) ∧ resumeOK (cursorAfter invs) p r
  | cur, cph, _ :: r => resumeOK cur cph r

/-- the cursor (and the phase of the last pass) after scanning a trace -/
def cursorTrace : Nat → RPhase → List Ev → Nat × RPhase
  | cur, cph, [] => (cur, cph)
  | _, _, .rpass p _ invs :: r => cursorTrace (cursorAfter invs) p r
  | cur, cph, _ :: r => cursorTrace cur cph r

/-! ### vocabulary of the theorems about the reply -/

def isBack : Ev → Bool
  | .spass _ _ => true
  | .dh _ _ => true
  | .dd _ => true
  | .dt => true
  | _ => false

/-- the response side of the trace: sender passes and downstream sender calls, in order -/
def backPart (t : List Ev) : List Ev := t.filter isBack

/-- the verdicts of all receiver-filter invocations of a trace, in order -/
def recvVerdicts : List Ev → List Verdict
  | [] => []
  | .rpass _ _ invs :: r => invs.map (·.2) ++ recvVerdicts r
  | _ :: r => recvVerdicts r

def isSpass : Ev → Bool
  | .spass _ _ => true
  | _ => false

/-- a (possibly still incomplete) sequence of downstream sender calls of ONE response: headers, then at most one data
call, then at most one trailers call -/
def replyShape : List Ev → Bool
  | [] => true
  | [.dh _ _] => true
  | [.dh _ _, .dd _] => true
  | [.dh _ _, .dt] => true
  | [.dh _ _, .dd _, .dt] => true
  | _ => false

/-- the downstream sender calls that deliver a response with the given data / trailers presence and status code -/
def replyEvs (r : Resp) (code : Option Nat) : List Ev :=
  .dh code (!r.data && !r.trailers) :: ((if r.data then [.dd (!r.trailers)] else []) ++ (if r.trailers then [.dt] else []))

/-- some receiver filter answered the request itself (hijack / direct response) -/
def answeredIn (t : List Ev) : Prop := ∃ v ∈ recvVerdicts t, v.act.answers = true

/-- some receiver or sender filter returned the termination status -/
def terminatedIn (t : List Ev) : Prop :=
  (∃ v ∈ recvVerdicts t, v.status = .termination) ∨ (∃ st invs, Ev.spass st invs ∈ t ∧ ∃ iv ∈ invs, iv.2 = .termination)

end MosnVerif.Model.FilterMachine
