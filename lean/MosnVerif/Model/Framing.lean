/-!
Generic model of the buffered dispatch loop of an xprotocol stream connection
(`streamConn.Dispatch`, pkg/stream/xprotocol/conn.go) on top of the connection read buffer
(`IoBuffer`: `Write` appends the bytes of a read, `Drain n` removes the first `n` bytes, `Bytes()` is what is left).

* `Step`   : what one `XProtocol.Decode(ctx, buf)` call answers — `(nil,nil)` = `needMore` (nothing drained),
             `(frame,nil)` after `Drain n` = `frame f n`, `err != nil` = `error` (`handleError`; `Dispatch` returns).
* `drain`  : the `for { … }` loop of `Dispatch`: return when the buffer is empty, when `Decode` needs more data or
             when it fails; otherwise hand the frame on and loop.  Fuel = buffer length + 1 suffices because a frame
             drains at least one byte.
* `feed`   : one read event: append the chunk to the residue, run `Dispatch`.  After a failure the connection is closed
             (`netConn.Close`), no further read is dispatched: by convention bytes "arriving" later are kept unprocessed.
* `run`    : a whole connection = a list of chunks.

Core Lean only (linked into the native driver).
-/
namespace MosnVerif.Model.Framing

abbrev Bytes := List UInt8

inductive Step (F : Type) where
  | needMore : Step F
  | frame (f : F) (n : Nat) : Step F
  | error : Step F
deriving Repr, DecidableEq

/-- prefix-stability of a decoder: a produced frame drains a positive number of buffered bytes and is final on every
extension of the buffer; so is an error.  Nothing is required of `needMore`. -/
structure Stable {F : Type} (d : Bytes → Step F) : Prop where
  pos     : ∀ p f n, d p = .frame f n → 0 < n ∧ n ≤ p.length
  ext     : ∀ p f n e, d p = .frame f n → d (p ++ e) = .frame f n
  errExt  : ∀ p e, d p = .error → d (p ++ e) = .error

/-- the loop of `Dispatch`: (frames handed on, residue, failed) -/
def drain {F} (d : Bytes → Step F) : Nat → Bytes → List F × Bytes × Bool
  | 0, buf => ([], buf, false)
  | fuel+1, buf =>
    if buf.isEmpty then ([], buf, false) else
    match d buf with
    | .needMore => ([], buf, false)
    | .error => ([], buf, true)
    | .frame f n =>
      let r := drain d fuel (buf.drop n)
      (f :: r.1, r.2.1, r.2.2)

/-- connection state: residue buffer, frames so far, failed flag -/
structure Conn (F : Type) where
  buf : Bytes
  out : List F
  failed : Bool
deriving Repr, DecidableEq

def Conn.init {F} : Conn F := { buf := [], out := [], failed := false }

def feed {F} (d : Bytes → Step F) (c : Conn F) (chunk : Bytes) : Conn F :=
  if c.failed then { c with buf := c.buf ++ chunk } else
  let b := c.buf ++ chunk
  let r := drain d (b.length + 1) b
  { buf := r.2.1, out := c.out ++ r.1, failed := r.2.2 }

def run {F} (d : Bytes → Step F) (chunks : List Bytes) : Conn F :=
  chunks.foldl (feed d) Conn.init

/-! ### header/body shape shared by all envelope decoders

Every xprotocol `Decode` has the same shape: a header stage that looks at a bounded prefix and the buffered length
and answers "need more" / "error" / "the frame is `n` bytes long and complete", and a body stage that only looks at
the `n` frame bytes.  `envelope` is that shape; `HdrStable` is what the header stage must satisfy. -/

inductive Hdr where
  | needMore : Hdr
  | len (n : Nat) : Hdr
  | error : Hdr
deriving Repr, DecidableEq

structure HdrStable (h : Bytes → Hdr) : Prop where
  pos    : ∀ p n, h p = .len n → 0 < n ∧ n ≤ p.length
  ext    : ∀ p n e, h p = .len n → h (p ++ e) = .len n
  errExt : ∀ p e, h p = .error → h (p ++ e) = .error

/-- `h` contains the (regenerated) length tests: it answers `len n` only when `n` bytes are buffered; `ok` classifies the
complete frame bytes (KV block, black-box payload parsers as an oracle). -/
def envelope (h : Bytes → Hdr) (ok : Bytes → Bool) (b : Bytes) : Step Bytes :=
  match h b with
  | .needMore => .needMore
  | .error => .error
  | .len n => if ok (b.take n) then .frame (b.take n) n else .error

end MosnVerif.Model.Framing
