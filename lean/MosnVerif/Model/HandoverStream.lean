import MosnVerif.Gen.HandoverLock
/-!
# A connection write in progress while the connection is handed over (core Lean only)

`connection.writeDirectly` is a multi-step action (regenerated `writeSteps`: take the write mutex; test the hand-over
mark; appendBuffer; doWrite = a writev loop of `k` partial writes; release), the hand-over another (regenerated
`handoverSteps`: `notifyTransfer`'s steps, then `transferRead`: the descriptor leaves for the new process).  After the
descriptor has left, the NEW process writes to the same socket.  The socket is ONE sequence of chunks, appended to by
whichever process performs a partial write.  The schedule (`o` = the old writer takes a step, `h` = the hand-over takes
a step, `n` = the new process's writer takes a step) is a parameter; a `lock` step of a thread whose mutex is taken
leaves the thread where it is (TryLock's 60 s time-out is not modelled: a write holds the mutex for at most the 15 s
write deadline).  One writer per process issues its writes in program order (as in `Model/HandoverQueue`).
`rsock` holds the newest chunk first.
-/
namespace MosnVerif.Model.HandoverStream
open MosnVerif.Gen.HandoverLock

inductive Side | old | new
deriving DecidableEq, Repr
inductive Who | w | h
deriving DecidableEq, Repr
inductive Ev | o | h | n
deriving DecidableEq, Repr

/-- one partial write of write `id` (which consists of `k` of them): the `idx`-th -/
structure Entry where
  side : Side
  id : Nat
  idx : Nat
  k : Nat
deriving DecidableEq, Repr

structure Wr where
  id : Nat
  k : Nat
deriving DecidableEq, Repr

structure St where
  opend : List Wr
  ocur : Option Wr := none
  opc : Nat := 0
  oidx : Nat := 0
  direct : List Wr := []
  diverted : List Wr := []
  hpc : Nat := 0
  lockBy : Option Who := none
  mark : Bool := false
  fdSent : Bool := false
  npend : List Wr
  ncur : Option Wr := none
  nidx : Nat := 0
  rsock : List Entry := []

/-- a diverted write returns: the next release of the mutex (the deferred unlock), or the end -/
def divertTarget (W : List WStep) (pc : Nat) : Nat := pc + 1 + (W.drop (pc + 1)).findIdx (· == WStep.unlock)

def stepO (W : List WStep) (s : St) : St :=
  match s.ocur with
  | none =>
    match s.opend with
    | [] => s
    | w :: r => { s with ocur := some w, opend := r, opc := 0, oidx := 0 }
  | some w =>
    match W[s.opc]? with
    | none => { s with ocur := none, oidx := 0 }
    | some .lock => if s.lockBy = none then { s with lockBy := some .w, opc := s.opc + 1 } else s
    | some .check =>
      if s.mark then { s with diverted := s.diverted ++ [w], opc := divertTarget W s.opc }
      else { s with direct := s.direct ++ [w], opc := s.opc + 1 }
    | some .append => { s with opc := s.opc + 1 }
    | some .io =>
      if s.oidx < w.k then
        if s.oidx + 1 < w.k then { s with rsock := ⟨.old, w.id, s.oidx, w.k⟩ :: s.rsock, oidx := s.oidx + 1 }
        else { s with rsock := ⟨.old, w.id, s.oidx, w.k⟩ :: s.rsock, oidx := 0, opc := s.opc + 1 }
      else { s with oidx := 0, opc := s.opc + 1 }
    | some .unlock => { s with lockBy := if s.lockBy = some .w then none else s.lockBy, opc := s.opc + 1 }

def stepH (H : List HStep) (s : St) : St :=
  match H[s.hpc]? with
  | none => s
  | some .lock => if s.lockBy = none then { s with lockBy := some .h, hpc := s.hpc + 1 } else s
  | some .setMark => { s with mark := true, hpc := s.hpc + 1 }
  | some .unlock => { s with lockBy := if s.lockBy = some .h then none else s.lockBy, hpc := s.hpc + 1 }
  | some .sendFd => { s with fdSent := true, hpc := s.hpc + 1 }

/-- the new process writes only to a descriptor it has received -/
def stepN (s : St) : St :=
  if !s.fdSent then s else
  match s.ncur with
  | none =>
    match s.npend with
    | [] => s
    | w :: r => { s with ncur := some w, npend := r, nidx := 0 }
  | some w =>
    if s.nidx < w.k then
      if s.nidx + 1 < w.k then { s with rsock := ⟨.new, w.id, s.nidx, w.k⟩ :: s.rsock, nidx := s.nidx + 1 }
      else { s with rsock := ⟨.new, w.id, s.nidx, w.k⟩ :: s.rsock, nidx := 0, ncur := none }
    else { s with nidx := 0, ncur := none }

def step (W : List WStep) (H : List HStep) (s : St) : Ev → St
  | .o => stepO W s
  | .h => stepH H s
  | .n => stepN s

def run (W : List WStep) (H : List HStep) (s : St) (sched : List Ev) : St := sched.foldl (step W H) s

def init (ws news : List Wr) : St := { opend := ws, npend := news }

/-- the code that exists -/
def runG (ws news : List Wr) (sched : List Ev) : St := run writeSteps handoverSteps (init ws news) sched

/-! ### what an intact byte stream is (newest chunk first) -/

def complete (e : Entry) : Bool := e.idx + 1 == e.k

/-- `e` may follow `prev`: it continues the same write with the next chunk, or it begins a write after a complete one -/
def okNext (prev : Option Entry) (e : Entry) : Bool :=
  decide (e.idx < e.k) &&
  match prev with
  | none => e.idx == 0
  | some p => (e.idx == 0 && complete p) || (e.side == p.side && e.id == p.id && e.k == p.k && e.idx == p.idx + 1)

/-- every write is contiguous: its chunks are adjacent, in order, and a write begins only after the one before it ended -/
def wellR : List Entry → Bool
  | [] => true
  | e :: rest => okNext rest.head? e && wellR rest

def allOld (l : List Entry) : Bool := l.all (fun e => e.side == .old)

/-- no chunk of the old process after a chunk of the new process -/
def sortedR : List Entry → Bool
  | [] => true
  | e :: rest => (e.side == .new || allOld rest) && sortedR rest

def intactR (l : List Entry) : Bool := wellR l && sortedR l

end MosnVerif.Model.HandoverStream
