import MosnVerif.Gen.HealthFlags
/-!
Model of the shared host health-flag word (pkg/upstream/cluster/health.go, host.go).

One word per address is shared by every host object of that address.  `SetHealthFlag f` / `ClearHealthFlag f` are
NOT atomic: each call is the sequence of atomic accesses (`Gen.HealthFlags.Atom`) that the extractor reads off the Go
source (`Gen.HealthFlags.setProg / clearProg`), with a thread-local register between them.  A thread is a list of
calls, a schedule is a list of thread indices: each entry lets that thread perform exactly ONE atomic access.
The interpreter below is generic in the program shape (`P : Op → Prog`); `genP` is the shape of the current source.
-/
namespace MosnVerif.Model.HealthFlags
open MosnVerif.Gen.HealthFlags (Atom Prog)

abbrev Word := BitVec 64

inductive Op where
  | set (f : Word)
  | clear (f : Word)
  deriving DecidableEq, Repr

def Op.flag : Op → Word
  | .set f => f
  | .clear f => f

def Op.isSet : Op → Bool
  | .set _ => true
  | .clear _ => false

/-- the value a call writes, from the value it loaded (regenerated expressions) -/
def Op.apply : Op → Word → Word
  | .set f, w => Gen.HealthFlags.setModify w f
  | .clear f, w => Gen.HealthFlags.clearModify w f

/-- hand-written reference of what a call means (used by the property predicate, independent of `Gen`) -/
def Op.ref : Op → Word → Word
  | .set f, w => w ||| f
  | .clear f, w => w &&& ~~~f

/-- the program shape of the current source -/
def genP : Op → Prog
  | .set _ => Gen.HealthFlags.setProg
  | .clear _ => Gen.HealthFlags.clearProg

/-- the shapes discussed in DESIGN.md §6 row 11 -/
def loadStoreP : Op → Prog := fun _ => ⟨[.load, .store], false⟩
def casLoopP : Op → Prog := fun _ => ⟨[.load, .casRet], true⟩

structure Thread where
  ops : List Op      -- calls still to be completed; the head is the call in progress
  pc : Nat           -- index of the next atomic access of the call in progress
  reg : Word         -- the local variable holding the loaded value
  deriving DecidableEq, Repr

def Thread.init (ops : List Op) : Thread := ⟨ops, 0, 0⟩

/-- where control goes after atom `pc` when the call does not return there -/
def Thread.next (p : Prog) (rest : List Op) (t : Thread) : Thread :=
  if t.pc + 1 < p.atoms.length then { t with pc := t.pc + 1 }
  else if p.loop then { t with pc := 0 }
  else { t with ops := rest, pc := 0 }

/-- one atomic access by thread `t` against the shared word `w`: new word, new thread state, and whether this access
was the call's write of the word (its single atomic update). -/
def Thread.step (P : Op → Prog) (w : Word) (t : Thread) : Word × Thread × Option Op :=
  match t.ops with
  | [] => (w, t, none)
  | op :: rest =>
    match (P op).atoms[t.pc]? with
    | none => (w, t, none)
    | some .load => (w, Thread.next (P op) rest { t with reg := w }, none)
    | some .store => (op.apply t.reg, Thread.next (P op) rest t, some op)
    | some .casRet =>
      if w = t.reg then (op.apply t.reg, { t with ops := rest, pc := 0 }, some op)
      else (w, Thread.next (P op) rest t, none)

structure Config where
  word : Word
  threads : List Thread
  deriving DecidableEq, Repr

def Config.init (w : Word) (ops : List (List Op)) : Config := ⟨w, ops.map Thread.init⟩

/-- thread `i` performs one atomic access (an index out of range or a finished thread does nothing) -/
def Config.step (P : Op → Prog) (c : Config) (i : Nat) : Config × Option (Nat × Op) :=
  match c.threads[i]? with
  | none => (c, none)
  | some t =>
    let r := t.step P c.word
    (⟨r.1, c.threads.set i r.2.1⟩, r.2.2.map (fun op => (i, op)))

def Config.run (P : Op → Prog) (c : Config) : List Nat → Config
  | [] => c
  | i :: s => Config.run P (c.step P i).1 s

/-- the calls in the order of their atomic update, tagged with the thread -/
def Config.log (P : Op → Prog) (c : Config) : List Nat → List (Nat × Op)
  | [] => []
  | i :: s => (c.step P i).2.toList ++ Config.log P (c.step P i).1 s

/-- the word after each step of the schedule -/
def Config.trace (P : Op → Prog) (c : Config) : List Nat → List Word
  | [] => []
  | i :: s => (c.step P i).1.word :: Config.trace P (c.step P i).1 s

def Config.done (c : Config) : Bool := c.threads.all (fun t => t.ops.isEmpty)

/-- calls not yet completed, per thread -/
def Config.pending (c : Config) : List (List Op) := c.threads.map (·.ops)

/-- sequential meaning of a list of calls -/
def applyAll (w : Word) (l : List (Nat × Op)) : Word := l.foldl (fun w e => e.2.apply w) w

/-- the calls of thread `i` in a log, in log order -/
def proj (i : Nat) (l : List (Nat × Op)) : List Op := (l.filter (fun e => e.1 == i)).map (·.2)

/-- evolution of bit `i` alone under a list of calls: a call whose flag contains the bit sets/clears it, any other
call leaves it alone -/
def bitRun (i : Nat) (b : Bool) (l : List Op) : Bool :=
  l.foldl (fun b op => if op.flag.getLsbD i then op.isSet else b) b

/-- `Host.Health()` -/
def health (w : Word) : Bool := Gen.HealthFlags.health w

/-! ### executable property predicate (declarative, independent of the step structure)

`linCheck pend w obs`: the observed words `obs` (one per scheduler step) are explained by SOME interleaving of the
threads' calls that respects each thread's program order, every call taking effect atomically exactly once, at most
one call taking effect per step, and every call having taken effect at the end. -/
def linCheck : List (List Op) → Word → List Word → Bool
  | pend, _, [] => pend.all (·.isEmpty)
  | pend, w, o :: rest =>
    (o == w && linCheck pend w rest) ||
    (List.range pend.length).any (fun t =>
      match pend[t]? with
      | some (op :: r) => op.ref w == o && linCheck (pend.set t r) o rest
      | _ => false)

end MosnVerif.Model.HealthFlags
