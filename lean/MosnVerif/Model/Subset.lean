import MosnVerif.Gen.Subset
/-!
Model of MOSN's subset load balancer (pkg/upstream/cluster/subset_loadbalancer.go and
subset_loadbalancer_builder.go), core Lean only.

* hosts carry metadata as association lists (Go `map[string]string`: `List.lookup`, first binding);
* selectors are key lists, normalised by `initSet` / `generateSubsetKeys` (dedup + sort, duplicates dropped);
* the trie `LbSubsetMap = map[key]map[value]entry{children, lb}` is a rose tree whose child list is an association
  list over (key, value) pairs (the two Go map levels `subsets[name][value]` are one lookup of the pair);
  an entry's load balancer is `Option (List Host)` (`none` = `lb == nil`, not `Initialized()`);
* BOTH builders are modelled as written: `buildFilter` (`subsetLoadBalancer.createSubsets`: per host, per selector,
  `ExtractSubsetMetadata`, `findOrCreateSubset`, create the load balancer once from `HostMatches`) and `buildPre`
  (`subsetLoadBalancerBuilder`: inverted index key -> value -> ascending host indexes, cartesian product of the
  indexed values per selector, `filterHosts` by intersection, load balancer only for non-empty results);
* every boolean decision of the Go code is the regenerated `Gen.Subset.*` definition;
* Go map iteration order (values of an index entry in `doMetadataCombination`) is the explicit parameter `shuf`;
* the inner load balancer is a parameter `inner : List Host → Nat → Option Host` (host list, balancer state); the
  round-robin balancer `rrChoose` is modelled as written and is the instance the harness drives.
-/
namespace MosnVerif.Model.Subset
open MosnVerif

abbrev Key := String
abbrev Val := String
abbrev KV := Key × Val
/-- host metadata (Go `api.Metadata = map[string]string`) -/
abbrev Meta := List KV
/-- `types.SubsetMetadata`: an ordered list of key/value pairs; also a trie path and a match-criteria list -/
abbrev Path := List KV

structure Host where
  name : String
  md : Meta
  healthy : Bool
  deriving DecidableEq, Repr, Inhabited

def metaGet (m : Meta) (k : Key) : Option Val := List.lookup k m

/-- one iteration of `HostMatches`: `value, ok := meta[kv.T1]; if !ok || value != kv.T2 { return false }` -/
def critOk (m : Meta) (kv : KV) : Bool :=
  !(Gen.Subset.hostMismatch (metaGet m kv.1).isSome ((metaGet m kv.1).getD "") kv.2)

/-- `HostMatches(kvs, host)` -/
def hostMatches (kvs : Path) (h : Host) : Bool := kvs.all (critOk h.md)

/-- `ExtractSubsetMetadata`: `none` when a selector key is missing from the metadata (Go returns `kvs[:0]`) -/
def extractOpt : List Key → Meta → Option Path
  | [], _ => some []
  | k :: ks, m =>
    match metaGet m k with
    | none => none
    | some v => (extractOpt ks m).map ((k, v) :: ·)

def extract (ks : List Key) (m : Meta) : Path := (extractOpt ks m).getD []

/-! ### selectors: `types.InitSet` and `GenerateSubsetKeys` -/

/-- first loop of `InitSet`: keep the first occurrence of every key -/
def dedupKeys (l : List Key) : List Key :=
  l.foldl (fun acc k => if acc.contains k then acc else acc ++ [k]) []

def insertKey (k : Key) : List Key → List Key
  | [] => [k]
  | x :: r => if k ≤ x then k :: x :: r else x :: insertKey k r

/-- `sort.Sort` of distinct keys (any correct sort gives this list) -/
def sortKeys (l : List Key) : List Key := l.foldr insertKey []

def initSet (l : List Key) : List Key := sortKeys (dedupKeys l)

/-- `GenerateSubsetKeys`: normalise every selector, drop a selector equal to an earlier one -/
def generateSubsetKeys (raw : List (List Key)) : List (List Key) :=
  raw.foldl (fun acc ks => let s := initSet ks; if acc.contains s then acc else acc ++ [s]) []

/-! ### match criteria: `router.NewMetadataMatchCriteriaImpl` -/

def insertKV (kv : KV) : Path → Path
  | [] => [kv]
  | x :: r => if kv.1 ≤ x.1 then kv :: x :: r else x :: insertKV kv r

/-- `NewMetadataMatchCriteriaImpl(m)`: the pairs of the map `m` (given in Go's arbitrary iteration order, keys unique)
sorted by key (`sort.Sort` over distinct keys: any correct sort gives this list) -/
def mkCriteria (kvs : Path) : Path := kvs.foldr insertKV []

/-! ### the trie -/

inductive Trie where
  | node (lb : Option (List Host)) (children : List (KV × Trie))

def Trie.lb : Trie → Option (List Host)
  | .node l _ => l
def Trie.children : Trie → List (KV × Trie)
  | .node _ c => c

abbrev Root := List (KV × Trie)

/-- `&LBSubsetEntryImpl{children: make(map…)}` -/
def Trie.fresh : Trie := .node none []

/-- map store `m[k] = t` on an association list: replace the first binding or append -/
def aset (k : KV) (t : Trie) : Root → Root
  | [] => [(k, t)]
  | (k', t') :: r => if k' == k then (k, t) :: r else (k', t') :: aset k t r

/-- `findSubset`: the Go loop over `matchCriteria` with its index `i`; `n = len(matchCriteria)` -/
def findGo (n : Nat) : Nat → Root → Path → Option Trie
  | _, _, [] => none
  | i, root, kv :: rest =>
    match List.lookup kv root with
    | none => none
    | some e => if Gen.Subset.findLast i n then some e else findGo n (i + 1) e.children rest

def findSubset (root : Root) (crit : Path) : Option Trie := findGo crit.length 0 root crit

/-- `findOrCreateSubset(subsets, kvs, idx)` followed by an update `g` of the returned entry's load balancer
(`last` is the regenerated `idx == len(kvs)` test of the respective builder). -/
def modifyGo (last : Int → Int → Bool) (g : Option (List Host) → Option (List Host)) (n : Nat) :
    Nat → Path → Root → Root
  | _, [], root => root
  | idx, kv :: rest, root =>
    let e := (List.lookup kv root).getD Trie.fresh
    if last ((idx : Int) + 1) n then aset kv (.node (g e.lb) e.children) root
    else aset kv (.node e.lb (modifyGo last g n (idx + 1) rest e.children)) root

/-! ### filtering builder: `subsetLoadBalancer.createSubsets` -/

/-- `if !entry.Initialized() { entry.CreateLoadBalancer(info, CreateSubset(hostSet, HostMatches(kvs, ·))) }` -/
def initIfNeeded (hs : List Host) (lb : Option (List Host)) : Option (List Host) :=
  if Gen.Subset.filterNeedInit (Gen.Subset.entryInitialized lb.isSome) then some hs else lb

def filterStep (hosts : List Host) (root : Root) (h : Host) (sel : List Key) : Root :=
  let kvs := extract sel h.md
  if Gen.Subset.filterCreate kvs.length then
    modifyGo Gen.Subset.createLastFilter (initIfNeeded (hosts.filter (hostMatches kvs))) kvs.length 0 kvs root
  else root

def buildFilter (hosts : List Host) (sels : List (List Key)) : Root :=
  hosts.foldl (fun root h => sels.foldl (fun root sel => filterStep hosts root h sel) root) []

/-! ### pre-index builder: `subsetLoadBalancerBuilder` -/

/-- `subsetMergeKeys`: every key of every selector and of the default subset (a Go map: a set) -/
def mergeKeys (sels : List (List Key)) (dflt : Path) : List Key :=
  (sels.flatten ++ dflt.map (·.1)).eraseDups

/-- `valueMap[value].Insert(i)` (creating the sparse set on first use); indexes arrive in ascending order -/
def insertIdx (v : Val) (i : Nat) : List (Val × List Nat) → List (Val × List Nat)
  | [] => [(v, [i])]
  | (v', l) :: r => if v' == v then (v', l ++ [i]) :: r else (v', l) :: insertIdx v i r

def metaAt (hosts : List Host) (i : Nat) (k : Key) : Option Val :=
  (hosts[i]?).bind (fun h => metaGet h.md k)

/-- `initIndex`, one key: value -> ascending list of the indexes of the hosts carrying that value -/
def valueMap (hosts : List Host) (k : Key) : List (Val × List Nat) :=
  (List.range hosts.length).foldl
    (fun acc i => match metaAt hosts i k with
      | none => acc
      | some v => insertIdx v i acc) []

abbrev Index := List (Key × List (Val × List Nat))

def mkIndex (hosts : List Host) (keys : List Key) : Index :=
  keys.map (fun k => (k, valueMap hosts k))

/-- `selectHosts`: `nil`/empty set -> no host, otherwise the hosts at the set's offsets in ascending order
(`hostsCache` only memoises this function on equal sets and is not modelled). -/
def selectHosts (hosts : List Host) : Option (List Nat) → List Host
  | none => []
  | some s => if s.isEmpty then [] else s.filterMap (hosts[·]?)

def filterLoop (ix : Index) (hosts : List Host) : Path → Option (List Nat) → List Host
  | [], cur => selectHosts hosts cur
  | kv :: rest, cur =>
    match List.lookup kv.1 ix with
    | none => []
    | some vm =>
      match List.lookup kv.2 vm with
      | none => []
      | some set =>
        filterLoop ix hosts rest (some (match cur with
          | none => set                                  -- `curSet.Copy(set)`
          | some c => c.filter (set.contains ·)))         -- `curSet.IntersectionWith(set)`

/-- `filterHosts(kvs)` -/
def filterHostsIdx (ix : Index) (hosts : List Host) (kvs : Path) : List Host :=
  if Gen.Subset.filterAll kvs.length then hosts else filterLoop ix hosts kvs none

/-- `doMetadataCombination(keys, idx, kvs)`; `n = len(keys)`; `shuf` = Go's iteration order of `indexer[key]` -/
def combosGo (ix : Index) (shuf : List Val → List Val) (n : Nat) : Nat → List Key → Path → List Path
  | _, [], _ => []
  | idx, k :: ks, pre =>
    (shuf (((List.lookup k ix).getD []).map (·.1))).flatMap (fun v =>
      let nk := pre ++ [(k, v)]
      if Gen.Subset.comboMore idx n then combosGo ix shuf n (idx + 1) ks nk else [nk])

/-- `metadataCombinations(keys)` (with the empty-selector guard of the C15 fix) -/
def combos (ix : Index) (shuf : List Val → List Val) (keys : List Key) : List Path :=
  if Gen.Subset.comboEmpty keys.length then [] else combosGo ix shuf keys.length 0 keys []

/-- `if len(hosts) > 0 { entry.CreateLoadBalancer(…hosts) }` -/
def setIfNonEmpty (hs : List Host) (lb : Option (List Host)) : Option (List Host) :=
  if Gen.Subset.preCreate hs.length then some hs else lb

def preStep (ix : Index) (hosts : List Host) (root : Root) (kvs : Path) : Root :=
  modifyGo Gen.Subset.createLastPre (setIfNonEmpty (filterHostsIdx ix hosts kvs)) kvs.length 0 kvs root

def buildPre (ix : Index) (shuf : List Val → List Val) (hosts : List Host) (sels : List (List Key)) : Root :=
  sels.foldl (fun root sel => (combos ix shuf sel).foldl (preStep ix hosts) root) []

/-! ### the load balancer -/

structure LB where
  full : List Host                 -- hosts of `fullLb`
  subsets : Root
  fallback : Option (List Host)    -- hosts of `fallbackSubset`'s load balancer; `none` = no fallback entry

def fallbackOf (kind : Int) (hosts dfltHosts : List Host) : Option (List Host) :=
  if kind = 1 then some hosts else if kind = 2 then some dfltHosts else none

/-- `NewSubsetLoadBalancer` -/
def newFilter (hosts : List Host) (policy : Int) (dflt : Path) (sels : List (List Key)) : LB :=
  { full := hosts
    fallback := fallbackOf (Gen.Subset.fallbackKindFilter policy) hosts (hosts.filter (hostMatches dflt))
    subsets := buildFilter hosts sels }

/-- `NewSubsetLoadBalancerPreIndex` -/
def newPre (shuf : List Val → List Val) (hosts : List Host) (policy : Int) (dflt : Path) (sels : List (List Key)) : LB :=
  let ix := mkIndex hosts (mergeKeys sels dflt)
  { full := filterHostsIdx ix hosts []
    fallback := fallbackOf (Gen.Subset.fallbackKindPre policy) hosts (filterHostsIdx ix hosts dflt)
    subsets := buildPre ix shuf hosts sels }

/-- inner load balancer: host list -> balancer state -> chosen host -/
abbrev Inner := List Host → Nat → Option Host

def entryHostNum (e : Trie) : Int := Gen.Subset.entryHostNum e.lb.isSome ((e.lb.getD []).length : Int)
def entryActive (e : Trie) : Bool := Gen.Subset.entryActive (entryHostNum e)

/-- what the request carries: no context at all, a context without match criteria, or criteria -/
inductive Query where
  | nilCtx
  | nilCrit
  | crit (c : Path)
  deriving DecidableEq, Repr

def Query.criteria : Query → Option Path
  | .crit c => some c
  | _ => none

/-- `tryChooseHostFromContext` -/
def tryChoose (inner : Inner) (lb : LB) (c? : Option Path) (d : Nat) : Option Host × Bool :=
  match c? with
  | none => (inner lb.full d, true)
  | some c =>
    let e := findSubset lb.subsets c
    if Gen.Subset.tryReject e.isSome (e.elim false entryActive) then (none, false)
    else (inner ((e.bind Trie.lb).getD []) d, true)

/-- `if sslb.fallbackSubset == nil { return nil }; return sslb.fallbackSubset.LoadBalancer().ChooseHost(ctx)` -/
def fallbackChoice (inner : Inner) (lb : LB) (d2 : Nat) : Option Host :=
  match lb.fallback with
  | none => none
  | some f => inner f d2

/-- `ChooseHost`; `d1`, `d2` are the states of the subset's (or full) and the fallback's inner balancers -/
def chooseHost (inner : Inner) (lb : LB) (q : Query) (d1 d2 : Nat) : Option Host :=
  match q with
  | .nilCtx => fallbackChoice inner lb d2
  | q =>
    let r := tryChoose inner lb q.criteria d1
    if Gen.Subset.chooseAccept r.2 r.1.isSome then r.1 else fallbackChoice inner lb d2

/-- the fallback branch of `HostNum` -/
def fallbackNum (lb : LB) : Int :=
  match lb.fallback with
  | some f => f.length
  | none => 0

/-- the fallback branch of `IsExistsHosts` -/
def fallbackExists (lb : LB) : Bool :=
  match lb.fallback with
  | some f => decide (f.length > 0)
  | none => false

/-- `HostNum(metadata)` (plain balancers answer `hosts.Size()`) -/
def hostNum (lb : LB) (c? : Option Path) : Int :=
  match c? with
  | none => lb.full.length
  | some c =>
    let e := findSubset lb.subsets c
    if Gen.Subset.hostNumAccept e.isSome (e.elim false entryActive) then e.elim 0 entryHostNum
    else fallbackNum lb

/-- `IsExistsHosts(metadata)` (plain balancers answer `hosts.Size() > 0`) -/
def isExists (lb : LB) (c? : Option Path) : Bool :=
  match c? with
  | none => decide (lb.full.length > 0)
  | some c =>
    let e := findSubset lb.subsets c
    if Gen.Subset.existsAccept e.isSome (e.elim false entryActive) then true
    else fallbackExists lb

/-! ### round-robin inner balancer (`roundRobinLoadBalancer.ChooseHost`), as written -/

/-- try the indexes `(start + i) % n` for `i < cnt` in order, return the first healthy host -/
def rrScan (l : List Host) (start : Nat) (cnt : Nat) : Option Host :=
  (List.range cnt).findSome? (fun i =>
    match l[(start + i) % l.length]? with
    | some h => if h.healthy then some h else none
    | none => none)

/-- `c` = value of `rrIndex` before the call. First pass: `total` atomic increments; second pass (issue 1663)
starts at the following index. (uint32 wrap-around of the counter is not modelled.) -/
def rrChoose : Inner := fun l c =>
  if l.length = 0 then none else
  match rrScan l (c + 1) l.length with
  | some h => some h
  | none => rrScan l (c + l.length + 1) l.length

/-! ### declarative reference (`Spec`): written from the property statement, independent of `Gen` -/

/-- a host's metadata contains all the pairs -/
def contains (h : Host) (kvs : Path) : Bool := kvs.all (fun kv => List.lookup kv.1 h.md == some kv.2)

def sameKeySet (a b : List Key) : Bool := a.all (b.contains ·) && b.all (a.contains ·)

/-- a subset selector exists for exactly the criteria's key set (raw, un-normalised selector configuration) -/
def selectorExists (raw : List (List Key)) (crit : Path) : Bool :=
  !crit.isEmpty && raw.any (fun s => sameKeySet s (crit.map (·.1)))

/-- hosts the fallback policy allows: 0 none, 1 any endpoint, 2 default subset (other values: no fallback) -/
def specFallbackPool (hosts : List Host) (policy : Nat) (dflt : Path) : List Host :=
  match policy with
  | 1 => hosts
  | 2 => hosts.filter (contains · dflt)
  | _ => []

/-- the pool `HostNum`/`IsExistsHosts` speak about: the matching subset when a selector exists and a host is in it,
otherwise the fallback pool -/
def specPool (hosts : List Host) (raw : List (List Key)) (policy : Nat) (dflt : Path) (crit : Path) : List Host :=
  let m := hosts.filter (contains · crit)
  if selectorExists raw crit && !m.isEmpty then m else specFallbackPool hosts policy dflt

/-- the hosts a request may be sent to (load balancers only return healthy hosts): the healthy hosts of the matching
subset when a selector exists and the subset has one, otherwise the healthy hosts of the fallback pool -/
def specTargets (hosts : List Host) (raw : List (List Key)) (policy : Nat) (dflt : Path) (crit : Path) : List Host :=
  let m := (hosts.filter (contains · crit)).filter (·.healthy)
  if selectorExists raw crit && !m.isEmpty then m else (specFallbackPool hosts policy dflt).filter (·.healthy)

/-- criteria as the router builds them: strictly sorted by key -/
def strictSorted : List Key → Bool
  | [] => true
  | [_] => true
  | a :: b :: r => decide (a < b) && strictSorted (b :: r)

end MosnVerif.Model.Subset
