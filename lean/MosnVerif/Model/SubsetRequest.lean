import MosnVerif.Gen.SubsetRequest
import MosnVerif.Model.Subset
/-!
Model of the request path of subset load balancing (C15): how the match criteria of ONE request are assembled from the
route's `metadata_match` criteria object — an object *shared by every request that matches the route* — and the
per-request criteria (`types.VarRouterMeta`, a `map[string]string` set by a stream filter), and what a SEQUENCE of
requests on one route does to that shared object.  Core Lean only.

* `pkg/router/configutility.go`: `merge` (array computation, stored into the *receiver*, sorted with `Less`),
  `NewMetadataMatchCriteriaImpl`, `MergeMatchCriteria`;  which object `merge` runs on / is returned is the regenerated
  `Gen.SubsetRequest.newImpl*` / `mergeMatch*` (0 nil, 1 the method's receiver, 2 an object allocated in the function);
* `pkg/proxy/downstream.go` `downStream.MetadataMatchCriteria`: the regenerated `Gen.SubsetRequest.assemble`, instantiated
  with the primitives below (`copyRoute`, `retRoute`, `retNew`, `retMerge`, `retNil`);
* `pkg/router/base_rule.go`: which criteria object a route owns (`routeObject`, `weightedObject`, `ruleCriteria`);
* `pkg/upstream/cluster/cluster_manager.go` `getActiveConnectionPool`: `HostNum(criteria) == 0` ⇒ no host, otherwise
  `ChooseHost` (`proxyChoose`).

A criteria object is its array `Path`; `Option Path` = a possibly-nil object.  Go maps are association lists whose
order is the (arbitrary) iteration order; keys are unique in a Go map, the theorems state that as `Nodup` hypotheses.
-/
namespace MosnVerif.Model.SubsetRequest
open MosnVerif MosnVerif.Model.Subset

/-- Go map store `m[k] = v` on an association list: replace the binding of the key or append -/
def mapSet (kv : KV) : Meta → Meta
  | [] => [kv]
  | x :: r => if x.1 == kv.1 then kv :: r else x :: mapSet kv r

/-- one insertion of `sort.Sort(mmcti)` seen as an insertion sort under the regenerated `Less` (keys are unique, so any
correct sort gives this list) -/
def insertBy (kv : KV) : Path → Path
  | [] => [kv]
  | x :: r => if Gen.SubsetRequest.critLess x.1 kv.1 then x :: insertBy kv r else kv :: x :: r

def sortCrit (l : Path) : Path := l.foldr insertBy []

/-- `merge(parent, m)`: the array that is stored into the receiver.  `base` = the parent's pairs (when a parent is
given), then every pair of the map replaces the parent's pair with that key (`existingMap` only knows the parent's
keys) or is appended; finally sorted. -/
def mergeArr (parent : Option Path) (m : Meta) : Path :=
  let base := if Gen.SubsetRequest.mergeTakesParent parent.isSome then parent.getD [] else []
  sortCrit (m.foldl (fun arr kv =>
    if Gen.SubsetRequest.mergeUpdates (List.lookup kv.1 base).isSome then mapSet kv arr else arr ++ [kv]) base)

/-- the array of object `code` before the merge: 1 = the method's receiver, 2 = the freshly allocated object (zero
value: no array), anything else = nil -/
def objVal (self : Option Path) (code : Int) : Option Path :=
  if code = 1 then self else if code = 2 then some [] else none

/-- a function of the form `[x := &MetadataMatchCriteriaImpl{}]; o.merge(p, m); return r`:
(the returned object's array, the method receiver's array afterwards) -/
def objCall (o p r : Int) (self : Option Path) (m : Meta) : Option Path × Option Path :=
  let arr := mergeArr (objVal self p) m
  let self' := if o = 1 then some arr else self
  let fresh' : Option Path := if o = 2 then some arr else some []
  (if r = 1 then self' else if r = 2 then fresh' else none, self')

/-- `router.NewMetadataMatchCriteriaImpl(m)` (a function: no receiver) -/
def newImpl (m : Meta) : Option Path :=
  (objCall Gen.SubsetRequest.newImplRecv Gen.SubsetRequest.newImplParent Gen.SubsetRequest.newImplRet none m).1

/-- `self.MergeMatchCriteria(m)`: (returned object, `self` afterwards) -/
def mergeMatch (self : Option Path) (m : Meta) : Option Path × Option Path :=
  objCall Gen.SubsetRequest.mergeMatchRecv Gen.SubsetRequest.mergeMatchParent Gen.SubsetRequest.mergeMatchRet self m

/-! ### the route's criteria object (`base_rule.go`) -/

/-- `NewRouteRuleImplBase`: `if len(route.Route.MetadataMatch) > 0 { … = NewMetadataMatchCriteriaImpl(…) }` -/
def routeObject (md : Meta) : Option Path :=
  if Gen.SubsetRequest.routeOwnsCriteria md.length then newImpl md else none

/-- `getWeightedClusterEntry`: a weighted cluster always owns an object (possibly with an empty array) -/
def weightedObject (md : Meta) : Option Path := newImpl md

/-- `RouteRuleImplBase.MetadataMatchCriteria(clusterName)`: the default object, or the object of the weighted cluster
of that name (`found`) when the route has weighted clusters -/
def ruleCriteria (nWeighted : Nat) (found : Option (Option Path)) (dflt : Option Path) : Option Path :=
  if Gen.SubsetRequest.weightedConsulted nWeighted then found.getD dflt else dflt

/-! ### one request: `downStream.MetadataMatchCriteria` -/

structure St where
  /-- the route's shared criteria object (`none`: the route has none, `routerMeta == nil`) -/
  route : Option Path
  /-- the request's `VarRouterMeta` map (meaningful when the variable is set) -/
  var : Meta

structure Res where
  /-- the criteria object handed to the load balancer (`none`: nil, no criteria) -/
  used : Option Path
  /-- the route's shared criteria object after the call -/
  route : Option Path
  deriving DecidableEq, Repr

/-- `for _, kv := range routerMeta.MetadataMatchCriteria() { if _, ok := varMeta[k]; cond(ok) { varMeta[k] = v } }` -/
def copyRoute (cond : Bool → Bool) (s : St) : St :=
  { route := s.route
    var := List.foldl (fun vm kv => if cond (List.lookup kv.1 vm).isSome then mapSet kv vm else vm) s.var
      (s.route.getD []) }

def retRoute (s : St) : Res := ⟨s.route, s.route⟩
def retNew (s : St) : Res := ⟨newImpl s.var, s.route⟩
def retMerge (s : St) : Res := let r := mergeMatch s.route s.var; ⟨r.1, r.2⟩
def retNil (s : St) : Res := ⟨none, s.route⟩

/-- the criteria of one request: `route` = the route's shared object before the request, `var` = the request's
`VarRouterMeta` (`none`: unset) -/
def assemble (route : Option Path) (var : Option Meta) : Res :=
  Gen.SubsetRequest.assemble copyRoute retRoute retNew retMerge retNil var.isSome route.isSome ⟨route, var.getD []⟩

/-- a sequence of requests on one route: request `k` sees the shared object as request `k-1` left it -/
def runSeq (route : Option Path) : List (Option Meta) → List Res
  | [] => []
  | r :: rs => let x := assemble route r; x :: runSeq x.route rs

/-! ### the host the proxy gets (`getActiveConnectionPool`) -/

def queryOf : Option Path → Query
  | none => .nilCrit
  | some c => .crit c

/-- `try := snapshot.HostNum(criteria); if try == 0 { no host }; host := lb.ChooseHost(ctx)` -/
def proxyChoose (inner : Inner) (lb : LB) (used : Option Path) (d1 d2 : Nat) : Option Host :=
  if Gen.SubsetRequest.noHostWhen (hostNum lb used) then none else chooseHost inner lb (queryOf used) d1 d2

/-! ### declarative reference, written from the property statement (independent of `Gen`) -/

/-- the key/value pairs request `req` carries on a route configured with the criteria map `rc` (`none`: the route has
no criteria object): the request's own pairs, and the route's pairs for the keys the request does not set -/
def effectiveCrit (rc : Option Meta) (req : Option Meta) : Option Meta :=
  match req with
  | none => rc
  | some m => some (m ++ (rc.getD []).filter (fun kv => !(m.map (·.1)).contains kv.1))

/-- the hosts that request may be sent to: without criteria the healthy hosts of the cluster, otherwise `specTargets`
of exactly that request's pairs -/
def requestTargets (hosts : List Host) (raw : List (List Key)) (policy : Nat) (dflt : Path)
    (rc : Option Meta) (req : Option Meta) : List Host :=
  match effectiveCrit rc req with
  | none => hosts.filter (·.healthy)
  | some kvs => specTargets hosts raw policy dflt kvs

/-! ### a merge done in place (what `MergeMatchCriteria` does to its receiver), for the negative witness -/

/-- `downStream.MetadataMatchCriteria` if it returned `routerMeta.MergeMatchCriteria(varMeta)` for a request that
carries per-request criteria on a route with criteria -/
def assembleInPlace (route : Option Path) (var : Option Meta) : Res :=
  match var, route with
  | none, _ => ⟨route, route⟩
  | some m, none => ⟨newImpl m, none⟩
  | some m, some _ => let r := mergeMatch route m; ⟨r.1, r.2⟩

def runSeqInPlace (route : Option Path) : List (Option Meta) → List Res
  | [] => []
  | r :: rs => let x := assembleInPlace route r; x :: runSeqInPlace x.route rs

end MosnVerif.Model.SubsetRequest
