import MosnVerif.Gen.PoolMux
import MosnVerif.Gen.PoolMuxMoves
import MosnVerif.Model.PoolSpec
/-!
Model of the xprotocol multiplex pool (`pkg/stream/xprotocol/connpool_multiplex.go`): one *slot* per allowed
connection; a slot holds nothing, a placeholder client (no connection) or a client with a connection.  A client's
`state` word walks Init → Connecting → Connected → GoAway; `CheckAndInit` recycles the word of the client it finds in
the slot (Init / GoAway → Connecting) and has a goroutine connect a successor; a client also has the separate `goaway`
word (the repaired code).  Many requests share one connection.

Books: the slots, the clients' words, `Requests().Cur()`, the host / cluster upstream `request_active` gauges.  Truth: which TCP connections are open, which streams are in
flight on which connection, what each stream's listeners were told.  Every decision is a regenerated function of
`Gen/PoolMux.lean` (and `Gen/Pool.lean` for the requests breaker and `BaseStream`).  One operation = one call into the
pool / one event, run to quiescence (the connecting goroutine has finished, close events are delivered, streams of a
dead connection are reset and destroyed).

Which conserved counters an admitted `NewStream` moves — separately for a ONE-WAY request (`receiver == nil`) and an
ordinary one — and what `OnDestroyStream` gives back are the regenerated `Gen/PoolMuxMoves.lean`.  A one-way client
stream is not entered into the connection's stream table, gets no response and is never destroyed or reset (conn.go
`NewStream`, stream.go `endStream`; the proxy skips the upstream reset for one-way requests): in the model it is a
result (`ok c`) and nothing else — whatever it took would never be given back.
-/
namespace MosnVerif.Model.PoolMux
open MosnVerif.Gen.PoolMux MosnVerif.Gen.PoolMuxMoves MosnVerif.Gen.Pool
open MosnVerif.Model.Pool (Stream Dial)

/-- a client object that owns a connection -/
structure MClient where
  state   : Nat := muxConnected   -- activeClientMultiplex.state
  goaway  : Nat := 0              -- activeClientMultiplex.goaway
  slot    : Nat := 0              -- indexInPool
  netOpen : Bool := true          -- truth: the TCP connection is open
  deriving DecidableEq, Repr

/-- content of a slot (`activeClients[i].Load(subProtocol)`) -/
inductive SlotV
  | empty
  | fake (state : Nat)     -- placeholder made by CheckAndInit (no connection)
  | real (c : Nat)         -- client number c (= connection number c)
  deriving DecidableEq, Repr

structure State where
  nSlots   : Nat
  maxReq   : Nat
  slot     : Nat → SlotV := fun _ => .empty
  nClients : Nat := 0
  client   : Nat → MClient := fun _ => {}
  nStreams : Nat := 0
  stream   : Nat → Stream := fun _ => { conn := 0 }
  reqCur   : Int := 0
  actHost    : Int := 0     -- host's upstream request_active gauge
  actCluster : Int := 0     -- cluster's upstream request_active gauge
  ext      : Nat := 0
  shutdown : Bool := false
  rr       : Nat := 0       -- currentCheckAndInitIdx

def init (maxConn maxReq : Nat) : State := { nSlots := (muxSlots maxConn).toNat, maxReq := maxReq }

def State.updC (s : State) (c : Nat) (f : MClient → MClient) : State :=
  { s with client := fun k => if k = c then f (s.client c) else s.client k }

def State.setSlot (s : State) (i : Nat) (v : SlotV) : State :=
  { s with slot := fun k => if k = i then v else s.slot k }

/-- number of live streams on connection `c` among the first `n` -/
def countOn (f : Nat → Stream) (c : Nat) : Nat → Nat
  | 0 => 0
  | n + 1 => countOn f c n + (if (f n).live && (f n).conn == c then 1 else 0)

def State.activeOn (s : State) (c : Nat) : Nat := countOn s.stream c s.nStreams

def State.liveCount (s : State) : Nat := MosnVerif.Model.Pool.countLive s.stream s.nStreams

/-- the state word of what sits in a slot -/
def State.slotState (s : State) (i : Nat) : Option Nat :=
  match s.slot i with
  | .empty => none
  | .fake st => some st
  | .real c => some (s.client c).state

def State.setSlotState (s : State) (i : Nat) (st : Nat) : State :=
  match s.slot i with
  | .empty => s
  | .fake _ => s.setSlot i (.fake st)
  | .real c => s.updC c (fun cl => { cl with state := st })

def iter (f : Int → Int) : Nat → Int → Int
  | 0, x => x
  | n + 1, x => iter f n (f x)

/-- the regenerated movements `m` of one call path, carried out `n` times -/
def movesN (m : Moves) (n : Nat) (s : State) : State :=
  { s with
    reqCur := iter (fun x => iter (resDecrease s.maxReq) m.reqDec (iter (resIncrease s.maxReq) m.reqInc x)) n s.reqCur,
    actHost := s.actHost + n * m.host, actCluster := s.actCluster + n * m.cluster }

/-- what a destroyed stream gives back: `OnDestroyStream` runs only for streams the pool's client listens to -/
def destroyMoves : Moves :=
  if (muxLeaseMoves false).listens then muxDestroyMoves else { reqInc := 0, reqDec := 0, host := 0, cluster := 0, listens := false }

/-- pool part of a close event of client `c` (`onConnectionEvent`, close branch) -/
def poolOnClose (s : State) (c : Nat) : State :=
  let cl := s.client c
  if muxDeleteOnClose cl.state (decide (s.slot cl.slot = .real c)) then s.setSlot cl.slot .empty else s

/-- the TCP connection of client `c` goes away; the pool's close listener runs (`Connection.Close` is idempotent) -/
def netDown (s : State) (c : Nat) : State :=
  if (s.client c).netOpen then poolOnClose (s.updC c (fun cl => { cl with netOpen := false })) c else s

/-- every live stream on connection `c` is reset (`reason`) and destroyed (`streamConn.Reset`); their table entries
stay (`connReset`), so no `OnDestroyStream` sees an empty table: nothing is closed here. -/
def killOn (s : State) (c : Nat) (reason : String) : State :=
  movesN destroyMoves (s.activeOn c)
    { s with
      stream := fun i => let st := s.stream i
        if st.live && st.conn == c then { st with state := destroyedState, resets := st.resets ++ [reason], destroys := st.destroys + 1 } else st }

/-- the connection of client `c` closes (either side, or a decode error) -/
def netClose (s : State) (c : Nat) (reason : String) : State :=
  if c < s.nClients ∧ (s.client c).netOpen then killOn (netDown s c) c reason else s

def connLost : String := reasonStreamConnectionFailed

/-- `OnDestroyStream` of the pool's client after stream `i` left the table -/
def onStreamDestroy (s : State) (c : Nat) : State :=
  let s1 := movesN destroyMoves 1 s
  let cl := s1.client c
  -- (closing = the close event + the reset of whatever is still in the connection's table: nothing, here)
  if muxCloseOnDestroy cl.state cl.goaway (s1.activeOn c) then netClose s1 c connLost else s1

/-- what a stream looks like after it ended: response delivered (`reset = none`) or reset with a reason -/
def ended (st : Stream) (reset : Option String) : Stream :=
  { st with state := destroyedState, destroys := st.destroys + 1,
            resets := match reset with | some r => st.resets ++ [r] | none => st.resets,
            recv := match reset with | some _ => st.recv | none => st.recv + 1 }

/-- a single stream ends: response (`reset = none`) or local reset -/
def endStream (s : State) (i : Nat) (reset : Option String) : State :=
  let st := s.stream i
  if destroyProceeds st.state then
    onStreamDestroy { s with stream := fun k => if k = i then ended st reset else s.stream k } st.conn
  else s

inductive Op
  | checkAndInit (slot : Option Nat) (dial : Dial)   -- none: no slot in the downstream context (round robin)
  | newStream (slot : Nat)
  | newStreamOneway (slot : Nat)   -- `NewStream(ctx, nil)`: a one-way request
  | response (i : Nat)
  | localReset (i : Nat)
  | garbage (i : Nat)
  | goAway (c : Nat)
  | connClose (c : Nat) (remote : Bool)
  | shutdown
  | closeAll
  | extInc
  | extDec
  deriving Repr

inductive Res | none | ok (c : Nat) | overflow | connFail | ready (b : Bool)
  deriving DecidableEq, Repr

def Res.isOk : Res → Bool
  | .ok _ => true
  | _ => false

/-- the slot a call works on: with one slot always 0, otherwise the index in the context -/
def slotIdx (s : State) (k : Nat) : Nat := if s.nSlots > 1 then k else 0

/-- `init(sub, index)`: the connecting goroutine -/
def connect (s : State) (i : Nat) (dial : Dial) : State :=
  if muxInitChecksShutdown && s.shutdown then s
  else if dial.fails then s.setSlot i .empty
  else
    { s.setSlot i (.real s.nClients) with
      nClients := s.nClients + 1,
      client := fun k => if k = s.nClients then { state := muxFreshState, slot := i } else s.client k }

/-- a placeholder client in state Init is stored into an empty slot (`LoadOrStore`) -/
def withPlaceholder (s : State) (i : Nat) : State :=
  match s.slot i with
  | .empty => s.setSlot i (.fake muxInit)
  | _ => s

/-- `CheckAndInit` on the client found in slot `i` -/
def checkClient (s1 : State) (i : Nat) (dial : Dial) : State × Res :=
  match s1.slotState i with
  | none => (s1, .ready false)
  | some st =>
    if muxReady st then (s1, .ready true)
    else if muxReinitFrom.contains st then (connect (s1.setSlotState i muxReinitTo) i dial, .ready false)
    else (s1, .ready false)

/-- `CheckAndInit` once the slot is chosen (an index outside `activeClients` would panic in Go: never generated) -/
def checkSlot (s0 : State) (i : Nat) (dial : Dial) : State × Res :=
  if i < s0.nSlots then checkClient (withPlaceholder s0 i) i dial else (s0, .ready false)

def checkAndInit (s : State) (slot : Option Nat) (dial : Dial) : State × Res :=
  match slot with
  | some k => checkSlot s (slotIdx s k) dial
  | none =>
    -- no slot in the downstream context: the pool's counter chooses (only with more than one slot)
    if s.nSlots > 1 then checkSlot { s with rr := s.rr + 1 } ((s.rr + 1) % s.nSlots) dial else checkSlot s 0 dial

def lease (s : State) (c : Nat) : State :=
  movesN (muxLeaseMoves false) 1
    { s with nStreams := s.nStreams + 1, stream := fun k => if k = s.nStreams then { conn := c } else s.stream k }

/-- an admitted one-way request: the regenerated movements of the `receiver == nil` path; no stream is entered anywhere -/
def leaseOneway (s : State) : State := movesN (muxLeaseMoves true) 1 s

def newStream (s : State) (k : Nat) : State × Res :=
  let i := slotIdx s k
  if i ≥ s.nSlots then (s, .connFail) else
  match s.slot i with
  | .empty => (s, .connFail)
  | .fake _ => (s, .connFail)          -- a placeholder is never Connected
  | .real c =>
    if muxUnusable (s.client c).state then (s, .connFail)
    else if !canCreate s.maxReq s.reqCur then (s, .overflow)
    else (lease s c, .ok c)

/-- `NewStream(ctx, nil)`: the same tests as for an ordinary request -/
def newStreamOneway (s : State) (k : Nat) : State × Res :=
  let i := slotIdx s k
  if i ≥ s.nSlots then (s, .connFail) else
  match s.slot i with
  | .empty => (s, .connFail)
  | .fake _ => (s, .connFail)
  | .real c =>
    if muxUnusable (s.client c).state then (s, .connFail)
    else if !canCreate s.maxReq s.reqCur then (s, .overflow)
    else (leaseOneway s, .ok c)

def slotClients (s : State) : List Nat :=
  (List.range s.nSlots).filterMap (fun i => match s.slot i with | .real c => some c | _ => none)

def step (s : State) : Op → State × Res
  | .checkAndInit slot dial => checkAndInit s slot dial
  | .newStream k => newStream s k
  | .newStreamOneway k => newStreamOneway s k
  | .response i =>
    if i < s.nStreams ∧ (s.stream i).live then (endStream s i none, .none) else (s, .none)
  | .localReset i =>
    if i < s.nStreams ∧ (s.stream i).live then (endStream s i (some reasonStreamLocalReset), .none) else (s, .none)
  | .garbage i =>
    if i < s.nStreams ∧ (s.stream i).live then (netClose s (s.stream i).conn connLost, .none) else (s, .none)
  | .goAway c =>
    if c < s.nClients ∧ (s.client c).netOpen then
      let s1 := s.updC c (fun cl => { cl with goaway := if muxGoAwaySetsFlag then muxGoAway else cl.goaway, state := muxGoAwayState })
      (if muxCloseOnGoAway (s1.activeOn c) then netClose s1 c connLost else s1, .none)
    else (s, .none)
  | .connClose c _ => (netClose s c connLost, .none)
  | .shutdown => ({ s with shutdown := true }, .none)
  | .closeAll => ((slotClients s).foldl (fun s c => netClose s c connLost) s, .none)
  | .extInc => ({ s with reqCur := resIncrease s.maxReq s.reqCur, ext := s.ext + 1 }, .none)
  | .extDec => if s.ext > 0 then ({ s with reqCur := resDecrease s.maxReq s.reqCur, ext := s.ext - 1 }, .none) else (s, .none)

def run (s : State) : List Op → State
  | [] => s
  | op :: r => run (step s op).1 r

def trace (s : State) : List Op → List (Res × State)
  | [] => []
  | op :: r => let (s', res) := step s op; (res, s') :: trace s' r

/-! ### observation: the token the harness prints after each operation -/

def stateLetter (st : Nat) : String :=
  if st = muxInit then "I" else if st = muxConnecting then "K" else if st = muxConnected then "C"
  else if st = muxGoAway then "G" else "?"

def renderSlots (s : State) : String :=
  ",".intercalate ((List.range s.nSlots).map (fun i =>
    match s.slot i with
    | .empty => "-"
    | .fake st => stateLetter st ++ "f"
    | .real c => s!"{stateLetter (s.client c).state}{c}"))

def Res.render : Res → String
  | .none => "-" | .ok c => s!"ok{c}" | .overflow => "ovf" | .connFail => "cf"
  | .ready b => if b then "t" else "f"

def renderConns (s : State) : String :=
  String.join ((List.range s.nClients).map (fun c => if (s.client c).netOpen then "o" else "c"))

def renderStreams (s : State) : String :=
  ",".intercalate ((List.range s.nStreams).map (fun i =>
    let st := s.stream i
    s!"{st.conn}:{st.recv}:{String.join (st.resets.map MosnVerif.Model.Pool.reasonLetter)}:{st.destroys}"))

def render (res : Res) (s : State) : String :=
  s!"{res.render};b{renderSlots s};d{if s.shutdown then 1 else 0};q{s.reqCur};a{s.actHost}:{s.actCluster};n{renderConns s};s{renderStreams s}"

/-! ### executable property predicate on observations (declarative; never looks at the pool's decisions) -/

structure OSlot where
  present : Bool
  connected : Bool        -- the client's state word says Connected
  conn : Option Nat       -- its connection (none: placeholder)
  deriving DecidableEq, Repr

structure Obs where
  slots   : List OSlot
  reqCur  : Int
  actHost    : Int      -- host's upstream request_active gauge
  actCluster : Int      -- cluster's upstream request_active gauge
  conns   : List Bool
  streams : List MosnVerif.Model.Pool.OStream
  deriving DecidableEq, Repr

def Obs.liveConns (o : Obs) : List Nat := (o.streams.filter (·.live)).map (·.conn)
def Obs.isOpen (o : Obs) (c : Nat) : Bool := o.conns.getD c false
/-- connections the pool would lease a request on -/
def Obs.usable (o : Obs) : List Nat := o.slots.filterMap (fun sl => if sl.present && sl.connected then sl.conn else none)

/-- the quiescent-point statement for a multiplex pool: counters equal the truth (the requests breaker and both upstream
request_active gauges count exactly the requests that will end: those in flight with a receiver — a one-way request,
which nothing ever ends, holds nothing); a connection the pool would use is
open; requests in flight are on open connections; an open connection is one the pool uses or is draining (still has a
request in flight) — never open, unused and unreachable; every stream ends at most once. -/
def obsSpec (maxReq ext : Nat) (o : Obs) : Bool :=
  decide (o.reqCur = if maxReq = 0 then 0 else (ext : Int) + (o.liveConns.length : Int)) &&
  decide (o.actHost = (o.liveConns.length : Int)) && decide (o.actCluster = (o.liveConns.length : Int)) &&
  o.usable.all (fun c => o.isOpen c) &&
  o.liveConns.all (fun c => o.isOpen c) &&
  (List.range o.conns.length).all (fun c => !o.isOpen c || o.usable.contains c || o.liveConns.contains c) &&
  o.streams.all (fun st => decide (st.destroys ≤ 1) && decide (st.recv ≤ 1) && decide (st.resets ≤ 1) &&
    (st.recv == 0 || (st.destroys == 1 && st.resets == 0)))

/-- one `NewStream` against the observation before it: granted exactly when the slot holds a Connected client and the
requests breaker has room, then on that client's connection; a refusal changes nothing. -/
def newStreamSpec (maxReq ext : Nat) (idx : Nat) (before : Obs) (granted : Option Nat) (after : Obs) : Bool :=
  let room := decide (maxReq = 0 ∨ (ext : Int) + before.liveConns.length < maxReq)
  let usable := match before.slots[idx]? with
    | some sl => if sl.present && sl.connected then sl.conn else none
    | none => none
  (granted.isSome || after == before) &&
  (granted == (if room then usable else none))

/-- one ONE-WAY `NewStream` against the observation before it: admitted exactly like an ordinary request — and granted or
not it changes no counter, slot, connection or stream: nothing would ever give it back. -/
def onewaySpec (maxReq ext : Nat) (idx : Nat) (before : Obs) (granted : Option Nat) (after : Obs) : Bool :=
  let room := decide (maxReq = 0 ∨ (ext : Int) + before.liveConns.length < maxReq)
  let usable := match before.slots[idx]? with
    | some sl => if sl.present && sl.connected then sl.conn else none
    | none => none
  after == before && (granted == (if room then usable else none))

def obsOf (s : State) : Obs :=
  { slots := (List.range s.nSlots).map (fun i => match s.slot i with
      | .empty => ⟨false, false, none⟩
      | .fake st => ⟨true, decide (st = muxConnected), none⟩
      | .real c => ⟨true, decide ((s.client c).state = muxConnected), some c⟩),
    reqCur := s.reqCur, actHost := s.actHost, actCluster := s.actCluster,
    conns := (List.range s.nClients).map (fun c => (s.client c).netOpen),
    streams := (List.range s.nStreams).map (fun i =>
      let st := s.stream i
      { conn := st.conn, recv := st.recv, resets := st.resets.length, destroys := st.destroys }) }

end MosnVerif.Model.PoolMux
