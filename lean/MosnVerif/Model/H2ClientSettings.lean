import MosnVerif.Gen.H2Limits
import MosnVerif.Gen.C08H2Settings
/-!
# [c08l9] SETTINGS from an upstream and the frame-chunking loops of the HTTP/2 client (C08: no unbounded loop)

`MClientConn.processSettings` hands every parameter of a SETTINGS frame to one callback; the value of MAX_FRAME_SIZE it
stores is the step of three loops on the goroutine that writes a request: `MClientConn.writeHeaders` (HEADERS +
CONTINUATION), `MClientStream.writeDataAndTrailer` with `awaitFlowControl` (DATA) and `MFramer.writeData` (fragments of
the constant size).  The loops are modelled with FUEL: `none` = the fuel ran out = the Go loop does not end.
Whether the callback validates first, what it assigns, the loop's tests and the constant are regenerated
(Gen/C08H2Settings, Gen/H2Limits.settingInvalidCode = `Setting.Valid`).
-/
namespace MosnVerif.Model.H2ClientSettings
open MosnVerif.Gen

/-- the fields of MClientConn a SETTINGS parameter is stored in -/
structure Conn where
  maxFrameSize : Nat
  maxConcurrent : Nat
  peerMaxHeaderList : Nat
  initialWindow : Nat
deriving Repr, DecidableEq

/-- NewClientConn: `cc.maxFrameSize = 16 << 10`, `initialWindowSize = 65535`, no limits known yet -/
def init : Conn := ⟨H2Limits.initialMaxFrameSize, 1000, 0xffffffffffffffff, H2Limits.initialWindowSize⟩

/-- a stored MAX_FRAME_SIZE inside the range of RFC 7540 §6.5.2 -/
def Conn.Ok (c : Conn) : Prop := 16384 ≤ c.maxFrameSize ∧ c.maxFrameSize ≤ 16777215

def stores (applies : List (Nat × String)) (id : Nat) (field : String) : Bool := applies.contains (id, field)

/-- one parameter through the callback of `processSettings`; `validates` = its first statement returns the error of
`s.Valid()`; `applies` = what it assigns per setting id.  error = code of the connection error (nothing more is applied,
the connection is closed). -/
def applyOne (validates : Bool) (applies : List (Nat × String)) (c : Conn) (id val : Nat) : Except Nat Conn :=
  let code := (H2Limits.settingInvalidCode (id : Int) (val : Int)).toNat
  if validates && code != 0 then .error code
  else if id == H2Limits.settingInitialWindowSize && stores applies id "cc.initialWindowSize"
      && H2Limits.clientWindowTooBig (val : Int) then .error H2Limits.errCodeFlowControl
  else .ok {
    maxFrameSize := if id == H2Limits.settingMaxFrameSize && stores applies id "cc.maxFrameSize" then val else c.maxFrameSize
    maxConcurrent := if id == H2Limits.settingMaxConcurrentStreams && stores applies id "cc.maxConcurrentStreams" then val else c.maxConcurrent
    peerMaxHeaderList := if id == H2Limits.settingMaxHeaderListSize && stores applies id "cc.peerMaxHeaderListSize" then val else c.peerMaxHeaderList
    initialWindow := if id == H2Limits.settingInitialWindowSize && stores applies id "cc.initialWindowSize" then val else c.initialWindow }

/-- `f.ForeachSetting(callback)`: stops at the first error -/
def processSettings (validates : Bool) (applies : List (Nat × String)) : Conn → List (Nat × Nat) → Except Nat Conn
  | c, [] => .ok c
  | c, (id, val) :: r =>
    match applyOne validates applies c id val with
    | .error e => .error e
    | .ok c' => processSettings validates applies c' r

/-- `chunk := hdrs; if len(chunk) > maxFrameSize { chunk = chunk[:maxFrameSize] }` -/
def chunkLen (rest m : Int) : Int := if C08H2Settings.headersChunkCut rest m then m else rest

/-- `for len(hdrs) > 0 { …; hdrs = hdrs[len(chunk):]; write one frame }`: the fragment sizes, `none` = out of fuel -/
def headerFrames (m : Int) : Nat → Int → Option (List Int)
  | 0, _ => none
  | fuel + 1, rest =>
    if rest > 0 then (headerFrames m fuel (rest - chunkLen rest m)).map (chunkLen rest m :: ·) else some []

/-- `awaitFlowControl(len(remain))` with `avail` octets of send window: min of the three -/
def take (avail maxBytes m : Int) : Int :=
  let t := if C08H2Settings.clientTakeOverBytes avail maxBytes then maxBytes else avail
  if C08H2Settings.clientTakeOverFrame t m then m else t

/-- `MFramer.writeData(data)`: fragments of at most the constant size (`data` non-nil: nothing is written for 0 octets) -/
def fragLen (rest : Int) : Int :=
  if C08H2Settings.dataFragCut rest C08H2Settings.dataFragMax then (C08H2Settings.dataFragMax : Int) else rest

def fragFrames : Nat → Int → Option (List Int)
  | 0, _ => none
  | fuel + 1, rest =>
    if rest > 0 then (fragFrames fuel (rest - fragLen rest)).map (fragLen rest :: ·) else some []

/-- `for len(remain) > 0 { allowed = awaitFlowControl(len(remain)); writeData(remain[:allowed]); remain = remain[allowed:] }`
with a send window that covers the body (`avail ≥ rest`: the wait inside awaitFlowControl is not modelled) -/
def dataFrames (m : Int) : Nat → Int → Int → Option (List Int)
  | 0, _, _ => none
  | fuel + 1, avail, rest =>
    if rest > 0 then
      let t := take avail rest m
      match fragFrames (t.toNat + 1) t, dataFrames m fuel (avail - t) (rest - t) with
      | some a, some b => some (a ++ b)
      | _, _ => none
    else some []

/-- what the scripted upstream of kind `h2set` observes -/
structure Outcome where
  settle : String
  r1 : String
  same : String
  nH : Option Nat
  maxH : Nat
  nD : Option Nat
  maxD : Nat
  zero : Nat
deriving Repr, DecidableEq

def maxOf (l : List Int) : Nat := l.foldl (fun a x => max a x.toNat) 0
def zeros (l : List Int) : Nat := (l.filter (· == 0)).length

/-- request 1 written with frame size `m`: header block of `h` octets, body of `b` octets (0 = END_STREAM on HEADERS) -/
def request (settle same : String) (m h b : Nat) : Outcome :=
  let hs := headerFrames m (h + 1) h
  let ds := dataFrames m (b + 1) H2Limits.initialWindowSize b
  match hs, ds with
  | some hf, some df =>
    { settle, r1 := "resp", same, nH := some hf.length, maxH := maxOf hf,
      nD := some (if b > 0 then df.length + 1 else 0), maxD := maxOf df, zero := zeros hf + zeros df }
  | _, _ => { settle, r1 := "runaway", same, nH := none, maxH := 0, nD := none, maxD := 0, zero := 0 }

/-- kind `h2set`: SETTINGS{id=val} on the warm connection, then a request of `hdr` header-value octets whose block the
peer measures as `h` octets, body `b`.  A refused parameter closes the connection: the request goes to a fresh one
(frame size of NewClientConn).  A header list above the peer's MAX_HEADER_LIST_SIZE is refused locally. -/
def h2setModel (validates : Bool) (applies : List (Nat × String)) (id val hdr h b : Nat) : Outcome :=
  match processSettings validates applies init [(id, val)] with
  | .error _ => request "closed" "new" init.maxFrameSize h b
  | .ok c =>
    if c.peerMaxHeaderList < hdr then
      { settle := "ack", r1 := "reset:StreamLocalReset", same := "none", nH := some 0, maxH := 0, nD := some 0, maxD := 0, zero := 0 }
    else request "ack" "same" c.maxFrameSize h b

/-- the executable property predicate (C08, written without the regenerated code): the SETTINGS frame was settled,
the request ended (response or reset — no hang, no frame runaway, no panic on the writer), and every frame the writer
sent made progress. -/
def h2setSpec (o : Outcome) : Bool :=
  o.settle != "none" && !(["hang", "hang-before-send", "runaway", "panic", ""].contains o.r1)
    && o.nH.isSome && o.nD.isSome && o.zero == 0

end MosnVerif.Model.H2ClientSettings
