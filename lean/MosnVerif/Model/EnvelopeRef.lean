import MosnVerif.Model.Bytes
import MosnVerif.Model.Tars
/-!
Declarative references (`Spec` side of C01) for the three envelope codecs, written from the wire formats with literal
offsets — nothing regenerated is used.  Each `holds` is the executable predicate `mosnmodel` evaluates on the
implementation's outputs.

Common shape.  For a received buffer `inp` that starts with a complete well-formed frame of `len` bytes:
* `Decode` must accept it and consume exactly `len` bytes;
* untouched ⇒ `Encode` returns the received frame with only the request-id field rewritten;
* body replaced (`SetData` with a new buffer) ⇒ the output parses back to the same envelope fields, the new id, the new
  body and consistent length fields;
* header-map entries changed (`Set` / `Del` on the routing metadata these codecs derive from the payload) ⇒ the change
  cannot be represented in the frame, so `Encode` must refuse (`out = none`).
Buffers that do not start with a complete well-formed frame: no demand.
-/
namespace MosnVerif.Model.EnvelopeRef
open MosnVerif.Model MosnVerif.Model.Bytes

/-- what was done to the decoded frame before `Encode` -/
structure Mods where
  hdrOps : Bool := false            -- some header Set, or a Del that removed an entry
  body : Option Bytes := none       -- last SetData with a new buffer

/-! ### dubbo: magic(2) flag(1) status(1) id(8) dataLen(4) payload -/
namespace Dubbo

/-- a complete well-formed frame at the head of `inp`: its length.  `svcOK`: the hessian payload of a non-event request
parses (service / method names), as far as the generator of the case knows. -/
def wellFormed (inp : Bytes) (svcOK : Bool) : Option Nat :=
  if inp.length < 16 then none
  else
    let dl := getBE inp 12 16
    if inp.length < 16 + dl then none
    else if 16 + dl ≥ 4294967296 then none    -- (the codec computes the frame length in uint32)
    else
      let flag := byteAt inp 2
      let isReq := flag / 128 % 2 == 1
      let isEvent := flag / 32 % 2 == 1
      if isReq && !isEvent && !(flag % 32 == 2 && svcOK) then none else some (16 + dl)

def holds (inp : Bytes) (svcOK : Bool) (m : Mods) (id : Nat) (accepted : Bool) (n : Nat) (out : Option Bytes) : Bool :=
  match wellFormed inp svcOK with
  | none => true
  | some len =>
    accepted && n == len &&
    if m.hdrOps then out == none
    else match m.body with
      | none => out == some (patch (inp.take len) 4 (be 8 id))
      | some d =>
        if d.length < 4294967296 then
          -- same magic / flag / status, the new id, DataLen = |d|, payload = d, nothing after it
          out == some (inp.take 4 ++ be 8 id ++ be 4 d.length ++ d)
        else out == none

end Dubbo

/-! ### dubbo-thrift: len(4) | magic(2) len(4) headerLen(2) version(1) svc(i32+bytes) id(8) | message -/
namespace Thrift

structure Parsed where
  total : Nat          -- bytes of the whole frame
  svc : Bytes
  idPos : Nat          -- offset of the 8-byte request id in the frame
  id : Nat
  payload : Bytes      -- the thrift message after the header
  deriving DecidableEq

/-- a complete frame whose two length fields agree with the frame and whose header length is the true header length -/
def parse (inp : Bytes) : Option Parsed :=
  if inp.length < 4 then none
  else
    let ml := getBE inp 0 4
    if inp.length < 4 + ml then none
    else if ml < 21 then none
    else if 4 + ml ≥ 4294967296 then none                -- (the codec computes the frame length in uint32)
    else
      let sl := getBE inp 13 17
      if sl ≥ 2147483648 then none
      else if ml < 21 + sl then none
      else if getBE inp 6 10 ≠ ml then none              -- inner message length = outer message length
      else if getBE inp 10 12 ≠ 21 + sl then none        -- header length = magic … request id
      else some { total := 4 + ml, svc := slice inp 17 (17 + sl), idPos := 17 + sl,
                  id := getBE inp (17 + sl) (25 + sl), payload := slice inp (25 + sl) (4 + ml) }

def holds (inp : Bytes) (msgOK : Bool) (m : Mods) (id : Nat) (accepted : Bool) (n : Nat) (out : Option Bytes) : Bool :=
  match parse inp with
  | none => true
  | some p =>
    if !msgOK then true
    else
      accepted && n == p.total &&
      if m.hdrOps then out == none
      else match m.body with
        | none => out == some (patch (inp.take p.total) p.idPos (be 8 id))
        | some d =>
          match out with
          | none => decide (21 + p.svc.length + d.length ≥ 4294967296)
          | some o =>
            match parse o with
            | some q => q.total == o.length && q.svc == p.svc && q.id == id % 18446744073709551616 && q.payload == d
            | none => false

end Thrift

/-! ### tars: totalLen(4) | packet; the request id is field tag 4 of a request, tag 3 of a response -/
namespace Tars

/-- head byte(s): (type, tag, bytes used) -/
def readHead (b : Bytes) : Option (Nat × Nat × Nat) :=
  match b with
  | [] => none
  | x :: r =>
    let ty := x.toNat % 16
    let tag := x.toNat / 16
    if tag == 15 then
      match r with
      | [] => none
      | t :: _ => some (ty, t.toNat, 2)
    else some (ty, tag, 1)

/-- payload size of an integer field of wire type `ty` (BYTE 0, SHORT 1, INT 2, LONG 3, ZERO_TAG 12) -/
def intSize (ty : Nat) : Option Nat :=
  if ty == 0 then some 1 else if ty == 1 then some 2 else if ty == 2 then some 4 else if ty == 3 then some 8
  else if ty == 12 then some 0 else none

/-- byte range `[s, e)` of integer field `tag` inside packet `p`, all earlier fields being integers with smaller tags -/
def locate (p : Bytes) (tag : Nat) : Nat → Nat → Option (Nat × Nat)
  | 0, _ => none
  | fuel + 1, off =>
    match readHead (p.drop off) with
    | none => none
    | some (ty, t, hl) =>
      match intSize ty with
      | none => none
      | some sz =>
        if t == tag then some (off, off + hl + sz)
        else if t < tag then locate p tag fuel (off + hl + sz)
        else none

/-- the received frame with only its request-id field re-encoded (and the total length adjusted to the new width) -/
def splice (inp : Bytes) (isReq : Bool) (id : Nat) : Option Bytes :=
  match MosnVerif.Model.Tars.frameLen? inp with
  | none => none
  | some n =>
    let p := (inp.take n).drop 4
    let tag := if isReq then 4 else 3
    match locate p tag 8 0 with
    | none => none
    | some (s, e) =>
      let p' := p.take s ++ MosnVerif.Model.Tars.wInt32 (MosnVerif.Model.Tars.idOf id) tag ++ p.drop e
      some (be 4 (4 + p'.length) ++ p')

/-- `valid`: the generator built a valid tars request/response packet (TarsGo's reader is a black box) -/
def holds (inp : Bytes) (isReq valid : Bool) (m : Mods) (id : Nat) (accepted : Bool) (n : Nat) (out : Option Bytes) : Bool :=
  if !valid then true
  else match MosnVerif.Model.Tars.frameLen? inp with
    | none => true
    | some len =>
      accepted && n == len &&
      if m.hdrOps || m.body.isSome then out == none     -- neither is representable: Encode re-serialises the decoded packet
      else out == splice inp isReq id

end Tars
end MosnVerif.Model.EnvelopeRef
