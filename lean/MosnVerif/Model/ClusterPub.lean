import MosnVerif.Gen.ClusterPub
/-!
Publication ORDER in the cluster manager (`pkg/upstream/cluster/cluster_manager.go`): an update is a sequence of atomic
steps and a lookup (`GetClusterSnapshot` = `clustersMap.Load` + `Snapshot()`) may run between any two of them.

* `Gen/ClusterPub.lean` is regenerated: `clusterManager.UpdateCluster` and `clusterManager.UpdateHosts` statement by
  statement (`newCluster`, `loadOld`, the handler call, `storeNew` …) and the bodies of the handlers they are called with
  (`inherit` = `nc.UpdateHosts(oc.Snapshot().HostSet())`, `build` = `NewHostSet(list)`, `publish` = `c.UpdateHosts(ns)`
  with an argument built before, `publishUnbuilt` / `touchAfter` = anything else).
* A cluster object is an address with one atomic snapshot cell (`simpleCluster.snapshot`; that a cell holds a coherent
  `(hostSet, lb)` pair is `Model/Snapshot.lean`).  The cell holds `some v` (host set number `v`, 0 = the set the cluster had
  before, thread `v` supplies set `v`) or `none`: the EMPTY set of a cluster that `NewCluster` just made / a set that is
  not filled — the "neither old nor new" a lookup must never see.
* `clustersMap[name]` is one atomic cell holding a cluster address (`sync.Map` Load/Store, trusted).
-/
namespace MosnVerif.Model.ClusterPub
open MosnVerif.Gen.ClusterPub

structure Mgr where
  /-- snapshot cell of every cluster object -/
  cl : Nat → Option Nat := fun _ => some 0
  /-- `clustersMap[name]` -/
  map : Nat := 0
  next : Nat := 1
  /-- ghost: host-set numbers that exist (0 = initial) -/
  supplied : List Nat := [0]

inductive RState where
  | start
  | gotCluster (a : Nat)
  | done (r : Option Nat)
deriving Repr, DecidableEq, Inhabited

/-- locals of an updater: version it supplies, `newCluster`, `oldCluster` / `c`, the built host set, remaining steps -/
structure UT where
  v : Nat
  nc : Option Nat := none
  oc : Option Nat := none
  ns : Option Nat := none
  todo : List CStep
deriving Inhabited

inductive Thread where
  | upd (u : UT)
  | rd (st : RState)
deriving Inhabited

structure Conf where
  m : Mgr := {}
  threads : Nat → Thread

def setCl (f : Nat → Option Nat) (a : Nat) (x : Option Nat) : Nat → Option Nat := fun k => if k = a then x else f k
def setThread (th : Nat → Thread) (t : Nat) (v : Thread) : Nat → Thread := fun u => if u = t then v else th u

/-- the cluster a handler publishes into: the new cluster when there is one, else the loaded one -/
def target (u : UT) : Option Nat := match u.nc with | some a => some a | none => u.oc

def stepUpd (m : Mgr) (u : UT) (a : CStep) (r : List CStep) : Mgr × UT :=
  match a with
  | .newCluster => ({ m with cl := setCl m.cl m.next none, next := m.next + 1 }, { u with nc := some m.next, todo := r })
  | .loadOld => (m, { u with oc := some m.map, todo := r })
  | .loadCur => (m, { u with oc := some m.map, todo := r })
  | .inherit =>
    match u.nc, u.oc with
    | some n, some o => ({ m with cl := setCl m.cl n (m.cl o) }, { u with todo := r })
    | _, _ => (m, { u with todo := r })
  | .build => ({ m with supplied := m.supplied ++ [u.v] }, { u with ns := some u.v, todo := r })
  | .publish =>
    match target u with
    | some t => ({ m with cl := setCl m.cl t u.ns }, { u with todo := r })
    | none => (m, { u with todo := r })
  | .publishUnbuilt =>
    match target u with
    | some t => ({ m with cl := setCl m.cl t none }, { u with todo := r })
    | none => (m, { u with todo := r })
  | .touchAfter =>
    match target u with
    | some t => ({ m with cl := setCl m.cl t none }, { u with todo := r })
    | none => (m, { u with todo := r })
  | .storeNew =>
    match u.nc with
    | some n => ({ m with map := n }, { u with todo := r })
    | none => (m, { u with todo := r })
  | .clusterHandler => (m, { u with todo := r })
  | .hostHandler => (m, { u with todo := r })
  | .other => (m, { u with todo := r })

/-- thread `t` is scheduled for one step. -/
def step (c : Conf) (t : Nat) : Conf :=
  match c.threads t with
  | .rd .start => { c with threads := setThread c.threads t (.rd (.gotCluster c.m.map)) }
  | .rd (.gotCluster a) => { c with threads := setThread c.threads t (.rd (.done (c.m.cl a))) }
  | .rd (.done _) => c
  | .upd u =>
    match u.todo with
    | [] => c
    | a :: r =>
      let (m', u') := stepUpd c.m u a r
      { m := m', threads := setThread c.threads t (.upd u') }

def run (c : Conf) (sched : List Nat) : Conf := sched.foldl step c

/-- the handler call of an updater replaced by the handler's own steps. -/
def expand (h : List CStep) (prog : List CStep) : List CStep :=
  prog.flatMap (fun s => if s = .clusterHandler ∨ s = .hostHandler then h else [s])

/-- threads `1 … nUpd` run `prog` (thread `v` supplies host set `v`), all other ids are lookups. -/
def initConf (prog : List CStep) (nUpd : Nat) : Conf :=
  { threads := fun t => if 1 ≤ t ∧ t ≤ nUpd then .upd { v := t, todo := prog } else .rd .start }

/-- static facts the order check tracks along a program -/
structure Chk where
  hasNc : Bool := false
  ncFilled : Bool := false
  hasOc : Bool := false
  built : Bool := false
deriving DecidableEq, Repr

/-- **publication order**: a host set is built completely before it is published, a new cluster is stored into
`clustersMap` only after it was given its host set, and nothing touches a published set. -/
def okFrom (k : Chk) : List CStep → Bool
  | [] => true
  | .newCluster :: r => okFrom { k with hasNc := true, ncFilled := false } r
  | .loadOld :: r => okFrom { k with hasOc := true } r
  | .loadCur :: r => okFrom { k with hasOc := true } r
  | .inherit :: r => k.hasNc && k.hasOc && okFrom { k with ncFilled := true } r
  | .build :: r => okFrom { k with built := true } r
  | .publish :: r => k.built && (if k.hasNc then okFrom { k with ncFilled := true } r else k.hasOc && okFrom k r)
  | .storeNew :: r => k.hasNc && k.ncFilled && okFrom k r
  | .other :: r => okFrom k r
  | .publishUnbuilt :: _ => false
  | .touchAfter :: _ => false
  | .clusterHandler :: _ => false
  | .hostHandler :: _ => false

def orderOk (prog : List CStep) : Bool := okFrom {} prog

/-- every updater of the manager, with the handler it is called with (all regenerated). -/
def updaters : List (List CStep) :=
  [expand primaryHandler updateCluster, expand clusterAndHostHandler updateCluster,
   expand newSimpleHostHandler updateHostsMgr, expand appendSimpleHostHandler updateHostsMgr,
   expand removeHostsHandler updateHostsMgr]

def publicationOrderOk : Bool := updaters.all orderOk

/-- what a finished lookup saw (`some none` = neither the old nor a new set). -/
def seen (c : Conf) (t : Nat) : Option (Option Nat) :=
  match c.threads t with
  | .rd (.done r) => some r
  | _ => none

/-- "store the new cluster, then run the handler" (only for the machine-checked negative witness). -/
def storeBeforeFill : List CStep := [.newCluster, .other, .loadOld, .storeNew, .inherit, .other]

end MosnVerif.Model.ClusterPub
