/-!
Datatype of the regenerated file-name computation of the directory ("dynamic") mode of the cluster manager and router
configuration (`Gen/ConfigDir.lean` is an instance): the operations `ClusterManagerConfig.MarshalJSON` /
`RouterConfiguration.MarshalJSON` apply to `fileName`, in source order.  Core Lean only.
-/
namespace MosnVerif.Model.DirTypes

inductive NameOp where
  | orStamp                                   -- if fileName == "" { fileName = fmt.Sprintf("%d", time.Now().UnixNano()) }
  | truncate (limit keep : Nat)               -- if len(fileName) > limit { fileName = fileName[:keep] }
  | replaceAll (old : UInt8) (new : List UInt8) -- fileName = strings.ReplaceAll(fileName, old, new)
  | append (s : List UInt8)                   -- fileName = fileName + s
  | unique                                    -- fileName = uniqueFileName(fileName, written)
  | mark                                      -- delete(allFiles, fileName): the file of this name is in use, the cleanup keeps it
  deriving Repr, DecidableEq, Inhabited

end MosnVerif.Model.DirTypes
