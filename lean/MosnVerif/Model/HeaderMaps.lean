import MosnVerif.Model.Headers
import MosnVerif.Model.HeaderWiring
import MosnVerif.Gen.HeaderEval
/-!
Header mutations over the REAL protocol header maps (C17, [c17h10]).

`headerParser.evaluateHeaders` (regenerated statement by statement: `Gen.HeaderEval`) only talks to `types.HeaderMap`
through `Get / Set / Del`; what those do depends on the protocol:

* `common`  — `protocol.CommonHeader`: exact-key Go map (the map of `Model/Headers.lean`).
* `fh kind` — HTTP/1: `mosn.io/pkg/protocol/http.{Request,Response}Header` = fasthttp v1.40 header behind MOSN's wrapper
  (keys normalised `Foo-Bar`; dedicated single-valued fields Host / Content-Type / User-Agent resp. Content-Type /
  Content-Encoding / Server whose empty value is not printed; request cookies resp. Set-Cookie lines that `Set` ADDS to;
  `Set` of an ordinary name replaces the FIRST line of that name, `Del` deletes all; `Set(k, "")` goes through a
  placeholder so that the empty value is present; Transfer-Encoding (and Date on responses) cannot be set).
* `h2`      — HTTP/2: `pkg/protocol/http2.HeaderMap` = net/http.Header (canonical MIME keys, value lists; `Get` = first
  value and reports an empty first value as absent; `Set` replaces the whole list; `Del` deletes it).
* `bolt`    — xprotocol: `mosn.io/pkg/header.BytesHeader` (exact-key ordered list; `Set` replaces the first pair or
  appends, and marks the frame `Changed`; `Del` removes the FIRST pair only and marks `Changed` when it found one).

An `HMap` carries the operations plus `range` (what the map's own `Range` / the printed header shows, name as stored).
-/
namespace MosnVerif.Model.HeaderMaps
open MosnVerif.Model.Headers MosnVerif.Gen.HeaderMutation

/-- the interface of `types.HeaderMap` the route actions use, plus the key normal form under which the map identifies names -/
structure HMap (M : Type) where
  norm : String → String
  get : M → String → Option String
  set : M → String → String → M
  add : M → String → String → M
  del : M → String → M
  range : M → List (String × String)

variable {M : Type}

def HMap.ops (I : HMap M) : Gen.HeaderEval.MapOps M := ⟨I.get, I.set, I.add, I.del⟩

/-- one configured addition / removal on map `m` (the regenerated loop bodies) -/
def applyAdd (I : HMap M) (m : M) (a : Add) : M := Gen.HeaderEval.addStep I.ops a.name a.value a.append m
def applyRemove (I : HMap M) (m : M) (k : String) : M := Gen.HeaderEval.removeStep I.ops k m

/-- `(*headerParser).evaluateHeaders` (regenerated loop order) -/
def evaluate (I : HMap M) (p : Parser) (m : M) : M :=
  Gen.HeaderEval.evaluateHeaders I.ops (p.adds.map (fun a => (a.name, a.value, a.append))) p.removes m

/-- the header-mutation part of `Finalize{Request,Response}Headers`: the three parsers in the regenerated level order -/
def finalize (I : HMap M) (order : List Level) (l : Levels) (m : M) : M :=
  order.foldl (fun m lv => evaluate I (l.at lv) m) m

/-- the nil-receiver guard of `evaluateHeaders` -/
def evaluateOpt (I : HMap M) : Option Parser → M → M
  | none, m => m
  | some p, m => evaluate I p m

/-- the regenerated level order of a direction -/
def orderOf : Gen.HeaderWiring.Dir → List Level
  | .request => requestOrder
  | .response => responseOrder

open MosnVerif.Model.HeaderWiring MosnVerif.Gen.HeaderWiring in
/-- `Finalize{Request,Response}Headers` of a rule built by `router.NewRouters` FROM CONFIGURATION `c` (regenerated wiring
table, nil rule and level order), on protocol map `I` -/
def finalizeBuilt (I : HMap M) (c : Config) (d : Dir) (m : M) : M :=
  (orderOf d).foldl (fun m lv => evaluateOpt I (builtParser parserWiring c lv d) m) m

/-- all values the map shows under name `k` (in the map's order) -/
def vals (I : HMap M) (m : M) (k : String) : List String :=
  (I.range m).filterMap (fun e => if e.1 == I.norm k then some e.2 else none)

/-- the first value the map shows under name `k` -/
def look (I : HMap M) (m : M) (k : String) : Option String :=
  ((I.range m).find? (fun e => e.1 == I.norm k)).map (·.2)

/-- build a map from field lines as a decoder does (`Add`) -/
def ofList (I : HMap M) (empty : M) (l : List (String × String)) : M := l.foldl (fun m e => I.add m e.1 e.2) empty

/-! ### declarative reference over names compared by the map's normal form -/

/-- final value of header `k`: fold of the mutations whose name the map identifies with `k` -/
def specValueN (norm : String → String) (ops : List Op) (k : String) (v0 : Option String) : Option String :=
  (ops.filter (fun o => norm o.key == norm k)).foldl stepVal v0

/-- absent and present-but-empty -/
def isBlank : Option String → Bool
  | none => true
  | some v => v == ""

/-- equal, or both blank (an empty dedicated field is not printed; `Get` of net/http reports an empty value as absent) -/
def BlankEq (a b : Option String) : Prop := a = b ∨ (isBlank a = true ∧ isBlank b = true)

instance (a b : Option String) : Decidable (BlankEq a b) := by unfold BlankEq; exact inferInstance

/-- multi-valued reference: effect of one mutation on the list of values of the header it names: removal deletes all,
overwrite leaves exactly the configured value, append joins onto the first value (when non-empty) and keeps the others -/
def stepVals : List String → Op → List String
  | _, .remove _ => []
  | [], .add a => [a.value]
  | v :: rest, .add a =>
    if a.append then (if v.length > 0 then (v ++ "," ++ a.value) :: rest else a.value :: rest) else [a.value]

def specValsN (norm : String → String) (ops : List Op) (k : String) (v0 : List String) : List String :=
  (ops.filter (fun o => norm o.key == norm k)).foldl stepVals v0

/-! ### instance: protocol.CommonHeader -/

def common : HMap Hdrs where
  norm := id
  get := Headers.get
  set := Headers.set
  add := Headers.set
  del := Headers.del
  range := id

/-! ### key normal forms -/

/-- fasthttp `normalizeHeaderKey`: first byte upper-cased; after a '-' the next byte is upper-cased (and not looked at
again); every other byte lower-cased -/
def fhNormAux : Bool → List Char → List Char
  | _, [] => []
  | true, c :: r => c.toUpper :: fhNormAux false r
  | false, c :: r => if c == '-' then c :: fhNormAux true r else c.toLower :: fhNormAux false r

def fhNorm (k : String) : String := String.ofList (fhNormAux true k.toList)

/-- net/textproto `validHeaderFieldByte` (RFC 7230 token characters) -/
def isTokenChar (c : Char) : Bool :=
  c.isAlphanum || "!#$%&'*+-.^_`|~".toList.contains c

/-- net/textproto `CanonicalMIMEHeaderKey`: a name with a non-token byte is left alone; otherwise upper-case the first
letter and every letter after a '-', lower-case the rest -/
def h2NormAux : Bool → List Char → List Char
  | _, [] => []
  | up, c :: r => (if up then c.toUpper else c.toLower) :: h2NormAux (c == '-') r

def h2Norm (k : String) : String :=
  if k.toList.all isTokenChar then String.ofList (h2NormAux true k.toList) else k

/-! ### instance: fasthttp request / response header behind MOSN's wrapper -/

inductive FhKind where
  | request | response
deriving DecidableEq, Repr

/-- the dedicated single-valued fields, in the order `VisitAll` shows them -/
def FhKind.singles : FhKind → List String
  | .request => ["Host", "Content-Type", "User-Agent"]
  | .response => ["Content-Type", "Content-Encoding", "Server"]

/-- the name whose values are kept as cookies -/
def FhKind.cookieKey : FhKind → String
  | .request => "Cookie"
  | .response => "Set-Cookie"

/-- names `setSpecialHeader` swallows ("managed automatically") -/
def FhKind.ignored : FhKind → List String
  | .request => ["Transfer-Encoding"]
  | .response => ["Transfer-Encoding", "Date"]

/-- framing / hop-by-hop names with dedicated fields that are NOT modelled here (treated like ordinary names; never generated) -/
def fhUnmodelled : List String := ["Content-Length", "Connection", "Trailer"]

def fhDefaultContentType : String := "text/plain; charset=utf-8"

structure Fh where
  /-- dedicated fields: missing = nil slice, `some ""` = allocated and emptied -/
  sv : List (String × Option String) := []
  /-- request: parsed cookies (key, value), key "" for a keyless cookie; response: ("", Set-Cookie value) -/
  cookies : List (String × String) := []
  /-- request: `cookiesCollected` (Cookie lines still sitting in `h` have been parsed into `cookies`) -/
  collected : Bool := false
  /-- response: `noDefaultContentType` -/
  noDefaultCT : Bool := true
  h : List (String × String) := []
deriving Repr

def svGet (sv : List (String × Option String)) (k : String) : Option String :=
  ((sv.find? (·.1 == k)).map (·.2)).join

def svSet (sv : List (String × Option String)) (k : String) (v : Option String) : List (String × Option String) :=
  (k, v) :: sv.filter (fun e => !(e.1 == k))

def trimSp (l : List Char) : List Char :=
  ((l.dropWhile (· == ' ')).reverse.dropWhile (· == ' ')).reverse

/-- `decodeCookieArg(·, skipQuotes = true)` on a trimmed value -/
def unquote (l : List Char) : List Char :=
  if l.length > 1 ∧ l.head? = some '"' ∧ l.getLast? = some '"' then (l.drop 1).dropLast else l

/-- split at every ';' (the segment after the last ';' only when non-empty: the scanner stops on an empty rest) -/
def splitSemi : List Char → List Char → List (List Char)
  | [], acc => if acc.isEmpty then [] else [acc.reverse]
  | c :: r, acc => if c == ';' then acc.reverse :: splitSemi r [] else splitSemi r (c :: acc)

/-- one cookie segment: key up to the first '=', value after it; no '=' = keyless value -/
def cookieSeg (seg : List Char) : String × String :=
  match seg.span (· != '=') with
  | (k, _ :: v) => (String.ofList (trimSp k), String.ofList (unquote (trimSp v)))
  | (v, []) => ("", String.ofList (unquote (trimSp v)))

/-- `parseRequestCookies`: the cookies APPENDED by one `Cookie` value (segments with empty key and value are dropped) -/
def parseCookies (s : String) : List (String × String) :=
  ((splitSemi s.toList []).map cookieSeg).filter (fun kv => !(kv.1 == "" && kv.2 == ""))

/-- `appendRequestCookieBytes` -/
def showCookies (c : List (String × String)) : String :=
  "; ".intercalate (c.map (fun kv => if kv.1 == "" then kv.2 else kv.1 ++ "=" ++ kv.2))

/-- `collectCookies`: Cookie lines of `h` are parsed into `cookies` and removed from `h` (request only) -/
def fhCollect (m : Fh) : Fh :=
  if m.collected then m else
  { m with cookies := m.cookies ++ (m.h.filter (·.1 == "Cookie")).flatMap (fun e => parseCookies e.2),
           h := m.h.filter (fun e => !(e.1 == "Cookie")), collected := true }

/-- replace the value of the first line named `k`, or append the line (`setArg`) -/
def setFirst : List (String × String) → String → String → List (String × String)
  | [], k, v => [(k, v)]
  | e :: r, k, v => if e.1 == k then (k, v) :: r else e :: setFirst r k v

/-- fasthttp `Set` (one call of `SetCanonical` after key normalisation) -/
def fhRawSet (kind : FhKind) (m : Fh) (k v : String) : Fh :=
  let nk := fhNorm k
  if kind.singles.contains nk then
    -- `append(field[:0], v...)`: an empty value leaves a nil field nil
    { m with sv := svSet m.sv nk (if v == "" then (svGet m.sv nk).map (fun _ => "") else some v) }
  else if nk == kind.cookieKey then
    match kind with
    | .request => let m := fhCollect m; { m with cookies := m.cookies ++ parseCookies v }
    | .response => { m with cookies := m.cookies ++ [("", v)] }
  else if kind.ignored.contains nk then m
  else { m with h := setFirst m.h nk v }

/-- MOSN's wrapper: an empty value is set through a placeholder first -/
def fhSet (kind : FhKind) (m : Fh) (k v : String) : Fh :=
  if v == "" then fhRawSet kind (fhRawSet kind m k "-") k "" else fhRawSet kind m k v

/-- fasthttp `Add`: dedicated fields, cookies and swallowed names as `Set`; an ordinary name gets one more line -/
def fhAdd (kind : FhKind) (m : Fh) (k v : String) : Fh :=
  let nk := fhNorm k
  if kind.singles.contains nk || nk == kind.cookieKey || kind.ignored.contains nk then fhRawSet kind m k v
  else { m with h := m.h ++ [(nk, v)] }

/-- one field line as `parseHeaders` stores it: dedicated fields are set (nil rule as above), a request's Cookie line
stays an ordinary line until the cookies are collected, a response's Set-Cookie line becomes a cookie, swallowed names
are dropped (Transfer-Encoding is rewritten by the parser: never generated), everything else is one more line -/
def fhParseLine (kind : FhKind) (m : Fh) (k v : String) : Fh :=
  let nk := fhNorm k
  if kind.singles.contains nk then fhRawSet kind m k v
  else if kind == .response ∧ nk == kind.cookieKey then { m with cookies := m.cookies ++ [("", v)] }
  else { m with h := m.h ++ [(nk, v)] }

/-- the header object a parsed message hands to the proxy -/
def fhDecode (kind : FhKind) (lines : List (String × String)) : Fh :=
  lines.foldl (fun m e => fhParseLine kind m e.1 e.2) {}

/-- fasthttp `Del`: a dedicated field is emptied (`[:0]`: nil stays nil), the cookies are dropped, all lines of the name go -/
def fhDel (kind : FhKind) (m : Fh) (k : String) : Fh :=
  let nk := fhNorm k
  let m := { m with h := m.h.filter (fun e => !(e.1 == nk)) }
  if kind.singles.contains nk then
    (match svGet m.sv nk with
     | some _ => { m with sv := svSet m.sv nk (some "") }
     | none => m)
  else if nk == kind.cookieKey then { m with cookies := [] }
  else m

/-- what `ContentType()` answers on a response: the default when empty and not disabled -/
def fhSingle (kind : FhKind) (m : Fh) (nk : String) : Option String :=
  let v := svGet m.sv nk
  if kind == .response ∧ nk == "Content-Type" ∧ isBlank v = true ∧ m.noDefaultCT = false then some fhDefaultContentType else v

/-- the wrapper's `Get`: `Peek`, nil = absent -/
def fhGet (kind : FhKind) (m : Fh) (k : String) : Option String :=
  let nk := fhNorm k
  if kind.singles.contains nk then fhSingle kind m nk
  else if nk == kind.cookieKey then
    match kind with
    | .request =>
      if m.collected then (if m.cookies.isEmpty then none else some (showCookies m.cookies))
      else (m.h.find? (·.1 == nk)).map (·.2)
    | .response =>
      -- `appendResponseCookieBytes(nil, cookies)`: nil when nothing was appended
      let s := "; ".intercalate (m.cookies.map (·.2))
      if s == "" then none else some s
  else (m.h.find? (·.1 == nk)).map (·.2)

/-- a dedicated field is shown when it is not empty -/
def fhShowSingle (g : String → Option String) (k : String) : Option (String × String) :=
  match g k with
  | some v => if v == "" then none else some (k, v)
  | none => none

/-- `VisitAll` (= the wrapper's `Range`), which is also what the printed header carries: non-empty dedicated fields,
the cookies (request: one joined line, collecting them first; response: one line each), then the ordinary lines -/
def fhRange (kind : FhKind) (m : Fh) : List (String × String) :=
  let singles := kind.singles.filterMap (fhShowSingle (fhSingle kind m))
  match kind with
  | .request =>
    let m := fhCollect m
    singles ++ (if m.cookies.isEmpty then [] else [("Cookie", showCookies m.cookies)]) ++ m.h
  | .response => singles ++ m.cookies.map (fun c => ("Set-Cookie", c.2)) ++ m.h

def fh (kind : FhKind) : HMap Fh where
  norm := fhNorm
  get := fhGet kind
  set := fhSet kind
  add := fhAdd kind
  del := fhDel kind
  range := fhRange kind

/-- names whose `Set`/`Del` follow the single-valued laws: everything but the cookies, the swallowed names and the
unmodelled framing names -/
def fhPlain (kind : FhKind) (k : String) : Bool :=
  let nk := fhNorm k
  !(nk == kind.cookieKey) && !kind.ignored.contains nk && !fhUnmodelled.contains nk

/-! ### instance: net/http.Header behind pkg/protocol/http2.HeaderMap -/

abbrev H2 := List (String × List String)

def h2Get (m : H2) (k : String) : Option String :=
  match m.find? (·.1 == h2Norm k) with
  | some (_, v :: _) => if v == "" then none else some v
  | _ => none

def h2Set (m : H2) (k v : String) : H2 := (h2Norm k, [v]) :: m.filter (fun e => !(e.1 == h2Norm k))

def h2AddAux : H2 → String → String → H2
  | [], k, v => [(k, [v])]
  | e :: r, k, v => if e.1 == k then (k, e.2 ++ [v]) :: r else e :: h2AddAux r k v

def h2Add (m : H2) (k v : String) : H2 := h2AddAux m (h2Norm k) v

def h2Del (m : H2) (k : String) : H2 := m.filter (fun e => !(e.1 == h2Norm k))

/-- every value of every name (what the HTTP/2 encoder writes; `Range` itself shows the first value of each name only) -/
def h2Range (m : H2) : List (String × String) := m.flatMap (fun e => e.2.map (fun v => (e.1, v)))

def h2 : HMap H2 where
  norm := h2Norm
  get := h2Get
  set := h2Set
  add := h2Add
  del := h2Del
  range := h2Range

/-! ### instance: bolt (xprotocol) key-value header -/

structure Bolt where
  kvs : List (String × String) := []
  /-- `BytesHeader.Changed`: Encode re-serialises the frame only when set (or the content changed) -/
  changed : Bool := false
deriving Repr, DecidableEq

def boltGet (m : Bolt) (k : String) : Option String := (m.kvs.find? (·.1 == k)).map (·.2)

def boltSet (m : Bolt) (k v : String) : Bolt := { kvs := setFirst m.kvs k v, changed := true }

/-- remove the first pair named `k` -/
def eraseFirst : List (String × String) → String → List (String × String)
  | [], _ => []
  | e :: r, k => if e.1 == k then r else e :: eraseFirst r k

def boltDel (m : Bolt) (k : String) : Bolt :=
  if m.kvs.any (·.1 == k) then { kvs := eraseFirst m.kvs k, changed := true } else m

/-- a decoded pair (`DecodeHeader` appends; `Add` itself panics "not supported") -/
def boltAdd (m : Bolt) (k v : String) : Bolt := { m with kvs := m.kvs ++ [(k, v)] }

def bolt : HMap Bolt where
  norm := id
  get := boltGet
  set := boltSet
  add := boltAdd
  del := boltDel
  range := fun m => m.kvs

/-- no two pairs share a name -/
def boltNoDup (m : Bolt) : Prop := (m.kvs.map (·.1)).Nodup

end MosnVerif.Model.HeaderMaps
