import MosnVerif.Gen.LB
import MosnVerif.Model.EDF
/-!
Model of the load-balancing policies of `pkg/upstream/cluster/loadbalancer.go` and `lb_leastconnection.go`:
one function per `ChooseHost`, every fallback branch included.

* a host set is a `List Host` (position = index in `hostSet.allHosts`), `hAt hs i` is `hs.Get(i).Health()`;
  `getIdx` is the regenerated index clamping of `hostSet.Get`.
* policy state (`LBState`): the `rrIndex` cursor (uint32, wraps at 2³²) of the round-robin balancer the policy is or
  falls back to, and the EDF scheduler (`none`: `refresh` built none — ≤ 1 host or equal weights).
* random draws (`rand.Intn(total)`) are an explicit list consumed from the front (a missing draw reads as 0);
  the order in which the EDF scheduler serves exact ties is an explicit hint list (see `Model/EDF.lean`);
  the re-entry index (`upstream_index` variable) and the maglev table lookup are explicit parameters.
-/
namespace MosnVerif.Model.LB
open MosnVerif.Gen MosnVerif.Model.EDF

structure Host where
  id : Nat
  weight : Nat
  healthy : Bool
  req : Nat      -- HostStats().UpstreamRequestActive.Count()
  conn : Nat     -- HostStats().UpstreamConnectionActive.Count()
  score : Nat    -- peak-EWMA `unweightedPeakEwmaScore` (abstract: only compared)
deriving Repr, BEq, Inhabited

abbrev Hosts := List Host

def u32 : Nat := 4294967296

/-- index read by `hs.Get(i)` for a set of `n` hosts (regenerated clamping). -/
def getIdx (n i : Nat) : Nat := (LB.getIndex (i : Int) (n : Int)).toNat

/-- `hs.Get(i).Health()` for an in-range index. -/
def hAt (hs : Hosts) (i : Nat) : Bool := match hs[i]? with | some h => h.healthy | none => false

def statAt (hs : Hosts) (stat : Host → Nat) (i : Nat) : Nat := match hs[i]? with | some h => stat h | none => 0

/-- indices visited by a traversal `for i := 0; i < total; i++ { hs.Get((start + i) % total) }`. -/
def scanIdxs (total start : Nat) : List Nat := (List.range total).map (fun i => getIdx total ((start + i) % total))

def firstHealthy (hs : Hosts) (idxs : List Nat) : Option Nat := idxs.find? (hAt hs)

structure LBState where
  rr : Nat := 0
  sched : Option Sched := none
deriving Repr, Inhabited

/-- value of the `upstream_index` variable before the call. -/
inductive ReEntry | unset | bad | idx (i : Nat)
deriving Repr, BEq, Inhabited

structure Call where
  draws : List Nat := []
  hints : List (Option Nat) := []
  re : ReEntry := .unset
  table : Option Nat := none     -- maglev: `lb.maglev.Lookup(hash)`; none = no table / no route / no hash policy
deriving Repr, Inhabited

structure Out where
  result : Option Nat
  st : LBState
  draws : List Nat                -- draws not consumed
  hints : List (Option Nat)       -- hints not consumed
  var : Option Nat := none        -- `upstream_index` written by the call
deriving Repr, Inhabited

/-! ### round robin (`roundRobinLoadBalancer.ChooseHost`) -/

/-- first pass: `total` times `index := atomic.AddUint32(&rrIndex, 1) % total`; the list holds the cursor values. -/
def rrCursors (total c : Nat) : List Nat := (List.range total).map (fun i => (c + 1 + i) % u32)

def rrChoose (hs : Hosts) (c : Nat) : Option Nat × Nat :=
  let total := hs.length
  if total = 0 then (none, c) else
  match (rrCursors total c).find? (fun cv => hAt hs (getIdx total (cv % total))) with
  | some cv => (some (getIdx total (cv % total)), cv)
  | none =>
    -- second pass (issue 1663): one more increment gives the start index, then a plain traversal
    let c2 := (c + total + 1) % u32
    (firstHealthy hs (scanIdxs total (c2 % total)), c2)

/-! ### random (`randomLoadBalancer.ChooseHost`): one draw, degrade to round robin -/

def randomChoose (hs : Hosts) (st : LBState) (c : Call) : Out :=
  let total := hs.length
  if total = 0 then ⟨none, st, c.draws, c.hints, none⟩ else
  let i := getIdx total (c.draws.headD 0)
  if hAt hs i then ⟨some i, st, c.draws.tail, c.hints, none⟩
  else
    let (r, c') := rrChoose hs st.rr
    ⟨r, { st with rr := c' }, c.draws.tail, c.hints, none⟩

/-! ### request round robin (`reqRoundRobinLoadBalancer.ChooseHost`) -/

def reqRRChoose (hs : Hosts) (st : LBState) (c : Call) : Out :=
  let total := hs.length
  if total = 0 then ⟨none, st, c.draws, c.hints, none⟩ else
  let ind := match c.re with | .idx i => i + 1 | _ => 0
  let r := firstHealthy hs (scanIdxs total ind)
  ⟨r, st, c.draws, c.hints, r⟩

/-! ### maglev (`maglevLoadBalancer.ChooseHost`): table lookup, then traversal of the host list -/

def maglevChoose (hs : Hosts) (st : LBState) (c : Call) : Out :=
  let total := hs.length
  match c.table with
  | none => ⟨none, st, c.draws, c.hints, none⟩
  | some lookup =>
    if total = 0 then ⟨none, st, c.draws, c.hints, none⟩ else
    let chosen := getIdx total lookup
    let (index, retrying) := match c.re with
      | .unset => (lookup, false)
      | .bad => (lookup, true)
      | .idx i => (i, true)
    if !hAt hs chosen || retrying then
      let r := firstHealthy hs (scanIdxs total (index + 1))
      ⟨r, st, c.draws, c.hints, r⟩
    else ⟨some chosen, st, c.draws, c.hints, some index⟩

/-! ### EDF front (`EdfLoadBalancer.ChooseHost`) shared by wrr, least-request, least-connection, peak-EWMA -/

/-- the weighted loop: up to `k` picks of the scheduler, the first healthy one wins. -/
def edfLoop (hs : Hosts) (wf : Nat → Rat) : Nat → Sched → List (Option Nat) → Option Nat × Sched × List (Option Nat)
  | 0, s, hints => (none, s, hints)
  | k + 1, s, hints =>
    match s.nextAndPush wf (hints.headD none) with
    | none => (none, s, hints)      -- empty queue: unreachable, a scheduler is only built for ≥ 2 hosts
    | some (i, s') => if hAt hs i then (some i, s', hints.tail) else edfLoop hs wf k s' hints.tail

inductive Front
  | done (r : Option Nat) (st : LBState) (hints : List (Option Nat))
  | fallback (st : LBState) (hints : List (Option Nat))

def edfFront (hs : Hosts) (st : LBState) (wf : Nat → Rat) (hints : List (Option Nat)) : Front :=
  let total := hs.length
  if total = 0 then .done none st hints
  else if total = 1 then .done (if hAt hs (getIdx total 0) then some (getIdx total 0) else none) st hints
  else match st.sched with
    | none => .fallback st hints
    | some s =>
      match edfLoop hs wf total s hints with
      | (some i, s', h') => .done (some i) { st with sched := some s' } h'
      | (none, s', h') => .fallback { st with sched := some s' } h'

/-- `fixHostWeight(float64(host.Weight()))` -/
def fixedWeight (hs : Hosts) (i : Nat) : Rat := ((Edf.fixHostWeight ((statAt hs (·.weight) i : Nat) : Int) : Int) : Rat)

def wrrWf (hs : Hosts) (i : Nat) : Rat := fixedWeight hs i
/-- least request / least connection with the default bias 1.0: `weight / (active + 1)`. -/
def lrWf (hs : Hosts) (i : Nat) : Rat := fixedWeight hs i / ((statAt hs (·.req) i + 1 : Nat) : Rat)
def lcWf (hs : Hosts) (i : Nat) : Rat := fixedWeight hs i / ((statAt hs (·.conn) i + 1 : Nat) : Rat)
def ewmaWf (hs : Hosts) (i : Nat) : Rat := fixedWeight hs i / ((statAt hs (·.score) i : Nat) : Rat)

/-! ### weighted round robin: EDF front, fallback round robin -/

def wrrChoose (hs : Hosts) (st : LBState) (c : Call) : Out :=
  match edfFront hs st (wrrWf hs) c.hints with
  | .done r st' h' => ⟨r, st', c.draws, h', none⟩
  | .fallback st' h' =>
    let (r, c') := rrChoose hs st'.rr
    ⟨r, { st' with rr := c' }, c.draws, h', none⟩

/-- consecutive lookups of the weighted round-robin balancer, one tie hint per lookup: served hosts and final state. -/
def wrrServe (hs : Hosts) : LBState → List (Option Nat) → List (Option Nat) × LBState
  | st, [] => ([], st)
  | st, h :: r =>
    let out := wrrChoose hs st { hints := [h] }
    let (l, st') := wrrServe hs out.st r
    (out.result :: l, st')

/-! ### least request / least connection: EDF front, fallback power-of-`choice` random choices among healthy hosts,
then a traversal from a random index (repaired code, KNOWN_FINDINGS `fixed:` C05) -/

def p2cStep (hs : Hosts) (stat : Host → Nat) (cand : Option Nat) (d : Nat) : Option Nat :=
  let t := getIdx hs.length d
  if !hAt hs t then cand else
  match cand with
  | none => some t
  | some c => if statAt hs stat c > statAt hs stat t then some t else some c

def firstDraws (choice : Nat) (draws : List Nat) : List Nat := (List.range choice).map (fun k => draws.getD k 0)

def p2c (hs : Hosts) (stat : Host → Nat) (choice : Nat) (draws : List Nat) : Option Nat × List Nat :=
  match (firstDraws choice draws).foldl (p2cStep hs stat) none with
  | some cnd => (some cnd, draws.drop choice)
  | none => (firstHealthy hs (scanIdxs hs.length (draws.getD choice 0)), draws.drop (choice + 1))

def leastChoose (stat : Host → Nat) (wf : Hosts → Nat → Rat) (choice : Nat) (hs : Hosts) (st : LBState) (c : Call) : Out :=
  match edfFront hs st (wf hs) c.hints with
  | .done r st' h' => ⟨r, st', c.draws, h', none⟩
  | .fallback st' h' =>
    let (r, d') := p2c hs stat choice c.draws
    ⟨r, st', d', h', none⟩

/-! ### peak EWMA: EDF front, fallback `unweightedChoose` (iterate / random choices / round robin) -/

def ewmaStep (hs : Hosts) (cand : Option Nat) (t : Nat) : Option Nat :=
  if !hAt hs t then cand else
  match cand with
  | none => some t
  | some c => if statAt hs (·.score) t < statAt hs (·.score) c then some t else some c

def ewmaChoose (choice : Nat) (hs : Hosts) (st : LBState) (c : Call) : Out :=
  match edfFront hs st (ewmaWf hs) c.hints with
  | .done r st' h' => ⟨r, st', c.draws, h', none⟩
  | .fallback st' h' =>
    let total := hs.length
    if total ≤ choice then
      -- iterateChoose: all hosts from a random index, best score among the healthy ones
      ⟨(scanIdxs total (c.draws.headD 0)).foldl (ewmaStep hs) none, st', c.draws.tail, h', none⟩
    else
      -- randomChoose: `choice` random hosts, best score among the healthy ones; none ⇒ round robin
      match ((firstDraws choice c.draws).map (getIdx total)).foldl (ewmaStep hs) none with
      | some cnd => ⟨some cnd, st', c.draws.drop choice, h', none⟩
      | none =>
        let (r, c') := rrChoose hs st'.rr
        ⟨r, { st' with rr := c' }, c.draws.drop choice, h', none⟩

/-! ### dispatcher (`NewLoadBalancer` by `LoadBalancerType`) -/

inductive Policy | rr | random | wrr | lr | lc | reqrr | maglev | ewma
deriving Repr, BEq, DecidableEq, Inhabited

def choose (p : Policy) (choice : Nat) (hs : Hosts) (st : LBState) (c : Call) : Out :=
  match p with
  | .rr => let (r, c') := rrChoose hs st.rr; ⟨r, { st with rr := c' }, c.draws, c.hints, none⟩
  | .random => randomChoose hs st c
  | .wrr => wrrChoose hs st c
  | .lr => leastChoose (·.req) lrWf choice hs st c
  | .lc => leastChoose (·.conn) lcWf choice hs st c
  | .reqrr => reqRRChoose hs st c
  | .maglev => maglevChoose hs st c
  | .ewma => ewmaChoose choice hs st c

/-- the weight function the policy's EDF scheduler evaluates (only wrr, lr, lc, ewma have one). -/
def policyWf (p : Policy) (hs : Hosts) : Nat → Rat :=
  match p with
  | .wrr => wrrWf hs
  | .lr => lrWf hs
  | .lc => lcWf hs
  | .ewma => ewmaWf hs
  | _ => fun _ => 1

def hasEdf : Policy → Bool
  | .wrr | .lr | .lc | .ewma => true
  | _ => false

/-- `hostWeightsAreEqual` on the raw configured weights. -/
def weightsEqual (hs : Hosts) : Bool := match hs with | [] => true | h :: r => r.all (fun x => x.weight == h.weight)

/-- state of a freshly constructed balancer: `rr0` = the factory's `rand.Uint32()` (start index `% size`),
`pre` = `rand.Intn(size)` warm-up picks of `refresh` with their hints. -/
def newState (p : Policy) (hs : Hosts) (rr0 : Nat) (pre : List (Option Nat)) : LBState :=
  { rr := if hs.length = 0 then 0 else rr0 % hs.length
    sched := if hasEdf p && decide (hs.length > 1) && !weightsEqual hs then some (refresh (policyWf p hs) hs.length pre) else none }

/-! ### executable property predicate on an implementation result (declarative; does not mention any policy) -/

def anyHealthy (hs : Hosts) : Bool := hs.any (·.healthy)

/-- C05 for one lookup: the result is a member of the current host set; when some host is healthy the result is a
healthy host; no host is returned only when no host is healthy (or the set is empty). -/
def specChoice (hs : Hosts) (r : Option Nat) : Bool :=
  match r with
  | some i => decide (i < hs.length) && (hAt hs i || !anyHealthy hs)
  | none => !anyHealthy hs

/-- a lookup through the policy `p` has what the policy needs to decide: maglev needs a table index for the request's
hash (hosts present, route with a hash policy); all other policies need nothing. -/
def keyed (p : Policy) (c : Call) : Bool := match p with | .maglev => c.table.isSome | _ => true

/-- the predicate for one lookup: an un-keyed maglev lookup may also return no host (stated precondition of C05). -/
def specLookup (p : Policy) (c : Call) (hs : Hosts) (r : Option Nat) : Bool :=
  specChoice hs r || (!keyed p c && r.isNone)

/-! ### histories: host-set replacements, health flips, gauge changes and cursor states interleaved with lookups

Health flags and host statistics live per *address* (`healthStore`, the metrics registry) and are shared by every host
object with that address; a host set is a list of (address id, configured weight); `UpdateHosts` publishes a new
`(hostSet, lb)` pair atomically (one reference — `atomic.Value`, trusted), and a lookup reads one such pair. -/

structure PoolHost where
  healthy : Bool := true
  req : Nat := 0
  conn : Nat := 0
deriving Repr, Inhabited

structure World where
  pool : List PoolHost := List.replicate 32 {}
  cur : List (Nat × Nat) := []          -- current host set: (address id, configured weight)
  lb : LBState := {}
deriving Repr, Inhabited

/-- the snapshot a lookup sees. With untouched EWMA rates `unweightedPeakEwmaScore` is `duration·(active+1)`. -/
def World.hosts (w : World) : Hosts :=
  w.cur.map (fun (id, wt) =>
    let p := w.pool.getD id {}
    { id := id, weight := wt, healthy := p.healthy, req := p.req, conn := p.conn, score := p.req + 1 })

def World.setPool (w : World) (id : Nat) (f : PoolHost → PoolHost) : World :=
  { w with pool := w.pool.set id (f (w.pool.getD id {})) }

inductive Op
  | replace (l : List (Nat × Nat)) (rr0 : Nat) (pre : List (Option Nat))
  | flip (id : Nat) (healthy : Bool)
  | req (id n : Nat)
  | conn (id n : Nat)
  | cursor (v : Nat)
  | lookup (c : Call)
deriving Repr, Inhabited

/-- one operation; a lookup also yields (snapshot, call, outcome). -/
def applyOp (p : Policy) (choice : Nat) (w : World) : Op → World × Option (Hosts × Call × Out)
  | .replace l rr0 pre =>
    let w1 := { w with cur := l }
    ({ w1 with lb := newState p w1.hosts rr0 pre }, none)
  | .flip id b => (w.setPool id (fun q => { q with healthy := b }), none)
  | .req id n => (w.setPool id (fun q => { q with req := n }), none)
  | .conn id n => (w.setPool id (fun q => { q with conn := n }), none)
  | .cursor v => ({ w with lb := { w.lb with rr := v } }, none)
  | .lookup c =>
    let hs := w.hosts
    let out := choose p choice hs w.lb c
    ({ w with lb := out.st }, some (hs, c, out))

/-- all lookups of a history with the snapshot each of them saw. -/
def runOps (p : Policy) (choice : Nat) : World → List Op → List (Hosts × Call × Out)
  | _, [] => []
  | w, o :: r =>
    match applyOp p choice w o with
    | (w', some x) => x :: runOps p choice w' r
    | (w', none) => runOps p choice w' r

end MosnVerif.Model.LB
