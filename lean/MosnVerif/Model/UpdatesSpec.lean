import MosnVerif.Model.Updates
/-!
C12: the concrete instantiation used by the correspondence run, the observation of a state (what the harness can see of
the real objects) and the executable property predicate `Spec.holds` evaluated on the *implementation's* observation.

* `stdOracle`: `generateHostWithPortConfig` / `findHighestPriorityIndex` for port-less domains (exact, `*suffix`, `*`);
  the theorems of `Props/C12` hold for every oracle, this one is only what the driver runs.
* routes match by path prefix (`strings.HasPrefix`), the request sample is a fixed host × path grid observed through
  `MatchAllRoutes`.
* `Spec.holds` is written without the model's functions and without regenerated code: it compares the live observation
  with the observation of the objects rebuilt from the dump (weights through the documented bounds 1..128), and checks the
  post-condition of the history's last operation declaratively (sets of addresses).
-/
namespace MosnVerif.Model.Updates

/-! ## concrete domain oracle (port-less domains) -/

def lowerAscii (s : String) : String := s.map Char.toLower

structure DomIndex where
  exact : List (String × Nat)
  wild : List (String × Nat)     -- suffix after the leading `*`
  dflt : Option Nat
  deriving Repr

/-- `generateHostWithPortConfig` for one (lower-cased) domain of virtual host `i`; `none` = error -/
def indexOne (ix : DomIndex) (d : String) (i : Nat) : Option DomIndex :=
  if d.isEmpty then none
  else if d == "*" then (if ix.dflt.isSome then none else some { ix with dflt := some i })
  else if !d.contains '*' then
    (if (ix.exact.lookup d).isSome then none else some { ix with exact := ix.exact ++ [(d, i)] })
  else if d.front == '*' then
    let suf := (d.drop 1).toString
    (if (ix.wild.lookup suf).isSome then none else some { ix with wild := ix.wild ++ [(suf, i)] })
  else none

def indexVh (ix : DomIndex) (ds : List String) (i : Nat) : Option DomIndex :=
  ds.foldl (fun acc d => acc.bind (fun ix => indexOne ix (lowerAscii d) i)) (some ix)

def indexDomains (doms : List (List String)) : Option DomIndex :=
  (doms.zipIdx).foldl (fun acc p => acc.bind (fun ix => indexVh ix p.1 p.2)) (some ⟨[], [], none⟩)

/-- longest matching wildcard suffix strictly shorter than the host -/
def bestWild (wild : List (String × Nat)) (host : String) : Option Nat :=
  let cands := wild.filter (fun p => p.1.length < host.length && host.endsWith p.1)
  (cands.foldl (fun (best : Option (Nat × Nat)) p =>
    match best with
    | none => some (p.1.length, p.2)
    | some (l, i) => if p.1.length > l then some (p.1.length, p.2) else some (l, i)) none).map (·.2)

/-- `findHighestPriorityIndex(host, "")` -/
def lookupIndex (ix : DomIndex) (host : String) : Option Nat :=
  match ix.exact.lookup host with
  | some i => some i
  | none =>
    match bestWild ix.wild host with
    | some i => some i
    | none => ix.dflt

def stdOracle : Oracle where
  domainsOk := fun doms => (indexDomains doms).isSome
  resolve := fun doms d => match indexDomains doms with
    | none => none
    | some ix => lookupIndex ix d

/-- `findVirtualHost` of a request: the only-default shortcut, lower-casing of the Host value -/
def requestVhost (doms : List (List String)) (host : String) : Option Nat :=
  match indexDomains doms with
  | none => none
  | some ix =>
    if ix.exact.isEmpty && ix.wild.isEmpty && ix.dflt.isSome then ix.dflt
    else if host.isEmpty then none
    else lookupIndex ix (lowerAscii host)

/-! ## observation -/

def sampleHosts : List String := ["a.b", "c.b", "x.y", "q.b", "A.B", "zz"]
def samplePaths : List String := ["/", "/a", "/a/b", "/b"]

def joinSep (sep : String) (l : List String) : String := sep.intercalate l

/-- `MatchAllRoutes` of one request on a table: ids of the matching routes in order -/
def matchAll (t : Table) (host path : String) : String :=
  match requestVhost t.doms host with
  | none => "-"
  | some i =>
    match t.vhs[i]? with
    | none => "-"
    | some vh =>
      let ids := (vh.routes.filter (fun r => path.startsWith r.pfx)).map (·.id)
      if ids.isEmpty then "-" else joinSep "+" ids

/-- what the harness sees of one router name -/
def renderRouter : Option (Option Table) → String
  | none => "absent"
  | some none => "nil"
  | some (some t) => joinSep "," (sampleHosts.flatMap (fun h => samplePaths.map (fun p => matchAll t h p)))

def renderHost (h : Host) : String := h.addr ++ "~" ++ (if h.name.isEmpty then "-" else h.name) ++ "~" ++ toString h.weight

def renderCluster : Option LiveCluster → String
  | none => "absent"
  | some lc => toString lc.tag ++ "|" ++ (if lc.hosts.isEmpty then "-" else joinSep "+" (lc.hosts.map renderHost))

def renderListener : Option LiveListener → String
  | none => "absent"
  | some l =>
    let sfs (x : List String) := if x.isEmpty then "-" else joinSep "+" x
    joinSep "|" [l.cfg.addr, sfs l.sf, toString l.nf, toString l.idle, sfs l.cfg.sf, toString l.cfg.nf, toString l.cfg.idle,
      toString l.cfg.keep]

/-- the observation of a history's final state -/
structure Observation where
  results : List Bool
  liveR : List String
  rebR : List String
  liveC : List (Option LiveCluster)
  rebC : List (Option LiveCluster)
  liveL : List (Option LiveListener)
  rebL : List (Option LiveListener)
  deriving Repr, DecidableEq

/-- the model's observation: the live side from the live components, the rebuilt side from `rebuild* (dump s)`. The live
clusters are reported raw (unclamped weights), as the harness reads them. -/
def observe (o : Oracle) (rnames cnames lnames : List String) (res : List Bool) (s : State) : Observation where
  results := res
  liveR := rnames.map (fun n => renderRouter (liveRouters s n))
  rebR := rnames.map (fun n => renderRouter (rebuildRouters o (dump s) n))
  liveC := cnames.map (fun n => s.clusters n)
  rebC := cnames.map (fun n => rebuildClusters (dump s) n)
  liveL := lnames.map (fun n => s.listeners n)
  rebL := lnames.map (fun n => rebuildListeners (dump s) n)

/-! ## syntactic facts about operations -/

/-- cluster names an operation mentions -/
def clusterNames : Op → List String
  | .addOrUpdateCluster n _ _ => [n]
  | .addOrUpdateClusterAndHost n _ _ _ => [n]
  | .addClusterNil n => [n]
  | .updateHosts n _ => [n]
  | .appendHosts n _ => [n]
  | .removeHosts n _ => [n]
  | .removeClusters ns => ns
  | .xdsEndpoints as => as.map (·.1)
  | _ => []

/-- router names an operation mentions -/
def routerNames : Op → List String
  | .addOrUpdateRouters cfg => [cfg.name]
  | .addRoute n _ _ => [n]
  | .removeAllRoutes n _ => [n]
  | _ => []

/-- listener names an operation mentions (the name a listener is registered under) -/
def listenerNames : Op → List String
  | .addOrUpdateListener lc => [effName lc]
  | .deleteListener n => [n]
  | _ => []

/-- the operation can create cluster `n` -/
def addsCluster (n : String) : Op → Bool
  | .addOrUpdateCluster m _ _ => m == n
  | .addOrUpdateClusterAndHost m _ _ _ => m == n
  | _ => false

/-- at most one endpoint assignment per `ConvertUpdateEndpoints` call (every other operation is single) -/
def single : Op → Bool
  | .xdsEndpoints as => as.length ≤ 1
  | _ => true

/-! ## the property predicate (declarative; no model function, no regenerated code) -/
namespace Spec

/-- the documented weight bounds (`MinHostWeight = 1`, `MaxHostWeight = 128`) every load balancer applies when it reads a weight -/
def effWeight (w : Nat) : Nat := if w < 1 then 1 else if w > 128 then 128 else w

def effCluster (lc : LiveCluster) : LiveCluster := ⟨lc.tag, lc.hosts.map (fun h => { h with weight := effWeight h.weight })⟩

/-- live observation = observation of the objects rebuilt from the dump -/
def coherent (ob : Observation) : Bool :=
  ob.liveR == ob.rebR && ob.liveC.map (·.map effCluster) == ob.rebC && ob.liveL == ob.rebL

def addrs (l : List Host) : List String := l.map (·.addr)

/-- `l` is address-distinct and its address set is exactly `want` -/
def isAddrSet (l : List Host) (want : List String) : Bool :=
  (addrs l).all (fun a => want.contains a) && want.all (fun a => (addrs l).contains a) &&
  (addrs l).all (fun a => ((addrs l).filter (· == a)).length == 1)

/-- post-condition of the last operation of the history, when the implementation reported success: last update wins,
removed objects are gone, an endpoint assignment yields the union of its localities. `look` reads the observed live cluster. -/
def lastOp (op : Op) (ok : Bool) (look : String → Option LiveCluster) (lookL : String → Option LiveListener) : Bool :=
  if !ok then true else
  match op with
  | .removeClusters names => names.all (fun n => (look n).isNone)
  | .removeHosts c as => match look c with
    | some lc => (addrs lc.hosts).all (fun a => !as.contains a)
    | none => false
  | .updateHosts c hs => match look c with
    | some lc => isAddrSet lc.hosts (addrs hs)
    | none => false
  | .addOrUpdateClusterAndHost c tag _ hs => match look c with
    | some lc => lc.tag == tag && isAddrSet lc.hosts (addrs hs)
    | none => false
  | .addOrUpdateCluster c tag _ => match look c with
    | some lc => lc.tag == tag
    | none => false
  | .xdsEndpoints [(c, locs)] => match look c with
    | some lc => isAddrSet lc.hosts (locs.flatten.map (·.addr))
    | none => false
  | .deleteListener n => (lookL n).isNone
  | .addOrUpdateListener lc => match lookL (if lc.name.isEmpty then lc.addr else lc.name) with
    | some l => l.sf == lc.sf && l.nf == lc.nf && l.idle == lc.idle && l.cfg.addr == lc.addr
    | none => false
  | _ => true

def holds (last : Option (Op × Bool)) (cnames lnames : List String) (ob : Observation) : Bool :=
  coherent ob &&
  match last with
  | none => true
  | some (op, ok) => lastOp op ok (fun n => ((cnames.zip ob.liveC).lookup n).join) (fun n => ((lnames.zip ob.liveL).lookup n).join)

/-! ### `rm` cases: ONE `RemoveClusterHosts` call with several addresses on a cluster of known hosts -/

/-- what the harness sees after the call -/
structure RmObs where
  ok : Bool
  live : List String       -- addresses of the live host set, in `HostSet.Range` order
  stored : List String     -- addresses of the hosts recorded in the effective config, in order
  served : List String     -- LISTED addresses that a load-balancer pick on the new snapshot still returned
  deriving Repr, DecidableEq

def distinct : List String → Bool
  | [] => true
  | a :: r => !r.contains a && distinct r

/-- the call succeeded; the live hosts are exactly the initial addresses that are not listed (each once; the ORDER of the host
set is not part of the property, it is compared with the model only); the stored hosts are the live ones; no listed address is
served any more. Written over plain address lists only. -/
def rmHolds (initial addrs : List String) (ob : RmObs) : Bool :=
  ob.ok && distinct ob.live &&
  ob.live.all (fun a => initial.contains a && !addrs.contains a) &&
  initial.all (fun a => addrs.contains a || ob.live.contains a) &&
  ob.stored == ob.live && ob.served.isEmpty

end Spec

/-! ### `mode` cases: router histories mixing directory-mode and static-mode configurations, then dump → reload -/

/-- what the harness sees of one router name: the live tables, whether the dumped file could be loaded again, and the tables
built from the reloaded router -/
structure ModeObs where
  live : String
  loadOk : Bool
  reb : String
  deriving Repr, DecidableEq

/-- the model's observation (the directory gives its files back in configuration order: the observation — matching on a request
grid — does not depend on the order of the virtual hosts) -/
def modeObserveOne (o : Oracle) (s : State) (n : String) : ModeObs :=
  let rl := reloadRouter (fun l => l) s n
  ⟨renderRouter (liveRouters s n),
   (match rl with
    | some none => false
    | _ => true),
   renderRouter (rl.map (fun r => r.bind (build o)))⟩

def modeObserve (o : Oracle) (rnames : List String) (s : State) : List ModeObs := rnames.map (modeObserveOne o s)

namespace Spec
/-- the dumped configuration loads again, and the routers built from it answer as the live ones -/
def modeOne (ob : ModeObs) : Bool := ob.loadOk && ob.live == ob.reb
def modeHolds (obs : List ModeObs) : Bool := obs.all modeOne
end Spec

/-- the model's observation of an `rm` case: cluster `c` created, given `hosts`, then `RemoveClusterHosts c addrs`. -/
def rmObserve (o : Oracle) (hosts : List Host) (addrs : List String) : Spec.RmObs :=
  let s0 := run o [.addOrUpdateCluster "c" 1 [], .updateHosts "c" hosts]
  let r := step o s0 (.removeHosts "c" addrs)
  ⟨r.2, ((r.1.clusters "c").map (fun lc => lc.hosts.map (·.addr))).getD [],
        ((r.1.cstore "c").map (fun sc => sc.hosts.map (·.addr))).getD [], []⟩

end MosnVerif.Model.Updates
