import MosnVerif.Gen.HpackEmit
import MosnVerif.Model.HpackAt
/-!
The HPACK decoder of pkg/module/http2/hpack WITH its `emitEnabled` flag (`SetEmitEnabled`): `MFramer.readMetaFrame`
switches emitting off from inside the emit callback as soon as a field is invalid or the header list exceeds
MAX_HEADER_LIST_SIZE, and the decoder must keep decoding the rest of the block "and keeping in-sync with decoder state":
a literal with incremental indexing still enters the dynamic table with its real strings (`wantStr`), everything else
is skipped undecoded.  Table lookups go through the regenerated `Decoder.at` with checked access (Model/HpackAt).

`Policy` carries the three regenerated decisions (`Gen.HpackEmit`): `wantStr`, the guard of `dynTab.add`, the guard of
`d.emit`; `codePolicy` is the code's.  Core Lean only.
-/
namespace MosnVerif.Model.HpackEmit
open MosnVerif.Model.HpackTable MosnVerif.Model.HpackInt MosnVerif.Model.HpackAt

structure Policy where
  wantStr : Bool → Bool → Bool     -- (emitEnabled, it.indexed())
  addGuard : Bool → Bool → Bool
  emitGuard : Bool → Bool

def codePolicy : Policy :=
  { wantStr := MosnVerif.Gen.HpackEmit.wantStr, addGuard := MosnVerif.Gen.HpackEmit.addGuard,
    emitGuard := MosnVerif.Gen.HpackEmit.emitGuard }

/-- Go name of the index type of a literal representation (parseHeaderFieldRepr) -/
def goIndexType : LitKind → String
  | .incremental => "indexedTrue"
  | .without => "indexedFalse"
  | .never => "indexedNever"

/-- `it.indexed()` / `it.sensitive()` through the regenerated constants -/
def isIndexed (k : LitKind) : Bool := goIndexType k == MosnVerif.Gen.HpackEmit.indexedConst
def isSensitive (k : LitKind) : Bool := goIndexType k == MosnVerif.Gen.HpackEmit.sensitiveConst

/-- the literal cases of parseHeaderFieldRepr as the model's `LitKind`s write them -/
def modelLiteralCases : List (Nat × Nat × Nat × String) :=
  [(192, LitKind.incremental.typeByte, LitKind.incremental.prefixBits, goIndexType .incremental),
   (240, LitKind.without.typeByte, LitKind.without.prefixBits, goIndexType .without),
   (240, LitKind.never.typeByte, LitKind.never.prefixBits, goIndexType .never)]

/-- decoder state: the table-side state of `Model/HpackTable` plus `emitEnabled` -/
structure DecE where
  base : Dec
  emit : Bool
  deriving DecidableEq, Repr

def DecE.new (maxSize : Nat) : DecE := { base := Dec.new maxSize, emit := true }

/-- a decoding error, or a Go panic (index out of range in `at`) -/
inductive XErr
  | dec (e : DErr)
  | panic
  deriving DecidableEq, Repr

/-- `callEmit` after the table update `b'`: the maxStrLen test on the strings kept, then the emit function iff enabled -/
def emitStep (pol : Policy) (d : DecE) (b' : Dec) (f : Field) : Except XErr (DecE × Option Field) :=
  match callEmit d.base f with
  | .error e => .error (.dec e)
  | .ok _ => .ok ({ d with base := { b' with firstField := false } }, if pol.emitGuard d.emit then some f else none)

/-- `parseFieldIndexed` / `parseFieldLiteral` / `parseDynamicTableSizeUpdate` on one representation as the ENCODER
wrote it (full strings): what the decoder keeps of the strings is decided by `wantStr`. -/
def DecE.applyP (pol : Policy) (d : DecE) : Rep → Except XErr (DecE × Option Field)
  | .indexed idx =>
    match lookup d.base idx with
    | .oob => .error .panic
    | .none => .error (.dec .invalid)
    | .some e => emitStep pol d d.base { name := e.1, value := e.2 }
  | .literal k nameIdx name value =>
    let w := pol.wantStr d.emit (isIndexed k)
    let nameR : Except XErr Bytes :=
      if nameIdx > 0 then
        match lookup d.base nameIdx with
        | .oob => .error .panic
        | .none => .error (.dec .invalid)
        | .some e => .ok e.1
      else .ok (if w then name else [])
    match nameR with
    | .error e => .error e
    | .ok nm =>
      let v := if w then value else []
      let b' := if pol.addGuard d.emit (isIndexed k) then { d.base with tab := d.base.tab.add (nm, v) } else d.base
      emitStep pol d b' { name := nm, value := v, sensitive := isSensitive k }
  | .sizeUpdate size =>
    if !d.base.firstField && decide (d.base.tab.size > 0) then .error (.dec .invalid)
    else if size > d.base.allowedMax then .error (.dec .invalid)
    else .ok ({ d with base := { d.base with tab := d.base.tab.setMaxSize size } }, none)

def DecE.apply (d : DecE) (r : Rep) : Except XErr (DecE × Option Field) := d.applyP codePolicy r

/-- the emit callback of the framer after an emitted field: `cut = some 0` — this is the field at which it calls
`SetEmitEnabled(false)` (invalid field / header list too large); it never re-enables -/
def afterEmit (d : DecE) (f : Option Field) (cut : Option Nat) : DecE × Option Nat :=
  match f, cut with
  | some _, some 0 => ({ d with emit := false }, none)
  | some _, some (k + 1) => (d, some k)
  | _, c => (d, c)

/-- one header block on representations: the fields handed to the emit callback (the one that made it switch emitting
off included) and the decoder afterwards (`Close` resets `firstField`) -/
def DecE.applyAllP (pol : Policy) (d : DecE) (cut : Option Nat) : List Rep → Except XErr (DecE × List Field)
  | [] => .ok ({ d with base := { d.base with firstField := true } }, [])
  | r :: rs =>
    match d.applyP pol r with
    | .error e => .error e
    | .ok (d', f) =>
      let (d'', cut') := afterEmit d' f cut
      match DecE.applyAllP pol d'' cut' rs with
      | .error e => .error e
      | .ok (d3, fs) => .ok (d3, consOpt f fs)

/-- `readMetaFrame`: `hdec.SetEmitEnabled(true)` before the block is written -/
def DecE.startBlock (d : DecE) : DecE :=
  if MosnVerif.Gen.HpackEmit.blockStartsEnabled then { d with emit := true } else d

/-! ### bytes: `readString(p, wantStr)` and the representation the decoder sees -/

/-- `Decoder.readString(p, wantStr)`: with `wantStr = false` the octets are skipped undecoded (a Huffman error goes
unnoticed), the length tests are the same -/
def readStringW (maxStrLen : Nat) (wantStr : Bool) (p : Bytes) : Except DErr (Bytes × Bytes) :=
  match readStringRaw maxStrLen p with
  | .error e => .error (liftErr e)
  | .ok (isHuff, raw, rest) =>
    if !wantStr then .ok ([], rest)
    else if !isHuff then .ok (raw, rest)
    else match Huffman.decode maxStrLen raw with
      | .ok s => .ok (s, rest)
      | .error .invalid => .error .huffman
      | .error .strLen => .error .strLen

def parseLiteralW (maxStrLen : Nat) (w : Bool) (k : LitKind) (buf : Bytes) : Except DErr (Rep × Bytes) :=
  match readVarInt k.prefixBits buf with
  | .error e => .error (liftErr e)
  | .ok (nameIdx, buf) =>
    let nameR : Except DErr (Bytes × Bytes) := if nameIdx > 0 then .ok ([], buf) else readStringW maxStrLen w buf
    match nameR with
    | .error e => .error e
    | .ok (name, buf) =>
      match readStringW maxStrLen w buf with
      | .error e => .error e
      | .ok (value, buf) => .ok (.literal k nameIdx name value, buf)

/-- one representation off the front of `buf` as the decoder with `emitEnabled = emit` reads it -/
def parseOneW (pol : Policy) (emit : Bool) (maxStrLen : Nat) (buf : Bytes) : Except DErr (Rep × Bytes) :=
  match buf with
  | [] => .error .needMore
  | b :: _ =>
    let b := b.toNat
    if b / 128 % 2 = 1 then
      match readVarInt 7 buf with
      | .error e => .error (liftErr e)
      | .ok (idx, rest) => .ok (.indexed idx, rest)
    else if b / 64 = 1 then parseLiteralW maxStrLen (pol.wantStr emit (isIndexed .incremental)) .incremental buf
    else if b / 16 = 0 then parseLiteralW maxStrLen (pol.wantStr emit (isIndexed .without)) .without buf
    else if b / 16 = 1 then parseLiteralW maxStrLen (pol.wantStr emit (isIndexed .never)) .never buf
    else if b / 32 = 1 then
      match readVarInt 5 buf with
      | .error e => .error (liftErr e)
      | .ok (size, rest) => .ok (.sizeUpdate size, rest)
    else .error .invalid

/-- the emit callback as a function of the field handed over: `true` = it calls `SetEmitEnabled(false)` -/
abbrev Callback (σ : Type) := σ → Field → σ × Bool

/-- `Decoder.Write(block)` + `Close()` with an emit callback that may switch emitting off: the decoder afterwards,
the fields handed to the callback, and the callback's state -/
def decodeLoopE {σ : Type} (pol : Policy) (cb : Callback σ) : Nat → DecE → σ → Bytes → List Field →
    Except XErr (DecE × σ × List Field)
  | 0, _, _, _, _ => .error (.dec .invalid)
  | fuel + 1, d, st, buf, acc =>
    if buf.isEmpty then .ok ({ d with base := { d.base with firstField := true } }, st, acc.reverse) else
    match parseOneW pol d.emit d.base.maxStrLen buf with
    | .error e => .error (.dec e)
    | .ok (r, rest) =>
      match d.applyP pol r with
      | .error e => .error e
      | .ok (d', f) =>
        match f with
        | none => decodeLoopE pol cb fuel d' st rest acc
        | some f =>
          let (st', off) := cb st f
          decodeLoopE pol cb fuel (if off then { d' with emit := false } else d') st' rest (f :: acc)

def DecE.decodeFullP {σ : Type} (pol : Policy) (cb : Callback σ) (d : DecE) (st : σ) (block : Bytes) :
    Except XErr (DecE × σ × List Field) :=
  decodeLoopE pol cb (block.length + 1) d st block []

/-- the callback of `readMetaFrame` reduced to its header-list-size accounting and an "invalid field" oracle:
state = (remaining size, kept fields reversed, invalid seen) -/
structure FrSt where
  remain : Int
  kept : List Field
  invalid : Bool
  truncated : Bool
  deriving Repr

def framerCallback (isInvalid : Field → Bool) : Callback FrSt := fun st f =>
  if st.invalid || isInvalid f then ({ st with invalid := true }, true)
  else
    let size : Int := entrySize (f.name, f.value)
    if MosnVerif.Gen.HpackEmit.overLimit size st.remain then ({ st with truncated := true }, true)
    else ({ st with remain := st.remain - size, kept := f :: st.kept }, false)

end MosnVerif.Model.HpackEmit
