/-!
Data types and primitive helpers shared by the *regenerated* `Gen/Route.lean` and the hand-written
`Model/Route.lean` (C04, pkg/router).  Core Lean only.

* strings are `List Char` (`Str`).  Assumption (props/C04.json): host names, domains, paths and header
  values are ASCII, so Go's byte length / byte slicing / `strings.ToLower` / `strings.EqualFold` coincide with
  the character-level definitions below.
* a Go `map[string]V` is an association list with unique keys (`mapSet` replaces); only `len(m) > 0`,
  lookup and insertion are used by the modelled code.
-/
namespace MosnVerif.Model.Route

abbrev Str := List Char

/-- `strings.ToLower` on ASCII -/
def lower (s : Str) : Str := s.map Char.toLower

/-- `strings.EqualFold` on ASCII -/
def equalFold (a b : Str) : Bool := decide (lower a = lower b)

/-- `strings.HasPrefix s p` -/
def hasPrefix (s p : Str) : Bool := p.isPrefixOf s

/-- `len(s)` of a Go string -/
def strLen (s : Str) : Int := s.length

/-- `s[i:]` (the modelled code guards `0 ≤ i ≤ len s`; Go panics otherwise) -/
def strFrom (s : Str) (i : Int) : Str := s.drop i.toNat

/-- `s[:i]` -/
def strTo (s : Str) (i : Int) : Str := s.take i.toNat

/-- `strings.Contains s "<c>"` for a one-character needle -/
def containsChar (s : Str) (c : Char) : Bool := s.contains c

/-! ### Go maps with string keys -/

def mapGet {ν : Type} : List (Str × ν) → Str → Option ν
  | [], _ => none
  | (k', v) :: r, k => if k' = k then some v else mapGet r k

/-- `m[k] = v` -/
def mapSet {ν : Type} : List (Str × ν) → Str → ν → List (Str × ν)
  | [], k, v => [(k, v)]
  | (k', v') :: r, k, v => if k' = k then (k', v) :: r else (k', v') :: mapSet r k v

/-- `len(m)` -/
def mapLen {ν : Type} (m : List (Str × ν)) : Int := m.length

/-- `for _, x := range l { body }` in continuation style: `body x next` is the value of the rest of the
function when the iteration for `x` is entered, `next` the value when the iteration falls through / continues. -/
def forRange {α β : Type} (l : List α) (body : α → β → β) (done : β) : β := l.foldr body done

/-- a range loop with loop-carried state `σ` (the variables the loop body assigns): `body x s next` continues with
`next s'`, `done s` is the code after the loop -/
def forRangeS {α σ β : Type} : List α → (α → σ → (σ → β) → β) → σ → (σ → β) → β
  | [], _, s, done => done s
  | x :: r, body, s, done => body x s (fun s' => forRangeS r body s' done)

/-! ### routersImpl tables (pkg/router/routers_impl.go) -/

/-- `WildcardVirtualHostWithPort` -/
structure Wild where
  hostLen : Int
  host : Str
  index : Int
deriving DecidableEq, Repr, Inhabited

/-- the three lookup fields of `routersImpl` -/
structure Tables where
  defaultVirtualHostIndex : Int
  virtualHostPortsMap : List (Str × List (Str × Int))
  portWildcardVirtualHost : List (Str × List Wild)
deriving Repr, Inhabited

/-! ### matchers (pkg/router/configutility.go) -/

/-- identifier of a compiled regular expression; its matching behaviour is an oracle parameter -/
abbrev RegexId := Nat

/-- the regex oracle: `rx id s` = `regexp.MatchString` of pattern `id` on `s` -/
abbrev RxOracle := RegexId → Str → Bool

/-- `StringMatch` (`RegexPattern = none` is a nil `*regexp.Regexp`) -/
structure StringMatch where
  Value : Str
  IsRegex : Bool
  RegexPattern : Option RegexId
deriving DecidableEq, Repr, Inhabited

/-- `KeyValueData` -/
structure KeyValueData where
  Name : Str
  Value : StringMatch
deriving DecidableEq, Repr, Inhabited

/-- `httpHeaderMatcherImpl`: `variables` (a Go map, here with unique keys) and `headers` -/
structure HttpHeaderMatcher where
  variables : List (Str × Str)
  headers : List KeyValueData
deriving Repr, Inhabited

/-- `VariableMatchItem` (pkg/router/variable_rule.go): `value` / `regexPattern` are nil-able pointers -/
structure VarItem where
  name : Str
  value : Option Str
  regexPattern : Option RegexId
  model : Str
deriving DecidableEq, Repr, Inhabited

/-- `(*regexp.Regexp).MatchString` on a possibly nil pattern pointer that the code has tested non-nil -/
def rxMatch (rx : RxOracle) (p : Option RegexId) (s : Str) : Bool :=
  match p with
  | some id => rx id s
  | none => false

/-! ### configuration records the regenerated constructors read (`v2.HeaderMatcher`) -/

/-- an occurrence of a regular-expression pattern in the configuration: its oracle identifier and whether
`regexp.Compile` accepts it -/
structure Rx where
  id : RegexId
  ok : Bool
deriving DecidableEq, Repr, Inhabited

/-- `v2.HeaderMatcher`; `rx` describes `value` read as a pattern (relevant when `regex = true`) -/
structure HeaderCfg where
  name : Str
  value : Str
  regex : Bool
  rx : Rx
deriving DecidableEq, Repr, Inhabited

/-- `regexp.Compile(s)` as `NewKeyValueData` calls it for the header matcher `h`: the compiled pattern (a non-nil
`*regexp.Regexp`, here `some id`) or an error (`none`).  The oracle knows the pattern text `h.value` only: compiling
any other string is reported as an error, so code that compiles something else than the configured value cannot agree
with the implementation. -/
def HeaderCfg.compile (h : HeaderCfg) (s : Str) : Option (Option RegexId) :=
  if s = h.value ∧ h.rx.ok = true then some (some h.rx.id) else none

/-- `v2.VariableMatcher`; `regex = none` ⇔ `Regex == ""` -/
structure VarCfg where
  name : Str
  value : Str
  regex : Option Rx
  model : Str
deriving DecidableEq, Repr, Inhabited

/-- `matcher.Regex` as far as the parse decision reads it: empty or not (the pattern itself is identified by its oracle
identifier; its text travels beside the case, see Model/RouteRegex.lean) -/
def VarCfg.regexText (v : VarCfg) : Str :=
  match v.regex with
  | none => []
  | some _ => ['?']

/-- `regexp.Compile(s)` as `ParseToVariableMatchItem` calls it for the matcher `v`: compiling anything else than the
configured `Regex` is reported as an error, so code that compiles something else cannot agree with the implementation -/
def VarCfg.compile (v : VarCfg) (s : Str) : Option (Option RegexId) :=
  match v.regex with
  | some r => if s = v.regexText ∧ r.ok = true then some (some r.id) else none
  | none => none

/-- `len(l)` of a Go slice -/
def listLen {α : Type} (l : List α) : Int := l.length

/-- `l[0]` of a Go slice the code has tested non-empty (Go panics otherwise; the Lean side yields the zero value) -/
def listAt0 {α : Type} [Inhabited α] (l : List α) : α := l.head?.getD default

/-- `RPCRouteRuleImpl` (pkg/router/rpc_rule.go): the fields selection depends on; the embedded rule base (route
action, timeouts, ...) is opaque here -/
structure RpcRule where
  RouteRuleImplBase : Unit
  configHeaders : List KeyValueData
  fastmatch : Str
deriving Repr, Inhabited

/-- `BaseHTTPRouteRule` (pkg/router/http_rule.go): `configQueryParameters = none` is the nil interface value -/
structure HttpBase where
  RouteRuleImplBase : Unit
  configHeaders : HttpHeaderMatcher
  configQueryParameters : Option (List KeyValueData)
deriving Repr, Inhabited

/-! ### request header maps (`api.HeaderMap.Get`) -/

/-- which `api.HeaderMap` implementation carries the request headers:
* `exact`: `protocol.CommonHeader` (a Go map) and the xprotocol header maps (`header.BytesHeader` of bolt / boltv2 /
  tars ...): keys are compared byte by byte;
* `fold`: the HTTP/1 map (`mosn.io/pkg/protocol/http.RequestHeader` over fasthttp): every key is normalised when it is
  stored and when it is looked up, so keys are compared ignoring ASCII case; a request may carry a name more than
  once, `Get` returns the first stored value;
* `h2`: the HTTP/2 request map (`pkg/protocol/http2.ReqHeader` over `net/http.Header`): keys are canonicalised (compared
  ignoring case), a header whose first value is empty is reported as absent, and the pseudo headers `:authority`,
  `:path`, `:method` are answered from the request line (every other `:name` is absent). -/
inductive MapKind | exact | fold | h2
deriving DecidableEq, Repr, Inhabited

/-- first stored value under a key equal to `k` -/
def getExact : List (Str × Str) → Str → Option Str
  | [], _ => none
  | (k', v) :: r, k => if k' = k then some v else getExact r k

/-- first stored value under a key equal to `k` ignoring ASCII case -/
def getFold : List (Str × Str) → Str → Option Str
  | [], _ => none
  | (k', v) :: r, k => if equalFold k' k then some v else getFold r k

/-- a request as the router sees it: the variable context (`variable.GetString`, `none` = error/unset), the header
map (its implementation kind and the name/value pairs the request carries, in stored order; `pseudo` = the request
line of an HTTP/2 request: authority, path, method) and `dsl`, the CEL-evaluation oracle for DSL rules -/
structure Req where
  var : Str → Option Str
  kind : MapKind := .exact
  hdrs : List (Str × Str) := []
  pseudo : List (Str × Str) := []
  /-- oracle: the value of the compiled DSL (CEL) expression `i` on this request (`none` = evaluation error) -/
  dsl : Nat → Option Bool := fun _ => none
  /-- oracle: `http.ParseQueryString` (only reached when a query-parameter matcher is installed, which no constructor does) -/
  pq : Str → List (Str × Str) := fun _ => []

/-- `headers.Get(key)` of the request's header map -/
def Req.hdr (r : Req) (key : Str) : Option Str :=
  match r.kind with
  | .exact => getExact r.hdrs key
  | .fold => getFold r.hdrs key
  | .h2 =>
    if key.head? = some ':' then getExact r.pseudo key
    else match getFold r.hdrs key with
      | some v => if v = [] then none else some v
      | none => none

end MosnVerif.Model.Route
