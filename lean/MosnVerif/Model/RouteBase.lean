/-!
Data types and primitive helpers shared by the *regenerated* `Gen/Route.lean` and the hand-written
`Model/Route.lean` (C04, pkg/router).  Core Lean only.

* strings are `List Char` (`Str`).  Assumption (props/C04.json): host names, domains, paths and header
  values are ASCII, so Go's byte length / byte slicing / `strings.ToLower` / `strings.EqualFold` coincide with
  the character-level definitions below.
* a Go `map[string]V` is an association list with unique keys (`mapSet` replaces); only `len(m) > 0`,
  lookup and insertion are used by the modelled code.
-/
namespace MosnVerif.Model.Route

abbrev Str := List Char

/-- `strings.ToLower` on ASCII -/
def lower (s : Str) : Str := s.map Char.toLower

/-- `strings.EqualFold` on ASCII -/
def equalFold (a b : Str) : Bool := decide (lower a = lower b)

/-- `strings.HasPrefix s p` -/
def hasPrefix (s p : Str) : Bool := p.isPrefixOf s

/-- `len(s)` of a Go string -/
def strLen (s : Str) : Int := s.length

/-- `s[i:]` (the modelled code guards `0 ≤ i ≤ len s`; Go panics otherwise) -/
def strFrom (s : Str) (i : Int) : Str := s.drop i.toNat

/-- `s[:i]` -/
def strTo (s : Str) (i : Int) : Str := s.take i.toNat

/-- `strings.Contains s "<c>"` for a one-character needle -/
def containsChar (s : Str) (c : Char) : Bool := s.contains c

/-! ### Go maps with string keys -/

def mapGet {ν : Type} : List (Str × ν) → Str → Option ν
  | [], _ => none
  | (k', v) :: r, k => if k' = k then some v else mapGet r k

/-- `m[k] = v` -/
def mapSet {ν : Type} : List (Str × ν) → Str → ν → List (Str × ν)
  | [], k, v => [(k, v)]
  | (k', v') :: r, k, v => if k' = k then (k', v) :: r else (k', v') :: mapSet r k v

/-- `len(m)` -/
def mapLen {ν : Type} (m : List (Str × ν)) : Int := m.length

/-- `for _, x := range l { body }` in continuation style: `body x next` is the value of the rest of the
function when the iteration for `x` is entered, `next` the value when the iteration falls through / continues. -/
def forRange {α β : Type} (l : List α) (body : α → β → β) (done : β) : β := l.foldr body done

/-- a range loop with loop-carried state `σ` (the variables the loop body assigns): `body x s next` continues with
`next s'`, `done s` is the code after the loop -/
def forRangeS {α σ β : Type} : List α → (α → σ → (σ → β) → β) → σ → (σ → β) → β
  | [], _, s, done => done s
  | x :: r, body, s, done => body x s (fun s' => forRangeS r body s' done)

/-! ### routersImpl tables (pkg/router/routers_impl.go) -/

/-- `WildcardVirtualHostWithPort` -/
structure Wild where
  hostLen : Int
  host : Str
  index : Int
deriving DecidableEq, Repr, Inhabited

/-- the three lookup fields of `routersImpl` -/
structure Tables where
  defaultVirtualHostIndex : Int
  virtualHostPortsMap : List (Str × List (Str × Int))
  portWildcardVirtualHost : List (Str × List Wild)
deriving Repr, Inhabited

/-! ### matchers (pkg/router/configutility.go) -/

/-- identifier of a compiled regular expression; its matching behaviour is an oracle parameter -/
abbrev RegexId := Nat

/-- the regex oracle: `rx id s` = `regexp.MatchString` of pattern `id` on `s` -/
abbrev RxOracle := RegexId → Str → Bool

/-- `StringMatch` (`RegexPattern = none` is a nil `*regexp.Regexp`) -/
structure StringMatch where
  Value : Str
  IsRegex : Bool
  RegexPattern : Option RegexId
deriving DecidableEq, Repr, Inhabited

/-- `KeyValueData` -/
structure KeyValueData where
  Name : Str
  Value : StringMatch
deriving DecidableEq, Repr, Inhabited

/-- `httpHeaderMatcherImpl`: `variables` (a Go map, here with unique keys) and `headers` -/
structure HttpHeaderMatcher where
  variables : List (Str × Str)
  headers : List KeyValueData
deriving Repr, Inhabited

/-- `VariableMatchItem` (pkg/router/variable_rule.go): `value` / `regexPattern` are nil-able pointers -/
structure VarItem where
  name : Str
  value : Option Str
  regexPattern : Option RegexId
  model : Str
deriving DecidableEq, Repr, Inhabited

/-- `(*regexp.Regexp).MatchString` on a possibly nil pattern pointer that the code has tested non-nil -/
def rxMatch (rx : RxOracle) (p : Option RegexId) (s : Str) : Bool :=
  match p with
  | some id => rx id s
  | none => false

/-- a request as the router sees it: the variable context (`variable.GetString`, `none` = error/unset)
and the header map (`headers.Get`); `dsl` is the CEL-evaluation oracle for DSL rules -/
structure Req where
  var : Str → Option Str
  hdr : Str → Option Str
  /-- oracle: the value of the compiled DSL (CEL) expression `i` on this request (`none` = evaluation error) -/
  dsl : Nat → Option Bool := fun _ => none

end MosnVerif.Model.Route
