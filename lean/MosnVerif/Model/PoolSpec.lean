import MosnVerif.Model.Pool
/-!
Executable property predicate of C09, evaluated on what was *observed* after each operation (by the harness on the
real pools, or read off a model state with `obsOf`). It is declarative: it never looks at the pool's decision code,
only at the books (`total`, `idle`, `reqCur`) against the truth (which connections are open, which streams are
still in flight on which connection, what each stream was told).
-/
namespace MosnVerif.Model.Pool

structure OStream where
  conn     : Nat
  recv     : Nat
  resets   : Nat      -- number of OnResetStream notifications
  destroys : Nat
  deriving DecidableEq, Repr

structure Obs where
  total   : Int
  idle    : List Nat
  reqCur  : Int
  conns   : List Bool      -- per connection: open
  streams : List OStream
  deriving DecidableEq, Repr

def OStream.live (st : OStream) : Bool := st.destroys == 0

def Obs.liveConns (o : Obs) : List Nat := (o.streams.filter (·.live)).map (·.conn)

def Obs.isOpen (o : Obs) (c : Nat) : Bool := o.conns.getD c false

/-- the quiescent-point statement of C09 on one observation.  `ext` = slots of the shared requests breaker held
elsewhere, `maxReq` its limit (0 = not counted). -/
def obsSpec (maxReq ext : Nat) (o : Obs) : Bool :=
  -- exclusive: at most one in-flight stream per connection
  decide (o.liveConns.Nodup) &&
  -- idle list duplicate-free, idle connections are open and not leased
  decide (o.idle.Nodup) &&
  o.idle.all (fun c => o.isOpen c && !o.liveConns.contains c) &&
  -- leased connections are open
  o.liveConns.all (fun c => o.isOpen c) &&
  -- partition / no leak: an open connection is idle or leased
  (List.range o.conns.length).all (fun c => !o.isOpen c || o.idle.contains c || o.liveConns.contains c) &&
  -- books
  decide (o.total = (o.liveConns.length : Int) + (o.idle.length : Int)) &&
  decide (o.reqCur = if maxReq = 0 then 0 else (ext : Int) + (o.liveConns.length : Int)) &&
  -- clean reuse: a connection on which a request was reset is closed (hence neither idle nor leased)
  o.streams.all (fun st => st.resets == 0 || !o.isOpen st.conn) &&
  -- destroy once; at most one delivery, and only to a stream that was not reset
  o.streams.all (fun st => decide (st.destroys ≤ 1) && decide (st.recv ≤ 1) && decide (st.resets ≤ 1) &&
    (st.recv == 0 || (st.destroys == 1 && st.resets == 0)))

/-- the statement about one `NewStream` outcome, against the observation before it:
refusal / failure leaves books and truth untouched (`no_leak`), and — for a call whose connect would succeed — the
lease is granted exactly when the breaker has room and fewer than `maxConn` connections are truly in use
(capacity freed by finished, failed or refused requests is available again). -/
def newStreamSpec (maxConn maxReq ext : Nat) (connectFails : Bool) (before : Obs) (granted : Bool) (after : Obs) : Bool :=
  let room := (maxReq = 0 ∨ (ext : Int) + before.liveConns.length < maxReq) ∧ (maxConn = 0 ∨ before.liveConns.length < maxConn)
  (granted || (after == before)) &&
  -- a connect is attempted only when no idle connection exists
  (granted == decide (room ∧ (connectFails = false ∨ before.idle.isEmpty = false)))

def obsOf (s : State) : Obs :=
  { total := s.total, idle := s.idle, reqCur := s.reqCur,
    conns := (List.range s.nClients).map (fun c => (s.client c).netOpen),
    streams := (List.range s.nStreams).map (fun i =>
      let st := s.stream i
      { conn := st.conn, recv := st.recv, resets := st.resets.length, destroys := st.destroys }) }

end MosnVerif.Model.Pool
