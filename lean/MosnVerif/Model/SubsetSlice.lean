import MosnVerif.Gen.SubsetSlice
import MosnVerif.Model.Subset
/-!
Go slice semantics for the ONE accumulator of the pre-index subset builder that is appended to after having been
received as an argument: the combination prefix `kvs` of `doMetadataCombination`
(pkg/upstream/cluster/subset_loadbalancer_builder.go).  Core Lean only.

`Model/Subset.lean` models that prefix as an immutable list (`pre ++ [(k, v)]`), which cannot express that two sibling
combinations share a backing array.  Here

* a slice is `(backing array id, len, cap)` over a store of arrays (all slices start at offset 0 of their array: the
  regenerated statement language has no `v[i:]`);
* `append` writes in place when `len + n ≤ cap` and otherwise allocates `max needed (grow oldCap needed)` elements:
  the capacity policy `grow` is a PARAMETER — the theorems hold for every policy, `goGrow` (Go's doubling rule for small
  slices) is the instance the driver runs;
* the statements that extend the prefix by the next pair are the regenerated `Gen.SubsetSlice.comboExtend`, interpreted
  by `step`; the finished combinations are slices and are read from the store after the whole product has been built
  (as `createSubsets` does when it ranges over the result of `metadataCombinations`).

`ret` (the result list of `doMetadataCombination`) is a local variable of each call and stays an immutable list.
-/
namespace MosnVerif.Model.SubsetSlice
open MosnVerif MosnVerif.Model.Subset
open MosnVerif.Gen.SubsetSlice (IExp SExp Stmt)

structure Slice where
  arr : Nat      -- backing array (index into the store); irrelevant while `cap = 0`
  len : Nat
  cap : Nat
  deriving DecidableEq, Repr, Inhabited

/-- the nil slice -/
def Slice.nil : Slice := ⟨0, 0, 0⟩

/-- the backing arrays, by id; an array's length is its capacity -/
abbrev Store := List (List KV)

def zeroKV : KV := ("", "")

def arrayOf (st : Store) (a : Nat) : List KV := (st[a]?).getD []

/-- the elements a slice denotes in a store -/
def read (st : Store) (s : Slice) : Path := (arrayOf st s.arr).take s.len

/-- capacity policy of `append` when it must reallocate: old capacity, needed length ↦ new capacity
(clamped from below to the needed length by `newCap`) -/
abbrev Grow := Nat → Nat → Nat

def newCap (grow : Grow) (oldCap needed : Nat) : Nat := max needed (grow oldCap needed)

/-- Go's `runtime.nextslicecap` below the 256-element threshold: the needed length when it exceeds twice the old
capacity, else twice the old capacity (1 → 2 → 4 → 8 for one-element appends; for the 32-byte `types.Pair` the
allocator's size classes do not round these up). -/
def goGrow : Grow := fun oldCap needed => if needed > 2 * oldCap then needed else 2 * oldCap

/-- a policy without spare capacity (every append reallocates) -/
def exactGrow : Grow := fun _ needed => needed

/-- `append(s, xs...)`: in place while the capacity suffices (the elements behind `len` of the SHARED array are
overwritten), otherwise a new array holding the old elements and `xs` -/
def appendSl (grow : Grow) (st : Store) (s : Slice) (xs : List KV) : Slice × Store :=
  if s.len + xs.length ≤ s.cap then
    let a := arrayOf st s.arr
    (⟨s.arr, s.len + xs.length, s.cap⟩, st.set s.arr (a.take s.len ++ xs ++ a.drop (s.len + xs.length)))
  else
    let c := newCap grow s.cap (s.len + xs.length)
    let content := read st s ++ xs
    (⟨st.length, s.len + xs.length, c⟩, st ++ [content ++ List.replicate (c - content.length) zeroKV])

/-- slice variables by number -/
abbrev Env := Nat → Slice

def setVar (env : Env) (v : Nat) (s : Slice) : Env := fun i => if i = v then s else env i

/-- variable 0 is the received slice, every other variable starts nil -/
def initEnv (src : Slice) : Env := fun i => if i = 0 then src else Slice.nil

def evalI (env : Env) : IExp → Nat
  | .lit n => n
  | .len v => (env v).len
  | .cap v => (env v).cap
  | .add a b => evalI env a + evalI env b

def evalS (env : Env) : SExp → Slice
  | .var v => env v
  | .empty => Slice.nil
  | .clip v => { env v with cap := (env v).len }

/-- one statement; `pair` is `types.Pair{T1: key, T2: value}` of the current iteration.
(`make` with len > cap panics in Go; the model takes the larger of the two as capacity.) -/
def step (grow : Grow) (pair : KV) (es : Env × Store) : Stmt → Env × Store
  | .make d l c =>
    let n := evalI es.1 l
    let k := max n (evalI es.1 c)
    (setVar es.1 d ⟨es.2.length, n, k⟩, es.2 ++ [List.replicate k zeroKV])
  | .copy d s =>
    let ds := es.1 d
    let src := read es.2 (evalS es.1 s)
    let n := min ds.len src.length
    (es.1, es.2.set ds.arr (src.take n ++ (arrayOf es.2 ds.arr).drop n))
  | .appendPair d b =>
    let r := appendSl grow es.2 (evalS es.1 b) [pair]
    (setVar es.1 d r.1, r.2)
  | .appendAll d b s =>
    let r := appendSl grow es.2 (evalS es.1 b) (read es.2 (evalS es.1 s))
    (setVar es.1 d r.1, r.2)
  | .assign d s => (setVar es.1 d (evalS es.1 s), es.2)

/-- the extension of the received slice `src` by `pair`: run the statements, hand on variable `res` -/
def extendWith (stmts : List Stmt) (res : Nat) (grow : Grow) (src : Slice) (pair : KV) (st : Store) : Slice × Store :=
  let es := stmts.foldl (step grow pair) (initEnv src, st)
  (es.1 res, es.2)

/-- `doMetadataCombination(keys, idx, kvs)` with `kvs` a slice: the store is threaded through the loop over the values
and through the recursive calls; the result is the list of finished combination SLICES and the final store. -/
def combosSlGo (stmts : List Stmt) (res : Nat) (grow : Grow) (ix : Index) (shuf : List Val → List Val) (n : Nat) :
    Nat → List Key → Slice → Store → List Slice × Store
  | _, [], _, st => ([], st)
  | idx, k :: ks, kvs, st =>
    (shuf (((List.lookup k ix).getD []).map (·.1))).foldl (fun (acc : List Slice × Store) v =>
      let e := extendWith stmts res grow kvs (k, v) acc.2
      if Gen.Subset.comboMore idx n then
        let r := combosSlGo stmts res grow ix shuf n (idx + 1) ks e.1 e.2
        (acc.1 ++ r.1, r.2)
      else (acc.1 ++ [e.1], e.2)) ([], st)

/-- `metadataCombinations(keys)`: the combinations as `createSubsets` reads them, after the product is complete -/
def combosWith (stmts : List Stmt) (res : Nat) (grow : Grow) (ix : Index) (shuf : List Val → List Val)
    (keys : List Key) : List Path :=
  if Gen.Subset.comboEmpty keys.length then [] else
  let r := combosSlGo stmts res grow ix shuf keys.length 0 keys Slice.nil []
  r.1.map (read r.2)

/-- the combinations under the statements the builder is written with (regenerated) -/
def combosSl (grow : Grow) (ix : Index) (shuf : List Val → List Val) (keys : List Key) : List Path :=
  combosWith Gen.SubsetSlice.comboExtend Gen.SubsetSlice.comboResult grow ix shuf keys

/-- the bare shape `newkvs := append(kvs, types.Pair{…})` (what the extension must NOT be) -/
def bareExtend : List Stmt := [.appendPair 1 (.var 0)]

/-- `subsetLoadBalancerBuilder.createSubsets` over the slice-level combinations -/
def buildPreS (grow : Grow) (ix : Index) (shuf : List Val → List Val) (hosts : List Host) (sels : List (List Key)) : Root :=
  sels.foldl (fun root sel => (combosSl grow ix shuf sel).foldl (preStep ix hosts) root) []

/-- `NewSubsetLoadBalancerPreIndex` over the slice-level combinations -/
def newPreS (grow : Grow) (shuf : List Val → List Val) (hosts : List Host) (policy : Int) (dflt : Path)
    (sels : List (List Key)) : LB :=
  let ix := mkIndex hosts (mergeKeys sels dflt)
  { full := filterHostsIdx ix hosts []
    fallback := fallbackOf (Gen.Subset.fallbackKindPre policy) hosts (filterHostsIdx ix hosts dflt)
    subsets := buildPreS grow ix shuf hosts sels }

/-- the same builder under an arbitrary extension (used by the witness against the bare shape) -/
def buildPreWith (stmts : List Stmt) (res : Nat) (grow : Grow) (ix : Index) (shuf : List Val → List Val)
    (hosts : List Host) (sels : List (List Key)) : Root :=
  sels.foldl (fun root sel => (combosWith stmts res grow ix shuf sel).foldl (preStep ix hosts) root) []

end MosnVerif.Model.SubsetSlice
