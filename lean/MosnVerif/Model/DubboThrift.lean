import MosnVerif.Model.Bytes
import MosnVerif.Gen.C01DubboThrift
/-!
Envelope model of the dubbo-thrift codec (`pkg/protocol/xprotocol/dubbothrift/{protocol,decoder,encoder,command}.go`).

  messageLen(4) | magic(2) messageLen(4) headerLen(2) version(1) serviceName(i32 len + bytes) requestId(i64) | thrift message …
                  └──────────────────────────── body = the frame after the first 4 bytes ────────────────────────────────────┘

`headerLen` counts from the magic to the end of the request id.  The thrift message (name, type, sequence id, …) is a
black box: `ReadMessageBegin` is an oracle parameter `msgOK` applied to the bytes after the request id.
What is modelled as it is:
* `Decode` wants 6 bytes, then compares the buffered length with `messageLen` (not `messageLen + 4`): a frame whose last
  ≤ 4 bytes are missing reaches `decodeFrame`, whose out-of-range slice is recovered into a decode error;
* `decodeFrame` copies the frame (repaired: it used to alias the read buffer), reads `headerLen` without validating it
  against the real header, slices `payload = body[headerLen:]`; every out-of-range slice is recovered into an error;
* the service name and the id are read by thrift's `ReadString` / `ReadI64` from `body[9:]`;
* `encodeFrame` with a raw frame patches 8 bytes at `idx = MessageLenSize + HeaderLength - IdLen`, computed in **uint16**;
  an index past the frame panics.  Only when `headerLen` is the true header length is `idx` the id field;
* without a raw frame (reply / hijack, or after `SetData` with a new buffer) the header is rebuilt from the service name
  and the id around the payload, `headerLen` and `messageLen` recomputed (uint16 / uint32 conversions as in the code).
-/
namespace MosnVerif.Model.DubboThrift
open MosnVerif.Model MosnVerif.Model.Bytes
open Gen.C01DubboThrift

structure Frame where
  headerLength : Nat      -- the uint16 read from the frame
  svc : Bytes             -- header "service" (thrift ReadString)
  id : Nat
  payload : Bytes         -- body[headerLength:]
  raw : Option Bytes
  deriving Repr, DecidableEq

/-- `decodeFrame`; `msgOK rest` = thrift accepts the message that follows the request id -/
def decodeFrame (msgOK : Bytes → Bool) (b : Bytes) : Step Frame :=
  let messageLen := getBE b dec_messageLen.1 dec_messageLen.2
  let fl := frameLen messageLen % 2 ^ 32
  if b.length < fl ∨ fl < MessageLenSize then .error            -- dataBytes[:FrameLength] / rawData[4:] out of range (recovered)
  else
    let raw := b.take fl
    let body := raw.drop MessageLenSize
    if body.length < HeaderIdx then .error                      -- body[:2], body[2:6], body[6:8], body[9:] out of range
    else
      let hl := getBE body body_HeaderLength.1 body_HeaderLength.2
      if hl > body.length then .error                           -- body[HeaderLength:]
      else
        let s := body.drop HeaderIdx
        -- thrift ReadString: i32 size, negative ⇒ error, short ⇒ error; then ReadI64
        if s.length < 4 then .error
        else
          let sl := getBE s 0 4
          if sl ≥ 2 ^ 31 ∨ s.length < 4 + sl + IdLen then .error
          else
            let svc := slice s 4 (4 + sl)
            let id := getBE s (4 + sl) (4 + sl + IdLen)
            if !msgOK (s.drop (4 + sl + IdLen)) then .error
            else .frame { headerLength := hl, svc := svc, id := id, payload := body.drop hl, raw := some raw } fl

/-- `thriftProtocol.Decode` -/
def decode (msgOK : Bytes → Bool) (b : Bytes) : Step Frame :=
  if b.length ≥ MessageLenSize + MagicLen then
    let frameLen := getBE b 0 MessageLenSize
    if b.length ≥ frameLen then decodeFrame msgOK b else .needMore
  else .needMore

/-- the patch index of the fast path, in uint16 arithmetic -/
def patchIndex (headerLength : Nat) : Nat := (patchIndexInt headerLength % 65536).toNat

inductive Enc where
  | ok (b : Bytes)
  | panic
  deriving Repr, DecidableEq

/-- header + payload as `encodeFrame` rebuilds them when there is no raw frame -/
def encodeSlow (f : Frame) : Bytes :=
  let headerLen := MagicLen + 4 + 2 + 1 + 4 + f.svc.length + IdLen
  let message := [0xda, 0xbc] ++ be 4 (headerLen + f.payload.length) ++ be 2 headerLen ++ [1]
    ++ be 4 f.svc.length ++ f.svc ++ be 8 f.id ++ f.payload
  be 4 message.length ++ message

/-- `encodeFrame` -/
def encode (f : Frame) : Enc :=
  match f.raw with
  | some raw =>
    let idx := patchIndex f.headerLength
    if idx + patchWidth ≤ raw.length then .ok (patch raw idx (be patchWidth f.id)) else .panic
  | none => .ok (encodeSlow f)

def setId (f : Frame) (id : Nat) : Frame := { f with id := id % 2 ^ 64 }

/-- header `Set("service", v)` / `Del("service")`: the slow path takes the service name from the header map -/
def setSvc (f : Frame) (v : Bytes) : Frame := { f with svc := v }

/-- `SetData` with a new buffer: payload replaced, raw frame dropped -/
def setData (f : Frame) (d : Bytes) : Frame := { f with payload := d, raw := none }

end MosnVerif.Model.DubboThrift
