import MosnVerif.Gen.ProxyGen
/-!
Pooled proxy objects, generations and late callbacks (C02, kind `pgen`).

A `downStream` lives inside pooled per-request buffers (`proxyBuffers`, pkg/proxy/buffer.go). ONE pooled object is modelled
with its whole history; every other object of the process only shows as `tick` (its `newActiveStream` bumps the shared
counter `currProxyID`). An EXCHANGE is identified with the generation it was given when it took the object
(`newActiveStream`: `ID := ++currProxyID`, `reuseBuffer := 1`, everything else zero: `proxyBufferCtx.Reset` zeroes the
object when it is given back - `Gen.ProxyGen.resetZeroes`).

Callbacks (timer callbacks of `setupPerReqTimeout` / `onUpstreamRequestSent`): armed by the exchange holding the object
(`arm`: ghost `own` = that exchange, `cap` = the generation read when armed if the code does so), started by the runtime
(`fire`: after that `Timer.Stop` is too late), then executed statement by statement (`step`), each statement atomic,
against whatever the object is by then. The statement list is a PARAMETER (`prog`, regenerated: `Gen.ProxyGen.perTryCb`,
`globalCb`). `clean` = the CAS on downstreamCleaned + cleanUp (timers of the exchange not yet started are stopped);
`give` = giveStream (only when reuseBuffer is still 1; zeroes the object, back to the pool); `respond` = the upstream
answer of the exchange holding the object (CAS on upstreamResponseReceived; upstreamRequest.OnReceive).
A schedule is any list of events; an event whose precondition fails is a no-op.
-/
namespace MosnVerif.Model.ProxyGen
open MosnVerif.Gen.ProxyGen (Step)

structure Obj where
  gen : Nat := 0          -- downStream.ID (0 while in the pool)
  held : Bool := false    -- an exchange runs on it (false: in the pool)
  cleaned : Bool := false
  reuse : Bool := false
  resp : Bool := false    -- upstreamResponseReceived
  expired : Bool := false -- globalTimeoutExpired
  deriving DecidableEq, Repr

structure Cb where
  own : Nat                      -- ghost: the exchange (generation) that armed it
  kind : Nat := 0                -- which callback of the code (0 per-try timer, 1 global timer, …)
  cap : Nat                      -- the callback's generation variable
  stopped : Bool := false
  pc : Option (List Step) := none -- none: not started
  nr : Bool := false             -- ghost: has stored reuseBuffer := 0
  fresh : Bool := false          -- ghost: cap is not the value read when armed
  pg : Bool := false             -- ghost: passed the generation test with an armed cap, after the store
  deriving DecidableEq, Repr

/-- one `act` (onPerReqTimeout / onResponseTimeout: upstream stream reset + error reply): produced for `own`, hits `hit` -/
structure Hit where
  own : Nat
  hit : Nat
  held : Bool
  deriving DecidableEq, Repr

structure St where
  ctr : Nat := 0
  o : Obj := {}
  cbs : List Cb := []
  hits : List Hit := []
  replies : List (Nat × Nat) := []   -- (exchange the reply was produced for, exchange that received it)
  touched : List (Nat × Nat) := []   -- (callback's exchange, exchange whose response token / expiry flag it wrote)
  deriving Repr

inductive Ev | tick | take | arm (k : Nat) | fire (i : Nat) | step (i : Nat) | respond | clean | give
  deriving DecidableEq, Repr

def updAt (l : List Cb) (i : Nat) (f : Cb → Cb) : List Cb :=
  match l, i with
  | [], _ => []
  | c :: r, 0 => f c :: r
  | c :: r, i + 1 => c :: updAt r i f

/-- one statement of callback `c` against the object: new object, new callback, hits, touched -/
def stmt (o : Obj) (c : Cb) (a : Step) (p : List Step) : Obj × Cb × List Hit × List (Nat × Nat) :=
  match a with
  | .noReuse => ({ o with reuse := false }, { c with pc := some p, nr := true }, [], [])
  | .loadGen => (o, { c with pc := some p, cap := o.gen, fresh := true, pg := false }, [], [])
  | .testCleaned => if o.cleaned then (o, { c with pc := some [] }, [], []) else (o, { c with pc := some p }, [], [])
  | .testGen =>
    if c.cap = o.gen then (o, { c with pc := some p, pg := c.pg || (c.nr && !c.fresh) }, [], [])
    else (o, { c with pc := some [] }, [], [])
  | .markExpired => ({ o with expired := true }, { c with pc := some p }, [], [(c.own, o.gen)])
  | .casResp =>
    if o.resp then (o, { c with pc := some [] }, [], [])
    else ({ o with resp := true }, { c with pc := some p }, [], [(c.own, o.gen)])
  | .act => (o, { c with pc := some p }, [⟨c.own, o.gen, o.held⟩], [])

def step (progs : Nat → Bool × List Step) (s : St) : Ev → St
  | .tick => { s with ctr := s.ctr + 1 }
  | .take =>
    if s.o.held then s else
    { s with ctr := s.ctr + 1, o := { gen := s.ctr + 1, held := true, reuse := true } }
  | .arm k =>
    if !s.o.held || s.o.cleaned then s else
    { s with cbs := s.cbs ++ [{ own := s.o.gen, kind := k, cap := if (progs k).1 then s.o.gen else 0, fresh := !(progs k).1 }] }
  | .fire i =>
    { s with cbs := updAt s.cbs i (fun c => if c.stopped || c.pc.isSome then c else { c with pc := some (progs c.kind).2 }) }
  | .step i =>
    match s.cbs[i]? with
    | none => s
    | some c =>
      match c.pc with
      | some (a :: p) =>
        let r := stmt s.o c a p
        { s with o := r.1, cbs := updAt s.cbs i (fun _ => r.2.1), hits := s.hits ++ r.2.2.1,
                 replies := s.replies ++ r.2.2.1.map (fun h => (h.own, h.hit)),
                 touched := s.touched ++ r.2.2.2 }
      | _ => s
  | .respond =>
    if !s.o.held || s.o.cleaned || s.o.resp then s else
    { s with o := { s.o with resp := true }, replies := s.replies ++ [(s.o.gen, s.o.gen)] }
  | .clean =>
    if !s.o.held || s.o.cleaned then s else
    { s with o := { s.o with cleaned := true },
             cbs := s.cbs.map (fun c => if c.own = s.o.gen && c.pc.isNone then { c with stopped := true } else c) }
  | .give =>
    if s.o.held && s.o.cleaned && s.o.reuse then { s with o := {} } else s

def run (progs : Nat → Bool × List Step) (s : St) (evs : List Ev) : St := evs.foldl (step progs) s

/-- static analysis of a statement list: whenever `act` / a write of the response token or the expiry flag is reached,
the generation test has been passed with a generation read when armed, after the reuseBuffer store -/
def safeProg : List Step → (nr fresh pg : Bool) → Bool
  | [], _, _, _ => true
  | .noReuse :: p, _, fresh, pg => safeProg p true fresh pg
  | .loadGen :: p, nr, _, _ => safeProg p nr true false
  | .testGen :: p, nr, fresh, pg => safeProg p nr fresh (pg || (nr && !fresh))
  | .testCleaned :: p, nr, fresh, pg => safeProg p nr fresh pg
  | .markExpired :: p, nr, fresh, pg => pg && safeProg p nr fresh pg
  | .casResp :: p, nr, fresh, pg => pg && safeProg p nr fresh pg
  | .act :: p, nr, fresh, pg => pg && safeProg p nr fresh pg

/-- a callback shape is guarded when it is armed with the generation and its statement list passes the analysis -/
def guarded (armCap : Bool) (prog : List Step) : Bool := armCap && safeProg prog false false false

/-- the code's two timer callbacks: kind 0 = per-try (setupPerReqTimeout), every other kind = global (onUpstreamRequestSent) -/
def realProgs : Nat → Bool × List Step
  | 0 => (MosnVerif.Gen.ProxyGen.perTryArmCaptures, MosnVerif.Gen.ProxyGen.perTryCb)
  | _ => (MosnVerif.Gen.ProxyGen.globalArmCaptures, MosnVerif.Gen.ProxyGen.globalCb)

end MosnVerif.Model.ProxyGen
