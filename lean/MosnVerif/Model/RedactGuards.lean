import MosnVerif.Model.Redact
import MosnVerif.Gen.RedactGuards
/-!
# Totality of the redaction walker: the guards of redact.go (C20)

`Gen.RedactGuards.redactGuards` lists **every control construct** of every redaction function of
pkg/configmanager (regenerated from the Go AST): each `if` with what its body ends in, each loop with what it ranges
over, each switch with its clauses, each stray `continue` / `break` / early `return`.  A construct can make an element
of the configuration reach the dump **without** passing through its redact function; this file says which
constructs cannot, and why:

* `emptySkip` — the redaction of a container (slice / map / pointer target) is skipped exactly when the container is
  empty or nil: nothing to redact (`apply vis (.list []) = .list []`, an empty container is `clean`);
* `unchangedSkip` — the store of a redacted hole is skipped when the JSON walker reports no change (`cleanJ`);
* `keyEmptySkip` — `redactTLSConfig` leaves an empty key alone (`keyOk ""`);
* `loopAll` — a `range` over the whole container (a plain path, not a sub-slice): no element is exempt.

Everything else — in particular any test of an **attribute** of the element (`l.Network == "udp"`, `!tls.Status`,
`c.ClusterType == v2.ORIGINAL_DST_CLUSTER`, `c.ClusterManagerTLS`, a name, a type switch with a default) — is
`unknown` and makes `guardChecks` false.  `attr` gives such a guard a semantics for the negation witness.
Core Lean only.
-/
namespace MosnVerif.Model.RedactGuards
open MosnVerif.Model MosnVerif.Model.Redact MosnVerif.Model.GoTypes
open MosnVerif.Gen.RedactGuards (redactGuards guardVars redactCalls functions)

inductive GKind where
  | emptySkip
  | unchangedSkip
  | keyEmptySkip
  | loopAll
  | attr (path : List String) (value : String)
  | unknown
  deriving Repr, DecidableEq, Inhabited

/-- value below a struct place along field names -/
def getPath : List String → Val → Option Val
  | [], v => some v
  | k :: r, .struct _ fs =>
    match getF fs k with
    | some c => getPath r c
    | none => none
  | _ :: _, _ => none

/-- the `PrivateKey` field is absent (zero value) or the empty string -/
def keyEmpty : List (String × Val) → Bool
  | [] => true
  | (k, v) :: r => (k != "PrivateKey" || (match v with | .str s => s == "" | _ => true)) && keyEmpty r

/-- the guard diverts control around the redaction of the place holding `v` -/
def GKind.skips : GKind → Val → Bool
  | .emptySkip, .list [] => true
  | .emptySkip, .map [] => true
  | .unchangedSkip, .hole j => cleanJ false j
  | .keyEmptySkip, .struct _ fs => keyEmpty fs
  | .attr p val, v =>
    match getPath p v with
    | some (.str s) => s == val
    | _ => false
  | _, _ => false

/-- the guarded code: the element is copied as it is when the guard skips, redacted otherwise -/
def applyG (k : GKind) (vis : Visit) (v : Val) : Val := if k.skips v then v else apply vis v

/-- guard kind × the redaction it stands in front of: skipping is the same as redacting -/
def benignFor : GKind → Visit → Bool
  | .emptySkip, _ => true
  | .loopAll, _ => true
  | .unchangedSkip, .hole => true
  | .keyEmptySkip, .tls => true
  | _, _ => false

def GKind.benign : GKind → Bool
  | .emptySkip | .unchangedSkip | .keyEmptySkip | .loopAll => true
  | _ => false

/-! ## reading the regenerated table -/

/-- `p` is a prefix of `s`: the rest (character lists, so that the kernel can evaluate the checks) -/
def dropPre : List Char → List Char → Option (List Char)
  | [], s => some s
  | _ :: _, [] => none
  | a :: p, b :: s => if a == b then dropPre p s else none

def hasPre (p s : String) : Bool := (dropPre p.toList s.toList).isSome
def afterPre (p s : String) : String := String.ofList ((dropPre p.toList s.toList).getD [])

/-- split at a separator character -/
def splitC (sep : Char) : List Char → List Char → List String
  | [], cur => [String.ofList cur.reverse]
  | c :: r, cur => if c == sep then String.ofList cur.reverse :: splitC sep r [] else splitC sep r (c :: cur)

def plainPath (s : String) : Bool :=
  s != "" && s.toList.all (fun c => c.isAlphanum || c == '.' || c == '_')

def lastSeg (s : String) : String := (splitC '.' s.toList []).getLastD s

def containerTy : GoTy → Bool
  | .slice _ => true
  | .map _ => true
  | .ptr _ => true
  | _ => false

/-- the subject of an emptiness test denotes a container: a parameter of slice / map / pointer type, or a field path
whose last field is, in every struct of the regenerated graph that has a field of that name, a slice / map / pointer -/
def subjectIsContainer (fn subj : String) : Bool :=
  if subj.toList.contains '.' then
    let f := lastSeg subj
    G.any (fun d => d.fields.any (fun x => x.name == f)) &&
      G.all (fun d => d.fields.all (fun x => x.name != f || containerTy x.ty))
  else
    match guardVars.find? (fun v => v.1 == fn && v.2.1 == subj) with
    | some (_, _, ty) => hasPre "map[" ty || hasPre "[]" ty || hasPre "*" ty
    | none => false

/-- a redact call inside a block guarded by `nonempty:P` is applied to `P` itself or to an element `P[..]` -/
def targetOf (subj t : String) : Bool :=
  match dropPre subj.toList t.toList with
  | some [] => true
  | some (c :: _) => c == '['
  | none => false

def targetsOf (subj detail : String) : Bool :=
  detail == "" || (splitC ';' detail.toList []).all (targetOf subj)

def classify (r : String × String × String × String) : GKind :=
  let fn := r.1
  let ctl := r.2.1
  let tag := r.2.2.1
  let detail := r.2.2.2
  if ctl == "range" then (if plainPath tag then .loopAll else .unknown)
  else if ctl == "if-return" && hasPre "empty:" tag then
    let subj := afterPre "empty:" tag
    if subjectIsContainer fn subj && (detail == "nil" || detail == subj || detail == "") then .emptySkip else .unknown
  else if ctl == "if-then" && hasPre "nonempty:" tag then
    let subj := afterPre "nonempty:" tag
    if subjectIsContainer fn subj && targetsOf subj detail then .emptySkip else .unknown
  else if ctl == "if-then" && tag == "changed" && detail == "" then .unchangedSkip
  else if ctl == "if-then" && hasPre "keyset:" tag && fn == "redactTLSConfig" && detail == "" then .keyEmptySkip
  else .unknown

/-- the control constructs of the JSON walker `redactJSONValue`, which `Model.Redact.redJ` is written after (its
stores and its key comparison are regenerated in `Gen.RawRedact`): both JSON container types and no default clause
(the scalars have nothing below them), the copy-on-write allocation, `continue` on an unchanged member -/
def walkerRows : List (String × String × String × String) :=
  [("redactJSONValue", "typeswitch", "x := v.(type)", "map[string]interface{}|[]interface{}"),
   ("redactJSONValue", "range", "x", "k,e"),
   ("redactJSONValue", "if-then", "init:s, ok := e.(string); cond:ok && s != \"\" && s != redactedPrivateKey && strings.EqualFold(k, privateKeyJSONKey)", ""),
   ("redactJSONValue", "if-continue", "cond:!ch", ""),
   ("redactJSONValue", "if-then", "empty:cp", ""),
   ("redactJSONValue", "range", "x", "k2,e2"),
   ("redactJSONValue", "if-return", "nonempty:cp", "cp,true"),
   ("redactJSONValue", "range", "x", "i,e"),
   ("redactJSONValue", "if-continue", "cond:!ch", ""),
   ("redactJSONValue", "if-then", "empty:cp", ""),
   ("redactJSONValue", "if-return", "nonempty:cp", "cp,true")]

/-- the redact calls the visit terms of `Model.Redact` are written after: one per element kind -/
def expectedCalls : List (String × String × String) :=
  [("redactJSONValue", "redactJSONValue", "e"), ("redactJSONValue", "redactJSONValue", "e"),
   ("redactListener", "redactTLSConfig", "&fc.TLSConfigs[j]"), ("redactListener", "redactTLSConfig", "&fc.TLSContexts[j]"),
   ("redactListener", "redactTLSConfig", "&tls"), ("redactListener", "redactedFilters", "fc.Filters"),
   ("redactListener", "redactedFilters", "l.ListenerFilters"), ("redactListener", "redactedFilters", "l.StreamFilters"),
   ("redactedClusters", "redactTLSConfig", "&c.TLS"), ("redactedCopy", "redactedClusters", "src.Cluster"),
   ("redactedCopy", "redactedExtends", "src.ExtendConfigs"), ("redactedCopy", "redactedListeners", "src.Listener"),
   ("redactedCopy", "redactedMosnConfig", "src.MosnConfig"), ("redactedExtends", "redactedRawJSON", "dst[i].Config"),
   ("redactedFilters", "redactJSONValue", "dst[i].Config"), ("redactedListeners", "redactListener", "&l"),
   ("redactedMosnConfig", "redactListener", "&listeners[j]"),
   ("redactedMosnConfig", "redactTLSConfig", "&dst.ClusterManager.TLSContext"),
   ("redactedMosnConfig", "redactedExtends", "src.Extends"), ("redactedMosnConfig", "redactedFilters", "src.Metrics.SinkConfigs")]

/-- the guards of the typed walkers (everything but the JSON walker) -/
def typedGuards : List (String × String × String × String) := redactGuards.filter (fun r => r.1 != "redactJSONValue")

/-- every function a dump section goes through (regenerated tables of `redactedCopy` / `getMOSNConfigRedacted`) was read -/
def fnsRead : Bool :=
  MosnVerif.Gen.ConfigGraph.redactedCopyFields.all (fun x => functions.contains x.2) &&
  MosnVerif.Gen.ConfigGraph.sections.all (fun x => x.2.1 == "-" || functions.contains x.2.1) &&
  ["redactListener", "redactedFilters", "redactedExtends", "redactTLSConfig", "redactJSONValue"].all functions.contains

/-- **the closed Boolean `redaction_total` is about**: every control construct of every typed redaction function is
benign, the JSON walker has exactly the constructs the model is written after, no redact call was dropped or added -/
def guardChecks : Bool :=
  fnsRead && typedGuards.all (fun r => (classify r).benign) &&
  redactGuards.filter (fun r => r.1 == "redactJSONValue") == walkerRows &&
  redactCalls == expectedCalls

end MosnVerif.Model.RedactGuards
