import MosnVerif.Model.HttpUri
/-!
HTTP/1 message fidelity through the proxy (server stream → proxy → client stream, `pkg/stream/http/stream.go`), at the
level of what the other side receives: start line, header multiset, body.  Header parsing and printing are fasthttp's
(black box); this file only records the *observed* rewriting rules so that the correspondence run can separate them from
anything else, and the reference predicate.

A message here is canonical: header names lower-cased, hop-by-hop / framing headers (`connection`, `keep-alive`,
`transfer-encoding`, `content-length`, `expect`, `te`, `trailer`, `upgrade`, `proxy-connection`) removed, the `host` value
lower-cased, entries `name:valueHex` sorted; a `date` added to a response that had none is removed again (RFC 7231 §7.1.1.2
obliges a forwarding recipient to add it).
-/
namespace MosnVerif.Model.Http1Msg

structure Msg where
  start : String            -- "METHOD targetHex" or "status"
  headers : List String     -- sorted "name:valueHex"
  body : String             -- hex
  deriving Repr, DecidableEq

def hasContentType (h : List String) : Bool := h.any (fun e => e.startsWith "content-type:")

/-- hex of `application/octet-stream` / `text/plain; charset=utf-8` -/
def defaultReqCT : String := "content-type:6170706c69636174696f6e2f6f637465742d73747265616d"
def defaultRespCT : String := "content-type:746578742f706c61696e3b20636861727365743d7574662d38"

/-- fasthttp's request printer adds a default Content-Type when there is none and the method is neither GET nor HEAD —
unless the client stream switched that off (regenerated flag: repaired, it used to be on) -/
def reqAdds (method : String) (m : Msg) : List String :=
  if !Gen.C01HttpUri.reqNoDefaultContentType && !hasContentType m.headers && method != "GET" && method != "HEAD"
  then [defaultReqCT] else []

/-- fasthttp's response printer adds a default Content-Type when there is none and the body is not empty — unless the
server stream switched that off for forwarded responses (regenerated flag: repaired) -/
def respAdds (m : Msg) : List String :=
  if !Gen.C01HttpUri.respNoDefaultContentType && !hasContentType m.headers && m.body != "-" then [defaultRespCT] else []

/-- observed: fasthttp keeps User-Agent and Content-Type in dedicated byte-slice fields where "empty" means "absent": a
`User-Agent:` (requests) / `Content-Type:` header with an empty value is not printed again -/
def dropEmptySpecial (isRequest : Bool) (h : List String) : List String :=
  h.filter (fun e => !(isRequest && e == "user-agent:-") && e != "content-type:-")

/-- reference: start line, header multiset and body all unchanged -/
def same (sent got : Msg) : Bool := sent == got

end MosnVerif.Model.Http1Msg
