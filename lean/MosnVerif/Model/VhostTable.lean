import MosnVerif.Gen.VhostLocks
/-!
The virtual host's route table under concurrent single-route updates (`pkg/router/virtualhost.go`, property C12).

`VirtualHostImpl.routes` is a Go slice that `RemoveAllRoutes` / `AddRoute` modify IN PLACE: `vh.routes = vh.routes[:0]` keeps the
backing array (length 0, same pointer), and the `append` of a following `AddRoute` writes slot 0, 1, … of THAT array.
`fastIndex` is replaced by a fresh map and then filled in place. Lookups (`GetRouteFromEntries`, `GetAllRoutesFromEntries`,
`GetRouteFromHeaderKV`) are coherent only because they hold the read lock for the WHOLE walk.

* `Gen/VhostLocks.lean` is the regenerated **step program** of every method: lock / rlock / unlock, reads in place (`walkRoutes`,
  `readIndex`), copies of the slice header / map pointer (`aliasRoutes`, `aliasIndex`) and reads through them (`walkAlias`,
  `readAlias`), writes classified INPLACE (`resetRoutes`, `appendRoutes`, `putIndex`, `putAlias`, …) or REPLACE (`freshRoutes`,
  `freshIndex`).
* The shared state is a **heap of backing arrays** (`heap p` = all cells of array `p`, its length is the capacity), the slice
  header `hdr = (ptr, len)`, a heap of map objects and the pointer `idx`. `append` writes cell `len` of the current array when
  `len < cap` and allocates a doubled array otherwise (Go's growslice for small slices).
* Any number of calls (one thread id per call, arguments `args t`) run their programs under an arbitrary **schedule** (a list of
  thread ids; scheduling a finished or blocked thread is a stutter). `vh.mutex` is a `sync.RWMutex`: `lock` is enabled while nobody
  holds it in either mode, `rlock` while nobody holds it for writing (Go also holds new readers back while a writer waits: fewer
  behaviours than modelled). A walk is NOT atomic: the header is read once (Go's `range`), then one cell per step — between two
  steps any other thread may run.
* Ghosts (they influence nothing): `pubs` = the view of the table at the start and at every release of the write lock (the table
  as it stood between two complete writer calls), `done` = the order of those releases, per thread `lin` = which published view
  was current when it took the read lock, and the validity flags of its copies. `esc` selects how long a header copy taken under
  the read lock counts as valid: `false` = until the lock is released (what the code needs), `true` = for ever (what would be
  enough if writers never modified an array below a published length).
The model flattens the two-level `fastIndex` (header key -> value -> route) into one map object keyed by the (key, value) pair;
a copy of an inner map is a copy of the pointer to that object.
-/
namespace MosnVerif.Model.VhostTable
open MosnVerif.Gen.VhostLocks

structure Hdr where
  ptr : Nat
  len : Nat
deriving DecidableEq, Repr, Inhabited

variable {α K : Type}

structure Shared (α K : Type) where
  /-- backing arrays: every cell; the length is the capacity -/
  heap : Nat → List α
  /-- first unused array id -/
  fresh : Nat
  /-- `vh.routes` -/
  hdr : Hdr
  /-- map objects -/
  maps : Nat → List (K × α)
  mfresh : Nat
  /-- `vh.fastIndex` -/
  idx : Nat

/-- what a lookup can see: the routes in order, the index -/
abbrev View (α K : Type) := List α × List (K × α)

def tableOf (s : Shared α K) : List α := (s.heap s.hdr.ptr).take s.hdr.len
def view (s : Shared α K) : View α K := (tableOf s, s.maps s.idx)

/-- a freshly constructed virtual host: nil slice, empty map -/
def emptyShared : Shared α K := ⟨fun _ => [], 1, ⟨0, 0⟩, fun _ => [], 1, 0⟩

/-- the arguments of one call -/
structure Arg (α K : Type) where
  /-- `AddRoute`: the route (`none` = nil: nothing happens) -/
  route : Option α := none
  /-- `AddRoute`: the (header key, value) pair of a route with exactly one exact header matcher; `GetRouteFromHeaderKV`: the pair
  looked up -/
  key : Option K := none
  /-- a lookup's request: which routes match it -/
  mt : α → Bool := fun _ => false
  /-- the lookup returns at the first match (`GetRouteFromEntries`) -/
  first : Bool := true

def setAt {β : Type} (m : Nat → β) (k : Nat) (v : β) : Nat → β := fun j => if j = k then v else m j

def newCap (c : Nat) : Nat := if c = 0 then 1 else 2 * c

/-- `vh.routes = append(vh.routes, r)`: in place while the array has room, else into a new array of doubled capacity (the old cells
copied; `len ≤ cap` always holds of a Go slice, the `take` only makes the function total). -/
def appendRoute (s : Shared α K) (r : α) : Shared α K :=
  let a := s.heap s.hdr.ptr
  if s.hdr.len < a.length then
    { s with heap := setAt s.heap s.hdr.ptr (a.set s.hdr.len r), hdr := ⟨s.hdr.ptr, s.hdr.len + 1⟩ }
  else
    let cells := a.take s.hdr.len
    { s with heap := setAt s.heap s.fresh (cells ++ r :: List.replicate (newCap a.length - (cells.length + 1)) r),
             fresh := s.fresh + 1, hdr := ⟨s.fresh, cells.length + 1⟩ }

def resetRoutes (s : Shared α K) : Shared α K := { s with hdr := ⟨s.hdr.ptr, 0⟩ }

def freshRoutes (s : Shared α K) : Shared α K :=
  { s with heap := setAt s.heap s.fresh [], fresh := s.fresh + 1, hdr := ⟨s.fresh, 0⟩ }

def freshIndex (s : Shared α K) : Shared α K :=
  { s with maps := setAt s.maps s.mfresh [], mfresh := s.mfresh + 1, idx := s.mfresh }

def upsert [DecidableEq K] (k : K) (r : α) (m : List (K × α)) : List (K × α) := (k, r) :: m.filter (fun e => !(e.1 == k))

/-- `m[k] = r` on map object `p` -/
def putAt [DecidableEq K] (s : Shared α K) (p : Nat) (k : K) (r : α) : Shared α K :=
  { s with maps := setAt s.maps p (upsert k r (s.maps p)) }

def lookupK [DecidableEq K] (key : Option K) (m : List (K × α)) : List α :=
  match key with
  | none => []
  | some k => ((m.find? (fun e => e.1 == k)).map (·.2)).toList

def lim (first : Bool) (l : List α) : List α := if first then l.take 1 else l

/-- the answer of a lookup on one view of the table: the index entry (`kv`), else the matching routes in order (the first one
only for `first`) -/
def answer [DecidableEq K] (arg : Arg α K) (kv : Bool) (v : View α K) : List α :=
  if kv then lookupK arg.key v.2 else lim arg.first (v.1.filter arg.mt)

/-- a walk in progress: the header it walks (read once), the next slot, the matches so far -/
structure Walk (α : Type) where
  h : Hdr
  i : Nat
  acc : List α
  /-- ghost: the header was read from a valid source -/
  ok : Bool

/-- one observation of a lookup -/
structure Obs (α : Type) where
  res : List α
  /-- an index lookup (else a walk) -/
  kv : Bool
  /-- ghost: made under the read lock / through a valid copy -/
  ok : Bool
  /-- ghost: the published view that was current when the read lock was taken -/
  at_ : Nat

structure Thread (α : Type) where
  todo : List Step
  /-- copy of the slice header -/
  ali : Hdr := ⟨0, 0⟩
  /-- copy of the map pointer -/
  iali : Nat := 0
  walk : Option (Walk α) := none
  obs : List (Obs α) := []
  /-- ghosts -/
  av : Bool := false
  iav : Bool := false
  wrote : Bool := false
  lin : Nat := 0

structure Glob (α K : Type) where
  sh : Shared α K
  /-- `vh.mutex` held for writing by -/
  writer : Option Nat
  /-- `vh.mutex` held for reading by -/
  readers : List Nat
  /-- ghost: the view at the start and at every release of the write lock -/
  pubs : List (View α K)
  /-- ghost: thread ids in the order in which they released the write lock -/
  done : List Nat

structure Conf (α K : Type) where
  g : Glob α K
  th : Nat → Thread α

def setThread (th : Nat → Thread α) (t : Nat) (v : Thread α) : Nat → Thread α := fun u => if u = t then v else th u

section machine
variable [DecidableEq K]

/-- only thread `t` changes -/
def upd (c : Conf α K) (t : Nat) (v : Thread α) : Conf α K := { c with th := setThread c.th t v }

/-- one step of a walk over header `src` (taken when the walk starts): start, read one cell, or finish. -/
def walkStep (args : Nat → Arg α K) (c : Conf α K) (t : Nat) (r : List Step) (src : Hdr) (valid : Bool) : Conf α K :=
  let th := c.th t
  match th.walk with
  | none => upd c t { th with walk := some ⟨src, 0, [], valid⟩ }
  | some w =>
    let fin : Conf α K := upd c t { th with todo := r, walk := none, obs := th.obs ++ [⟨w.acc, false, w.ok, th.lin⟩] }
    if w.i < w.h.len && !((args t).first && !w.acc.isEmpty) then
      match (c.g.sh.heap w.h.ptr)[w.i]? with
      | some x => upd c t { th with walk := some { w with i := w.i + 1, acc := if (args t).mt x then w.acc ++ [x] else w.acc } }
      | none => fin
    else fin

/-- thread `t` executes the head `a` of its program (rest `r`). -/
def stepHead (esc : Bool) (args : Nat → Arg α K) (c : Conf α K) (t : Nat) (a : Step) (r : List Step) : Conf α K :=
  let th := c.th t
  let g := c.g
  match a with
  | .lock =>
    if g.writer = none ∧ g.readers = [] then
      { g := { g with writer := some t }, th := setThread c.th t { th with todo := r, av := false, iav := false, wrote := true } }
    else c
  | .unlock =>
    if g.writer = some t then
      { g := { g with writer := none, pubs := g.pubs ++ [view g.sh], done := g.done ++ [t] },
        th := setThread c.th t { th with todo := r, av := false, iav := false } }
    else upd c t { th with todo := r, av := false, iav := false }
  | .rlock =>
    if g.writer = none then
      { g := { g with readers := t :: g.readers },
        th := setThread c.th t { th with todo := r, av := false, iav := false, lin := g.pubs.length - 1 } }
    else c
  | .runlock =>
    { g := { g with readers := g.readers.erase t }, th := setThread c.th t { th with todo := r, av := esc && th.av, iav := false } }
  | .walkRoutes => walkStep args c t r g.sh.hdr (decide (t ∈ g.readers))
  | .walkAlias => walkStep args c t r th.ali th.av
  | .aliasRoutes => upd c t { th with todo := r, ali := g.sh.hdr, av := decide (t ∈ g.readers) }
  | .resetRoutes => { g := { g with sh := resetRoutes g.sh }, th := setThread c.th t { th with todo := r } }
  | .appendRoutes =>
    match (args t).route with
    | some x => { g := { g with sh := appendRoute g.sh x }, th := setThread c.th t { th with todo := r } }
    | none => upd c t { th with todo := r }
  | .freshRoutes => { g := { g with sh := freshRoutes g.sh }, th := setThread c.th t { th with todo := r } }
  | .readIndex =>
    upd c t { th with todo := r, obs := th.obs ++ [⟨lookupK (args t).key (g.sh.maps g.sh.idx), true, decide (t ∈ g.readers), th.lin⟩] }
  | .aliasIndex => upd c t { th with todo := r, iali := g.sh.idx, iav := decide (t ∈ g.readers) || decide (g.writer = some t) }
  | .readAlias =>
    upd c t { th with todo := r,
                      obs := th.obs ++ [⟨lookupK (args t).key (g.sh.maps th.iali), true, th.iav && decide (t ∈ g.readers), th.lin⟩] }
  | .putIndex =>
    match (args t).route, (args t).key with
    | some x, some k => { g := { g with sh := putAt g.sh g.sh.idx k x }, th := setThread c.th t { th with todo := r } }
    | _, _ => upd c t { th with todo := r }
  | .putAlias =>
    match (args t).route, (args t).key with
    | some x, some k => { g := { g with sh := putAt g.sh th.iali k x }, th := setThread c.th t { th with todo := r } }
    | _, _ => upd c t { th with todo := r }
  | .freshIndex => { g := { g with sh := freshIndex g.sh }, th := setThread c.th t { th with todo := r, iav := false } }
  -- shapes the model gives no meaning to (the discipline rejects them)
  | .storeRoutes | .inplaceRoutes | .escape | .other => upd c t { th with todo := r }

/-- thread `t` is scheduled for one atomic step. -/
def stepThread (esc : Bool) (args : Nat → Arg α K) (c : Conf α K) (t : Nat) : Conf α K :=
  match (c.th t).todo with
  | [] => c
  | a :: r => stepHead esc args c t a r

def runSched (esc : Bool) (args : Nat → Arg α K) (c : Conf α K) (sched : List Nat) : Conf α K :=
  sched.foldl (stepThread esc args) c

def initConf (progs : Nat → List Step) (s0 : Shared α K) : Conf α K :=
  { g := { sh := s0, writer := none, readers := [], pubs := [view s0], done := [] }, th := fun t => { todo := progs t } }

end machine

/-! ### the lock discipline -/

inductive Mode where
  | n | r | w
deriving DecidableEq, Repr

/-- `safe esc m wrote av iav p`: running `p` from a point where the mutex is held in mode `m`, the call has (`wrote`) / has not
been through its write section, and its header copy / map copy is valid iff `av` / `iav`:
* every read of the table or the index in place happens while the mutex is held (either mode), every write while it is held for
  WRITING, and there is at most one write section per call;
* a header copy is taken under the READ lock and read only while valid — until the lock is released (`esc = false`), or for ever
  (`esc = true`) but then no writer may shorten the slice in place (`resetRoutes`);
* a map copy is used only inside the critical section that took it, and not after the map was replaced there;
* lock operations alternate properly and the program ends with the mutex released; no `escape`, no shape without a meaning in
  the model (`storeRoutes`, `inplaceRoutes`). -/
def safe (esc : Bool) : Mode → Bool → Bool → Bool → List Step → Bool
  | m, _, _, _, [] => m == .n
  | m, wr, av, iav, a :: p =>
    match a with
    | .lock => m == .n && !wr && safe esc .w true false false p
    | .unlock => m == .w && safe esc .n wr false false p
    | .rlock => m == .n && safe esc .r wr false false p
    | .runlock => m == .r && safe esc .n wr (esc && av) false p
    | .walkRoutes => m != .n && safe esc m wr av iav p
    | .aliasRoutes => m == .r && safe esc m wr true iav p
    | .walkAlias => av && safe esc m wr av iav p
    | .resetRoutes => m == .w && !esc && safe esc m wr av iav p
    | .appendRoutes => m == .w && safe esc m wr av iav p
    | .freshRoutes => m == .w && safe esc m wr av iav p
    | .readIndex => m != .n && safe esc m wr av iav p
    | .aliasIndex => m != .n && safe esc m wr av true p
    | .readAlias => m != .n && iav && safe esc m wr av iav p
    | .putIndex => m == .w && safe esc m wr av iav p
    | .putAlias => m == .w && iav && safe esc m wr av iav p
    | .freshIndex => m == .w && safe esc m wr av false p
    | .other => safe esc m wr av iav p
    | .storeRoutes | .inplaceRoutes | .escape => false

/-- **the discipline of the code**: a header copy does not outlive the critical section. -/
def disciplined (p : List Step) : Bool := safe false .n false false false p

/-- the discipline that would do if writers replaced the slice: a header copy taken under the read lock may be walked later. -/
def disciplinedEsc (p : List Step) : Bool := safe true .n false false false p

/-- the constructor initialises the map, then only runs disciplined code (the object is not shared yet) -/
def ctorOk (p : List Step) : Bool :=
  match p with
  | .freshIndex :: r => disciplined r
  | _ => false

/-- a write that modifies an object other threads may hold a copy of -/
def isInplace (a : Step) : Bool :=
  a == .resetRoutes || a == .appendRoutes || a == .storeRoutes || a == .inplaceRoutes || a == .putIndex || a == .putAlias

/-- a write that installs a fresh object -/
def isReplace (a : Step) : Bool := a == .freshRoutes || a == .freshIndex

/-- a caller in `routers_impl.go` looks the virtual host up (in tables that are immutable once built), calls exactly the one
table method `m` on it, and writes none of the selecting fields -/
def callerOk (p : List CStep) (m : CStep) : Bool :=
  p.filter (fun a => a != .other) == [.findVhost, m]

/-- everything regenerated from `virtualhost.go` / `routers_impl.go` has the shape the theorems need. -/
def genDiscipline : Bool :=
  methods.all (fun m => disciplined m.2) && ctorOk constructor && foreignAccess.isEmpty && tableWritesAfterBuild.isEmpty &&
  callerOk riMatchRoute .callEntries && callerOk riMatchAllRoutes .callAll && callerOk riMatchRouteFromHeaderKV .callKV &&
  callerOk riAddRoute .callAdd && callerOk riRemoveAllRoutes .callRemoveAll

/-! ### what a call does to the view when it runs alone -/

section effect
variable [DecidableEq K]

def stepEffect (a : Step) (arg : Arg α K) (v : View α K) : View α K :=
  match a with
  | .resetRoutes | .freshRoutes => ([], v.2)
  | .appendRoutes =>
    match arg.route with
    | some x => (v.1 ++ [x], v.2)
    | none => v
  | .putIndex | .putAlias =>
    match arg.route, arg.key with
    | some x, some k => (v.1, upsert k x v.2)
    | _, _ => v
  | .freshIndex => (v.1, [])
  | _ => v

/-- the program executed without interruption, on views -/
def effect : List Step → Arg α K → View α K → View α K
  | [], _, v => v
  | a :: p, arg, v => effect p arg (stepEffect a arg v)

/-- the published views when the calls in `order` run one after the other from `v` -/
def serialPubs (eff : Nat → View α K → View α K) : List Nat → View α K → List (View α K)
  | [], v => [v]
  | t :: r, v => v :: serialPubs eff r (eff t v)

/-- the declarative reference: `RemoveAllRoutes` empties both, `AddRoute r` appends `r` and files it under its key -/
def removeAllSpec (_ : View α K) : View α K := ([], [])
def addRouteSpec (arg : Arg α K) (v : View α K) : View α K :=
  match arg.route with
  | none => v
  | some x => (v.1 ++ [x], match arg.key with | some k => upsert k x v.2 | none => v.2)

end effect

/-! ### the calls of the request path and of the single-route updates, with the regenerated programs -/

inductive Call (α K : Type) where
  /-- `GetRouteFromEntries` for a request that the routes selected by `mt` match -/
  | entries (mt : α → Bool)
  /-- `GetAllRoutesFromEntries` -/
  | all (mt : α → Bool)
  /-- `GetRouteFromHeaderKV(key, value)` -/
  | kv (k : K)
  /-- `AddRoute(r)`; `key` = the (header key, value) pair of a route with exactly one exact header matcher -/
  | add (r : α) (key : Option K)
  /-- `RemoveAllRoutes()` -/
  | removeAll

def progOf : Call α K → List Step
  | .entries _ => getRouteFromEntries
  | .all _ => getAllRoutesFromEntries
  | .kv _ => getRouteFromHeaderKV
  | .add _ _ => addRoute
  | .removeAll => removeAllRoutes

def argOf : Call α K → Arg α K
  | .entries mt => { mt := mt, first := true }
  | .all mt => { mt := mt, first := false }
  | .kv k => { key := some k }
  | .add r key => { route := some r, key := key }
  | .removeAll => {}

def isLookup : Call α K → Bool
  | .add _ _ | .removeAll => false
  | _ => true

/-- what the call does to the table when it runs alone (declarative) -/
def specOf [DecidableEq K] (c : Call α K) (v : View α K) : View α K :=
  match c with
  | .add r key => addRouteSpec { route := some r, key := key } v
  | .removeAll => removeAllSpec v
  | _ => v

/-! ### the shapes that are NOT in the code (used for the machine-checked witnesses) -/

/-- `GetRouteFromEntries` copying the slice header under the read lock and walking after the unlock, as the extractor renders it -/
def walkAfterUnlock : List Step := [.rlock, .aliasRoutes, .runlock, .walkAlias, .other]

/-- `RemoveAllRoutes` installing a fresh slice instead of reslicing in place -/
def removeAllFresh : List Step := [.lock, .freshIndex, .freshRoutes, .other, .unlock]

end MosnVerif.Model.VhostTable
