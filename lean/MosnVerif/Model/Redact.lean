import MosnVerif.Model.Json
import MosnVerif.Gen.ConfigGraph
/-!
# Model of the admin config-dump redaction (pkg/configmanager/redact.go, effectiveconfig.go, admin/server/apis.go)

* `Val` — Go values over the regenerated type graph `Gen.ConfigGraph.graph`: strings, other scalars (`leaf`),
  **untyped holes** carrying their decoded JSON, structs tagged with their Go type name (fields present = non-zero),
  `list` = the backing array of a slice or the target of a pointer (0/1 element), `map`.
* `Visit` — *which paths a redaction function visits and how*: `tls` = `redactTLSConfig(&place)`, `hole` = the hole
  is replaced by its redacted JSON, `fields` = named fields of a struct place, `copyElems` = the container
  (slice / map / pointer target) is copied first and the elements are redacted in the **copy**, `inPlaceElems` = the
  elements are redacted through the container **shared with the source** (what `redactedMosnConfig` did before the
  fix), `empty` = never visited because the state invariant keeps the container empty, `skip`.
  One `Visit` term per function of redact.go, written after the Go text; `redactedCopy`'s field table, the section
  table of `getMOSNConfigRedacted` and the parameter table of `ConfigDump` are regenerated (`Gen.ConfigGraph`).
* `apply` — the value a redaction returns; `sharedWrites` — how many cells shared with the live config it writes
  (aliasing: a struct place is *owned* when it is a local copy or an element of a freshly copied container).
* `covers` — decidable check over the **regenerated graph** that a `Visit` reaches every `PrivateKey` string and every
  hole that is not on the explicit `plainHoles` list; `noSecret` — a type from which no such position is reachable.
* state operations of effectiveconfig.go (`SetMosnConfig`, `SetListenerConfig`, …) on `State`.
Core Lean only.
-/
namespace MosnVerif.Model.Redact
open MosnVerif.Model MosnVerif.Model.GoTypes

abbrev G := MosnVerif.Gen.ConfigGraph.graph
def placeholder : String := MosnVerif.Gen.ConfigGraph.placeholder

/-! ## JSON inside holes: `redactJSONValue` -/

/-- simple case folding as far as it can reach the ASCII letters of `private_key` (encoding/json and
`strings.EqualFold` use Unicode simple folding: besides ASCII case only U+212A KELVIN SIGN folds to `k` and
U+017F LONG S to `s`). -/
def foldChar (c : Char) : Char :=
  if 'A' ≤ c ∧ c ≤ 'Z' then Char.ofNat (c.toNat + 32)
  else if c.toNat == 0x212A then 'k'
  else if c.toNat == 0x17F then 's'
  else c

def foldKey (k : String) : String := String.ofList (k.toList.map foldChar)

/-- `strings.EqualFold(k, privateKeyJSONKey)` -/
def isPK (k : String) : Bool := foldKey k == foldKey MosnVerif.Gen.ConfigGraph.privateKeyJsonKey

/-- a string found at a private-key position is acceptable: empty or the placeholder -/
def keyOk (s : String) : Bool := s == "" || s == placeholder

mutual
/-- `redactJSONValue`; `key` = the value sits under an object key that folds to `private_key` -/
def redJ (key : Bool) : Json → Json
  | .str s => if key && s != "" then .str placeholder else .str s
  | .arr xs => .arr (redJL xs)
  | .obj kvs => .obj (redJO kvs)
  | j => j
def redJL : List Json → List Json
  | [] => []
  | x :: r => redJ false x :: redJL r
def redJO : List (String × Json) → List (String × Json)
  | [] => []
  | (k, v) :: r => (k, redJ (isPK k) v) :: redJO r
end

mutual
/-- no non-empty, non-placeholder string under a `private_key` key at any depth -/
def cleanJ (key : Bool) : Json → Bool
  | .str s => !key || keyOk s
  | .arr xs => cleanJL xs
  | .obj kvs => cleanJO kvs
  | _ => true
def cleanJL : List Json → Bool
  | [] => true
  | x :: r => cleanJ false x && cleanJL r
def cleanJO : List (String × Json) → Bool
  | [] => true
  | (k, v) :: r => cleanJ (isPK k) v && cleanJO r
end

/-! ## values -/

inductive Val where
  | str (s : String)
  | leaf
  | hole (j : Json)
  | struct (ty : String) (fs : List (String × Val))
  | list (vs : List Val)
  | map (kvs : List (String × Val))
  deriving Repr, Inhabited

/-- what the graph says about field `k` of struct `s`: is it a private-key string, is it a hole assumed plain -/
structure FInfo where
  key : Bool
  plain : Bool
  deriving Repr, DecidableEq

/-- untyped holes that are **assumed** never to hold a MOSN TLS context (nothing in MOSN parses one out of
them); every other hole of the graph must be reached by a `hole` visit. (struct, field) pairs. -/
def plainHoles : List (String × String) :=
  [("MOSNConfig", "RawDynamicResources"), ("MOSNConfig", "RawStaticResources"), ("MOSNConfig", "Node"),
   ("ServerConfig", "Processor"), ("TLSConfig", "ExtendVerify"), ("SecretConfigWrapper", "SdsConfig"),
   ("SecretConfigWrapperConfig", "SdsConfig"), ("VirtualHost", "PerFilterConfig"), ("RouterConfig", "PerFilterConfig"),
   ("LbMeta", "LbMetaKey"), ("HealthCheckConfig", "SessionConfig"), ("TracingConfig", "Config"),
   ("ThirdPartCodec", "Config")]

/-- a string field is a private-key position when its Go name is `PrivateKey` or its JSON key folds to `private_key` -/
def isKeyDecl (f : Field) : Bool := f.name == "PrivateKey" || isPK f.json

def finfo (g : Graph) (s k : String) : FInfo :=
  match g.find s with
  | some d =>
    match d.field k with
    | some f => ⟨isKeyDecl f, plainHoles.contains (s, k)⟩
    | none => ⟨true, false⟩
  | none => ⟨true, false⟩

/-- field info of a value that is not a struct field (root of an entry point) -/
def fiTop : FInfo := ⟨false, false⟩

mutual
/-- `v` is a value of Go type `T` in graph `g` -/
def wt (g : Graph) : GoTy → Val → Bool
  | .str, .str _ => true
  | .bool, .leaf => true
  | .num, .leaf => true
  | .ext _, .leaf => true
  | .hole _, .hole _ => true
  | .named n, .struct s fs => n == s && wtF g s fs
  | .slice e, .list vs => wtL g e vs
  | .ptr e, .list vs => vs.length ≤ 1 && wtL g e vs
  | .map e, .map kvs => wtM g e kvs
  | _, _ => false
def wtF (g : Graph) (s : String) : List (String × Val) → Bool
  | [] => true
  | (k, v) :: r => (match g.fieldTy s k with | some t => wt g t v | none => false) && wtF g s r
def wtL (g : Graph) (e : GoTy) : List Val → Bool
  | [] => true
  | v :: r => wt g e v && wtL g e r
def wtM (g : Graph) (e : GoTy) : List (String × Val) → Bool
  | [] => true
  | (_, v) :: r => wt g e v && wtM g e r
end

mutual
/-- the dump-safety predicate on a value: with `ck`, every private-key string is empty or the placeholder; with
`ch`, every hole that is not assumed plain is `cleanJ`. `fi` describes the field the value sits in. -/
def clean (g : Graph) (ck ch : Bool) (fi : FInfo) : Val → Bool
  | .str s => !(ck && fi.key) || keyOk s
  | .leaf => true
  | .hole j => !ch || fi.plain || cleanJ false j
  | .struct s fs => cleanF g ck ch s fs
  | .list vs => cleanL g ck ch fi vs
  | .map kvs => cleanM g ck ch fi kvs
def cleanF (g : Graph) (ck ch : Bool) (s : String) : List (String × Val) → Bool
  | [] => true
  | (k, v) :: r => clean g ck ch (finfo g s k) v && cleanF g ck ch s r
def cleanL (g : Graph) (ck ch : Bool) (fi : FInfo) : List Val → Bool
  | [] => true
  | v :: r => clean g ck ch fi v && cleanL g ck ch fi r
def cleanM (g : Graph) (ck ch : Bool) (fi : FInfo) : List (String × Val) → Bool
  | [] => true
  | (_, v) :: r => clean g ck ch fi v && cleanM g ck ch fi r
end

/-! ## visits -/

inductive Visit where
  | skip
  | empty
  | tls
  | hole
  | fields (fs : List (String × Visit))
  | copyElems (v : Visit)
  | inPlaceElems (v : Visit)
  deriving Repr, Inhabited

def lookupV : List (String × Visit) → String → Visit
  | [], _ => .skip
  | (k, v) :: r, n => if k == n then v else lookupV r n

def hasKeyV : List (String × Visit) → String → Bool
  | [], _ => false
  | (k, _) :: r, n => k == n || hasKeyV r n

/-- `redactTLSConfig`: `if tls.PrivateKey != "" { tls.PrivateKey = redactedPrivateKey }` -/
def redactKeyF : List (String × Val) → List (String × Val)
  | [] => []
  | (k, v) :: r =>
    (k, if k == "PrivateKey" then (match v with | .str s => if s != "" then .str placeholder else .str s | v => v) else v)
      :: redactKeyF r

mutual
/-- the value returned by a redaction that visits `vis` -/
def apply : Visit → Val → Val
  | .tls, .struct s fs => .struct s (redactKeyF fs)
  | .hole, .hole j => .hole (redJ false j)
  | .fields vf, .struct s fs => .struct s (applyF vf fs)
  | .copyElems v, .list vs => .list (applyL v vs)
  | .copyElems v, .map kvs => .map (applyM v kvs)
  | .inPlaceElems v, .list vs => .list (applyL v vs)
  | .inPlaceElems v, .map kvs => .map (applyM v kvs)
  | _, v => v
def applyF (vf : List (String × Visit)) : List (String × Val) → List (String × Val)
  | [] => []
  | (k, c) :: r => (k, apply (lookupV vf k) c) :: applyF vf r
def applyL (v : Visit) : List Val → List Val
  | [] => []
  | c :: r => apply v c :: applyL v r
def applyM (v : Visit) : List (String × Val) → List (String × Val)
  | [] => []
  | (k, c) :: r => (k, apply v c) :: applyM v r
end

mutual
/-- the state invariant a visit relies on: containers at `empty` positions are empty -/
def respects : Visit → Val → Bool
  | .empty, .list vs => vs.isEmpty
  | .empty, .map kvs => kvs.isEmpty
  | .empty, _ => false
  | .fields vf, .struct _ fs => respectsF vf fs
  | .copyElems v, .list vs => respectsL v vs
  | .copyElems v, .map kvs => respectsM v kvs
  | .inPlaceElems v, .list vs => respectsL v vs
  | .inPlaceElems v, .map kvs => respectsM v kvs
  | _, _ => true
def respectsF (vf : List (String × Visit)) : List (String × Val) → Bool
  | [] => true
  | (k, c) :: r => respects (lookupV vf k) c && respectsF vf r
def respectsL (v : Visit) : List Val → Bool
  | [] => true
  | c :: r => respects v c && respectsL v r
def respectsM (v : Visit) : List (String × Val) → Bool
  | [] => true
  | (_, c) :: r => respects v c && respectsM v r
end

mutual
/-- number of writes into cells shared with the source. `own` = the current struct place is a local copy or an
element of a container the redactor allocated itself. -/
def sharedWrites (own : Bool) : Visit → Val → Nat
  | .tls, .struct _ fs => if own then 0 else (if fs.any (fun kv => kv.1 == "PrivateKey") then 1 else 0)
  | .hole, .hole _ => if own then 0 else 1
  | .fields vf, .struct _ fs => sharedWritesF own vf fs
  | .copyElems v, .list vs => (if own then 0 else 1) + sharedWritesL true v vs
  | .copyElems v, .map kvs => (if own then 0 else 1) + sharedWritesM true v kvs
  | .inPlaceElems v, .list vs => sharedWritesL false v vs
  | .inPlaceElems v, .map kvs => sharedWritesM false v kvs
  | _, _ => 0
def sharedWritesF (own : Bool) (vf : List (String × Visit)) : List (String × Val) → Nat
  | [] => 0
  | (k, c) :: r => sharedWrites own (lookupV vf k) c + sharedWritesF own vf r
def sharedWritesL (own : Bool) (v : Visit) : List Val → Nat
  | [] => 0
  | c :: r => sharedWrites own v c + sharedWritesL own v r
def sharedWritesM (own : Bool) (v : Visit) : List (String × Val) → Nat
  | [] => 0
  | (_, c) :: r => sharedWrites own v c + sharedWritesM own v r
end

mutual
/-- no element is ever redacted through a container shared with the source -/
def noInPlace : Visit → Bool
  | .inPlaceElems _ => false
  | .copyElems v => noInPlace v
  | .fields vf => noInPlaceF vf
  | _ => true
def noInPlaceF : List (String × Visit) → Bool
  | [] => true
  | (_, v) :: r => noInPlace v && noInPlaceF r
end

/-! ## coverage of the regenerated graph -/

/-- no private-key string and no non-plain hole is reachable from type `T` (fuel bounds the unfolding depth of
named structs; running out of fuel answers `false`) -/
def noSecret (g : Graph) : Nat → FInfo → GoTy → Bool
  | 0, _, _ => false
  | _ + 1, fi, .str => !fi.key
  | _ + 1, fi, .hole _ => fi.plain
  | _ + 1, _, .bool => true
  | _ + 1, _, .num => true
  | _ + 1, _, .ext _ => true
  | n + 1, _, .named s =>
    match g.find s with
    | some d => d.fields.all (fun f => noSecret g n (finfo g s f.name) f.ty)
    | none => false
  | n + 1, fi, .slice e => noSecret g n fi e
  | n + 1, fi, .map e => noSecret g n fi e
  | n + 1, fi, .ptr e => noSecret g n fi e

mutual
/-- visit `vis` reaches every private-key string and every non-plain hole below a place of type `T` -/
def covers (g : Graph) (fuel : Nat) (fi : FInfo) : GoTy → Visit → Bool
  | T, .skip => noSecret g fuel fi T
  | .slice _, .empty => true
  | .map _, .empty => true
  | .ptr _, .empty => true
  | .named s, .tls =>
    match g.find s with
    | some d => d.fields.all (fun f => if f.name == "PrivateKey" then f.ty == .str else noSecret g fuel (finfo g s f.name) f.ty)
    | none => false
  | .hole _, .hole => true
  | .named s, .fields vf =>
    match g.find s with
    | some d => coversF g fuel s vf && d.fields.all (fun f => hasKeyV vf f.name || noSecret g fuel (finfo g s f.name) f.ty)
    | none => false
  | .slice e, .copyElems v => covers g fuel fi e v
  | .map e, .copyElems v => covers g fuel fi e v
  | .ptr e, .copyElems v => covers g fuel fi e v
  | .slice e, .inPlaceElems v => covers g fuel fi e v
  | .map e, .inPlaceElems v => covers g fuel fi e v
  | .ptr e, .inPlaceElems v => covers g fuel fi e v
  | _, _ => false
def coversF (g : Graph) (fuel : Nat) (s : String) : List (String × Visit) → Bool
  | [] => true
  | (k, v) :: r => (match g.fieldTy s k with | some t => covers g fuel (finfo g s k) t v | none => false) && coversF g fuel s r
end

/-- unfolding depth used for the regenerated graph (its longest struct chain is far shorter) -/
def fuel : Nat := 24

/-! ## the redaction functions of redact.go as visits (after the fixes) -/

/-- `redactedFilters`: copy the slice, replace each `Config` map by its redacted copy -/
def filtersV : Visit := .copyElems (.fields [("Config", .hole)])
/-- `redactedExtends`: copy the slice, replace each raw `Config` by its redacted re-encoding -/
def extendsV : Visit := .copyElems (.fields [("Config", .hole)])

/-- body of the `for i := range l.FilterChains` loop of `redactListener` (on the copied array) -/
def filterChainV : Visit :=
  .fields [("TLSContexts", .copyElems .tls),
           ("FilterChainConfig", .fields [("TLSConfig", .copyElems .tls), ("TLSConfigs", .copyElems .tls),
                                          ("Filters", filtersV)])]

def redactListenerV : Visit :=
  .fields [("ListenerConfig", .fields [("FilterChains", .copyElems filterChainV),
                                       ("ListenerFilters", filtersV), ("StreamFilters", filtersV)])]

def redactedListenersV : Visit := .copyElems redactListenerV
def redactedClustersV : Visit := .copyElems (.fields [("TLS", .tls)])

/-- `redactedMosnConfig`. `ClusterManager.Clusters` / `ClustersJson` are not visited: `SetMosnConfig` rebuilds the
cluster manager from its TLS context alone, so they stay empty (`empty`, invariant `respects`). -/
def redactedMosnConfigV : Visit :=
  .fields [("ClusterManager", .fields [("ClusterManagerConfigJson", .fields [("TLSContext", .tls), ("ClustersJson", .empty)]),
                                       ("Clusters", .empty)]),
           ("Metrics", .fields [("SinkConfigs", filtersV)]),
           ("Extends", extendsV),
           ("Servers", .copyElems (.fields [("Listeners", .copyElems redactListenerV)]))]

/-- `redactedMosnConfig` as it was before the fix: listeners redacted through the shared Servers/Listeners arrays -/
def redactedMosnConfigV_old : Visit :=
  .fields [("ClusterManager", .fields [("ClusterManagerConfigJson", .fields [("TLSContext", .tls), ("ClustersJson", .empty)]),
                                       ("Clusters", .empty)]),
           ("Servers", .inPlaceElems (.fields [("Listeners", .inPlaceElems redactListenerV)]))]

/-- visit of a redaction function by its Go name ("-" = the value is returned as is) -/
def visitOfFn (fn : String) : Option Visit :=
  if fn == "redactedMosnConfig" then some redactedMosnConfigV
  else if fn == "redactedListeners" then some redactedListenersV
  else if fn == "redactedClusters" then some redactedClustersV
  else if fn == "redactedExtends" then some extendsV
  else if fn == "-" then some .skip
  else none

/-- `redactedCopy`: `dst := src; dst.F = f(src.F) …` with the regenerated assignment table -/
def redactedCopyV : Visit :=
  .fields (MosnVerif.Gen.ConfigGraph.redactedCopyFields.map (fun (f, fn) => (f, (visitOfFn fn).getD .skip)))

/-- visit of the full dump: `DumpJSON` marshals `redactedCopy(conf)` -/
def fullDumpV : Visit :=
  if MosnVerif.Gen.ConfigGraph.fullDumpFn == "redactedCopy" then redactedCopyV else .skip

/-- section of `getMOSNConfigRedacted` for a CfgType constant: (field of conf, visit) -/
def sectionOf (typ : String) : Option (String × Visit) :=
  match MosnVerif.Gen.ConfigGraph.sections.find? (fun x => x.1 == typ) with
  | some (_, fn, fld) => (visitOfFn fn).map (fun v => (fld, v))
  | none => none

/-! ## the effective config and its update operations (effectiveconfig.go) -/

def Val.fieldsOf : Val → List (String × Val)
  | .struct _ fs => fs
  | _ => []

def getF (fs : List (String × Val)) (k : String) : Option Val := (fs.find? (fun kv => kv.1 == k)).map (·.2)

def setF (fs : List (String × Val)) (k : String) (v : Val) : List (String × Val) :=
  if fs.any (fun kv => kv.1 == k) then fs.map (fun kv => if kv.1 == k then (k, v) else kv) else fs ++ [(k, v)]

def delF (fs : List (String × Val)) (k : String) : List (String × Val) := fs.filter (fun kv => kv.1 != k)

/-- string content of a field (names) -/
def strF (fs : List (String × Val)) (k : String) : String :=
  match getF fs k with
  | some (.str s) => s
  | _ => ""

structure State where
  mosn : Val := .struct "MOSNConfig" []
  listeners : List (String × Val) := []
  clusters : List (String × Val) := []
  routers : List (String × Val) := []
  exts : List Val := []
  deriving Repr, Inhabited

def State.toVal (s : State) : Val :=
  .struct "effectiveConfig" [("MosnConfig", s.mosn), ("Listener", .map s.listeners), ("Cluster", .map s.clusters),
                             ("Routers", .map s.routers), ("ExtendConfigs", .list s.exts)]

/-- `conf.MosnConfig.ClusterManager = ClusterManagerConfig{ClusterManagerConfigJson{TLSContext: cfg…TLSContext,
ClusterPoolEnable: cfg…ClusterPoolEnable}}`: everything else of the cluster manager config is cleared -/
def optField (fs : List (String × Val)) (k : String) : List (String × Val) :=
  match getF fs k with
  | some t => [(k, t)]
  | none => []

def cmOnlyTLS (cm : Val) : Val :=
  .struct "ClusterManagerConfig" [("ClusterManagerConfigJson", .struct "ClusterManagerConfigJson"
    (optField ((getF cm.fieldsOf "ClusterManagerConfigJson").getD .leaf).fieldsOf "TLSContext" ++
     optField ((getF cm.fieldsOf "ClusterManagerConfigJson").getD .leaf).fieldsOf "ClusterPoolEnable"))]

/-- `Servers = make([]ServerConfig, 1); Servers[0] = cfg.Servers[0]; Servers[0].Listeners = nil; .Routers = nil` -/
def firstServer (servers : Val) : Val :=
  match servers with
  | .list (.struct s fs :: _) => .list [.struct s (delF (delF fs "Listeners") "Routers")]
  | _ => .list [.struct "ServerConfig" []]

def setMosnFields : List (String × Val) → List (String × Val)
  | [] => []
  | (k, c) :: r =>
    if k == "Extends" then setMosnFields r
    else if k == "ClusterManager" then (k, cmOnlyTLS c) :: setMosnFields r
    else if k == "Servers" then (k, firstServer c) :: setMosnFields r
    else (k, c) :: setMosnFields r

/-- `SetMosnConfig` -/
def setMosn (cfg : Val) : Val := .struct "MOSNConfig" (setMosnFields cfg.fieldsOf)

/-- `SetClusterManagerTLS`: `conf.MosnConfig.ClusterManager.TLSContext = tls` -/
def setCMTLS (m : Val) (tls : Val) : Val :=
  let fs := m.fieldsOf
  let cm := (getF fs "ClusterManager").getD (.struct "ClusterManagerConfig" [])
  let cj := (getF cm.fieldsOf "ClusterManagerConfigJson").getD (.struct "ClusterManagerConfigJson" [])
  let cj' := Val.struct "ClusterManagerConfigJson" (setF cj.fieldsOf "TLSContext" tls)
  let cm' := Val.struct "ClusterManagerConfig" (setF cm.fieldsOf "ClusterManagerConfigJson" cj')
  .struct "MOSNConfig" (setF fs "ClusterManager" cm')

def putM (m : List (String × Val)) (k : String) (v : Val) : List (String × Val) := setF m k v

inductive Op where
  | setMosn (cfg : Val)
  | setListener (l : Val)
  | setCluster (c : Val)
  | removeCluster (name : String)
  | setHosts (name : String) (hosts : Val)
  | setRouter (r : Val)
  | setExtend (typ : String) (cfg : Json)
  | setCMTLS (tls : Val)
  | persist                      -- transferConfig / InheritMosnconfig: reads only (after the fix)
  | reset
  deriving Repr, Inhabited

def listenerName (l : Val) : String := strF ((getF l.fieldsOf "ListenerConfig").getD .leaf).fieldsOf "Name"
def clusterName (c : Val) : String := strF c.fieldsOf "Name"
def routerName (r : Val) : String := strF ((getF r.fieldsOf "RouterConfigurationConfig").getD .leaf).fieldsOf "RouterConfigName"

/-- `SetRouter`: the dynamic path is cleared before the router is stored -/
def clearRouterPath (r : Val) : Val :=
  match r with
  | .struct s fs =>
    match getF fs "RouterConfigurationConfig" with
    | some (.struct s2 fs2) => .struct s (setF fs "RouterConfigurationConfig" (.struct s2 (delF fs2 "RouterConfigPath")))
    | _ => r
  | v => v

def extType (e : Val) : String := strF e.fieldsOf "Type"

def setExtendL (typ : String) (cfg : Json) : List Val → List Val
  | [] => [.struct "ExtendConfig" [("Type", .str typ), ("Config", .hole cfg)]]
  | e :: r => if extType e == typ then .struct "ExtendConfig" (setF e.fieldsOf "Config" (.hole cfg)) :: r else e :: setExtendL typ cfg r

def step (s : State) : Op → State
  | .setMosn cfg => { s with mosn := setMosn cfg }
  | .setListener l => { s with listeners := putM s.listeners (listenerName l) l }
  | .setCluster c => { s with clusters := putM s.clusters (clusterName c) c }
  | .removeCluster n => { s with clusters := delF s.clusters n }
  | .setHosts n hosts =>
    match getF s.clusters n with
    | some (.struct t fs) => { s with clusters := putM s.clusters n (.struct t (setF fs "Hosts" hosts)) }
    | _ => s
  | .setRouter r => { s with routers := putM s.routers (routerName r) (clearRouterPath r) }
  | .setExtend typ cfg => { s with exts := setExtendL typ cfg s.exts }
  | .setCMTLS tls => { s with mosn := setCMTLS s.mosn tls }
  | .persist => s
  | .reset => {}

def run (ops : List Op) : State := ops.foldl step {}

/-- the argument of an update is a value of the Go type the API takes -/
def Op.wtArg : Op → Bool
  | .setMosn cfg => wt G (.named "MOSNConfig") cfg
  | .setListener l => wt G (.named "Listener") l
  | .setCluster c => wt G (.named "Cluster") c
  | .removeCluster _ => true
  | .setHosts _ hs => wt G (.slice (.named "Host")) hs
  | .setRouter r => wt G (.named "RouterConfiguration") r
  | .setExtend _ _ => true
  | .setCMTLS tls => wt G (.named "TLSConfig") tls
  | .persist => true
  | .reset => true


/-! ## dump entry points (apis.go `ConfigDump`) -/

inductive Query where
  | full                                   -- no parameter: DumpJSON
  | param (p : String) (arg : String)      -- ?p=arg
  deriving Repr, Inhabited

/-- (input value handed to the redaction, its Go type, the visit) of the section behind a CfgType constant -/
def sectionInput (s : State) (typ : String) : Option (Val × Visit) :=
  match sectionOf typ with
  | some (fld, vis) => (getF s.toVal.fieldsOf fld).map (fun v => (v, vis))
  | none => none

/-- the value marshalled into the response body; `none` = no body with configuration content (error answer) -/
def dumpOut (s : State) : Query → Option Val
  | .full => some (apply fullDumpV s.toVal)
  | .param p arg =>
    match MosnVerif.Gen.ConfigGraph.endpoints.find? (fun e => e.1 == p) with
    | some (_, typ, single) =>
      match sectionInput s typ with
      | some (v, vis) =>
        let out := apply vis v
        if single then
          match out with
          | .map kvs => some ((getF kvs arg).getD .leaf)   -- absent name: the zero value of the struct
          | _ => none
        else some out
      | none => none
    | none => none

/-- the same entry point as `dumpOut`: number of writes into cells shared with the live config -/
def dumpWrites (s : State) : Query → Nat
  | .full => sharedWrites true fullDumpV s.toVal
  | .param p _ =>
    match MosnVerif.Gen.ConfigGraph.endpoints.find? (fun e => e.1 == p) with
    | some (_, typ, _) =>
      match sectionInput s typ with
      | some (v, vis) => sharedWrites true vis v
      | none => 0
    | none => 0

/-! ## the checks decided over the regenerated graph and tables -/

mutual
def noEmptyV : Visit → Bool
  | .empty => false
  | .copyElems v => noEmptyV v
  | .inPlaceElems v => noEmptyV v
  | .fields vf => noEmptyVF vf
  | _ => true
def noEmptyVF : List (String × Visit) → Bool
  | [] => true
  | (_, v) :: r => noEmptyV v && noEmptyVF r
end

/-- one row of `getMOSNConfigRedacted`: its function is known, covers the type of the section, never redacts in
place, and relies on the emptiness invariant only for `redactedMosnConfig(conf.MosnConfig)` -/
def sectionOK (row : String × String × String) : Bool :=
  match visitOfFn row.2.1, G.fieldTy MosnVerif.Gen.ConfigGraph.root row.2.2 with
  | some vis, some T =>
    covers G fuel fiTop T vis && noInPlace vis &&
      (noEmptyV vis || (row.2.1 == "redactedMosnConfig" && row.2.2 == "MosnConfig"))
  | _, _ => false

/-- one parameter form of `ConfigDump`: it reads a known section; a by-name lookup reads a map section -/
def endpointOK (e : String × String × Bool) : Bool :=
  match MosnVerif.Gen.ConfigGraph.sections.find? (fun x => x.1 == e.2.1) with
  | some row =>
    sectionOK row &&
      (!e.2.2 || (match G.fieldTy MosnVerif.Gen.ConfigGraph.root row.2.2 with | some (.map _) => true | _ => false))
  | none => false

/-- everything `no_key` / `holes` / `frame` need from the regenerated files, as one closed Boolean -/
def entryChecks : Bool :=
  MosnVerif.Gen.ConfigGraph.fullDumpViaDumpJSON &&
  MosnVerif.Gen.ConfigGraph.fullDumpFn == "redactedCopy" &&
  MosnVerif.Gen.ConfigGraph.root == "effectiveConfig" &&
  covers G fuel fiTop (.named "effectiveConfig") redactedCopyV && noInPlace redactedCopyV &&
  MosnVerif.Gen.ConfigGraph.redactedCopyFields.all (fun (f, fn) =>
    match visitOfFn fn with
    | some vis => noEmptyV vis || (fn == "redactedMosnConfig" && f == "MosnConfig")
    | none => false) &&
  MosnVerif.Gen.ConfigGraph.sections.all sectionOK &&
  MosnVerif.Gen.ConfigGraph.endpoints.all endpointOK

end MosnVerif.Model.Redact
