import MosnVerif.Gen.HpackAt
import MosnVerif.Model.HpackTable
/-!
`Decoder.at` (pkg/module/http2/hpack/hpack.go) with CHECKED ACCESS, through the regenerated `Gen.HpackAt.tableAt`:
the comparisons, the integer type each is made in (`uint64` vs `int`), the conversions and the two index expressions are
the Go text; an index expression whose value leaves `[0, len)` is `oob` (Go: `index out of range` panic, which would
escape through `MFramer.readMetaFrame` into the connection's read goroutine).  Core Lean only.
-/
namespace MosnVerif.Model.HpackAt
open MosnVerif.Gen.HpackAt MosnVerif.Model.HpackTable MosnVerif.Model.HpackInt

/-- result of a table lookup with checked access -/
inductive Look
  | oob                 -- Go panic: index out of range
  | none                -- `ok = false`: the caller reports `InvalidIndexError`
  | some (e : Entry)
  deriving DecidableEq, Repr

/-- `d.at(i)` for the mathematical value `i` of the uint64 argument -/
def lookup (d : Dec) (i : Nat) : Look :=
  match tableAt staticLen d.tab.ents.length i with
  | .none => .none
  | .oob => .oob
  | .entry .static k => match staticEntries[k]? with
    | some e => .some e
    | none => .oob
  | .entry .dyn k => match d.tab.ents[k]? with
    | some e => .some e
    | none => .oob

def Look.ofOption : Option Entry → Look
  | Option.none => Look.none
  | Option.some e => Look.some e

/-- the largest value `readVarInt` can return is below 2^64 (uint64) -/
def uint64Bound : Nat := 18446744073709551616

end MosnVerif.Model.HpackAt
