import MosnVerif.Gen.HealthLifecycle
import MosnVerif.Model.HealthCheck
/-!
Model of the LIFE CYCLE of the active health checker (pkg/upstream/healthcheck/healthchecker.go).

Several clusters (each with its own `healthChecker` object) may contain a host of the same address; their host objects
share ONE health word per address (Model/HealthRegistry), while every cluster keeps its own `sessionChecker` — its own
pair of consecutive-result counters — per address (`healthChecker.checkers`, keyed by address).  Session checkers are
created by `startCheck` and dropped by `stopCheck`; both are reached through `SetHealthCheckerHostSet` (cluster host
update: start the new addresses, stop the deleted ones) and `Stop` (`StopHealthChecking`: stop every host of the current
set).  What `startCheck` / `stopCheck` / `SetHealthCheckerHostSet` / `incHealthy` / `decHealthy` do to the flags, the
checker table and the `localProcessHealthy` gauge is REGENERATED (`Gen.HealthLifecycle`: effect lists in program order);
the threshold automaton run for a result is the regenerated `HandleSuccess/HandleFailure` (`Gen.HealthCheck`).
`findNewAndDeleteHost` is hand-modelled (difference of the two address sets).

The health word is modelled as the set of its two conditions (the bit-level semantics of Set/ClearHealthFlag is part A,
Model/HealthFlags).  `Checker.rev` is a history variable (the results this session checker has handled since it was
created, latest first); nothing reads it.
-/
namespace MosnVerif.Model.HealthLifecycle
open MosnVerif.Gen.HealthLifecycle (Flag FlagOp Atom Guard CheckProg HsAtom)
open MosnVerif.Model.HealthCheck (Result Out)

abbrev Addr := Nat
abbrev Cid := Nat

structure Word where
  active : Bool    -- api.FAILED_ACTIVE_HC (0x1)
  outlier : Bool   -- api.FAILED_OUTLIER_CHECK (0x2)
  deriving DecidableEq, Repr

def Word.toNat (w : Word) : Nat := (if w.active then 1 else 0) + (if w.outlier then 2 else 0)
def Word.ofNat (n : Nat) : Word := ⟨n % 2 == 1, n / 2 % 2 == 1⟩
/-- `Host.Health()`: no condition set -/
def Word.healthy (w : Word) : Bool := !w.active && !w.outlier

def applyFlagOp : FlagOp → Word → Word
  | .set .activeHC, w => { w with active := true }
  | .set .outlier, w => { w with outlier := true }
  | .clear .activeHC, w => { w with active := false }
  | .clear .outlier, w => { w with outlier := false }

def applyFlagOps (ops : List FlagOp) (w : Word) : Word := ops.foldl (fun w o => applyFlagOp o w) w

/-- a session checker of one cluster for one address -/
structure Checker where
  un : Int            -- unHealthCount
  hc : Int            -- healthCount
  running : Bool      -- its goroutine was started and not stopped
  rev : List Result   -- history variable: results handled since creation, latest first
  deriving DecidableEq, Repr

def upd {β : Type} (f : Nat → β) (i : Nat) (v : β) : Nat → β := fun j => if j = i then v else f j
def upd2 {β : Type} (f : Nat → Nat → β) (i j : Nat) (v : β) : Nat → Nat → β :=
  fun i' j' => if i' = i ∧ j' = j then v else f i' j'

structure World where
  words : Addr → Word              -- the shared health word of each address
  thr : Cid → Nat × Nat            -- (unhealthy, healthy) thresholds stored in the cluster's health checker
  hosts : Cid → List Addr          -- `hc.hosts`: addresses of the host set installed last
  chk : Cid → Addr → Option Checker   -- `hc.checkers`
  loc : Cid → Int                  -- `hc.localProcessHealthy`

/-- one regenerated effect, for cluster `k` and the host of address `a` -/
def runAtom (k : Cid) (a : Addr) (w : World) : Atom → World
  | .flag op => { w with words := upd w.words a (applyFlagOp op (w.words a)) }
  | .newChecker => { w with chk := upd2 w.chk k a (some ⟨0, 0, false, []⟩) }
  | .goStart => { w with chk := upd2 w.chk k a ((w.chk k a).map (fun c => { c with running := true })) }
  | .stopSession => { w with chk := upd2 w.chk k a ((w.chk k a).map (fun c => { c with running := false })) }
  | .delChecker => { w with chk := upd2 w.chk k a none }
  | .localHealthy d => { w with loc := upd w.loc k (w.loc k + d) }

def runAtoms (k : Cid) (a : Addr) (w : World) (l : List Atom) : World := l.foldl (runAtom k a) w

def guardHolds : Guard → Option Checker → Bool
  | .absent, c => c.isNone
  | .present, c => c.isSome

def runCheckProg (p : CheckProg) (k : Cid) (a : Addr) (w : World) : World :=
  let w1 := runAtoms k a w p.pre
  let w2 := if guardHolds p.guard (w1.chk k a) then runAtoms k a w1 p.body else w1
  runAtoms k a w2 p.post

def startCheck (k : Cid) (a : Addr) (w : World) : World := runCheckProg Gen.HealthLifecycle.startCheckProg k a w
def stopCheck (k : Cid) (a : Addr) (w : World) : World := runCheckProg Gen.HealthLifecycle.stopCheckProg k a w

def startAll (k : Cid) (l : List Addr) (w : World) : World := l.foldl (fun w a => startCheck k a w) w
def stopEach (k : Cid) (l : List Addr) (w : World) : World := l.foldl (fun w a => stopCheck k a w) w

def runHsAtom (k : Cid) (added deleted newHosts : List Addr) (w : World) : HsAtom → World
  | .startNew => startAll k added w
  | .stopDeleted => stopEach k deleted w
  | .storeHosts => { w with hosts := upd w.hosts k newHosts }

/-- `SetHealthCheckerHostSet`: `findNewAndDeleteHost` (hand-modelled) then the regenerated phases -/
def setHosts (k : Cid) (hs : List Addr) (w : World) : World :=
  let old := w.hosts k
  let deleted := old.filter (fun a => !hs.contains a)
  let added := hs.filter (fun a => !old.contains a)
  Gen.HealthLifecycle.hostSetProg.foldl (runHsAtom k added deleted hs) w

/-- `Stop()` (`StopHealthChecking`): `stopCheck` for every host of the current host set -/
def stopAll (k : Cid) (w : World) : World := stopEach k (w.hosts k) w

/-- the thresholds `newHealthChecker` stores for a configuration (regenerated zero → default rule) -/
def effThr (cfgU cfgH : Nat) : Nat × Nat :=
  ((Gen.HealthCheck.effUnhealthyThreshold cfgU).toNat, (Gen.HealthCheck.effHealthyThreshold cfgH).toNat)

inductive Op where
  | setHosts (k : Cid) (hs : List Addr)         -- cluster k: UpdateHosts → SetHealthCheckerHostSet
  | stopAll (k : Cid)                           -- cluster k: StopHealthChecking → Stop
  | recreate (k : Cid) (cfgU cfgH : Nat)        -- cluster k is replaced: the old checker is stopped, a new one configured
  | result (k : Cid) (a : Addr) (r : Result)    -- cluster k's session checker for address a completes a check
  | outlier (a : Addr) (on : Bool)              -- another condition's writer sets / clears ITS bit on the address
  deriving DecidableEq, Repr

def Op.isLifecycle : Op → Bool
  | .setHosts .. => true
  | .stopAll .. => true
  | .recreate .. => true
  | _ => false

/-- a completed check handed to cluster `k`'s session checker for `a` (nothing happens when there is none or it was stopped) -/
def result (k : Cid) (a : Addr) (r : Result) (w : World) : World × Option Out :=
  match w.chk k a with
  | none => (w, none)
  | some c =>
    if !c.running then (w, none) else
    let so := HealthCheck.step ((w.thr k).1 : Int) ((w.thr k).2 : Int) ⟨c.un, c.hc, (w.words a).active⟩ r
    let word1 : Word := { w.words a with active := so.1.flag }
    let word2 := applyFlagOps (if r.isSucc then Gen.HealthLifecycle.incHealthyFlagOps else Gen.HealthLifecycle.decHealthyFlagOps) word1
    let dl : Int := if so.2.changed then (if r.isSucc then Gen.HealthLifecycle.incHealthyLocal else Gen.HealthLifecycle.decHealthyLocal) else 0
    ({ w with words := upd w.words a word2,
              chk := upd2 w.chk k a (some { c with un := so.1.unHealthCount, hc := so.1.healthCount, rev := r :: c.rev }),
              loc := upd w.loc k (w.loc k + dl) }, some so.2)

def step (w : World) : Op → World × Option Out
  | .setHosts k hs => (setHosts k hs w, none)
  | .stopAll k => (stopAll k w, none)
  | .recreate k cu ch =>
    let w1 := stopAll k w
    ({ w1 with thr := upd w1.thr k (effThr cu ch), hosts := upd w1.hosts k [], chk := fun k' a => if k' = k then none else w1.chk k' a,
               loc := upd w1.loc k 0 }, none)
  | .result k a r => result k a r w
  | .outlier a on => ({ w with words := upd w.words a { w.words a with outlier := on } }, none)

def runOps (w : World) (ops : List Op) : World := ops.foldl (fun w op => (step w op).1) w

/-- what is seen after each operation: every word, and the callback the operation delivered -/
structure Seen where
  words : Addr → Word
  cb : Option Out
  loc : Cid → Int

def trace (w : World) : List Op → List Seen
  | [] => []
  | op :: ops => ⟨(step w op).1.words, (step w op).2, (step w op).1.loc⟩ :: trace (step w op).1 ops

/-- clusters as configured, no host sets yet; the words are whatever earlier conditions left -/
def World.init (cfg : Cid → Nat × Nat) (words0 : Addr → Word) : World :=
  ⟨words0, fun k => effThr (cfg k).1 (cfg k).2, fun _ => [], fun _ _ => none, fun _ => 0⟩

/-! ### declarative reference (hand-written, independent of `Gen`)

Which session checkers exist is a matter of the host sets alone: cluster `k` checks address `a` from the host update
that adds `a` to its set until the update that drops it, or until the cluster's checking is stopped / the cluster is
replaced.  A stopped health checker does NOT resume checking the hosts it still lists (its `hosts` are unchanged, so a
later update finds them neither new nor deleted) — as the code does.  `live k a = some hist` carries the results the
session checker has handled since it was created. -/
structure Ref where
  thr : Cid → Nat × Nat
  hosts : Cid → List Addr
  live : Cid → Addr → Option (List Result)

def Ref.init (cfg : Cid → Nat × Nat) : Ref :=
  ⟨fun k => (if (cfg k).1 = 0 then 1 else (cfg k).1, if (cfg k).2 = 0 then 1 else (cfg k).2), fun _ => [], fun _ _ => none⟩

def Ref.step (s : Ref) : Op → Ref
  | .setHosts k hs =>
    { s with hosts := upd s.hosts k hs,
             live := fun k' a =>
               if k' = k then
                 if (s.hosts k).contains a && !hs.contains a then none
                 else if hs.contains a && !(s.hosts k).contains a && (s.live k a).isNone then some []
                 else s.live k' a
               else s.live k' a }
  | .stopAll k => { s with live := fun k' a => if k' = k ∧ (s.hosts k).contains a then none else s.live k' a }
  | .recreate k cu ch =>
    { thr := upd s.thr k (if cu = 0 then 1 else cu, if ch = 0 then 1 else ch), hosts := upd s.hosts k [],
      live := fun k' a => if k' = k then none else s.live k' a }
  | .result k a r => { s with live := upd2 s.live k a ((s.live k a).map (fun h => r :: h)) }
  | .outlier .. => s

/-- no other cluster ever lists address `a` in the whole operation list: cluster `k`'s checker is the only writer of the
address's active-health-check condition -/
def soleOwner (all : List Op) (k : Cid) (a : Addr) : Bool :=
  all.all (fun op => match op with
    | .setHosts k' hs => k' == k || !hs.contains a
    | _ => true)

open HealthCheck (trail) in
/-- the property, as a predicate on what is SEEN after one operation (`before` / `after` = the words, `cb` = the callback),
over the addresses `< n`:
* a life-cycle operation changes no word and delivers no callback; another condition's writer changes its own bit only;
* a check result that reaches a live session checker changes at most the active-health-check condition of its address;
  the callback reports `isHealthy` = the result and `changed` = that condition changed; the condition is cleared only by a
  success completing at least `healthy_threshold` consecutive successes of that session checker, set only by a failure
  completing at least `unhealthy_threshold` consecutive failures;
* when the address is checked by this cluster alone it changes EXACTLY at the `unhealthy_threshold`-th consecutive failure
  while not failing / the `healthy_threshold`-th consecutive success while failing. -/
def holdsStep (n : Nat) (all : List Op) (s : Ref) (before after : Addr → Word) (cb : Option Out) : Op → Bool
  | .outlier a on =>
    cb.isNone && (List.range n).all (fun x => after x == (if x = a then { before x with outlier := on } else before x))
  | .result k a r =>
    match s.live k a with
    | none =>
      -- the reference knows no session checker here (address not listed, or checking stopped).  Whether an implementation
      -- checks such a host at all is not the property's business: nothing delivered ⇒ nothing changes; something delivered
      -- ⇒ it must at least be a legal single-result effect
      match cb with
      | none => (List.range n).all (fun x => after x == before x)
      | some o =>
        let b := (before a).active
        let f := (after a).active
        (List.range n).all (fun x => after x == (if x = a then { before x with active := f } else before x)) &&
        o == ⟨b != f, r.ok, f⟩ && (!(b && !f) || r.ok) && (!(!b && f) || r.bad)
    | some hist =>
      let b := (before a).active
      let f := (after a).active
      (List.range n).all (fun x => after x == (if x = a then { before x with active := f } else before x)) &&
      cb == some ⟨b != f, r.ok, f⟩ &&
      (!(b && !f) || (r.ok && decide ((s.thr k).2 ≤ trail Result.ok (r :: hist)))) &&
      (!(!b && f) || (r.bad && decide ((s.thr k).1 ≤ trail Result.bad (r :: hist)))) &&
      (!soleOwner all k a ||
        (b != f) == ((!b && r.bad && trail Result.bad (r :: hist) == (s.thr k).1) ||
                     (b && r.ok && trail Result.ok (r :: hist) == (s.thr k).2)))
  | _ => cb.isNone && (List.range n).all (fun x => after x == before x)

def holdsFrom (n : Nat) (all : List Op) (s : Ref) (before : Addr → Word) : List Op → List Seen → Bool
  | [], [] => true
  | op :: ops, o :: os => holdsStep n all s before o.words o.cb op && holdsFrom n all (s.step op) o.words ops os
  | _, _ => false

/-- the property predicate for a whole run -/
def holds (n : Nat) (cfg : Cid → Nat × Nat) (words0 : Addr → Word) (ops : List Op) (seen : List Seen) : Bool :=
  holdsFrom n ops (Ref.init cfg) words0 ops seen

end MosnVerif.Model.HealthLifecycle
