/-!
Datatype of the regenerated classification of the custom (Un)MarshalJSON pairs of pkg/config/v2
(`Gen/ConfigPairs.lean` is an instance), read off the bodies of the two methods.  Core Lean only.
-/
namespace MosnVerif.Model.PairTypes

inductive CustomKind where
  /-- `UnmarshalJSON` decodes the config struct `cfg` (embedded, or a private field of that type) and copies members of it
  into `json:"-"` fields (durations, possibly through an integer conversion; plain members); `MarshalJSON` copies the same
  fields back and encodes `cfg`: the pair is the generic codec of `cfg` -/
  | mirror (cfg : String)
  /-- a mirror that in addition keeps `configToMetadata` of the `*MetadataConfig` member with JSON key `key` in a
  `json:"-"` field, and overwrites the member with `metadataToConfig` of that field before encoding -/
  | metadata (cfg : String) (key : String)
  /-- both methods delegate to the single field `field` (`json.Marshal(x.f)` / `json.Unmarshal(b, &x.f)`) -/
  | boxed (field : String)
  /-- anything else (FilterChain, Listener, ClusterManagerConfig, RouterConfiguration, …): modelled by hand or not at all -/
  | other
  deriving Repr, DecidableEq, Inhabited

end MosnVerif.Model.PairTypes
