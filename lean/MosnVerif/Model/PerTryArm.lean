import MosnVerif.Model.Retry
import MosnVerif.Gen.PerTryArm
/-!
[c17pt] The per-try timer over the attempt machine of `Model/Retry.lean`: for every attempt the machine creates, WHETHER
`setupPerReqTimeout` arms a timer for it — decided by the regenerated `Gen.PerTryArm.armCond` on what the function can see
at that moment (the request's per-try timeout, the retry state with the budget LEFT AFTER the retry decision, retry_on …),
reached through the regenerated call sites (first complete send: `onUpstreamRequestSent`; a retried attempt: `doRetry`,
directly or — when the global timer is not armed yet — through `onUpstreamRequestSent`) — and what ends a SILENT attempt.
Core Lean only.
-/
namespace MosnVerif.Model.PerTryArm
open MosnVerif.Model.Retry MosnVerif.Gen.RetryState MosnVerif.Gen.PerTryArm

/-- what `setupPerReqTimeout` sees when it runs for the attempt just created in machine state `s` -/
def armState (p : Policy) (tryT : Int) (s : St) : ArmState :=
  { tryTimeout := tryT, hasRetryState := s.hasRS, retiesRemaining := s.remaining, retryOn := p.retryOn,
    numRetries := (p.numRetries : Int), responseStarted := s.started }

/-- the first attempt: `onUpstreamRequestSent` (request completely sent, two-way request) → `arm` -/
def firstArmed (arm : ArmState → Bool) (a : ArmState) : Bool := requestSentArms true a.oneway && arm a

/-- a retried attempt: `doRetry` → `arm`, by the regenerated route (`globalArmed` = the global timer is already armed) -/
def retryArmed (arm : ArmState → Bool) (globalArmed : Bool) (a : ArmState) : Bool :=
  match doRetryCall globalArmed with
  | .direct => arm a
  | .viaRequestSent => requestSentArms true a.oneway && arm a
  | .none => false

/-- one label of the run, logging for every NEW attempt whether its per-try timer is armed; `g k` = the global timer is
already armed when attempt number `k` (1-based count) is sent by `doRetry` (an oracle: both answers occur) -/
def armLogStep (arm : ArmState → Bool) (p : Policy) (tryT : Int) (g : Nat → Bool) (acc : St × List Bool) (l : Label) : St × List Bool :=
  let s' := step p acc.1 l
  (s', if acc.1.attempts < s'.attempts then acc.2 ++ [retryArmed arm (g s'.attempts) (armState p tryT s')] else acc.2)

def armLogWith (arm : ArmState → Bool) (p : Policy) (tryT : Int) (g : Nat → Bool) (host0 : Option Nat) (ls : List Label) : St × List Bool :=
  let s0 := start p host0
  ls.foldl (armLogStep arm p tryT g) (s0, if s0.attempts = 1 then [firstArmed arm (armState p tryT s0)] else [])

/-- for every attempt of the run, in order: is its per-try timer armed (regenerated condition and call sites) -/
def armLog (p : Policy) (tryT : Int) (g : Nat → Bool) (host0 : Option Nat) (ls : List Label) : List Bool :=
  (armLogWith armCond p tryT g host0 ls).2

/-- the variant the property excludes: no timer when no retry is left ("nothing can follow anyway") -/
def armCondBudgetGuarded (a : ArmState) : Bool :=
  !(a.hasRetryState && decide (a.retiesRemaining = 0)) && decide (a.tryTimeout > 0)

inductive Cause where
  | perTry | global
deriving DecidableEq, Repr

/-- a SILENT attempt (no upstream event at all): when it ends and by which timer. `sent` = when its request was sent (the
per-try timer is created then), `deadline` = when the global timer fires (first complete send + global timeout) -/
def silentEnd (armed : Bool) (sent tryT deadline : Int) : Int × Cause :=
  if armed = true ∧ sent + tryT < deadline then (sent + tryT, .perTry) else (deadline, .global)

end MosnVerif.Model.PerTryArm
