/-!
Datatypes of the regenerated Go type graph (`Gen/ConfigGraph.lean` is an instance of these): the structs of
`pkg/config/v2` reachable from `configmanager.effectiveConfig`, with field names, JSON keys, `omitempty`, and the
kinds the properties C19/C20 care about: strings, other scalars, **untyped holes** (`json.RawMessage`,
`map[string]interface{}`, `interface{}`), opaque external types, named structs, slices, maps, pointers.
Core Lean only.
-/
namespace MosnVerif.Model.GoTypes

inductive GoTy where
  | str                         -- string (and named string types)
  | bool
  | num                         -- every integer / float kind
  | hole (kind : String)        -- untyped JSON hole: "json.RawMessage" | "map[string]interface{}" | "interface{}"
  | ext (name : String)         -- opaque type of another package (never contains a v2 struct)
  | named (name : String)       -- struct declared in the graph
  | slice (e : GoTy)
  | map (e : GoTy)              -- map[string-like]e
  | ptr (e : GoTy)
  deriving Repr, DecidableEq, Inhabited

structure Field where
  name : String                 -- Go field name (type name for an embedded field)
  json : String                 -- JSON key ("-" = not marshalled by the generic codec, "" = Go name)
  omitempty : Bool
  embedded : Bool
  ty : GoTy
  deriving Repr, DecidableEq, Inhabited

structure StructDecl where
  name : String
  fields : List Field
  customMarshal : Bool          -- has a MarshalJSON method
  customUnmarshal : Bool        -- has an UnmarshalJSON method
  deriving Repr, DecidableEq, Inhabited

abbrev Graph := List StructDecl

def Graph.find (g : Graph) (n : String) : Option StructDecl := List.find? (fun (d : StructDecl) => d.name == n) g

def StructDecl.field (d : StructDecl) (n : String) : Option Field := List.find? (fun (f : Field) => f.name == n) d.fields

/-- type of field `f` of struct `s` -/
def Graph.fieldTy (g : Graph) (s f : String) : Option GoTy :=
  match g.find s with
  | some d => (d.field f).map (·.ty)
  | none => none

end MosnVerif.Model.GoTypes
