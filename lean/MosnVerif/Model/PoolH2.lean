import MosnVerif.Gen.PoolH2
import MosnVerif.Model.PoolSpec
/-!
Model of the HTTP/2 upstream connection pool (`pkg/stream/http2/connpool.go`).

The pool holds at most ONE client (`p.activeClient`); every request is multiplexed on its connection.  When the upstream
sends a graceful GOAWAY the client is marked (`activeClient.goaway`); the next `NewStream` gives the marked client up
(`deleteActiveClient`: both upstream `connection_active` gauges −1, `p.activeClient = nil`) and dials a replacement,
while the old connection keeps serving the requests it has until the upstream closes it (MOSN never closes it itself).
A close event makes the pool give up its client under the regenerated test `h2CloseDrops`.

Books: `active` (the pool's client), the clients' go-away marks, the host / cluster `connection_active` gauges,
`Requests().Cur()`, the host / cluster `request_active` gauges.  Truth: which TCP connections are open, which requests
are in flight on which connection, what each stream's listeners were told.

Every test and every counter movement is regenerated (`Gen/PoolH2.lean`): the replace test of `NewStream` and what its
branch does, what a successful dial moves, the test under which a close event drops the client and what that does,
what an admitted request takes and a destroyed stream gives back, the go-away mark.  One operation = one call into the
pool / one event, run to quiescence (close events delivered, streams of a dead connection reset and destroyed).
-/
namespace MosnVerif.Model.PoolH2
open MosnVerif.Gen.PoolH2 MosnVerif.Gen.Pool
open MosnVerif.Model.Pool (Stream Dial countLive)

/-- a client object / its connection -/
structure Conn where
  netOpen : Bool := true     -- truth: the TCP connection is open
  goaway  : Nat := 0         -- activeClient.goaway
  deriving DecidableEq, Repr

structure State where
  maxReq      : Nat
  active      : Option Nat := none      -- p.activeClient (client number = connection number)
  nConns      : Nat := 0                -- connections dialled successfully so far (what the upstream has accepted)
  conn        : Nat → Conn := fun _ => {}
  connHost    : Int := 0                -- host's upstream connection_active gauge
  connCluster : Int := 0                -- cluster's upstream connection_active gauge
  nStreams    : Nat := 0
  stream      : Nat → Stream := fun _ => { conn := 0 }
  reqCur      : Int := 0                -- Requests().Cur()
  actHost     : Int := 0                -- host's upstream request_active gauge
  actCluster  : Int := 0                -- cluster's upstream request_active gauge
  ext         : Nat := 0                -- ghost: slots of the shared requests breaker held by other pools

def init (maxReq : Nat) : State := { maxReq := maxReq }

def State.updC (s : State) (c : Nat) (f : Conn → Conn) : State :=
  { s with conn := fun k => if k = c then f (s.conn c) else s.conn k }

/-- number of live streams on connection `c` among the first `n` -/
def countOn (f : Nat → Stream) (c : Nat) : Nat → Nat
  | 0 => 0
  | n + 1 => countOn f c n + (if (f n).live && (f n).conn == c then 1 else 0)

def State.activeOn (s : State) (c : Nat) : Nat := countOn s.stream c s.nStreams
def State.liveCount (s : State) : Nat := countLive s.stream s.nStreams

def iter (f : Int → Int) : Nat → Int → Int
  | 0, x => x
  | n + 1, x => iter f n (f x)

/-- the regenerated request movements `m` of one call path, carried out `n` times -/
def movesN (m : Moves) (n : Nat) (s : State) : State :=
  { s with
    reqCur := iter (fun x => iter (resDecrease s.maxReq) m.reqDec (iter (resIncrease s.maxReq) m.reqInc x)) n s.reqCur,
    actHost := s.actHost + n * m.host, actCluster := s.actCluster + n * m.cluster }

/-- the regenerated movements of the connection books of one branch -/
def applyConn (m : ConnMoves) (s : State) : State :=
  { s with connHost := s.connHost + m.host, connCluster := s.connCluster + m.cluster,
           active := if m.nils then none else s.active }

/-- what a destroyed stream gives back: `onStreamDestroy` runs only for streams the pool's client listens to -/
def destroyMoves : Moves :=
  if (h2LeaseMoves false).listens then h2DestroyMoves else { reqInc := 0, reqDec := 0, host := 0, cluster := 0, listens := false }

/-- go-away mark of the pool's client (0 when it holds none) -/
def State.curGoaway (s : State) : Nat :=
  match s.active with
  | some c => (s.conn c).goaway
  | none => 0

/-- `NewStream`'s critical section, first statement: give the client up under the regenerated replace test -/
def giveUp (s : State) : State :=
  if h2ReplaceCond s.active.isSome s.curGoaway then applyConn h2ReplaceMoves s else s

/-- … second statement: dial when the pool holds no client (a failed dial moves nothing) -/
def dialIfNone (s : State) (dial : Dial) : State :=
  match s.active with
  | some _ => s
  | none =>
    if dial.fails then s
    else applyConn h2DialMoves
      { s with active := some s.nConns, nConns := s.nConns + 1,
               conn := fun k => if k = s.nConns then {} else s.conn k }

def pick (s : State) (dial : Dial) : State := dialIfNone (giveUp s) dial

def lease (s : State) (c : Nat) : State :=
  movesN (h2LeaseMoves false) 1
    { s with nStreams := s.nStreams + 1, stream := fun k => if k = s.nStreams then { conn := c } else s.stream k }

inductive Res | none | ok (c : Nat) | overflow | connFail
  deriving DecidableEq, Repr

def Res.isOk : Res → Bool
  | .ok _ => true
  | _ => false

/-- `NewStream`: pick the client, refuse without one, ask the requests breaker, take what an admitted request takes -/
def newStream (s : State) (dial : Dial) : State × Res :=
  let s1 := pick s dial
  match s1.active with
  | none => (s1, .connFail)
  | some c =>
    if !canCreate s1.maxReq s1.reqCur then (s1, .overflow)
    else (lease s1 c, .ok c)

/-- what a stream looks like after it ended: response delivered (`reset = none`) or reset with a reason -/
def ended (st : Stream) (reset : Option String) : Stream :=
  { st with state := destroyedState, destroys := st.destroys + 1,
            resets := match reset with | some r => st.resets ++ [r] | none => st.resets,
            recv := match reset with | some _ => st.recv | none => st.recv + 1 }

/-- a single stream ends: response, local reset, RST_STREAM from the upstream; the pool closes nothing -/
def endStream (s : State) (i : Nat) (reset : Option String) : State :=
  let st := s.stream i
  if destroyProceeds st.state then
    movesN destroyMoves 1 { s with stream := fun k => if k = i then ended st reset else s.stream k }
  else s

/-- every live stream on connection `c` is reset and destroyed (`clientStreamConnection.Reset`) -/
def killOn (s : State) (c : Nat) (reason : String) : State :=
  movesN destroyMoves (s.activeOn c)
    { s with
      stream := fun i => let st := s.stream i
        if st.live && st.conn == c then { st with state := destroyedState, resets := st.resets ++ [reason], destroys := st.destroys + 1 } else st }

/-- pool part of a close event of client `c` (`onConnectionEvent`, close branch) -/
def poolOnClose (s : State) (c : Nat) : State :=
  let s1 := applyConn h2CloseMoves s
  if h2CloseDrops (s.conn c).goaway (decide (s.active = some c)) s.active.isSome s.curGoaway
  then applyConn h2DropMoves s1 else s1

/-- the connection of client `c` closes (either side) -/
def netClose (s : State) (c : Nat) (reason : String) : State :=
  if c < s.nConns ∧ (s.conn c).netOpen then
    killOn (poolOnClose (s.updC c (fun cl => { cl with netOpen := false })) c) c reason
  else s

def connLost : String := reasonStreamConnectionTermination

inductive Op
  | newStream (dial : Dial)
  | response (i : Nat)
  | localReset (i : Nat)          -- the proxy resets the request (timeout, downstream gone)
  | remoteReset (i : Nat)         -- RST_STREAM from the upstream
  | goAway (c : Nat)              -- graceful GOAWAY (NO_ERROR, last stream id ≠ 0) on connection c
  | connClose (c : Nat) (remote : Bool)
  | shutdown
  | closeAll                      -- pool.Close()
  | extInc
  | extDec
  deriving Repr

def step (s : State) : Op → State × Res
  | .newStream dial => newStream s dial
  | .response i =>
    if i < s.nStreams ∧ (s.stream i).live then (endStream s i none, .none) else (s, .none)
  | .localReset i =>
    if i < s.nStreams ∧ (s.stream i).live then (endStream s i (some reasonStreamLocalReset), .none) else (s, .none)
  | .remoteReset i =>
    if i < s.nStreams ∧ (s.stream i).live then (endStream s i (some reasonStreamRemoteReset), .none) else (s, .none)
  | .goAway c =>
    if c < s.nConns ∧ (s.conn c).netOpen then (s.updC c (fun cl => { cl with goaway := h2GoAwayMark }), .none) else (s, .none)
  | .connClose c _ => (netClose s c connLost, .none)
  | .shutdown => (s, .none)
  | .closeAll =>
    match s.active with
    | some c => (netClose s c connLost, .none)
    | none => (s, .none)
  | .extInc => ({ s with reqCur := resIncrease s.maxReq s.reqCur, ext := s.ext + 1 }, .none)
  | .extDec => if s.ext > 0 then ({ s with reqCur := resDecrease s.maxReq s.reqCur, ext := s.ext - 1 }, .none) else (s, .none)

def run (s : State) : List Op → State
  | [] => s
  | op :: r => run (step s op).1 r

def trace (s : State) : List Op → List (Res × State)
  | [] => []
  | op :: r => let (s', res) := step s op; (res, s') :: trace s' r

/-- open connections the gauge should count: the pool's client, or not (yet) told to go away -/
def State.counted (s : State) (c : Nat) : Bool :=
  (s.conn c).netOpen && ((s.conn c).goaway == 0 || s.active == some c)

def countP (p : Nat → Bool) : Nat → Nat
  | 0 => 0
  | n + 1 => countP p n + (if p n then 1 else 0)

/-! ### observation: the token the harness prints after each operation -/

def Res.render : Res → String
  | .none => "-" | .ok c => s!"ok{c}" | .overflow => "ovf" | .connFail => "cf"

def renderActive (s : State) : String :=
  match s.active with
  | none => "-"
  | some c => s!"{c}{if (s.conn c).goaway = 0 then "" else "g"}"

def renderConns (s : State) : String :=
  String.join ((List.range s.nConns).map (fun c => if (s.conn c).netOpen then "o" else "c"))

def renderStreams (s : State) : String :=
  ",".intercalate ((List.range s.nStreams).map (fun i =>
    let st := s.stream i
    s!"{st.conn}:{st.recv}:{String.join (st.resets.map MosnVerif.Model.Pool.reasonLetter)}:{st.destroys}"))

/-- `res;p<pool's client>;c<host connection_active>:<cluster>;q<cur>;a<host request_active>:<cluster>;n<conns>;s<streams>` -/
def render (res : Res) (s : State) : String :=
  s!"{res.render};p{renderActive s};c{s.connHost}:{s.connCluster};q{s.reqCur};a{s.actHost}:{s.actCluster};n{renderConns s};s{renderStreams s}"

/-! ### executable property predicate on observations (declarative; never looks at the pool's decisions) -/

structure Obs where
  active      : Option Nat      -- the pool's client (hook)
  activeGone  : Bool            -- its go-away mark (hook)
  connHost    : Int
  connCluster : Int
  reqCur      : Int
  actHost     : Int
  actCluster  : Int
  conns       : List Bool       -- per connection the upstream accepted: open
  streams     : List MosnVerif.Model.Pool.OStream
  deriving DecidableEq, Repr

def Obs.liveConns (o : Obs) : List Nat := (o.streams.filter (·.live)).map (·.conn)
def Obs.isOpen (o : Obs) (c : Nat) : Bool := o.conns.getD c false

/-- the quiescent-point statement for the HTTP/2 pool.  `told c`: the upstream has sent a graceful GOAWAY on connection
`c` (known from the history, not from the pool).
1. the requests breaker and both request_active gauges count the requests in flight (+ what other pools hold);
2. requests in flight are on open connections;
3. the pool's client is an open connection, and its go-away mark says what the upstream told it;
4. every open connection that has not been told to go away IS the pool's client (none is forgotten, at most one exists);
5. both connection_active gauges equal the number of open connections that are the pool's client or have not been told
   to go away (a connection told to go away leaves the gauge when the pool replaces it or when it closes, whichever
   comes first — and only once);
6. every stream ends at most once. -/
def obsSpec (maxReq ext : Nat) (told : Nat → Bool) (o : Obs) : Bool :=
  decide (o.reqCur = if maxReq = 0 then 0 else (ext : Int) + (o.liveConns.length : Int)) &&
  decide (o.actHost = (o.liveConns.length : Int)) && decide (o.actCluster = (o.liveConns.length : Int)) &&
  o.liveConns.all (fun c => o.isOpen c) &&
  (match o.active with
    | some c => o.isOpen c && (o.activeGone == told c)
    | none => true) &&
  (List.range o.conns.length).all (fun c => !o.isOpen c || told c || o.active == some c) &&
  (let n : Int := ((List.range o.conns.length).filter (fun c => o.isOpen c && (!told c || o.active == some c))).length
   decide (o.connHost = n) && decide (o.connCluster = n)) &&
  o.streams.all (fun st => decide (st.destroys ≤ 1) && decide (st.recv ≤ 1) && decide (st.resets ≤ 1) &&
    (st.recv == 0 || (st.destroys == 1 && st.resets == 0)))

/-- one `NewStream` against the observation before it.  The request is served by the open connection that has not been
told to go away, if there is one — then no connection is dialled; otherwise exactly one connection is dialled (and
becomes the upstream's next accepted connection) and serves it; the requests breaker is asked after the client is
chosen; a refusal takes nothing. -/
def newStreamSpec (maxReq ext : Nat) (told : Nat → Bool) (dialFails : Bool) (before : Obs) (granted : Option Nat)
    (refusal : String) (after : Obs) : Bool :=
  let room := decide (maxReq = 0 ∨ (ext : Int) + before.liveConns.length < maxReq)
  let usable := (List.range before.conns.length).find? (fun c => before.isOpen c && !told c)
  let n := before.conns.length
  let (serving, dialled) := match usable with
    | some c => (some c, false)
    | none => if dialFails then (none, false) else (some n, true)
  decide (after.conns.length = if dialled then n + 1 else n) &&
  (granted == (if room then serving else none)) &&
  (granted.isSome || (refusal == (if serving.isNone then "cf" else "ovf")) &&
    after.streams == before.streams && after.reqCur == before.reqCur && after.actHost == before.actHost &&
    after.actCluster == before.actCluster)

def obsOf (s : State) : Obs :=
  { active := s.active, activeGone := decide (s.curGoaway ≠ 0),
    connHost := s.connHost, connCluster := s.connCluster,
    reqCur := s.reqCur, actHost := s.actHost, actCluster := s.actCluster,
    conns := (List.range s.nConns).map (fun c => (s.conn c).netOpen),
    streams := (List.range s.nStreams).map (fun i =>
      let st := s.stream i
      { conn := st.conn, recv := st.recv, resets := st.resets.length, destroys := st.destroys }) }

/-- what the history says the upstream told each connection -/
def State.told (s : State) (c : Nat) : Bool := decide ((s.conn c).goaway ≠ 0)

end MosnVerif.Model.PoolH2
