import MosnVerif.Gen.PoolLookup
import MosnVerif.Model.HostOps
/-!
The REQUEST PATH of a lookup: `clusterManager.ConnPoolForCluster` → `getActiveConnectionPool` (`cluster_manager.go`).

The proxy does not use the balancer's answer directly: it asks the cluster manager for a connection pool AND a host, and
the host it gets back is what it uses from then on (upstream host variable, host stats, health reporting, retry's
exclusion, access log). `getActiveConnectionPool` loops up to `try = min(HostNum, maxHosts)` times: `ChooseHost` on the
snapshot's balancer, load-or-create the pool for the chosen host in the pool map (pools OUTLIVE host-set replacements: a
pool keeps the host object it was created with, `pool.Host()`), `CheckAndInit`; pools that are not ready are kept in the
parallel arrays `pools[i]` / `hosts[i]` and polled again.

* Regenerated (`Gen/PoolLookup.lean`, `flow`): for every `return` which pool / host value is handed back and where it was
  last assigned, the key of every pool-map access, which host the factory gets, when a loaded pool is replaced, the slot
  indices of the array stores and of the poll loop, the bounds; `scopeCond`: which map `connPool.load` selects.
* `lookup` below is an INTERPRETER of that flow: a changed `return`, key or index changes what it computes.
* A host object is `HostOps.H` (address, identity marker, weight). What the model does not decide is a parameter (`Env`):
  host names, TLS hashes, the pool-scope flags; the balancer's answers are the oracle `Query.lb` (one entry per
  `ChooseHost` call of this lookup), readiness of a pool is the script `St.nr`.
-/
namespace MosnVerif.Model.PoolLookup
open MosnVerif.Gen.PoolLookup
open MosnVerif.Model.HostOps (H)

/-- a connection pool: creation number, the host object handed to the factory (`pool.Host()`), the TLS hash it carries. -/
structure Pool where
  id : Nat
  created : H
  hash : Nat
deriving DecidableEq, Repr, Inhabited

/-- one entry of the pool maps: `scope = none` the global map, `some c` the per-cluster map of cluster `c`. -/
structure Entry where
  scope : Option Nat
  key : Nat
  pool : Pool
deriving DecidableEq, Repr, Inhabited

structure Env where
  nameOf : H → Nat := fun _ => 0
  hashOf : H → Nat := fun _ => 0
  mgrFlag : Bool := false
  clFlag : Nat → Bool := fun _ => false

structure St where
  pools : List Entry := []
  next : Nat := 0
  /-- address ↦ number of `CheckAndInit` calls (of pools created for that address) that still answer "not ready" -/
  nr : List (Nat × Nat) := []
deriving Repr, Inhabited

inductive Ev where
  | created (id : Nat) (h : H)
  | shutdown (id : Nat)
  | check (id : Nat) (ok : Bool)
deriving DecidableEq, Repr, Inhabited

/-- one lookup: the cluster, what `HostNum` answered, what the k-th `ChooseHost` call answered. -/
structure Query where
  cluster : Nat := 0
  hostNum : Nat := 0
  lb : List (Option H) := []
deriving Repr, Inhabited

abbrev Ret := Option Pool × Option H

structure Res where
  st : St
  trace : List Ev := []
  ret : Ret := (none, none)
  /-- (pool obtained, host chosen) of every first-loop iteration that got as far as a pool, in order -/
  iter : List (Pool × H) := []
deriving Repr, Inhabited

/-- `connPool.load`: which map (regenerated condition). -/
def scopeOf (env : Env) (c : Nat) : Option Nat :=
  let per := match scopeCond with
    | .managerOrCluster => env.mgrFlag || env.clFlag c
    | .managerOnly => env.mgrFlag
    | .clusterOnly => env.clFlag c
    | .always => true
    | .never => false
  if per then some c else none

def hit (sc : Option Nat) (k : Nat) (e : Entry) : Bool := e.scope == sc && e.key == k
def find (ps : List Entry) (sc : Option Nat) (k : Nat) : Option Pool := (ps.find? (hit sc k)).map (·.pool)
def erase (ps : List Entry) (sc : Option Nat) (k : Nat) : List Entry := ps.filter (fun e => !hit sc k e)
def store (ps : List Entry) (sc : Option Nat) (k : Nat) (p : Pool) : List Entry := ⟨sc, k, p⟩ :: erase ps sc k

def nrOf (nr : List (Nat × Nat)) (a : Nat) : Nat := ((nr.find? (·.1 == a)).map (·.2)).getD 0
def nrSet (nr : List (Nat × Nat)) (a k : Nat) : List (Nat × Nat) := (a, k) :: nr.filter (·.1 != a)

/-- `pool.CheckAndInit`: scripted per address of the pool's creation host. -/
def check (σ : St) (p : Pool) : Bool × St :=
  let k := nrOf σ.nr p.created.a
  if k == 0 then (true, σ) else (false, { σ with nr := nrSet σ.nr p.created.a (k - 1) })

structure Slots where
  ps : Nat → Option Pool := fun _ => none
  hs : Nat → Option H := fun _ => none

def ixVal (i : Nat) : Ix → Nat
  | .loopVar => i
  | .const n => n

def hostRef (sl : Slots) (i : Nat) (chosen : Option H) (pool : Option Pool) : HostRef → Option H
  | .chosen => chosen
  | .poolHost => pool.map (·.created)
  | .slot ix => sl.hs (ixVal i ix)
  | .none => none

def poolRef (sl : Slots) (i : Nat) (pool : Option Pool) : PoolRef → Option Pool
  | .loopPool => pool
  | .slot ix => sl.ps (ixVal i ix)
  | .none => none

def keyVal (env : Env) (sl : Slots) (i : Nat) (chosen : Option H) (pool : Option Pool) : Key → Option Nat
  | .address r => (hostRef sl i chosen pool r).map (·.a)
  | .hostname r => (hostRef sl i chosen pool r).map env.nameOf

def setP (f : Nat → Option Pool) (k : Nat) (v : Option Pool) : Nat → Option Pool := fun j => if j = k then v else f j
def setH (f : Nat → Option H) (k : Nat) (v : Option H) : Nat → Option H := fun j => if j = k then v else f j

/-- load-or-create (and, for a loaded pool, the replacement branch) for the chosen host `h`: new state, events (in order),
the pool of this iteration. `none` = an expression of the flow has no value here (a nil dereference in Go). -/
def obtain (fl : Flow) (env : Env) (sc : Option Nat) (σ : St) (sl : Slots) (i : Nat) (h : H) : Option (St × List Ev × Pool) :=
  match keyVal env sl i (some h) none fl.loadKey with
  | none => none
  | some k =>
    match find σ.pools sc k with
    | some p =>
      if fl.replaceCond == .tlsHashDiffers && p.hash != env.hashOf h then
        match keyVal env sl i (some h) (some p) fl.replaceDeleteKey, hostRef sl i (some h) (some p) fl.recreateHost,
              keyVal env sl i (some h) (some p) fl.replaceStoreKey with
        | some kd, some hn, some ks =>
          let np : Pool := ⟨σ.next, hn, env.hashOf hn⟩
          some ({ σ with pools := store (erase σ.pools sc kd) sc ks np, next := σ.next + 1 }, [.shutdown p.id, .created np.id hn], np)
        | _, _, _ => none
      else some (σ, [], p)
    | none =>
      match hostRef sl i (some h) none fl.createHost, keyVal env sl i (some h) none fl.storeKey with
      | some hn, some ks =>
        let np : Pool := ⟨σ.next, hn, env.hashOf hn⟩
        some ({ σ with pools := store σ.pools sc ks np, next := σ.next + 1 }, [.created np.id hn], np)
      | _, _ => none

/-- state of the first loop; `done = some r`: the function returned `r`. -/
structure L1 where
  st : St
  sl : Slots := {}
  tr : List Ev := []
  it : List (Pool × H) := []
  done : Option Ret := none

/-- the first loop: `n` iterations left, `i` the loop variable. -/
def loop1 (fl : Flow) (env : Env) (sc : Option Nat) (lb : List (Option H)) :
    Nat → Nat → St → Slots → List Ev → List (Pool × H) → L1
  | 0, _, σ, sl, tr, it => ⟨σ, sl, tr, it, none⟩
  | n + 1, i, σ, sl, tr, it =>
    match (lb[i]?).join with
    | none => ⟨σ, sl, tr, it, some (none, none)⟩
    | some h =>
      match obtain fl env sc σ sl i h with
      | none => ⟨σ, sl, tr, it, some (none, none)⟩
      | some (σ1, evs, p) =>
        let tr' := tr ++ evs ++ [.check p.id (check σ1 p).1]
        let it' := it ++ [(p, h)]
        if (check σ1 p).1 then
          ⟨(check σ1 p).2, sl, tr', it',
            some (poolRef sl i (some p) fl.firstReady.pool, hostRef sl i (some h) (some p) fl.firstReady.host)⟩
        else
          let sl' : Slots :=
            { ps := setP sl.ps (ixVal i fl.slotPool.1) (poolRef sl i (some p) fl.slotPool.2),
              hs := setH sl.hs (ixVal i fl.slotHost.1) (hostRef sl i (some h) (some p) fl.slotHost.2) }
          loop1 fl env sc lb n (i + 1) (check σ1 p).2 sl' tr' it'

/-- one round of the poll loop over the slots `i, i+1, …` (`n` left). -/
def pollRound (fl : Flow) (sl : Slots) : Nat → Nat → St → List Ev → St × List Ev × Option Ret
  | 0, _, σ, tr => (σ, tr, none)
  | n + 1, i, σ, tr =>
    match poolRef sl i none fl.pollCheck with
    | none => pollRound fl sl n (i + 1) σ tr
    | some p =>
      let tr' := tr ++ [.check p.id (check σ p).1]
      if (check σ p).1 then
        ((check σ p).2, tr', some (poolRef sl i (some p) fl.pollReady.pool, hostRef sl i none (some p) fl.pollReady.host))
      else pollRound fl sl n (i + 1) (check σ p).2 tr'

def poll (fl : Flow) (sl : Slots) (try_ : Nat) : Nat → St → List Ev → St × List Ev × Ret
  | 0, σ, tr => (σ, tr, (none, none))
  | r + 1, σ, tr =>
    match (pollRound fl sl try_ 0 σ tr).2.2 with
    | some ret => ((pollRound fl sl try_ 0 σ tr).1, (pollRound fl sl try_ 0 σ tr).2.1, ret)
    | none => poll fl sl try_ r (pollRound fl sl try_ 0 σ tr).1 (pollRound fl sl try_ 0 σ tr).2.1

/-- `getActiveConnectionPool` for one query (the protocol is registered: the factory exists). -/
def lookup (fl : Flow) (env : Env) (σ : St) (q : Query) : Res :=
  if q.hostNum = 0 then ⟨σ, [], (none, none), []⟩ else
  let try_ := min q.hostNum fl.maxHosts
  let l := loop1 fl env (scopeOf env q.cluster) q.lb try_ 0 σ {} [] []
  match l.done with
  | some r => ⟨l.st, l.tr, r, l.it⟩
  | none =>
    let pr := poll fl l.sl try_ fl.maxPolls l.st l.tr
    ⟨pr.1, pr.2.1, pr.2.2, l.it⟩

/-! ### histories -/

inductive Op where
  /-- any host-set replacement of cluster `c` (the list the updater published) -/
  | setHosts (c : Nat) (l : List H)
  | lookup (q : Query)
  /-- `ShutdownConnectionPool(addr)`: the pools keyed by the address leave every map -/
  | shutdown (a : Nat)
  /-- the TLS configuration changed since the pools for address `a` were created -/
  | staleHash (a : Nat)
  /-- the next `k` readiness tests of pools for address `a` fail -/
  | notReady (a k : Nat)
deriving Repr, Inhabited

structure World where
  cur : Nat → List H := fun _ => []
  st : St := {}

def applyOp (fl : Flow) (env : Env) (w : World) : Op → World × Option (List H × Query × Res)
  | .setHosts c l => ({ w with cur := fun x => if x = c then l else w.cur x }, none)
  | .lookup q =>
    let r := lookup fl env w.st q
    ({ w with st := r.st }, some (w.cur q.cluster, q, r))
  | .shutdown a => ({ w with st := { w.st with pools := w.st.pools.filter (fun e => e.key != a) } }, none)
  | .staleHash a =>
    ({ w with st := { w.st with pools := w.st.pools.map (fun e => if e.pool.created.a == a then { e with pool := { e.pool with hash := e.pool.hash + 1 } } else e) } }, none)
  | .notReady a k => ({ w with st := { w.st with nr := nrSet w.st.nr a k } }, none)

/-- every lookup of a history: (host set of its cluster at that moment, the query, the result). -/
def runHist (fl : Flow) (env : Env) : World → List Op → List (List H × Query × Res)
  | _, [] => []
  | w, o :: r =>
    match applyOp fl env w o with
    | (w', some x) => x :: runHist fl env w' r
    | (w', none) => runHist fl env w' r

/-! ### the discipline the theorems need -/

/-- the flow that hands back what was chosen: every key is the address of the host chosen in this iteration, the factory
gets that host, a ready pool of the first loop is returned with that host, a pool that is not ready goes to slot `i`
together with that host, the poll loop tests slot `i` and returns slot `i` of BOTH arrays. Bounds and the replacement
condition are free. -/
def canon (mh mp : Nat) (rc : ReplaceCond) : Flow :=
  { maxHosts := mh, maxPolls := mp,
    loadKey := .address .chosen, storeKey := .address .chosen, createHost := .chosen,
    replaceCond := rc, replaceDeleteKey := .address .chosen, replaceStoreKey := .address .chosen, recreateHost := .chosen,
    firstReady := ⟨.loopPool, .chosen⟩,
    slotPool := (.loopVar, .loopPool), slotHost := (.loopVar, .chosen),
    pollCheck := .slot .loopVar, pollReady := ⟨.slot .loopVar, .slot .loopVar⟩ }

def flowOk (fl : Flow) : Bool := fl == canon fl.maxHosts fl.maxPolls fl.replaceCond

/-- every pool sits under the address of the host it was created with. -/
def Keyed (σ : St) : Prop := ∀ e ∈ σ.pools, e.pool.created.a = e.key

/-- negative variants (for the machine-checked witnesses) -/
def returnsPoolHost (fl : Flow) : Flow := { fl with firstReady := ⟨.loopPool, .poolHost⟩ }
def pollReturnsSlot0 (fl : Flow) : Flow := { fl with pollReady := ⟨.slot .loopVar, .slot (.const 0)⟩ }
def keyedByName (fl : Flow) : Flow :=
  { fl with loadKey := .hostname .chosen, storeKey := .hostname .chosen, replaceDeleteKey := .hostname .chosen, replaceStoreKey := .hostname .chosen }

end MosnVerif.Model.PoolLookup
