import MosnVerif.Drive.Util
import MosnVerif.Drive.C06
open MosnVerif.Drive

/-- one case per line: `Cxx <kind> <case tokens…> => <implementation output tokens…>`;
answer per line: `<A|D|E> <S|V|E> <model output>` (A = model and implementation agree, D = differ;
S = the property predicate holds of the implementation's output, V = violated; E = malformed case). -/
def dispatch (line : String) : String :=
  let (c, impl) := splitCase (tokens line)
  match c with
  | "C06" :: r => C06.run r impl
  | _ => "E E unknown-property"

partial def loop (h : IO.FS.Stream) (out : IO.FS.Stream) : IO Unit := do
  let line ← h.getLine
  if line.isEmpty then return ()
  out.putStrLn (dispatch (line.trimAscii.toString))
  loop h out

def main : IO Unit := do
  let out ← IO.getStdout
  loop (← IO.getStdin) out
  out.flush
