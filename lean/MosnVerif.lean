import MosnVerif.Props.C06
