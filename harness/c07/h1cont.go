//go:build verif

package c07

// Kind 'h1seg', side 'exp' (C07, HTTP/1 `Expect: 100-continue`): the TWO-PHASE read of serverStreamConnection.serve.
//
// fasthttp's Request.ReadLimitBody stops behind the head of a request that says `Expect: 100-continue` (MayContinue);
// serve() then writes the interim `HTTP/1.1 100 Continue`, reads the body with Request.ContinueReadBody from the SAME bufio
// reader and deletes the Expect header.  A client need not wait for the interim response (RFC 7231 5.1.1), so the body can
// be buffered in the reader together with the end of the head, straddle reads, or come later.
//
// Streams: 2-5 pipelined requests mixing ordinary requests (GET / DELETE, POST / PUT with Content-Length or chunked bodies)
// and Expect requests: POST / PUT with `Expect: 100-continue` x {Content-Length body of 1 / 10 / 4096 / random bytes,
// Content-Length: 0, chunked body of several chunks with and without trailers, the empty chunked body, no body header at
// all}, the header name in mixed case, the header before or behind the framing header, and `Expect: 100-Continue` (value
// in mixed case: fasthttp compares the value exactly, so this one is NOT continued and keeps its header); 35% with an
// incomplete further request as tail (cut inside the head, right behind the head of an Expect request, or inside its body).
// Delivery through the REAL server stream connection (CreateServerStream: serve() goroutine, bufio reader, fasthttp) with
// streamConnection.Dispatch, one call per chunk: whole stream, one request per read, head | body reads, one byte per
// read, EVERY two-read cut of short streams, seeded random k-cut chunkings (incl. empty reads).
//
// Observed per request handed to the proxy-side receiver: method, URI, body length, header-set digest, body digest,
// whether the forwarded header still has Expect, how many interim responses were written since the previous request;
// + the end state and the interim responses written behind the last request (an Expect head whose body is incomplete).
// The same for the whole stream in one read (canonical reference of the line).

import (
	"bytes"
	"context"
	"fmt"
	"runtime"
	"sort"
	"strings"
	"sync"
	"time"

	"github.com/valyala/fasthttp"
	"mosn.io/api"
	mosnhttp "mosn.io/mosn/pkg/protocol/http"
	shttp "mosn.io/mosn/pkg/stream/http"
	"mosn.io/mosn/pkg/types"
	"mosn.io/pkg/buffer"
	"mosn.io/pkg/variable"
	"verif/harness/hx"
)

const h1xInterim = "HTTP/1.1 100 Continue\r\n\r\n"

// connection stub that records what the stream layer writes: interim responses, the 400 of the error path
type h1xConn struct {
	h1sConn
	wmu      sync.Mutex
	interims int // since the last request was handed on
	total    int
	other    int // writes that are neither an interim response nor a final response of the receiver
	hcount   []int // header entries of every request handed on
}

// digest of the SET of header entries (an entry that occurs several times counts once) and the number of entries: the
// multiplicity is reported on its own line (kind h1seg, side trl), see KNOWN_FINDINGS (fasthttp ReadTrailer)
func h1xHeaderSet(visit func(func(k, v []byte))) (string, int) {
	seen := map[string]bool{}
	n := 0
	visit(func(k, v []byte) { seen[strings.ToLower(string(k))+":"+string(v)] = true; n++ })
	hs := make([]string, 0, len(seen))
	for e := range seen {
		hs = append(hs, e)
	}
	sort.Strings(hs)
	return h1sFnv([]byte(strings.Join(hs, "\n"))), n
}

func (c *h1xConn) Write(bufs ...buffer.IoBuffer) error {
	c.wmu.Lock()
	defer c.wmu.Unlock()
	for _, b := range bufs {
		if b == nil {
			continue
		}
		s := string(b.Bytes())
		switch {
		case s == h1xInterim:
			c.interims++
			c.total++
		case strings.HasPrefix(s, "HTTP/1.1 200"):
		case strings.HasPrefix(s, "HTTP/1.1 100"):
			c.other++ // an interim response of another form
		}
	}
	return nil
}

func (c *h1xConn) takeInterims() int {
	c.wmu.Lock()
	defer c.wmu.Unlock()
	n := c.interims
	c.interims = 0
	return n
}

func (c *h1xConn) totalInterims() int {
	c.wmu.Lock()
	defer c.wmu.Unlock()
	return c.total
}

type h1xListener struct {
	o     *h1sObs
	conn  *h1xConn
	delay bool
}

func (l *h1xListener) OnGoAway() {}
func (l *h1xListener) NewStreamDetect(ctx context.Context, sender types.StreamSender, span api.Span) types.StreamReceiveListener {
	return &h1xReceiver{l: l, sender: sender}
}

type h1xReceiver struct {
	l      *h1xListener
	sender types.StreamSender
}

func (r *h1xReceiver) OnDecodeError(ctx context.Context, err error, headers types.HeaderMap) {}
func (r *h1xReceiver) OnReceive(ctx context.Context, headers types.HeaderMap, data types.IoBuffer, trailers types.HeaderMap) {
	d := "?:?:0:0:0:e0:i0"
	if h, ok := headers.(mosnhttp.RequestHeader); ok {
		n, bh := h1sBody(data)
		e := 0
		if _, has := h.Get("Expect"); has {
			e = 1
		}
		hs, cnt := h1xHeaderSet(h.VisitAll)
		d = fmt.Sprintf("%s:%s:%d:%s:%s:e%d:i%d", hx.Hex(h.Method()), hx.Hex(h.RequestURI()), n, bh, hs, e, r.l.conn.takeInterims())
		r.l.conn.wmu.Lock()
		r.l.conn.hcount = append(r.l.conn.hcount, cnt)
		r.l.conn.wmu.Unlock()
	}
	r.l.o.add(d)
	answer := func() {
		hx.Safe(func() {
			h := mosnhttp.ResponseHeader{ResponseHeader: &fasthttp.ResponseHeader{}}
			h.SetStatusCode(200)
			r.sender.AppendHeaders(ctx, h, false)
			r.sender.AppendData(ctx, buffer.NewIoBufferBytes([]byte("ok")), true)
		})
	}
	if r.l.delay {
		r.l.o.got <- answer
	} else {
		answer()
		r.l.o.got <- nil
	}
}

// h1xRun delivers stream in the given chunks to a fresh real server stream connection.  nExp / nInt = complete requests /
// interim responses the generator expects (only used to know how long to wait; what is printed is what was observed).
func h1xRun(stream []byte, chunks []int, delay bool, nExp, nInt int) (string, string, int, string) {
	conn := &h1xConn{}
	o := &h1sObs{got: make(chan func(), 64)}
	ctx := variable.NewVariableContext(context.Background())
	sc := (&shttp.StreamConnFactory{}).CreateServerStream(ctx, conn, &h1xListener{o: o, conn: conn, delay: delay})
	dispDone := make(chan struct{})
	go func() {
		defer close(dispDone)
		off := 0
		for _, n := range chunks {
			if conn.State() == api.ConnClosed {
				return
			}
			p := append([]byte(nil), stream[off:off+n]...)
			off += n
			hx.Safe(func() { sc.Dispatch(buffer.NewIoBufferBytes(p)) })
		}
	}()
	stat := "ok"
	deadline := time.After(h1sPatience())
	seen := 0
	dd := dispDone
	for stat == "ok" && (seen < nExp || dd != nil) {
		select {
		case f := <-o.got:
			seen++
			if f != nil {
				// let the dispatcher hand over everything the reader takes before the loop comes round
				for i := 0; i < 40; i++ {
					runtime.Gosched()
				}
				f()
			}
		case <-dd:
			dd = nil
		case <-deadline:
			stat = "stuck"
		}
		if conn.State() == api.ConnClosed {
			break
		}
	}
	// the serve loop comes round on its own goroutine: an Expect head in the tail is answered after the last request
	for i := 0; stat == "ok" && conn.totalInterims() < nInt && conn.State() != api.ConnClosed; i++ {
		if i < 200 {
			runtime.Gosched()
			continue
		}
		select {
		case <-deadline:
			stat = "stuck"
		case <-time.After(200 * time.Microsecond):
		}
	}
	// a request more than expected (body bytes parsed as a request) is on its way at most a few scheduling rounds
	for i := 0; i < 20; i++ {
		runtime.Gosched()
	}
	conn.mu.Lock()
	if conn.byLayer {
		stat = "err"
	}
	conn.mu.Unlock()
	conn.Close(api.NoFlush, api.RemoteClose)
	select {
	case <-dispDone:
	case <-time.After(h1sPatience()):
	}
	if stat == "stuck" {
		h1sStuck++
	}
	tail := conn.takeInterims()
	conn.wmu.Lock()
	if conn.other > 0 {
		tail += 1000 * conn.other
	}
	counts := ints(conn.hcount)
	conn.wmu.Unlock()
	o.mu.Lock()
	defer o.mu.Unlock()
	if len(o.msgs) == 0 {
		return "-", stat, tail, counts
	}
	return strings.Join(o.msgs, ","), stat, tail, counts
}

// ---------------------------------------------------------------------------------------------------------------
// generators

// chunked body of several chunks, optionally with trailers (no chunk extensions)
func h1xChunked(r *hx.Rng, body []byte, trailers int) []byte {
	var b bytes.Buffer
	rest := body
	for len(rest) > 0 {
		n := 1 + r.Intn(len(rest))
		if r.Chance(25) {
			n = len(rest)
		}
		if r.Chance(30) {
			fmt.Fprintf(&b, "%X\r\n", n)
		} else {
			fmt.Fprintf(&b, "%x\r\n", n)
		}
		b.Write(rest[:n])
		b.WriteString("\r\n")
		rest = rest[n:]
	}
	b.WriteString("0\r\n")
	for i := 0; i < trailers; i++ {
		fmt.Fprintf(&b, "X-Trail%d: t%d\r\n", i, r.Intn(1000))
	}
	b.WriteString("\r\n")
	return b.Bytes()
}

type h1xReq struct {
	raw     []byte
	headLen int
	expect  bool // MayContinue: the value is exactly 100-continue
	trail   bool // chunked with trailers
}

func h1xBodySize(r *hx.Rng, big bool) int {
	switch {
	case big && r.Chance(60):
		return 4096
	case big:
		return 2000 + r.Intn(9000)
	case r.Chance(25):
		return 1
	case r.Chance(30):
		return 10
	default:
		return 1 + r.Intn(60)
	}
}

var h1xShapes = []string{
	"get", "post-cl", "post-chunked", "delete",
	"x-post-cl", "x-post-cl", "x-put-cl", "x-post-chunked", "x-put-chunked-trailers", "x-post-chunked0", "x-post-cl0",
	"x-post-nobody", "x-put-nobody", "xmixed-post-cl", "xname-post-cl", "post-chunked-trailers",
}

func h1xRequest(c *hx.Ctx, seq int, big bool, shape string) h1xReq {
	r := c.Rng
	if shape == "" {
		shape = r.PickS(h1xShapes)
	}
	if big || h1xNoTrailers { // the trailer lines are predicted read by read (trl): keep them out of streams larger than the reader's buffer
		shape = strings.TrimSuffix(shape, "-trailers")
	}
	c.Count("h1seg.exp.gen.req." + shape)
	var b bytes.Buffer
	uri := fmt.Sprintf("/h1x/%d/%s", seq, strings.Repeat("q", r.Intn(6)))
	parts := strings.Split(shape, "-")
	exp := ""
	switch parts[0] {
	case "x":
		exp = "Expect: 100-continue\r\n"
	case "xmixed":
		exp = "Expect: 100-Continue\r\n"
	case "xname":
		exp = r.PickS([]string{"expect: 100-continue\r\n", "EXPECT: 100-continue\r\n", "eXpEcT: 100-continue\r\n"})
	}
	if exp != "" {
		parts = parts[1:]
	}
	method := strings.ToUpper(parts[0])
	kind := strings.Join(parts[1:], "-")
	fmt.Fprintf(&b, "%s %s HTTP/1.1\r\nHost: h1x.test\r\n", method, uri)
	first := r.Bool()
	if first {
		b.WriteString(exp)
	}
	if r.Chance(50) {
		h1sExtra(r, &b)
	}
	var body []byte
	switch kind {
	case "cl":
		body = h1sBodyBytes(r, h1xBodySize(r, big))
		fmt.Fprintf(&b, "Content-Length: %d\r\n", len(body))
	case "cl0":
		b.WriteString("Content-Length: 0\r\n")
	case "chunked":
		b.WriteString("Transfer-Encoding: chunked\r\n")
		body = h1xChunked(r, h1sBodyBytes(r, h1xBodySize(r, big)), 0)
	case "chunked-trailers":
		b.WriteString("Transfer-Encoding: chunked\r\n")
		body = h1xChunked(r, h1sBodyBytes(r, h1xBodySize(r, big)), 1+r.Intn(2))
	case "chunked0":
		b.WriteString("Transfer-Encoding: chunked\r\n")
		body = []byte("0\r\n\r\n")
	}
	if !first {
		b.WriteString(exp)
	}
	b.WriteString("\r\n")
	q := h1xReq{headLen: b.Len(), expect: exp != "" && !strings.HasPrefix(shape, "xmixed"), trail: kind == "chunked-trailers"}
	b.Write(body)
	q.raw = b.Bytes()
	return q
}

type h1xStream struct {
	stream []byte
	reqs   []h1xReq
	nInt   int // interim responses expected (complete Expect heads, the tail's included)
	whole  string
	wcount string // header entries per request, whole stream in one read
	trail  bool   // a request of the stream has trailers
}

func (s *h1xStream) finish(c *hx.Ctx) {
	w, st, tl, hc := h1xRun(s.stream, []int{len(s.stream)}, false, len(s.reqs), s.nInt)
	s.whole = fmt.Sprintf("%s %s %d", w, st, tl)
	s.wcount = hc
	c.Count(fmt.Sprintf("h1seg.exp.gen.requests=%d", len(s.reqs)))
}

var h1xNoTrailers bool

func h1xBuild(c *hx.Ctx, big bool, shapes []string) *h1xStream {
	r := c.Rng
	// trailers only in a minority of the streams (the multiplicity of trailer headers is a known finding)
	h1xNoTrailers = big || (len(shapes) == 0 && r.Chance(60))
	s := &h1xStream{}
	n := 2 + r.Intn(4)
	if len(shapes) > 0 {
		n = len(shapes)
	}
	anyX := false
	for i := 0; i < n; i++ {
		shape := ""
		if len(shapes) > 0 {
			shape = shapes[i]
		} else if i == n-1 && !anyX {
			shape = r.PickS([]string{"x-post-cl", "x-put-cl", "x-post-chunked", "x-put-chunked-trailers"})
		}
		q := h1xRequest(c, i+1, big && (i == 0 || r.Chance(30)), shape)
		anyX = anyX || q.expect
		if q.expect {
			s.nInt++
		}
		s.trail = s.trail || q.trail
		s.reqs = append(s.reqs, q)
		s.stream = append(s.stream, q.raw...)
	}
	if len(shapes) == 0 && r.Chance(35) {
		q := h1xRequest(c, n+1, false, "")
		cut := 1 + r.Intn(len(q.raw)-1)
		switch {
		case q.expect && r.Chance(35):
			cut = q.headLen // the head of an Expect request and nothing of its body
		case q.expect && len(q.raw) > q.headLen+1 && r.Chance(50):
			cut = q.headLen + 1 + r.Intn(len(q.raw)-q.headLen-1)
		}
		if cut >= len(q.raw) {
			cut = len(q.raw) - 1
		}
		if cut >= 1 && !(q.expect && cut >= q.headLen && len(q.raw) == q.headLen) {
			s.stream = append(s.stream, q.raw[:cut]...)
			c.Count("h1seg.exp.gen.tail")
			if q.expect && cut >= q.headLen {
				s.nInt++
				c.Count("h1seg.exp.gen.tail-expect-head-complete")
			}
		}
	}
	s.finish(c)
	return s
}

func (s *h1xStream) emit(c *hx.Ctx, chunks []int, delay bool, how string) {
	if h1sStuck >= h1sStuckMax {
		c.Count("h1seg.exp.skipped-after-stuck")
		return
	}
	got, st, tl, hc := h1xRun(s.stream, chunks, delay, len(s.reqs), s.nInt)
	d := "0"
	if delay {
		d = "1"
	}
	c.Emit("C07", fmt.Sprintf("h1seg exp %s %s %s", d, hx.Hex(s.stream), ints(chunks)), fmt.Sprintf("%s %s %s %d", s.whole, got, st, tl))
	c.Count("h1seg.exp." + how + ".delay=" + d)
	// multiplicity of the header entries: reported for every stream with trailers, and whenever it depends on the chunking
	if s.trail || hc != s.wcount {
		c.Emit("C07", fmt.Sprintf("h1seg trl %s %s %s", d, hx.Hex(s.stream), ints(chunks)), fmt.Sprintf("%s %s", s.wcount, hc))
		c.Count("h1seg.trl." + how)
		if hc != s.wcount {
			c.Count("h1seg.trl.multiplicity-differs")
		}
	}
}

func (s *h1xStream) aligned() []int {
	var al []int
	sum := 0
	for _, q := range s.reqs {
		al = append(al, len(q.raw))
		sum += len(q.raw)
	}
	if sum < len(s.stream) {
		al = append(al, len(s.stream)-sum)
	}
	return al
}

// head | body: every request in two reads, cut right behind its head (the client that waits for the interim response)
func (s *h1xStream) headBody() []int {
	var al []int
	sum := 0
	for _, q := range s.reqs {
		al = append(al, q.headLen)
		if len(q.raw) > q.headLen {
			al = append(al, len(q.raw)-q.headLen)
		}
		sum += len(q.raw)
	}
	if sum < len(s.stream) {
		al = append(al, len(s.stream)-sum)
	}
	return al
}

func h1contCases(c *hx.Ctx) {
	h1sStuck = 0
	// directed: the shapes of the task statement, each followed by a pipelined request, in every two-read cut
	directed := [][]string{
		{"x-post-cl", "get"},
		{"x-post-cl", "x-put-cl"},
		{"x-post-chunked", "post-cl"},
		{"x-put-chunked-trailers", "get"},
		{"x-post-cl0", "get"},
		{"x-post-nobody", "post-cl"},
		{"x-post-chunked0", "x-post-cl"},
		{"xmixed-post-cl", "get"},
		{"get", "xname-post-cl", "delete"},
	}
	for i, shapes := range directed {
		s := h1xBuild(c, false, shapes)
		s.variants(c, i, true)
	}
	for i := 0; i < c.N(10, 50); i++ {
		s := h1xBuild(c, false, nil)
		s.variants(c, i, len(s.stream) <= c.N(330, 600))
	}
	for i := 0; i < c.N(4, 20); i++ {
		s := h1xBuild(c, true, nil)
		s.emit(c, []int{len(s.stream)}, c.Rng.Bool(), "big-whole")
		s.emit(c, s.aligned(), c.Rng.Bool(), "big-request-aligned")
		s.emit(c, s.headBody(), c.Rng.Bool(), "big-head|body")
		for j := 0; j < 3; j++ {
			s.emit(c, randChunks(c.Rng, len(s.stream), 100+c.Rng.Intn(3000)), c.Rng.Bool(), "big-random")
		}
		// two reads: the head of the first request and k bytes of its body, k around the boundaries
		q := s.reqs[0]
		for _, k := range []int{q.headLen - 1, q.headLen, q.headLen + 1, len(q.raw) - 1, len(q.raw), len(q.raw) + 1} {
			if k > 0 && k < len(s.stream) {
				s.emit(c, []int{k, len(s.stream) - k}, c.Rng.Bool(), "big-cut-at-boundary")
			}
		}
	}
}

func (s *h1xStream) variants(c *hx.Ctx, i int, allCuts bool) {
	for _, delay := range []bool{false, true} {
		s.emit(c, []int{len(s.stream)}, delay, "whole")
		s.emit(c, s.aligned(), delay, "request-aligned")
		s.emit(c, s.headBody(), delay, "head|body")
	}
	ones := make([]int, len(s.stream))
	for j := range ones {
		ones[j] = 1
	}
	s.emit(c, ones, i%2 == 0, "one-byte")
	for j := 0; j < c.N(3, 8); j++ {
		s.emit(c, randChunks(c.Rng, len(s.stream), 1+c.Rng.Intn(50)), c.Rng.Bool(), "random")
	}
	if allCuts {
		for k := 1; k < len(s.stream); k++ {
			s.emit(c, []int{k, len(s.stream) - k}, (k+i)%2 == 0, "two-reads-every-offset")
		}
	} else {
		// two reads cut at every offset of the first Expect request and the head of its successor
		off := 0
		for j, q := range s.reqs {
			if q.expect {
				end := off + len(q.raw)
				if j+1 < len(s.reqs) {
					end += s.reqs[j+1].headLen
				}
				if end >= len(s.stream) {
					end = len(s.stream) - 1
				}
				for k := off + 1; k <= end; k++ {
					s.emit(c, []int{k, len(s.stream) - k}, (k+i)%2 == 0, "two-reads-around-expect")
				}
				break
			}
			off += len(q.raw)
		}
	}
}
