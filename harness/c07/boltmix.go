//go:build verif

package c07

// Mixed bolt v1 / boltv2 streams (kinds 'seg' and 'cuts', protos boltv2 and bolt).
//
// boltv2's Decode hands a frame whose first byte is 0x01 to the bolt v1 codec BEFORE it applies its own minimum length
// (LessLen = 22), and bolt's Decode hands 0x02 frames to boltv2 before its LessLen = 20.  A v1 frame can be SHORTER than
// 22 bytes: a response / heartbeat acknowledgement without class, header and content is 20 bytes.  A complete frame must
// be handed on no matter what follows it: when it is the last data of the stream, and when the read ends right behind it.
//
// Streams of 1-5 frames for proto boltv2 mixing v2 frames (framegen) with v1 frames of every length class: response with
// empty class / header / content (20 bytes), 21, 22 (response + 2, request without anything = heartbeat), 23, 24, 25, …, and
// larger ones with a KV header block; the short v1 frame LAST in the stream (no tail), last before an incomplete tail, in
// the middle, first; the same for proto bolt with v2 frames mixed in (22-byte v2 response, 24-byte v2 request).  Every
// stream: two reads cut at EVERY offset ('cuts': how many frames were handed on after the first read - so the read that
// ends right behind the short frame is there), whole stream, one byte per read, frame-aligned reads, random chunkings.

import (
	"fmt"

	"verif/harness/framegen"
	"verif/harness/hx"
)

// boltmixFrame builds a bolt v1 (v2 = false) or boltv2 frame with the given parts.  kind: resp | req | oneway
func boltmixFrame(r *hx.Rng, v2 bool, kind string, class, hdr, content []byte) []byte {
	var b []byte
	put16 := func(v uint16) { b = append(b, byte(v>>8), byte(v)) }
	put32 := func(v uint32) { b = append(b, byte(v>>24), byte(v>>16), byte(v>>8), byte(v)) }
	if v2 {
		b = append(b, 2, 1) // proto, ver1
	} else {
		b = append(b, 1)
	}
	cmdType := map[string]byte{"req": 1, "oneway": 2, "resp": 0}[kind]
	b = append(b, cmdType)
	cmdCode := uint16(1)
	if kind == "resp" {
		cmdCode = 2
	}
	if len(class)+len(hdr)+len(content) == 0 {
		cmdCode = 0 // heartbeat / heartbeat acknowledgement
	}
	put16(cmdCode)
	b = append(b, 1) // ver2
	put32(uint32(r.U64()))
	b = append(b, 1) // codec
	if v2 {
		b = append(b, 0) // switch
	}
	if kind == "resp" {
		put16(uint16(r.Pick([]int{0, 0, 1, 7})))
	} else {
		put32(uint32(r.Pick([]int{0, 1000, 3000})))
	}
	put16(uint16(len(class)))
	put16(uint16(len(hdr)))
	put32(uint32(len(content)))
	b = append(b, class...)
	b = append(b, hdr...)
	b = append(b, content...)
	return b
}

// a frame of the sibling protocol of `proto` whose length is base + extra (base = 20 / 22 for v1 response / request,
// 22 / 24 for v2), the extra bytes spread over class and content
func boltmixShort(r *hx.Rng, sibV2 bool, extra int) ([]byte, string) {
	kind := "resp"
	if extra >= 2 && r.Chance(40) {
		kind = r.PickS([]string{"req", "oneway"})
		extra -= 2 // a request header is 2 bytes longer
	}
	nc := 0
	if extra > 0 {
		nc = r.Intn(extra + 1)
	}
	return boltmixFrame(r, sibV2, kind, r.Bytes(nc), nil, r.Bytes(extra-nc)), kind
}

func boltmixCases(c *hx.Ctx) {
	r := c.Rng
	for _, proto := range []string{"boltv2", "bolt"} {
		ownV2 := proto == "boltv2"
		n := c.N(36, 220)
		if proto == "bolt" {
			n = c.N(12, 80)
		}
		for i := 0; i < n; i++ {
			s := &streamCase{proto: proto}
			nf := 1 + r.Intn(4)
			pos := []string{"last", "last", "last", "middle", "first"}[r.Intn(5)]
			if i < 14 { // every length class at least twice as the LAST data of the stream
				pos = "last"
			}
			// where the short sibling frame goes
			at := nf - 1
			switch pos {
			case "first":
				at = 0
			case "middle":
				at = r.Intn(nf)
			}
			extra := i % 7 // 20, 21, 22, 23, 24, 25, 26 bytes for a v1 response
			for j := 0; j < nf; j++ {
				var fb []byte
				switch {
				case j == at:
					var kind string
					fb, kind = boltmixShort(r, !ownV2, extra)
					c.Count(fmt.Sprintf("boltmix.%s.sibling-%s.len=%d.%s", proto, kind, len(fb), pos))
				case r.Chance(30):
					// a sibling frame of ordinary size, with a KV header block
					f := framegen.Bolt(r, !ownV2, true)
					fb = f.Bytes
					c.Count("boltmix." + proto + ".sibling-ordinary")
				default:
					f := framegen.Bolt(r, ownV2, true)
					fb = f.Bytes
					c.Count("boltmix." + proto + ".own")
				}
				if len(s.stream)+len(fb) > 600 {
					break
				}
				s.stream = append(s.stream, fb...)
				s.lens = append(s.lens, len(fb))
			}
			if len(s.lens) == 0 {
				continue
			}
			if pos != "last" || (i >= 14 && r.Chance(25)) {
				if r.Chance(40) { // incomplete tail: a proper prefix of a further frame (of either version)
					f := framegen.Bolt(r, r.Bool(), true)
					k := 1 + r.Intn(len(f.Bytes)-1)
					if len(s.stream)+k <= 600 {
						s.stream = append(s.stream, f.Bytes[:k]...)
						c.Count("boltmix.tail")
					}
				}
			}
			s.cuts(c)
			s.seg(c, []int{len(s.stream)}, "boltmix-whole")
			ones := make([]int, len(s.stream))
			for j := range ones {
				ones[j] = 1
			}
			s.seg(c, ones, "boltmix-one-byte")
			al := append([]int(nil), s.lens...)
			sum := 0
			for _, l := range al {
				sum += l
			}
			if sum < len(s.stream) {
				al = append(al, len(s.stream)-sum)
			}
			s.seg(c, al, "boltmix-frame-aligned")
			for j := 0; j < 2; j++ {
				s.seg(c, randChunks(r, len(s.stream), 1+r.Intn(30)), "boltmix-random")
			}
		}
	}
}
