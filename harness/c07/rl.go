//go:build verif

package c07

// Kind `rl`: the connection read loop below Dispatch. A REAL network.NewServerConnection over a loopback TCP pair with
// types.DefaultConnReadTimeout lowered to rlTimeout; the read filter hands the connection's real read buffer to the real
// server-side xprotocol stream connection (as proxy.OnData does). The peer follows a script: write n bytes / stall
// shorter or longer than the read timeout. What the read loop did is OBSERVED, not predicted: the size of every read
// (AddBytesReadListener), every read timeout (OnReadTimeout event), Len()/Cap() of the read buffer at every hand-off to
// the filter, the close event; plus the frames the decoder returned and what is left in the read buffer.

import (
	"bufio"
	"context"
	"fmt"
	"net"
	"os"
	"path/filepath"
	"sort"
	"strconv"
	"strings"
	"sync"
	"sync/atomic"
	"time"

	"mosn.io/api"
	"mosn.io/mosn/pkg/network"
	xstream "mosn.io/mosn/pkg/stream/xprotocol"
	"mosn.io/mosn/pkg/types"
	"mosn.io/pkg/buffer"
	"mosn.io/pkg/variable"
	"verif/harness/framegen"
	"verif/harness/hx"
)

const (
	rlTimeout = 30 * time.Millisecond // types.DefaultConnReadTimeout while the rl scripts run
	rlLong    = 75                    // ms: a stall longer than the read timeout (two timeouts, typically)
	rlShort   = 8                     // ms: a stall shorter than the read timeout
)

type rlOp struct {
	write int // > 0: write that many bytes
	pause int // > 0: stall that many ms (after everything written so far has been read)
}

type rlScript struct {
	netpoll bool // run in netpoll mode (kind rlnp): epoll event loop + read-timeout timer instead of startReadLoop
	proto   string
	stream  []byte
	lens    []int
	dflt    int // listener's default read buffer size; 0 = not configured (network.DefaultReadBufferSize)
	ops     []rlOp
	how     string
}

func (s *rlScript) caseLine() string {
	var ops []string
	for _, o := range s.ops {
		if o.write > 0 {
			ops = append(ops, "w"+strconv.Itoa(o.write))
		} else {
			ops = append(ops, "p"+strconv.Itoa(o.pause))
		}
	}
	kind := "rl"
	if s.netpoll {
		kind = "rlnp"
	}
	return fmt.Sprintf("%s %s %s %s %d %s", kind, s.proto, hx.Hex(s.stream), ints(s.lens), s.dflt, strings.Join(ops, ","))
}

type rlObs struct {
	mu    sync.Mutex
	trace []string
	nread int64
	done  chan struct{}
	once  sync.Once
}

func (o *rlObs) add(t string) {
	o.mu.Lock()
	o.trace = append(o.trace, t)
	o.mu.Unlock()
}

func (o *rlObs) OnEvent(ev api.ConnectionEvent) {
	switch {
	case ev == api.OnReadTimeout:
		o.add("t")
	case ev.IsClose():
		k := "co"
		switch ev {
		case api.RemoteClose:
			k = "ce"
		case api.OnReadErrClose:
			k = "cx"
		case api.LocalClose:
			k = "cl"
		}
		o.add(k)
		o.once.Do(func() { close(o.done) })
	}
}

// rlNetConn is what the stream connection sees: the real connection, except that heartbeat acks are not written back.
type rlNetConn struct{ api.Connection }

func (c *rlNetConn) Write(buf ...buffer.IoBuffer) error { return nil }

type rlFilter struct {
	o    *rlObs
	r    *rec
	sc   types.ServerStreamConnection
	conn api.Connection
}

func (f *rlFilter) OnNewConnection() api.FilterStatus                        { return api.Continue }
func (f *rlFilter) InitializeReadFilterCallbacks(cb api.ReadFilterCallbacks) {}
func (f *rlFilter) OnData(buf api.IoBuffer) api.FilterStatus {
	f.o.add(fmt.Sprintf("o%d.%d", buf.Len(), buf.Cap()))
	if f.r.errs > 0 {
		return api.Stop
	}
	if _, p := hx.Safe(func() { f.sc.Dispatch(buf) }); p {
		f.r.errs++ // the read loop would recover the panic and close the connection
		f.conn.Close(api.NoFlush, api.LocalClose)
	}
	return api.Stop
}

type rlResult struct {
	trace   string
	frames  [][]byte
	residue []byte
	failed  bool
}

func rlRun(s *rlScript) rlResult {
	ln, err := net.Listen("tcp", "127.0.0.1:0")
	if err != nil {
		panic(err)
	}
	defer ln.Close()
	type acc struct {
		c   net.Conn
		err error
	}
	ach := make(chan acc, 1)
	go func() { c, err := ln.Accept(); ach <- acc{c, err} }()
	client, err := net.Dial("tcp", ln.Addr().String())
	if err != nil {
		panic(err)
	}
	a := <-ach
	if a.err != nil {
		panic(a.err)
	}
	ctx := variable.NewVariableContext(context.Background())
	if s.dflt != 0 {
		_ = variable.Set(ctx, types.VariableConnDefaultReadBufferSize, s.dflt)
	}
	if s.netpoll {
		// as activeListener.OnAccept does in netpoll mode: the connection polls a duplicate of the descriptor
		f, err := a.c.(*net.TCPConn).File()
		if err != nil {
			panic(err)
		}
		_ = variable.Set(ctx, types.VariableConnectionFd, f)
	}
	obs := &rlObs{done: make(chan struct{})}
	conn := network.NewServerConnection(ctx, a.c, nil)
	r := &rec{}
	fac := xstream.NewStreamFactory(&wrapCodec{XProtocolCodec: framegen.Codec(s.proto), r: r})
	sc := fac.CreateServerStream(framegen.Ctx(), &rlNetConn{conn}, &listener{r: r})
	conn.AddConnectionEventListener(obs)
	conn.AddBytesReadListener(func(n uint64) {
		obs.add("r" + strconv.FormatUint(n, 10))
		atomic.AddInt64(&obs.nread, int64(n))
	})
	conn.FilterManager().AddReadFilter(&rlFilter{o: obs, r: r, sc: sc, conn: conn})
	conn.Start(ctx)

	closed := func() bool {
		select {
		case <-obs.done:
			return true
		default:
			return false
		}
	}
	written := 0
	// waitRead: wait until the connection has read everything written so far (bounded)
	waitRead := func() {
		dl := time.Now().Add(3 * time.Second)
		for atomic.LoadInt64(&obs.nread) < int64(written) && !closed() && time.Now().Before(dl) {
			time.Sleep(200 * time.Microsecond)
		}
	}
	for _, op := range s.ops {
		if closed() {
			break
		}
		if op.write > 0 {
			client.SetWriteDeadline(time.Now().Add(3 * time.Second))
			client.Write(s.stream[written : written+op.write])
			written += op.write
		} else {
			waitRead()
			time.Sleep(time.Duration(op.pause) * time.Millisecond)
		}
	}
	waitRead()
	client.Close()
	stuck := false
	select {
	case <-obs.done:
	case <-time.After(5 * time.Second):
		stuck = true
		conn.Close(api.NoFlush, api.LocalClose)
		<-obs.done
	}
	time.Sleep(time.Millisecond)
	obs.mu.Lock()
	tr := append([]string(nil), obs.trace...)
	obs.mu.Unlock()
	if stuck {
		tr = append(tr, "stuck")
	}
	res := rlResult{trace: strings.Join(tr, ","), failed: r.errs > 0}
	if len(tr) == 0 {
		res.trace = "-"
	}
	if rb := conn.GetReadBuffer(); rb != nil {
		res.residue = append([]byte(nil), rb.Bytes()...)
	}
	res.frames = r.frames
	for i := range res.frames {
		if r.drained[i] != len(res.frames[i]) {
			res.frames[i] = append([]byte{0xde, 0xad}, res.frames[i]...)
		}
	}
	return res
}

// ---- scripts

// rlStream: 2-7 valid frames of one protocol (mostly small ones, some of a few hundred / thousand bytes), 40% with a
// truncated further frame as tail.
func rlStream(c *hx.Ctx, proto string) *streamCase {
	for try := 0; try < 200; try++ {
		s := &streamCase{proto: proto}
		n := 2 + c.Rng.Intn(6)
		for i := 0; i < n; i++ {
			f := framegen.Gen(c.Rng, proto, !c.Rng.Chance(25))
			if len(f.Bytes) > 5000 || (f.Proto == "tars" && len(f.Bytes) >= 256 && !framegen.Valid(f)) {
				continue
			}
			s.stream = append(s.stream, f.Bytes...)
			s.lens = append(s.lens, len(f.Bytes))
		}
		if len(s.lens) < 2 {
			continue
		}
		if c.Rng.Chance(40) {
			f := framegen.Gen(c.Rng, proto, !c.Rng.Chance(25))
			if len(f.Bytes) > 1 && len(f.Bytes) <= 5000 {
				s.stream = append(s.stream, f.Bytes[:1+c.Rng.Intn(len(f.Bytes)-1)]...)
			}
		}
		return s
	}
	return nil
}

func rlClass(n int) int {
	c := 64
	for c < n {
		c *= 2
	}
	return c
}

// rlChunks appends writes covering `n` bytes in random chunks with random stalls (at most *longs long ones).
func rlChunks(r *hx.Rng, ops []rlOp, n int, longs *int) []rlOp {
	for n > 0 {
		var k int
		switch r.Intn(4) {
		case 0:
			k = 1 + r.Intn(8)
		case 1:
			k = 1 + r.Intn(60)
		case 2:
			k = 60 + r.Intn(200)
		default:
			k = 1 + r.Intn(2000)
		}
		if k > n {
			k = n
		}
		ops = append(ops, rlOp{write: k})
		n -= k
		switch p := r.Intn(10); {
		case p < 2:
			ops = append(ops, rlOp{pause: rlShort})
		case p < 4 && *longs > 0:
			*longs--
			ops = append(ops, rlOp{pause: rlLong})
		}
	}
	return ops
}

func rlScripts(c *hx.Ctx, n int) []*rlScript {
	var out []*rlScript
	dflts := []int{0, 0, 0, 64, 100, 128, 256, 1024}
	for len(out) < n {
		proto := framegen.Protos[c.Rng.Intn(len(framegen.Protos))]
		st := rlStream(c, proto)
		if st == nil {
			continue
		}
		s := &rlScript{proto: proto, stream: st.stream, lens: st.lens, dflt: c.Rng.Pick(dflts)}
		d := s.dflt
		if d == 0 {
			d = network.DefaultReadBufferSize
		}
		cap0 := rlClass(d)
		total := len(s.stream)
		longs := 3
		switch c.Rng.Intn(5) {
		case 0: // random chunks and stalls
			s.how = "random"
			s.ops = rlChunks(c.Rng, nil, total, &longs)
		case 1: // everything at once, stall, close: an incomplete tail (if any) waits through read timeouts
			s.how = "whole-then-stall"
			s.ops = []rlOp{{write: total}, {pause: rlLong}}
		default:
			// a first write that fills the initial buffer (so that it grows), then a frame cut with r bytes buffered,
			// r around the default size, and the peer stalling longer than the read timeout
			s.how = "grow-cut-stall"
			var bounds []int // start offset of every frame and of the tail
			off := 0
			for _, l := range s.lens {
				bounds = append(bounds, off)
				off += l
			}
			if off < total {
				bounds = append(bounds, off)
			}
			// prefer a cut behind the initial capacity (so that the buffer has grown when the peer stalls)
			q := -1
			for try := 0; try < 8; try++ {
				i := c.Rng.Intn(len(bounds))
				flen := total - bounds[i]
				if i < len(s.lens) {
					flen = s.lens[i]
				}
				cands := []int{1, 2, 3, d / 2, d - 1, d, d + 1, 2 * d, flen - 1, 1 + c.Rng.Intn(flen)}
				var ok []int
				for _, r := range cands {
					if r >= 1 && (r < flen || (i == len(s.lens) && r == flen)) {
						ok = append(ok, r)
					}
				}
				if len(ok) == 0 {
					continue
				}
				q = bounds[i] + c.Rng.Pick(ok)
				if q >= cap0 || c.Rng.Chance(10) {
					break
				}
			}
			if q < 0 {
				continue
			}
			if q >= cap0 {
				// first write: at least the initial capacity
				w1 := cap0 + c.Rng.Intn(q-cap0+1)
				s.ops = append(s.ops, rlOp{write: w1})
				if c.Rng.Chance(30) {
					s.ops = append(s.ops, rlOp{pause: rlShort})
				}
				if q > w1 {
					s.ops = append(s.ops, rlOp{write: q - w1})
				}
			} else {
				s.how = "cut-stall-ungrown"
				s.ops = append(s.ops, rlOp{write: q})
			}
			s.ops = append(s.ops, rlOp{pause: rlLong})
			longs = 2
			s.ops = rlChunks(c.Rng, s.ops, total-q, &longs)
			if c.Rng.Chance(30) {
				s.ops = append(s.ops, rlOp{pause: rlLong})
			}
		}
		out = append(out, s)
	}
	return out
}

// rlCorpus: corpus/C07/*.txt, lines `C07 rl <proto> <stream> <lens> <dflt> <script>` (minimised past failures), run first.
func rlCorpus() []*rlScript {
	wd, _ := os.Getwd()
	var files []string
	for _, d := range []string{filepath.Join(wd, "..", "..", "corpus", "C07"), filepath.Join(wd, "corpus", "C07")} {
		m, _ := filepath.Glob(filepath.Join(d, "*.txt"))
		files = append(files, m...)
	}
	sort.Strings(files)
	var out []*rlScript
	for _, fn := range files {
		fh, err := os.Open(fn)
		if err != nil {
			continue
		}
		sc := bufio.NewScanner(fh)
		sc.Buffer(make([]byte, 1<<20), 1<<24)
		for sc.Scan() {
			t := strings.Fields(sc.Text())
			if len(t) < 7 || t[0] != "C07" || t[1] != "rl" {
				continue
			}
			s := &rlScript{proto: t[2], stream: hx.Unhex(t[3]), how: "corpus"}
			for _, l := range strings.Split(t[4], ",") {
				n, _ := strconv.Atoi(l)
				s.lens = append(s.lens, n)
			}
			s.dflt, _ = strconv.Atoi(t[5])
			total := 0
			for _, o := range strings.Split(t[6], ",") {
				n, err := strconv.Atoi(o[1:])
				if err != nil || n <= 0 {
					panic("corpus: bad rl script " + t[6])
				}
				if o[0] == 'w' {
					s.ops = append(s.ops, rlOp{write: n})
					total += n
				} else {
					s.ops = append(s.ops, rlOp{pause: n})
				}
			}
			if total != len(s.stream) {
				panic("corpus: rl script does not cover the stream")
			}
			out = append(out, s)
		}
		fh.Close()
	}
	return out
}

func rlBatch(c *hx.Ctx, scripts []*rlScript, tag string) {
	results := make([]rlResult, len(scripts))
	var wg sync.WaitGroup
	sem := make(chan struct{}, 24)
	for i := range scripts {
		wg.Add(1)
		sem <- struct{}{}
		go func(i int) {
			defer wg.Done()
			defer func() { <-sem }()
			results[i] = rlRun(scripts[i])
		}(i)
	}
	wg.Wait()
	for i, s := range scripts {
		r := results[i]
		c.Emit("C07", s.caseLine(), fmt.Sprintf("%s %s %s %s", r.trace, hexList(r.frames), hx.Hex(r.residue), flag(r.failed)))
		c.Count(tag + "." + s.how)
		c.Count(fmt.Sprintf("%s.dflt=%d", tag, s.dflt))
		nt := strings.Count(","+r.trace+",", ",t,")
		switch {
		case nt == 0:
			c.Count(tag + ".timeouts=0")
		case nt < 3:
			c.Count(tag + ".timeouts=1-2")
		default:
			c.Count(tag + ".timeouts=3+")
		}
		// a timeout hit while a partial frame was buffered and the buffer had grown: what the shrink condition is about
		if rlStalledGrown(r.trace, s.dflt) {
			c.Count(tag + ".timeout-with-buffered-bytes-after-growth")
		}
	}
}

func rlCases(c *hx.Ctx) {
	scripts := append(rlCorpus(), rlScripts(c, c.N(140, 700))...)
	np := rlScripts(c, c.N(60, 300))
	for _, s := range rlCorpus() {
		cp := *s
		np = append([]*rlScript{&cp}, np...)
	}
	for _, s := range np {
		s.netpoll = true
	}
	saved := types.DefaultConnReadTimeout
	types.DefaultConnReadTimeout = rlTimeout
	rlBatch(c, scripts, "rl")
	// the same in netpoll mode (its own copies of the shrink statement: read-timeout timer, event-loop onRead)
	network.SetNetpollMode(true)
	rlBatch(c, np, "rlnp")
	network.SetNetpollMode(false)
	types.DefaultConnReadTimeout = saved
}

// rlStalledGrown: in the observed trace, was there a read timeout while the last hand-off left bytes buffered (the next
// hand-off shows more than the next read brought) with a capacity above the default class?
func rlStalledGrown(trace string, dflt int) bool {
	if dflt == 0 {
		dflt = network.DefaultReadBufferSize
	}
	toks := strings.Split(trace, ",")
	grown, sawT, lastRead := false, false, 0
	for _, t := range toks {
		switch {
		case t == "t":
			sawT = true
		case strings.HasPrefix(t, "r"):
			lastRead, _ = strconv.Atoi(t[1:])
		case strings.HasPrefix(t, "o"):
			var l, cp int
			fmt.Sscanf(t, "o%d.%d", &l, &cp)
			if sawT && grown && l > lastRead {
				return true
			}
			sawT = false
			grown = cp > rlClass(dflt)
		}
	}
	return false
}
