//go:build verif

package c07

// Kind 'h1seg' (C07, HTTP/1): pipelined HTTP/1.1 messages through the REAL stream connections of pkg/stream/http.
//
// srv: 2-6 pipelined requests (GET / DELETE without body, GET with Content-Length: 0, POST / PUT with Content-Length bodies of
// 0..n bytes, chunked bodies of 0-3 chunks incl. the empty one; arbitrary body bytes; no Expect, no Connection: close)
// + sometimes an incomplete further request, written to the real server stream connection (CreateServerStream: serve()
// goroutine + bufio reader + fasthttp parser) with streamConnection.Dispatch, one call per chunk: everything in one read,
// one message per read, one byte per read, seeded random chunkings (incl. empty reads), and the stream cut into two reads
// at EVERY offset of the second message.  The proxy-side receiver answers every request either at once (inside OnReceive)
// or from another goroutine after the dispatcher had time to hand over everything the reader takes (delay = 1): in both
// modes a read that carried the end of request k and bytes of request k+1 has put those bytes into the connection's
// reader BEFORE the serve loop comes round.
// cli: the same with 2-5 responses (Content-Length / chunked / 204 / 304) on the real client stream connection
// (CreateClientStream); MOSN never pipelines upstream (one stream per client connection, the next request is written when
// the previous response was handed on), but the connection's reader can hold the bytes of the next response, and the harness
// sends request k+1 when response k was received.
//
// Observed: the sequence the receiver gets: method, request URI, sorted header set (fnv), body (length, fnv) - resp. status,
// headers, body - for the chunked delivery AND for the whole-stream-in-one-read delivery of the same bytes; 'stuck' when a
// message the stream contains never arrives (2 s), 'err' when the connection was closed by the stream layer.

import (
	"bytes"
	"context"
	"fmt"
	"hash/fnv"
	"net"
	"runtime"
	"sort"
	"strings"
	"sync"
	"time"

	"github.com/valyala/fasthttp"
	"mosn.io/api"
	mosnhttp "mosn.io/mosn/pkg/protocol/http"
	shttp "mosn.io/mosn/pkg/stream/http"
	"mosn.io/mosn/pkg/types"
	"mosn.io/pkg/buffer"
	"mosn.io/pkg/variable"
	"verif/harness/framegen"
	"verif/harness/hx"
)

type h1sConn struct {
	api.Connection
	mu        sync.Mutex
	closed    bool
	byLayer   bool
	listeners []api.ConnectionEventListener
}

func (c *h1sConn) ID() uint64                           { return 78 }
func (c *h1sConn) LocalAddr() net.Addr                  { return &net.TCPAddr{} }
func (c *h1sConn) RemoteAddr() net.Addr                 { return &net.TCPAddr{} }
func (c *h1sConn) RawConn() net.Conn                    { return nil }
func (c *h1sConn) Connect() error                       { return nil }
func (c *h1sConn) SetMark(uint32)                       {}
func (c *h1sConn) SetTransferEventListener(func() bool) {}
func (c *h1sConn) AddConnectionEventListener(l api.ConnectionEventListener) {
	c.listeners = append(c.listeners, l)
}
func (c *h1sConn) State() api.ConnState {
	c.mu.Lock()
	defer c.mu.Unlock()
	if c.closed {
		return api.ConnClosed
	}
	return api.ConnActive
}
func (c *h1sConn) Write(bufs ...buffer.IoBuffer) error { return nil }
func (c *h1sConn) Close(t api.ConnectionCloseType, ev api.ConnectionEvent) error {
	c.mu.Lock()
	was := c.closed
	c.closed = true
	if !was && ev == api.LocalClose {
		c.byLayer = true
	}
	c.mu.Unlock()
	if !was {
		for _, l := range c.listeners {
			l.OnEvent(ev)
		}
	}
	return nil
}

func h1sFnv(b []byte) string {
	h := fnv.New32a()
	h.Write(b)
	return fmt.Sprintf("%08x", h.Sum32())
}

// what one run observed
type h1sObs struct {
	mu   sync.Mutex
	msgs []string
	got  chan func() // answer / continue with the next request
}

func (o *h1sObs) add(d string) {
	o.mu.Lock()
	o.msgs = append(o.msgs, d)
	o.mu.Unlock()
}
func (o *h1sObs) count() int {
	o.mu.Lock()
	defer o.mu.Unlock()
	return len(o.msgs)
}

func h1sHeaders(visit func(func(k, v []byte))) string {
	var hs []string
	visit(func(k, v []byte) { hs = append(hs, strings.ToLower(string(k))+":"+string(v)) })
	sort.Strings(hs)
	return h1sFnv([]byte(strings.Join(hs, "\n")))
}

func h1sBody(data types.IoBuffer) (int, string) {
	if data == nil {
		return 0, h1sFnv(nil)
	}
	return data.Len(), h1sFnv(data.Bytes())
}

type h1sSrvListener struct {
	o     *h1sObs
	delay bool
}

func (l *h1sSrvListener) OnGoAway() {}
func (l *h1sSrvListener) NewStreamDetect(ctx context.Context, sender types.StreamSender, span api.Span) types.StreamReceiveListener {
	return &h1sSrvReceiver{l: l, sender: sender}
}

type h1sSrvReceiver struct {
	l      *h1sSrvListener
	sender types.StreamSender
}

func (r *h1sSrvReceiver) OnDecodeError(ctx context.Context, err error, headers types.HeaderMap) {}
func (r *h1sSrvReceiver) OnReceive(ctx context.Context, headers types.HeaderMap, data types.IoBuffer, trailers types.HeaderMap) {
	d := "?:?:0:0:0"
	if h, ok := headers.(mosnhttp.RequestHeader); ok {
		n, bh := h1sBody(data)
		d = fmt.Sprintf("%s:%s:%d:%s:%s", hx.Hex(h.Method()), hx.Hex(h.RequestURI()), n, h1sHeaders(h.VisitAll), bh)
	}
	r.l.o.add(d)
	answer := func() {
		hx.Safe(func() {
			h := mosnhttp.ResponseHeader{ResponseHeader: &fasthttp.ResponseHeader{}}
			h.SetStatusCode(200)
			r.sender.AppendHeaders(ctx, h, false)
			r.sender.AppendData(ctx, buffer.NewIoBufferBytes([]byte("ok")), true)
		})
	}
	if r.l.delay {
		r.l.o.got <- answer
	} else {
		answer()
		r.l.o.got <- nil
	}
}

type h1sCliReceiver struct {
	o    *h1sObs
	next func()
	dly  bool
}

func (r *h1sCliReceiver) OnDecodeError(ctx context.Context, err error, headers types.HeaderMap) {}
func (r *h1sCliReceiver) OnReceive(ctx context.Context, headers types.HeaderMap, data types.IoBuffer, trailers types.HeaderMap) {
	d := "?:-:0:0:0"
	if h, ok := headers.(mosnhttp.ResponseHeader); ok {
		n, bh := h1sBody(data)
		d = fmt.Sprintf("%d:-:%d:%s:%s", h.StatusCode(), n, h1sHeaders(h.VisitAll), bh)
	}
	r.o.add(d)
	if r.dly {
		r.o.got <- r.next
	} else {
		r.next()
		r.o.got <- nil
	}
}

type h1sCliEvents struct{}

func (h1sCliEvents) OnGoAway() {}

// a message that never arrives costs the whole patience: after a few such runs the patience drops (a lost message stays
// lost) and after h1sStuckMax of them the remaining chunkings of the side are skipped
var h1sStuck int

const h1sStuckMax = 24

func h1sPatience() time.Duration {
	if h1sStuck >= 3 {
		return 60 * time.Millisecond
	}
	return 2 * time.Second
}

// h1sRun delivers stream in the given chunks to a fresh real stream connection; nExp = complete messages in the stream.
func h1sRun(side string, stream []byte, chunks []int, delay bool, nExp int) (string, string) {
	conn := &h1sConn{}
	o := &h1sObs{got: make(chan func(), 16)}
	var dispatch func(buffer.IoBuffer)
	var finish func()
	if side == "srv" {
		ctx := variable.NewVariableContext(context.Background())
		sc := (&shttp.StreamConnFactory{}).CreateServerStream(ctx, conn, &h1sSrvListener{o: o, delay: delay})
		dispatch = sc.Dispatch
		finish = func() { conn.Close(api.NoFlush, api.RemoteClose) }
	} else {
		ctx := variable.NewVariableContext(context.Background())
		cc := (&shttp.StreamConnFactory{}).CreateClientStream(ctx, conn, h1sCliEvents{}, nil)
		dispatch = cc.Dispatch
		sent := 0
		var send func()
		send = func() {
			if sent > nExp { // one request more than complete responses: the reader also takes an incomplete tail
				return
			}
			sent++
			k := sent
			hx.Safe(func() {
				rctx := framegen.Ctx()
				s := cc.NewStream(rctx, &h1sCliReceiver{o: o, next: send, dly: delay})
				h := mosnhttp.RequestHeader{RequestHeader: &fasthttp.RequestHeader{}}
				h.SetRequestURI(fmt.Sprintf("/up/%d", k))
				h.SetHost("up.test")
				s.AppendHeaders(rctx, h, true)
			})
		}
		send()
		finish = func() {
			conn.mu.Lock()
			conn.closed = true
			conn.mu.Unlock()
			hx.Safe(func() { cc.Reset(types.StreamConnectionTermination) })
		}
	}
	dispDone := make(chan struct{})
	go func() {
		defer close(dispDone)
		off := 0
		for _, n := range chunks {
			if conn.State() == api.ConnClosed {
				return
			}
			p := append([]byte(nil), stream[off:off+n]...)
			off += n
			hx.Safe(func() { dispatch(buffer.NewIoBufferBytes(p)) })
		}
	}()
	stat := "ok"
	deadline := time.After(h1sPatience())
	seen := 0
	dd := dispDone
	for stat == "ok" && (seen < nExp || dd != nil) {
		select {
		case f := <-o.got:
			seen++
			if f != nil {
				// let the dispatcher hand over everything the reader takes before the loop comes round
				for i := 0; i < 40; i++ {
					runtime.Gosched()
				}
				f()
			}
		case <-dd:
			dd = nil
		case <-deadline:
			stat = "stuck"
		}
		if conn.State() == api.ConnClosed {
			break
		}
	}
	conn.mu.Lock()
	if conn.byLayer {
		stat = "err"
	}
	conn.mu.Unlock()
	finish()
	select {
	case <-dispDone:
	case <-time.After(h1sPatience()):
	}
	if stat == "stuck" {
		h1sStuck++
	}
	o.mu.Lock()
	defer o.mu.Unlock()
	if len(o.msgs) == 0 {
		return "-", stat
	}
	return strings.Join(o.msgs, ","), stat
}

// ---------------------------------------------------------------------------------------------------------------
// generators

func h1sChunked(r *hx.Rng, body []byte) []byte {
	var b bytes.Buffer
	rest := body
	for len(rest) > 0 {
		n := 1 + r.Intn(len(rest))
		if r.Chance(40) {
			n = len(rest)
		}
		if r.Chance(30) {
			fmt.Fprintf(&b, "%X\r\n", n)
		} else {
			fmt.Fprintf(&b, "%x\r\n", n)
		}
		b.Write(rest[:n])
		b.WriteString("\r\n")
		rest = rest[n:]
	}
	b.WriteString("0\r\n\r\n")
	return b.Bytes()
}

func h1sBodyBytes(r *hx.Rng, n int) []byte {
	if r.Chance(50) {
		return r.Bytes(n) // any byte, CR / LF included
	}
	b := make([]byte, n)
	for i := range b {
		b[i] = "abc\r\n GET/1.: 0"[r.Intn(15)]
	}
	return b
}

func h1sExtra(r *hx.Rng, b *bytes.Buffer) {
	for i, n := 0, r.Intn(4); i < n; i++ {
		fmt.Fprintf(b, "X-K%d: v%d%s\r\n", i, r.Intn(1000), strings.Repeat("y", r.Intn(12)))
	}
}

func h1sSize(r *hx.Rng, big bool) int {
	switch {
	case big && r.Chance(50):
		return 2000 + r.Intn(20000)
	case r.Chance(15):
		return 0
	case r.Chance(15):
		return 1
	default:
		return 1 + r.Intn(90)
	}
}

func h1sRequest(c *hx.Ctx, seq int, big bool) []byte {
	r := c.Rng
	var b bytes.Buffer
	uri := fmt.Sprintf("/h1s/%d/%s", seq, strings.Repeat("p", r.Intn(9)))
	if r.Chance(40) {
		uri += fmt.Sprintf("?q=%d", r.Intn(100))
	}
	shape := r.PickS([]string{"get", "get", "get-cl0", "delete", "post-cl", "post-cl", "put-cl", "post-chunked", "put-chunked", "post-cl0", "post-chunked0"})
	c.Count("h1seg.gen.req." + shape)
	method := strings.ToUpper(strings.SplitN(shape, "-", 2)[0])
	fmt.Fprintf(&b, "%s %s HTTP/1.1\r\nHost: h1s.test\r\n", method, uri)
	h1sExtra(r, &b)
	switch shape {
	case "get", "delete":
		b.WriteString("\r\n")
	case "get-cl0", "post-cl0":
		b.WriteString("Content-Length: 0\r\n\r\n")
	case "post-cl", "put-cl":
		body := h1sBodyBytes(r, h1sSize(r, big))
		fmt.Fprintf(&b, "Content-Length: %d\r\n", len(body))
		if r.Chance(50) {
			b.WriteString("Content-Type: application/x-h1s\r\n")
		}
		b.WriteString("\r\n")
		b.Write(body)
	case "post-chunked", "put-chunked":
		b.WriteString("Transfer-Encoding: chunked\r\n\r\n")
		b.Write(h1sChunked(r, h1sBodyBytes(r, 1+h1sSize(r, big))))
	case "post-chunked0":
		b.WriteString("Transfer-Encoding: chunked\r\n\r\n0\r\n\r\n")
	}
	return b.Bytes()
}

func h1sResponse(c *hx.Ctx, seq int, big bool) []byte {
	r := c.Rng
	var b bytes.Buffer
	shape := r.PickS([]string{"200-cl", "200-cl", "200-cl0", "404-cl", "200-chunked", "500-chunked", "200-chunked0", "204", "304"})
	c.Count("h1seg.gen.resp." + shape)
	status := strings.SplitN(shape, "-", 2)[0]
	fmt.Fprintf(&b, "HTTP/1.1 %s St%s\r\nServer: up%d\r\n", status, status, seq)
	h1sExtra(r, &b)
	switch shape {
	case "204", "304":
		b.WriteString("\r\n")
	case "200-cl0":
		b.WriteString("Content-Length: 0\r\n\r\n")
	case "200-cl", "404-cl":
		body := h1sBodyBytes(r, h1sSize(r, big))
		fmt.Fprintf(&b, "Content-Length: %d\r\nContent-Type: text/x-h1s\r\n\r\n", len(body))
		b.Write(body)
	case "200-chunked", "500-chunked":
		b.WriteString("Transfer-Encoding: chunked\r\n\r\n")
		b.Write(h1sChunked(r, h1sBodyBytes(r, 1+h1sSize(r, big))))
	case "200-chunked0":
		b.WriteString("Transfer-Encoding: chunked\r\n\r\n0\r\n\r\n")
	}
	return b.Bytes()
}

type h1sStream struct {
	side   string
	stream []byte
	lens   []int // complete messages
	whole  string
}

func h1sBuild(c *hx.Ctx, side string, big bool) *h1sStream {
	r := c.Rng
	s := &h1sStream{side: side}
	n := 2 + r.Intn(5)
	if side == "cli" {
		n = 2 + r.Intn(4)
	}
	gen := h1sRequest
	if side == "cli" {
		gen = h1sResponse
	}
	for i := 0; i < n; i++ {
		m := gen(c, i+1, big)
		s.lens = append(s.lens, len(m))
		s.stream = append(s.stream, m...)
	}
	if r.Chance(35) {
		m := gen(c, n+1, false)
		if len(m) > 1 {
			s.stream = append(s.stream, m[:1+r.Intn(len(m)-1)]...)
			c.Count("h1seg.gen.tail")
		}
	}
	c.Count(fmt.Sprintf("h1seg.gen.%s.messages=%d", side, n))
	w, st := h1sRun(side, s.stream, []int{len(s.stream)}, false, len(s.lens))
	s.whole = w + " " + st
	return s
}

func (s *h1sStream) emit(c *hx.Ctx, chunks []int, delay bool, how string) {
	if h1sStuck >= h1sStuckMax {
		c.Count("h1seg.skipped-after-stuck")
		return
	}
	got, st := h1sRun(s.side, s.stream, chunks, delay, len(s.lens))
	d := "0"
	if delay {
		d = "1"
	}
	c.Emit("C07", fmt.Sprintf("h1seg %s %s %s %s", s.side, d, hx.Hex(s.stream), ints(chunks)), fmt.Sprintf("%s %s %s", s.whole, got, st))
	c.Count("h1seg." + s.side + "." + how + ".delay=" + d)
}

func (s *h1sStream) aligned() []int {
	al := append([]int(nil), s.lens...)
	sum := 0
	for _, l := range al {
		sum += l
	}
	if sum < len(s.stream) {
		al = append(al, len(s.stream)-sum)
	}
	return al
}

func h1segCases(c *hx.Ctx) {
	for _, side := range []string{"srv", "cli"} {
		h1sStuck = 0
		nSmall := c.N(14, 60)
		if side == "cli" {
			nSmall = c.N(8, 36)
		}
		for i := 0; i < nSmall; i++ {
			s := h1sBuild(c, side, false)
			for _, delay := range []bool{false, true} {
				s.emit(c, []int{len(s.stream)}, delay, "whole")
				s.emit(c, s.aligned(), delay, "message-aligned")
			}
			ones := make([]int, len(s.stream))
			for j := range ones {
				ones[j] = 1
			}
			s.emit(c, ones, i%2 == 0, "one-byte")
			for j := 0; j < c.N(3, 6); j++ {
				s.emit(c, randChunks(c.Rng, len(s.stream), 1+c.Rng.Intn(60)), c.Rng.Bool(), "random")
			}
			// two reads, cut at every offset of the second message (the first read carries request 1 and a part of request 2)
			for k := s.lens[0]; k <= s.lens[0]+s.lens[1]; k++ {
				s.emit(c, []int{k, len(s.stream) - k}, (k+i)%2 == 0, "cut-in-second")
			}
			// three reads: the first two messages and a part of the third in the first read
			if len(s.lens) > 2 {
				k := s.lens[0] + s.lens[1] + c.Rng.Intn(s.lens[2]+1)
				s.emit(c, []int{k, len(s.stream) - k}, c.Rng.Bool(), "cut-in-third")
			}
		}
		for i := 0; i < c.N(4, 24); i++ {
			s := h1sBuild(c, side, true)
			s.emit(c, []int{len(s.stream)}, c.Rng.Bool(), "big-whole")
			s.emit(c, s.aligned(), c.Rng.Bool(), "big-message-aligned")
			for j := 0; j < 3; j++ {
				s.emit(c, randChunks(c.Rng, len(s.stream), 200+c.Rng.Intn(5000)), c.Rng.Bool(), "big-random")
			}
		}
	}
}
