//go:build verif

package c07

import (
	"bytes"
	"fmt"
	"strings"

	mhttp2 "mosn.io/mosn/pkg/module/http2"
	"mosn.io/mosn/pkg/module/http2/hpack"
	phttp2 "mosn.io/mosn/pkg/protocol/http2"
	"mosn.io/pkg/buffer"
	"verif/harness/framegen"
	"verif/harness/hx"
)

// h2Stream builds: client preface, SETTINGS, then a seeded mix of WINDOW_UPDATE / PING / PRIORITY / SETTINGS-ack /
// request HEADERS (optionally split into CONTINUATION frames, optionally padded / with priority) / DATA / RST_STREAM,
// written by MOSN's own Framer and HPACK encoder. lens = length of every item the server-side decoder extracts
// (preface; frame; HEADERS+CONTINUATION group).
func h2Stream(r *hx.Rng, maxLen int) (stream []byte, lens []int) {
	var out bytes.Buffer
	out.WriteString(mhttp2.ClientPreface)
	lens = append(lens, len(mhttp2.ClientPreface))
	var w bytes.Buffer
	fr := mhttp2.NewFramer(&w, nil)
	var hb bytes.Buffer
	enc := hpack.NewEncoder(&hb)
	flush := func() bool {
		if out.Len()+w.Len() > maxLen {
			w.Reset()
			return false
		}
		lens = append(lens, w.Len())
		out.Write(w.Bytes())
		w.Reset()
		return true
	}
	fr.WriteSettings(mhttp2.Setting{ID: mhttp2.SettingInitialWindowSize, Val: 65535})
	flush()
	sid := uint32(1)
	n := 1 + r.Intn(6)
	for i := 0; i < n; i++ {
		switch r.Intn(7) {
		case 0:
			fr.WriteWindowUpdate(0, uint32(1+r.Intn(1000)))
		case 1:
			var d [8]byte
			copy(d[:], r.Bytes(8))
			fr.WritePing(false, d)
		case 2:
			fr.WriteSettingsAck()
		case 3:
			fr.WritePriority(sid+100, mhttp2.PriorityParam{StreamDep: 0, Weight: uint8(r.Intn(256))})
		default: // a request: HEADERS (+ CONTINUATION*) then maybe DATA
			hb.Reset()
			hasBody := r.Bool()
			method := "GET"
			if hasBody {
				method = "POST"
			}
			enc.WriteField(hpack.HeaderField{Name: ":method", Value: method})
			enc.WriteField(hpack.HeaderField{Name: ":scheme", Value: "http"})
			enc.WriteField(hpack.HeaderField{Name: ":authority", Value: "h" + fmt.Sprint(r.Intn(5)) + ".test"})
			enc.WriteField(hpack.HeaderField{Name: ":path", Value: "/p/" + strings.Repeat("x", r.Intn(30))})
			for j := r.Intn(4); j > 0; j-- {
				enc.WriteField(hpack.HeaderField{Name: "x-k" + fmt.Sprint(r.Intn(6)), Value: strings.Repeat("v", r.Intn(40))})
			}
			block := append([]byte(nil), hb.Bytes()...)
			parts := 1 + r.Intn(3)
			if parts > len(block) {
				parts = 1
			}
			cut := make([]int, 0, parts)
			for j := 1; j < parts; j++ {
				cut = append(cut, j*len(block)/parts)
			}
			cut = append(cut, len(block))
			p := mhttp2.HeadersFrameParam{StreamID: sid, BlockFragment: block[:cut[0]], EndStream: !hasBody, EndHeaders: parts == 1}
			if r.Chance(25) {
				p.PadLength = uint8(r.Intn(8))
			}
			if r.Chance(25) {
				p.Priority = mhttp2.PriorityParam{StreamDep: 0, Weight: uint8(1 + r.Intn(200))}
			}
			fr.WriteHeaders(p)
			for j := 1; j < parts; j++ {
				fr.WriteContinuation(sid, j == parts-1, block[cut[j-1]:cut[j]])
			}
			if !flush() {
				return out.Bytes(), lens
			}
			if hasBody {
				fr.WriteData(sid, true, r.Bytes(r.Intn(60)))
				if !flush() {
					return out.Bytes(), lens
				}
			}
			if r.Chance(15) {
				fr.WriteRSTStream(sid, mhttp2.ErrCodeCancel)
			}
			sid += 2
		}
		if w.Len() > 0 && !flush() {
			break
		}
	}
	return out.Bytes(), lens
}

type h2conn struct {
	items   [][]byte
	failed  bool
	buf     buffer.IoBuffer
	decode  func(buffer.IoBuffer) (interface{}, error)
	preface bool
}

func newH2() *h2conn {
	r := &rec{}
	sc := mhttp2.NewServerConn(&stubConn{r: r})
	p := phttp2.ServerProto(sc)
	ctx := framegen.Ctx()
	c := &h2conn{buf: buffer.NewIoBuffer(64)}
	c.decode = func(b buffer.IoBuffer) (interface{}, error) { return p.Decode(ctx, b) }
	return c
}

// feed = one read event followed by the loop of pkg/stream/http2 serverStreamConnection.Dispatch:
// Decode until ErrAGAIN; an error stops the connection.
func (c *h2conn) feed(chunk []byte) {
	if c.failed {
		return
	}
	c.buf.Write(chunk)
	for {
		before := append([]byte(nil), c.buf.Bytes()...)
		var err error
		if _, p := hx.Safe(func() { _, err = c.decode(c.buf) }); p {
			c.failed = true
			return
		}
		drained := len(before) - c.buf.Len()
		off := 0
		if !c.preface && drained >= len(mhttp2.ClientPreface) { // ReadPreface drains inside Decode, frame or not
			c.preface = true
			c.items = append(c.items, before[:len(mhttp2.ClientPreface)])
			off = len(mhttp2.ClientPreface)
		}
		if err == mhttp2.ErrAGAIN {
			return
		}
		if err != nil {
			c.failed = true
			return
		}
		c.items = append(c.items, before[off:drained])
		if drained == 0 {
			c.failed = true // a frame that drains nothing would loop forever
			return
		}
	}
}

func h2Cases(c *hx.Ctx) {
	for i := 0; i < c.N(60, 250); i++ {
		s, lens := h2Stream(c.Rng, 600)
		if c.Rng.Chance(30) && len(s) > 30 { // incomplete last item
			cut := 1 + c.Rng.Intn(lens[len(lens)-1]-1)
			s = s[:len(s)-cut]
			lens = lens[:len(lens)-1]
		}
		// every two-read delivery
		var obs []string
		for k := 1; k < len(s); k++ {
			cn := newH2()
			a := 0
			if guard(func() {
				cn.feed(s[:k])
				a = len(cn.items)
				cn.feed(s[k:])
			}) {
				obs = append(obs, "0:0:00000000:1")
				bail(c, fmt.Sprintf("h2cuts %s %s", hx.Hex(s), ints(lens)), strings.Join(obs, ","))
			}
			obs = append(obs, fmt.Sprintf("%d:%d:%s:%s", a, len(cn.items), digest(cn.items, cn.buf.Bytes()), flag(cn.failed)))
		}
		c.Emit("C07", fmt.Sprintf("h2cuts %s %s", hx.Hex(s), ints(lens)), strings.Join(obs, ","))
		c.Count("h2.cuts.streams")
		seg := func(chunks []int, how string) {
			cn := newH2()
			off := 0
			if guard(func() {
				for _, n := range chunks {
					cn.feed(s[off : off+n])
					off += n
				}
			}) {
				bail(c, fmt.Sprintf("h2seg %s %s %s", hx.Hex(s), ints(lens), ints(chunks)), "- - 1")
			}
			c.Emit("C07", fmt.Sprintf("h2seg %s %s %s", hx.Hex(s), ints(lens), ints(chunks)),
				fmt.Sprintf("%s %s %s", hexList(cn.items), hx.Hex(cn.buf.Bytes()), flag(cn.failed)))
			c.Count("h2.seg." + how)
		}
		seg([]int{len(s)}, "whole")
		ones := make([]int, len(s))
		for j := range ones {
			ones[j] = 1
		}
		seg(ones, "one-byte")
		for j := 0; j < 3; j++ {
			seg(randChunks(c.Rng, len(s), 1+c.Rng.Intn(30)), "random")
		}
		c.Count(fmt.Sprintf("h2.items-per-stream=%d", len(lens)))
	}
}
