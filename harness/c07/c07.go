//go:build verif

// Package c07: segmentation independence. Drives the real server-side streamConn.Dispatch (pkg/stream/xprotocol)
// of every xprotocol on streams of valid frames delivered in many segmentations, and the real protocol matchers /
// SelectStreamFactoryProtocol on every prefix.
package c07

import (
	"context"
	"encoding/binary"
	"fmt"
	"hash/fnv"
	"net"
	"os"
	"strconv"
	"strings"
	"time"

	"mosn.io/api"
	"mosn.io/mosn/pkg/log"
	"mosn.io/mosn/pkg/protocol"
	"mosn.io/mosn/pkg/stream"
	shttp "mosn.io/mosn/pkg/stream/http"
	shttp2 "mosn.io/mosn/pkg/stream/http2"
	xstream "mosn.io/mosn/pkg/stream/xprotocol"
	"mosn.io/mosn/pkg/types"
	"mosn.io/pkg/buffer"
	"verif/harness/framegen"
	"verif/harness/hx"
)

func init() { hx.Register("C07", Run) }

// ---- recording wrappers around the real codec / connection / stream listener

type rec struct {
	frames    [][]byte // raw bytes reported for each frame Decode returned inside Dispatch
	drained   []int
	errs      int
	delivered int // NewStreamDetect calls
	writes    int // netConn.Write calls (heartbeat acks)
	closed    bool
	stuck     bool
}

type wrapCodec struct {
	api.XProtocolCodec
	r *rec
}

func (w *wrapCodec) NewXProtocol(ctx context.Context) api.XProtocol {
	return &wrapProto{XProtocol: w.XProtocolCodec.NewXProtocol(ctx), r: w.r}
}

type wrapProto struct {
	api.XProtocol
	r *rec
}

func (p *wrapProto) Decode(ctx context.Context, data api.IoBuffer) (interface{}, error) {
	before := data.Len()
	f, err := p.XProtocol.Decode(ctx, data)
	if err != nil {
		p.r.errs++
	} else if f != nil {
		p.r.frames = append(p.r.frames, framegen.RawOf(ctx, f))
		p.r.drained = append(p.r.drained, before-data.Len())
		if before == data.Len() {
			// a frame that drained nothing: Dispatch would decode it again forever. Stop here and report a failure.
			p.r.stuck = true
			panic("verif: frame produced without draining")
		}
	}
	return f, err
}

type stubConn struct {
	api.Connection
	r *rec
}

func (c *stubConn) ID() uint64                           { return 7 }
func (c *stubConn) LocalAddr() net.Addr                  { return &net.TCPAddr{} }
func (c *stubConn) RemoteAddr() net.Addr                 { return &net.TCPAddr{} }
func (c *stubConn) SetTransferEventListener(func() bool) {}
func (c *stubConn) Write(buf ...buffer.IoBuffer) error   { c.r.writes++; return nil }
func (c *stubConn) Close(api.ConnectionCloseType, api.ConnectionEvent) error {
	c.r.closed = true
	return nil
}
func (c *stubConn) State() api.ConnState                                   { return api.ConnActive }
func (c *stubConn) AddConnectionEventListener(api.ConnectionEventListener) {}

type listener struct{ r *rec }

func (l *listener) NewStreamDetect(ctx context.Context, sender types.StreamSender, span api.Span) types.StreamReceiveListener {
	l.r.delivered++
	return &receiver{}
}

func (l *listener) OnGoAway() {}

type receiver struct{}

func (receiver) OnReceive(ctx context.Context, headers types.HeaderMap, data types.IoBuffer, trailers types.HeaderMap) {
}
func (receiver) OnDecodeError(ctx context.Context, err error, headers types.HeaderMap) {}

// guard runs f with a deadline: the code under test may loop forever (and allocate without bound) on a defect.
func guard(f func()) (hang bool) {
	done := make(chan struct{})
	go func() {
		defer close(done)
		f()
	}()
	select {
	case <-done:
		return false
	case <-time.After(15 * time.Second):
		return true
	}
}

// bail emits the case that hung (as a failed connection) and leaves the process: the spinning goroutine cannot be stopped.
func bail(c *hx.Ctx, caseToks, impl string) {
	c.Emit("C07", caseToks, impl)
	c.Count("HANG")
	c.FlushNow()
	os.Exit(0)
}

// conn is one real server stream connection with its read buffer.
type conn struct {
	r   *rec
	sc  types.ServerStreamConnection
	buf buffer.IoBuffer
}

func newConn(proto string) *conn {
	r := &rec{}
	f := xstream.NewStreamFactory(&wrapCodec{XProtocolCodec: framegen.Codec(proto), r: r})
	sc := f.CreateServerStream(framegen.Ctx(), &stubConn{r: r}, &listener{r: r})
	return &conn{r: r, sc: sc, buf: buffer.NewIoBuffer(64)}
}

// feed = one read event: the bytes are appended to the connection read buffer, then Dispatch runs (as
// network/connection.go doRead -> onRead -> proxy.OnData does). After an error the connection is closed: no more reads.
func (c *conn) feed(chunk []byte) {
	if c.r.errs > 0 {
		return
	}
	c.buf.Write(chunk)
	if _, p := hx.Safe(func() { c.sc.Dispatch(c.buf) }); p {
		c.r.errs++ // a panic in Dispatch is recovered by the read loop, which closes the connection
	}
}

func hexList(l [][]byte) string {
	if len(l) == 0 {
		return "-"
	}
	var p []string
	for _, b := range l {
		p = append(p, hx.Hex(b))
	}
	return strings.Join(p, ",")
}

func ints(l []int) string {
	if len(l) == 0 {
		return "-"
	}
	var p []string
	for _, v := range l {
		p = append(p, strconv.Itoa(v))
	}
	return strings.Join(p, ",")
}

func flag(b bool) string {
	if b {
		return "1"
	}
	return "0"
}

func digest(frames [][]byte, residue []byte) string {
	h := fnv.New32a()
	w := func(b []byte) {
		var l [4]byte
		binary.BigEndian.PutUint32(l[:], uint32(len(b)))
		h.Write(l[:])
		h.Write(b)
	}
	for _, f := range frames {
		w(f)
	}
	w(residue)
	return fmt.Sprintf("%08x", h.Sum32())
}

type streamCase struct {
	proto  string
	stream []byte
	lens   []int
}

func (s *streamCase) seg(c *hx.Ctx, chunks []int, how string) {
	cn := newConn(s.proto)
	off := 0
	if guard(func() {
		for _, n := range chunks {
			cn.feed(s.stream[off : off+n])
			off += n
		}
	}) {
		bail(c, fmt.Sprintf("seg %s %s %s %s", s.proto, hx.Hex(s.stream), ints(s.lens), ints(chunks)), "- - 1")
	}
	if off != len(s.stream) {
		panic("chunks do not cover the stream")
	}
	// the frame bytes reported by the decoder; a drained count different from the frame's length is reported by
	// substituting a marker so that it can never equal the model's frame
	frames := cn.r.frames
	for i := range frames {
		if cn.r.drained[i] != len(frames[i]) {
			frames[i] = append([]byte{0xde, 0xad}, frames[i]...)
		}
	}
	c.Emit("C07", fmt.Sprintf("seg %s %s %s %s", s.proto, hx.Hex(s.stream), ints(s.lens), ints(chunks)),
		fmt.Sprintf("%s %s %s", hexList(frames), hx.Hex(cn.buf.Bytes()), flag(cn.r.errs > 0)))
	c.Count("seg." + how)
}

func (s *streamCase) cuts(c *hx.Ctx) {
	var obs []string
	for k := 1; k < len(s.stream); k++ {
		cn := newConn(s.proto)
		a := 0
		if guard(func() {
			cn.feed(s.stream[:k])
			a = len(cn.r.frames)
			cn.feed(s.stream[k:])
		}) {
			obs = append(obs, "0:0:00000000:1")
			bail(c, fmt.Sprintf("cuts %s %s %s", s.proto, hx.Hex(s.stream), ints(s.lens)), strings.Join(obs, ","))
		}
		obs = append(obs, fmt.Sprintf("%d:%d:%s:%s", a, len(cn.r.frames), digest(cn.r.frames, cn.buf.Bytes()), flag(cn.r.errs > 0)))
	}
	o := "-"
	if len(obs) > 0 {
		o = strings.Join(obs, ",")
	}
	c.Emit("C07", fmt.Sprintf("cuts %s %s %s", s.proto, hx.Hex(s.stream), ints(s.lens)), o)
	c.Count("cuts.streams")
	c.Count(fmt.Sprintf("cuts.offsets=%d00+", len(s.stream)/100))
}

func randChunks(r *hx.Rng, n int, mean int) []int {
	var out []int
	for n > 0 {
		k := 1 + r.Intn(2*mean)
		if r.Chance(5) {
			k = 0
		}
		if k > n {
			k = n
		}
		out = append(out, k)
		n -= k
	}
	return out
}

// build a stream of 1-6 valid frames of one protocol (+ optionally a truncated further frame)
func buildStream(c *hx.Ctx, proto string, small bool, maxLen int) *streamCase {
	for try := 0; try < 50; try++ {
		n := 1 + c.Rng.Intn(6)
		s := &streamCase{proto: proto}
		for i := 0; i < n; i++ {
			f := framegen.Gen(c.Rng, proto, small)
			// frames are valid by construction (built from the wire layout, TarsGo's own writer, hessian2's encoder);
			// they are NOT filtered through the decoder under test, with one exception: tars packages of 256 bytes
			// and more, which the pinned tars decoder refuses (DESIGN.md section 6 row 1, property C01).
			if f.Proto == "tars" && len(f.Bytes) >= 256 && !framegen.Valid(f) {
				c.Count("gen.tars>=256-refused(C01 row 1)")
				continue
			}
			if len(s.stream)+len(f.Bytes) > maxLen {
				continue
			}
			s.stream = append(s.stream, f.Bytes...)
			s.lens = append(s.lens, len(f.Bytes))
			c.Count("gen.frame." + proto + "." + f.Kind)
		}
		if len(s.lens) == 0 {
			continue
		}
		if c.Rng.Chance(35) { // incomplete tail: a proper prefix of a further valid frame
			f := framegen.Gen(c.Rng, proto, small)
			if len(f.Bytes) > 1 {
				k := 1 + c.Rng.Intn(len(f.Bytes)-1)
				if len(s.stream)+k <= maxLen {
					s.stream = append(s.stream, f.Bytes[:k]...)
					c.Count("gen.tail")
				}
			}
		}
		c.Count(fmt.Sprintf("gen.frames-per-stream=%d", len(s.lens)))
		return s
	}
	return nil
}

// ---- matchers

type matcher struct {
	name string
	f    func([]byte) string
}

func mr(r api.MatchResult) string {
	switch r {
	case api.MatchSuccess:
		return "S"
	case api.MatchAgain:
		return "A"
	}
	return "F"
}

func me(err error) string {
	switch err {
	case nil:
		return "S"
	case stream.EAGAIN:
		return "A"
	}
	return "F"
}

func matchers() []matcher {
	var ms []matcher
	for _, p := range framegen.Protos {
		m := framegen.Codec(p).ProtocolMatch()
		ms = append(ms, matcher{p, func(b []byte) string { return mr(m(b)) }})
	}
	h1 := &shttp.StreamConnFactory{}
	h2 := &shttp2.StreamConnFactory{}
	ms = append(ms, matcher{"http1", func(b []byte) string { return me(h1.ProtocolMatch(context.Background(), "", b)) }})
	ms = append(ms, matcher{"http2", func(b []byte) string { return me(h2.ProtocolMatch(context.Background(), "", b)) }})
	return ms
}

func emitMatch(c *hx.Ctx, ms []matcher, s []byte, how string) {
	mp := len(s)
	if mp > 160 {
		mp = 160
	}
	var parts []string
	for _, m := range ms {
		var sb strings.Builder
		for k := 0; k <= mp; k++ {
			var r string
			if _, p := hx.Safe(func() { r = m.f(s[:k]) }); p {
				r = "P"
			}
			sb.WriteString(r)
		}
		parts = append(parts, m.name+"="+sb.String())
	}
	c.Emit("C07", fmt.Sprintf("match %s %d", hx.Hex(s), mp), strings.Join(parts, ","))
	c.Count("match." + how)
}

var scopeNames = map[string]api.ProtocolName{"bolt": "bolt", "boltv2": "boltv2", "dubbo": "dubbo", "thrift": "dubbo-thrift",
	"tars": "tars", "http1": protocol.HTTP1, "http2": protocol.HTTP2}

func emitSelect(c *hx.Ctx, scope []string, s []byte, how string) {
	mp := len(s)
	if mp > 160 {
		mp = 160
	}
	var sc []api.ProtocolName
	for _, n := range scope {
		sc = append(sc, scopeNames[n])
	}
	var out []string
	for k := 0; k <= mp; k++ {
		p, err := stream.SelectStreamFactoryProtocol(context.Background(), "", s[:k], sc)
		switch {
		case err == stream.EAGAIN:
			out = append(out, "A")
		case err != nil:
			out = append(out, "F")
		default:
			idx := -1
			for i, n := range sc {
				if n == p {
					idx = i
				}
			}
			out = append(out, strconv.Itoa(idx))
		}
	}
	c.Emit("C07", fmt.Sprintf("select %s %s %d", strings.Join(scope, ","), hx.Hex(s), mp), strings.Join(out, ","))
	c.Count("select." + how)
}

func Run(c *hx.Ctx) {
	// hx seeds are affine in VERIF_SEED (seed k+1 replays seed k shifted by one draw): decorrelate them here
	c.Rng = c.Rng.Fork()
	log.DefaultLogger.SetLogLevel(log.FATAL)
	log.Proxy.SetLogLevel(log.FATAL)
	if os.Getenv("VERIF_C07_ONLY") == "h1seg" { // development aid: only the HTTP/1 kind
		h1segCases(c)
		return
	}
	if os.Getenv("VERIF_C07_ONLY") == "boltmix" { // development aid: only the mixed bolt v1 / v2 streams
		boltmixCases(c)
		return
	}
	if os.Getenv("VERIF_C07_ONLY") == "h1cont" { // development aid: only the Expect: 100-continue cases of kind h1seg
		h1contCases(c)
		return
	}
	ms := matchers()
	nSmall := c.N(70, 260) // streams <= 600 bytes per protocol: every cut offset + several segmentations
	nBig := c.N(8, 40)     // larger streams per protocol (frames up to 70000 bytes): random segmentations
	for _, proto := range framegen.Protos {
		for i := 0; i < nSmall; i++ {
			s := buildStream(c, proto, true, 600)
			if s == nil {
				continue
			}
			s.cuts(c)
			s.seg(c, []int{len(s.stream)}, "whole")
			ones := make([]int, len(s.stream))
			for j := range ones {
				ones[j] = 1
			}
			s.seg(c, ones, "one-byte")
			// frame-aligned reads
			al := append([]int(nil), s.lens...)
			sum := 0
			for _, l := range al {
				sum += l
			}
			if sum < len(s.stream) {
				al = append(al, len(s.stream)-sum)
			}
			s.seg(c, al, "frame-aligned")
			for j := 0; j < c.N(3, 6); j++ {
				s.seg(c, randChunks(c.Rng, len(s.stream), 1+c.Rng.Intn(40)), "random")
			}
			if i%3 == 0 {
				emitMatch(c, ms, s.stream, "valid-"+proto)
			}
		}
		for i := 0; i < nBig; i++ {
			s := buildStream(c, proto, false, 1<<20)
			if s == nil {
				continue
			}
			s.seg(c, []int{len(s.stream)}, "big-whole")
			for j := 0; j < 3; j++ {
				s.seg(c, randChunks(c.Rng, len(s.stream), 200+c.Rng.Intn(3000)), "big-random")
			}
		}
	}
	// HTTP/2: preface + frames through the real server-side codec
	h2Cases(c)
	// matchers on HTTP-ish and random prefixes
	texts := []string{"GET / HTTP/1.1\r\nHost: a\r\n\r\n", "POST /x HTTP/1.1\r\n", "CONNECT a:1 HTTP/1.1\r\n", "OPTIONS * HTTP/1.1\r\n",
		"PRI * HTTP/2.0\r\n\r\nSM\r\n\r\n\x00\x00\x00\x04\x00\x00\x00\x00\x00", "PRI * HTTP/2.0\r\n\r\nSX\r\n\r\n", "PATCH /a", "UNLINK /", "LINK /", "GE", "GEX /",
		"DELETE /", "TRACE /", "HEAD /", "PUT /", "PUX /abcdef", "CONNEC", "CONNECX", "\x01", "\x02", "\xda\xbb", "\x00\x00\x00\x06\x10\x01"}
	for _, t := range texts {
		emitMatch(c, ms, []byte(t), "text")
	}
	for i := 0; i < c.N(150, 1500); i++ {
		b := c.Rng.Bytes(1 + c.Rng.Intn(40))
		if c.Rng.Chance(50) { // steer towards the interesting first bytes
			copy(b, []byte(c.Rng.PickS([]string{"\x01", "\x02", "\xda\xbb", "\x00\x00\x00\x10\xda\xbc", "\x00\x00\x00\x08\x10\x01", "\x00\x00\x00\x08\x10\x03", "GET", "PRI * HT", "POS"})))
		}
		emitMatch(c, ms, b, "random")
	}
	// automatic protocol selection over ordered scopes, on streams of valid frames with standard fixed fields
	all := []string{"bolt", "boltv2", "dubbo", "thrift", "tars", "http1", "http2"}
	for i := 0; i < c.N(60, 500); i++ {
		proto := framegen.Protos[c.Rng.Intn(len(framegen.Protos))]
		s := buildStream(c, proto, true, 600)
		if s == nil {
			continue
		}
		scope := append([]string(nil), all...)
		for j := len(scope) - 1; j > 0; j-- {
			k := c.Rng.Intn(j + 1)
			scope[j], scope[k] = scope[k], scope[j]
		}
		scope = scope[:2+c.Rng.Intn(len(scope)-1)]
		emitSelect(c, scope, s.stream, "valid-"+proto)
	}
	for _, t := range texts {
		emitSelect(c, all, []byte(t), "text")
	}
	// known ambiguity (KNOWN_FINDINGS.txt): a bolt/boltv2 frame that the decoders accept but whose bytes [4:6] equal the
	// dubbothrift magic (bolt: ver2 = 0xda, request id 0xbc……; boltv2: cmd code 0x..da, ver2 = 0xbc)
	for i := 0; i < 4; i++ {
		f := framegen.Bolt(c.Rng, i%2 == 1, true)
		f.Bytes[4], f.Bytes[5] = 0xda, 0xbc
		if o := framegen.DecodeOnce(f.Proto, f.Bytes); o.Class != "frame" {
			continue
		}
		emitSelect(c, []string{"thrift", f.Proto}, f.Bytes, "ambiguous-thrift-first")
		emitSelect(c, []string{f.Proto, "thrift"}, f.Bytes, "ambiguous-bolt-first")
	}
	// the connection read loop below Dispatch: real connection on loopback TCP, scripted peer (rl.go)
	rlCases(c)
	// several frames per read through the real Dispatch with a receiver that keeps what it is handed (ctx.go)
	ctxCases(c)
	// decoded content of every frame vs the same frame decoded alone (pkt.go)
	pktCases(c)
	// HTTP/2: what the stream layer delivers does not alias the read buffer (h2own.go)
	h2ownCases(c)
	// HTTP/1: pipelined messages through the real stream connections of pkg/stream/http (h1seg.go)
	h1segCases(c)
	// HTTP/1 `Expect: 100-continue`: the two-phase read of the server serve loop (h1cont.go; kind h1seg, side exp)
	h1contCases(c)
	// xprotocol: bolt v1 frames of every length class on a boltv2 connection and vice versa (boltmix.go; kinds seg / cuts)
	boltmixCases(c)
}
