//go:build verif

package c07

import (
	"verif/harness/dctx"
	"verif/harness/hx"
)

// ctxCases: kind `ctx` — nothing of a frame is attributed to a neighbouring frame of the same read (harness/dctx).
func ctxCases(c *hx.Ctx) { dctx.Cases(c, "C07") }
