//go:build verif

package c07

// kind `pkt`: the decoded CONTENT of every message is a function of its own frame.
//
// Streams of 2-5 frames of one xprotocol are fed through the real server-side streamConn.Dispatch with the real codec
// in many chunkings — all frames in one read, frame per read, two per read, EVERY two-read cut inside the second frame
// (the first read then ends with a neighbour cut at every offset, also inside a head), random reads, one byte per read
// — and the content of every frame Decode returns is compared with the content of the same frame decoded ALONE on a
// fresh connection (nothing buffered behind it).
//
// tars frames are NOT built with TarsGo's writer (which always writes every field) but by a field-level tars writer
// (pktTW) the way C++/Java tars writers do: integers in their smallest encoding (ZERO_TAG/BYTE/SHORT/INT), fields in
// tag order, every OPTIONAL field (ResponsePacket tag 8 sResultDesc, tag 9 context) present or absent independently,
// unknown extra tags (one- and two-byte heads) behind the last known one. The content of a tars frame is what the
// decoded packet holds (re-encoded by the real Encode = TarsGo WriteTo of the decoded struct, read back field by field,
// maps sorted); of the other protocols: stream type, request id, heartbeat flag, status, sorted headers, body.
//
// Case line:  pkt <proto> <stream hex> <len:tok,...> <chunk lengths>  =>  <tok,...> <residue length> <failed>

import (
	"context"
	"encoding/binary"
	"fmt"
	"hash/fnv"
	"sort"
	"strconv"
	"strings"

	"github.com/TarsCloud/TarsGo/tars/protocol/codec"
	"github.com/TarsCloud/TarsGo/tars/protocol/res/requestf"
	"mosn.io/api"
	xstream "mosn.io/mosn/pkg/stream/xprotocol"
	"mosn.io/mosn/pkg/types"
	"mosn.io/pkg/buffer"
	"verif/harness/framegen"
	"verif/harness/hx"
)

// ---- field-level tars writer

type pktTW struct{ b []byte }

func (w *pktTW) head(ty, tag byte) {
	if tag < 15 {
		w.b = append(w.b, tag<<4|ty)
	} else {
		w.b = append(w.b, 15<<4|ty, tag)
	}
}

func (w *pktTW) int(tag byte, v int64) {
	switch {
	case v == 0:
		w.head(12, tag)
	case v >= -128 && v <= 127:
		w.head(0, tag)
		w.b = append(w.b, byte(v))
	case v >= -32768 && v <= 32767:
		w.head(1, tag)
		w.b = append(w.b, byte(uint16(v)>>8), byte(v))
	default:
		w.head(2, tag)
		var x [4]byte
		binary.BigEndian.PutUint32(x[:], uint32(int32(v)))
		w.b = append(w.b, x[:]...)
	}
}

func (w *pktTW) str(tag byte, s string) {
	if len(s) <= 255 {
		w.head(6, tag)
		w.b = append(w.b, byte(len(s)))
	} else {
		w.head(7, tag)
		var x [4]byte
		binary.BigEndian.PutUint32(x[:], uint32(len(s)))
		w.b = append(w.b, x[:]...)
	}
	w.b = append(w.b, s...)
}

func (w *pktTW) bytes(tag byte, p []byte) {
	w.head(13, tag)
	w.head(0, 0)
	w.int(0, int64(len(p)))
	w.b = append(w.b, p...)
}

func (w *pktTW) smap(tag byte, kv [][2]string) {
	w.head(8, tag)
	w.int(0, int64(len(kv)))
	for _, e := range kv {
		w.str(0, e[0])
		w.str(1, e[1])
	}
}

func (w *pktTW) frame() []byte {
	out := make([]byte, 4, 4+len(w.b))
	binary.BigEndian.PutUint32(out, uint32(4+len(w.b)))
	return append(out, w.b...)
}

func pktWord(r *hx.Rng, pre string) string {
	return pre + strconv.Itoa(r.Intn(1000)) + strings.Repeat("z", r.Pick([]int{0, 0, 1, 3, 9}))
}

func pktMap(r *hx.Rng, pre string) [][2]string {
	var kv [][2]string
	for i, n := 0, r.Intn(3); i < n; i++ {
		kv = append(kv, [2]string{pre + strconv.Itoa(i), pktWord(r, "v")})
	}
	return kv
}

// extra: unknown tags behind the last known field (what a newer peer may send)
func (w *pktTW) extra(c *hx.Ctx, first byte) {
	r := c.Rng
	if !r.Chance(25) {
		return
	}
	tag := first + byte(r.Intn(3))
	if r.Chance(30) {
		tag = byte(16 + r.Intn(40)) // two-byte head
	}
	switch r.Intn(3) {
	case 0:
		w.int(tag, int64(r.Pick([]int{0, 7, 300, 70000})))
	case 1:
		w.str(tag, pktWord(r, "x"))
	default:
		w.smap(tag, pktMap(r, "xk"))
	}
	c.Count("pkt.gen.tars.extra-tag")
}

// pktTars builds one tars package field by field.
func pktTars(c *hx.Ctx) []byte {
	r := c.Rng
	w := &pktTW{}
	body := r.Bytes(r.Pick([]int{0, 0, 1, 2, 5, 13, 40}))
	if r.Chance(45) {
		w.int(1, int64(r.Pick([]int{1, 1, 3})))
		w.int(2, int64(r.Intn(2)))
		w.int(3, int64(r.Pick([]int{0, 1, 2})))                       // iMessageType
		w.int(4, int64(r.Pick([]int{0, 5, 200, 40000, 1 << 20, -7}))) // iRequestId
		w.str(5, "App.Srv.Obj"+strconv.Itoa(r.Intn(50)))
		w.str(6, "fn"+strconv.Itoa(r.Intn(50)))
		w.bytes(7, body)
		w.int(8, int64(r.Pick([]int{0, 100, 3000, 70000})))
		w.smap(9, pktMap(r, "ck"))
		w.smap(10, pktMap(r, "sk"))
		w.extra(c, 11)
		c.Count("pkt.gen.tars.request")
		return w.frame()
	}
	w.int(1, int64(r.Pick([]int{1, 1, 3})))
	w.int(2, int64(r.Intn(2)))
	w.int(3, int64(r.Pick([]int{0, 5, 200, 40000, 1 << 20, -7}))) // iRequestId
	w.int(4, int64(r.Pick([]int{0, 1, 2})))
	w.int(5, int64(r.Pick([]int{0, 0, 5, -3, 300, 70000})))
	w.bytes(6, body)
	w.smap(7, pktMap(r, "sk"))
	t8, t9 := r.Chance(50), r.Chance(50)
	if t8 {
		w.str(8, pktWord(r, "desc"))
	}
	if t9 {
		w.smap(9, append(pktMap(r, "ck"), [2]string{"cid", pktWord(r, "")}))
	}
	w.extra(c, 10)
	c.Count(fmt.Sprintf("pkt.gen.tars.response.tag8=%v.tag9=%v", t8, t9))
	return w.frame()
}

// ---- content tokens

func pktSorted(m map[string]string) string {
	var kv []string
	for k, v := range m {
		kv = append(kv, strconv.Quote(k)+"="+strconv.Quote(v))
	}
	sort.Strings(kv)
	return strings.Join(kv, ";")
}

func pktHash(s string) string {
	h := fnv.New32a()
	h.Write([]byte(s))
	return strconv.FormatUint(uint64(h.Sum32()), 10)
}

// pktContent renders what the decoded frame object holds.
func pktContent(proto string, xp api.XProtocol, ctx context.Context, f interface{}) string {
	xf, ok := f.(api.XFrame)
	if !ok {
		return "not-a-frame"
	}
	if proto == "tars" {
		enc, err := xp.Encode(ctx, f)
		if err != nil || enc == nil || enc.Len() < 4 {
			return "encode-failed"
		}
		b := append([]byte(nil), enc.Bytes()[4:]...)
		if xf.GetStreamType() == api.Response {
			p := &requestf.ResponsePacket{}
			if err := p.ReadFrom(codec.NewReader(b)); err != nil {
				return "reread-failed"
			}
			return fmt.Sprintf("R|%d|%d|%d|%d|%d|%x|%s|%q|%s", p.IVersion, p.CPacketType, p.IRequestId, p.IMessageType, p.IRet,
				codec.FromInt8(p.SBuffer), pktSorted(p.Status), p.SResultDesc, pktSorted(p.Context))
		}
		p := &requestf.RequestPacket{}
		if err := p.ReadFrom(codec.NewReader(b)); err != nil {
			return "reread-failed"
		}
		return fmt.Sprintf("Q|%d|%d|%d|%d|%q|%q|%x|%d|%s|%s", p.IVersion, p.CPacketType, p.IMessageType, p.IRequestId, p.SServantName,
			p.SFuncName, codec.FromInt8(p.SBuffer), p.ITimeout, pktSorted(p.Context), pktSorted(p.Status))
	}
	var kv []string
	xf.GetHeader().Range(func(k, v string) bool {
		kv = append(kv, strconv.Quote(k)+"="+strconv.Quote(v))
		return true
	})
	sort.Strings(kv)
	st := uint32(0)
	if rf, ok := f.(api.XRespFrame); ok {
		st = rf.GetStatusCode()
	}
	var body []byte
	if d := xf.GetData(); d != nil {
		body = d.Bytes()
	}
	return fmt.Sprintf("%v|%d|%v|%d|%s|%x", xf.GetStreamType(), xf.GetRequestId(), xf.IsHeartbeatFrame(), st, strings.Join(kv, ";"), body)
}

type pktRec struct {
	rec
	toks []string
}

type pktCodec struct {
	api.XProtocolCodec
	proto string
	r     *pktRec
}

func (w *pktCodec) NewXProtocol(ctx context.Context) api.XProtocol {
	return &pktProto{XProtocol: w.XProtocolCodec.NewXProtocol(ctx), proto: w.proto, r: w.r}
}

type pktProto struct {
	api.XProtocol
	proto string
	r     *pktRec
}

func (p *pktProto) Decode(ctx context.Context, data api.IoBuffer) (interface{}, error) {
	before := data.Len()
	f, err := p.XProtocol.Decode(ctx, data)
	if err != nil {
		p.r.errs++
	} else if f != nil {
		if before == data.Len() {
			p.r.stuck = true
			panic("verif: frame produced without draining")
		}
		p.r.toks = append(p.r.toks, pktHash(pktContent(p.proto, p.XProtocol, ctx, f)))
	}
	return f, err
}

type pktConn struct {
	r   *pktRec
	sc  types.ServerStreamConnection
	buf buffer.IoBuffer
}

func newPktConn(proto string) *pktConn {
	r := &pktRec{}
	f := xstream.NewStreamFactory(&pktCodec{XProtocolCodec: framegen.Codec(proto), proto: proto, r: r})
	sc := f.CreateServerStream(framegen.Ctx(), &stubConn{r: &r.rec}, &listener{r: &r.rec})
	return &pktConn{r: r, sc: sc, buf: buffer.NewIoBuffer(64)}
}

func (c *pktConn) feed(chunk []byte) {
	if c.r.errs > 0 || c.r.closed {
		return
	}
	c.buf.Write(chunk)
	if _, p := hx.Safe(func() { c.sc.Dispatch(c.buf) }); p {
		c.r.errs++
	}
}

// pktAlone: the content token of a frame decoded alone on a fresh connection ("" = not accepted in isolation)
func pktAlone(proto string, frame []byte) string {
	cn := newPktConn(proto)
	cn.feed(frame)
	if cn.r.errs > 0 || cn.r.closed || len(cn.r.toks) != 1 || cn.buf.Len() != 0 {
		return ""
	}
	return cn.r.toks[0]
}

type pktCase struct {
	proto  string
	stream []byte
	lens   []int
	toks   []string
}

func (s *pktCase) run(c *hx.Ctx, chunks []int, how string) {
	cn := newPktConn(s.proto)
	off := 0
	hang := guard(func() {
		for _, n := range chunks {
			cn.feed(s.stream[off : off+n])
			off += n
		}
	})
	var fr []string
	for i := range s.lens {
		fr = append(fr, fmt.Sprintf("%d:%s", s.lens[i], s.toks[i]))
	}
	line := fmt.Sprintf("pkt %s %s %s %s", s.proto, hx.Hex(s.stream), strings.Join(fr, ","), ints(chunks))
	if hang {
		bail(c, line, "- 0 1")
	}
	if off != len(s.stream) {
		panic("pkt: chunks do not cover the stream")
	}
	got := "-"
	if len(cn.r.toks) > 0 {
		got = strings.Join(cn.r.toks, ",")
	}
	c.Emit("C07", line, fmt.Sprintf("%s %d %s", got, cn.buf.Len(), flag(cn.r.errs > 0 || cn.r.closed)))
	c.Count("pkt." + how)
}

func pktGen(c *hx.Ctx, proto string) []byte {
	if proto == "tars" {
		return pktTars(c)
	}
	return framegen.Gen(c.Rng, proto, true).Bytes
}

func pktBuild(c *hx.Ctx, proto string) *pktCase {
	s := &pktCase{proto: proto}
	n := 2 + c.Rng.Intn(4)
	for tries := 0; len(s.lens) < n && tries < 40; tries++ {
		f := pktGen(c, proto)
		if len(s.stream)+len(f) > 700 {
			continue
		}
		t := pktAlone(proto, f)
		if t == "" {
			c.Count("pkt.gen.refused-in-isolation." + proto)
			continue
		}
		s.stream = append(s.stream, f...)
		s.lens = append(s.lens, len(f))
		s.toks = append(s.toks, t)
	}
	if len(s.lens) < 2 {
		return nil
	}
	if c.Rng.Chance(30) {
		f := pktGen(c, proto)
		if len(f) > 1 {
			s.stream = append(s.stream, f[:1+c.Rng.Intn(len(f)-1)]...)
			c.Count("pkt.gen.tail")
		}
	}
	c.Count(fmt.Sprintf("pkt.gen.%s.frames-per-stream=%d", proto, len(s.lens)))
	return s
}

func (s *pktCase) all(c *hx.Ctx) {
	total := len(s.stream)
	s.run(c, []int{total}, "one-read")
	var al, pairs []int
	sum := 0
	for i, l := range s.lens {
		al = append(al, l)
		sum += l
		if i%2 == 0 {
			pairs = append(pairs, l)
		} else {
			pairs[len(pairs)-1] += l
		}
	}
	if sum < total {
		al = append(al, total-sum)
		pairs = append(pairs, total-sum)
	}
	s.run(c, al, "frame-per-read")
	s.run(c, pairs, "two-per-read")
	// every cut inside the second frame: the first read ends with a neighbour cut at every offset
	for k := s.lens[0] + 1; k < s.lens[0]+s.lens[1] && k < total; k++ {
		s.run(c, []int{k, total - k}, "cut-in-second-frame")
	}
	// first frame + a few bytes of the neighbour, then byte by byte
	if s.lens[1] > 3 {
		ch := []int{s.lens[0] + 1, 1, 1}
		ch = append(ch, total-s.lens[0]-3)
		s.run(c, ch, "first+1,1,1,rest")
	}
	for j := 0; j < c.N(2, 4); j++ {
		s.run(c, randChunks(c.Rng, total, 1+c.Rng.Intn(60)), "random")
	}
	if total <= 250 {
		ones := make([]int, total)
		for i := range ones {
			ones[i] = 1
		}
		s.run(c, ones, "one-byte")
	}
}

func pktCases(c *hx.Ctx) {
	saved := c.Rng
	c.Rng = hx.NewRng(c.Seed*0x9E3779B97F4A7C15 + 0x70c7)
	defer func() { c.Rng = saved }()
	for _, proto := range framegen.Protos {
		n := c.N(8, 40)
		if proto == "tars" {
			n = c.N(40, 200)
		}
		for i := 0; i < n; i++ {
			if s := pktBuild(c, proto); s != nil {
				s.all(c)
			}
		}
	}
}
