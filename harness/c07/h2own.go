//go:build verif

package c07

// kind `h2own`: what the HTTP/2 stream layer DELIVERS must not alias the connection read buffer.
//
// The DATA payload MServerConn/MClientConn.HandleFrame return is a window of the connection read buffer
// (MFramer.ReadFrame slices data.Bytes()); handleFrame copies it into a buffer of its own before OnReceive, because the
// proxy's worker uses headers / body / trailers after Dispatch has returned while the IO goroutine reads on into the
// same memory. Here the REAL serverStreamConnection (requests) and the REAL clientStreamConnection (responses to
// requests issued through its NewStream/AppendHeaders) are fed streams written by MOSN's own Framer + HPACK encoder:
// messages without body (HEADERS END_STREAM), with a single DATA frame carrying END_STREAM, with several DATA frames,
// with an empty last DATA frame, with and without trailers, PING / WINDOW_UPDATE in between — in one read, frame per
// read, two-read cuts behind every frame and at seeded offsets, random reads, one byte per read. The receiver KEEPS the
// header map, body buffer and trailer map it is handed, reads them when handed, and reads them AGAIN only after ALL reads
// of the case were dispatched and the whole backing array of the read buffer was rewritten (0xEE), as the connection
// does when it reuses the buffer.
//
// Case line: h2own <req|resp> <stream hex> <id.htok.bodyhex.ttok,...> <chunk lengths> => <views when handed> <views at the end> <failed>

import (
	"bytes"
	"context"
	"fmt"
	"net"
	"net/http"
	"sort"
	"strconv"
	"strings"

	"mosn.io/api"
	mhttp2 "mosn.io/mosn/pkg/module/http2"
	"mosn.io/mosn/pkg/module/http2/hpack"
	phttp2 "mosn.io/mosn/pkg/protocol/http2"
	shttp2 "mosn.io/mosn/pkg/stream/http2"
	"mosn.io/mosn/pkg/types"
	"mosn.io/pkg/buffer"
	"verif/harness/framegen"
	"verif/harness/hx"
)

type ownConn struct {
	api.Connection
	closed bool
	wrote  int
}

func (c *ownConn) ID() uint64                                             { return 17 }
func (c *ownConn) LocalAddr() net.Addr                                    { return &net.TCPAddr{} }
func (c *ownConn) RemoteAddr() net.Addr                                   { return &net.TCPAddr{} }
func (c *ownConn) RawConn() net.Conn                                      { return nil }
func (c *ownConn) SetTransferEventListener(func() bool)                   {}
func (c *ownConn) AddConnectionEventListener(api.ConnectionEventListener) {}
func (c *ownConn) Connect() error                                         { return nil }
func (c *ownConn) SetMark(uint32)                                         {}
func (c *ownConn) State() api.ConnState {
	if c.closed {
		return api.ConnClosed
	}
	return api.ConnActive
}
func (c *ownConn) Close(api.ConnectionCloseType, api.ConnectionEvent) error {
	c.closed = true
	return nil
}
func (c *ownConn) Write(bufs ...buffer.IoBuffer) error {
	for _, b := range bufs {
		if b != nil {
			c.wrote += b.Len()
		}
	}
	return nil
}

// ownMsg: one message as the generator writes it.
type ownMsg struct {
	id       uint32
	hdr      [][2]string // custom headers (distinct lower-case names)
	path     string      // requests
	status   int         // responses
	body     [][]byte    // DATA frames (nil = no DATA frame at all: HEADERS carries END_STREAM)
	trailers [][2]string
}

func ownPairs(kv [][2]string) string {
	var p []string
	for _, e := range kv {
		p = append(p, e[0]+"="+e[1])
	}
	sort.Strings(p)
	return strings.Join(p, "&")
}

func (m *ownMsg) tok(dir string) string {
	first := m.path
	if dir == "resp" {
		first = strconv.Itoa(m.status)
	}
	var body []byte
	for _, b := range m.body {
		body = append(body, b...)
	}
	t := "-"
	if len(m.trailers) > 0 {
		t = pktHash(ownPairs(m.trailers))
	}
	return fmt.Sprintf("%d.%s.%s.%s", m.id, pktHash(first+"|"+ownPairs(m.hdr)), hx.Hex(body), t)
}

// ownKept: what the receiver keeps.
type ownKept struct {
	id       uint64
	headers  api.HeaderMap
	data     buffer.IoBuffer
	trailers api.HeaderMap
	got      bool
	handed   string
	dir      string
}

func ownCustom(h api.HeaderMap) [][2]string {
	var kv [][2]string
	if h == nil {
		return nil
	}
	h.Range(func(k, v string) bool {
		lk := strings.ToLower(k)
		if strings.HasPrefix(lk, "x-") {
			kv = append(kv, [2]string{lk, v})
		}
		return true
	})
	return kv
}

func (k *ownKept) view() (v string) {
	v = fmt.Sprintf("%d.panic.-.-", k.id)
	hx.Safe(func() {
		first := ""
		switch h := k.headers.(type) {
		case *phttp2.ReqHeader:
			first, _ = h.Get(":path")
		case *phttp2.RspHeader:
			first = strconv.Itoa(h.Rsp.StatusCode)
		}
		var body []byte
		if k.data != nil {
			body = k.data.Bytes()
		}
		t := "-"
		if tr := ownCustom(k.trailers); len(tr) > 0 {
			t = pktHash(ownPairs(tr))
		}
		v = fmt.Sprintf("%d.%s.%s.%s", k.id, pktHash(first+"|"+ownPairs(ownCustom(k.headers))), hx.Hex(body), t)
	})
	return v
}

func (k *ownKept) OnReceive(ctx context.Context, headers api.HeaderMap, data buffer.IoBuffer, trailers api.HeaderMap) {
	k.headers, k.data, k.trailers, k.got = headers, data, trailers, true
	k.handed = k.view()
}
func (k *ownKept) OnDecodeError(ctx context.Context, err error, headers api.HeaderMap) {}

type ownListener struct{ kept []*ownKept }

func (l *ownListener) OnGoAway() {}
func (l *ownListener) NewStreamDetect(ctx context.Context, sender types.StreamSender, span api.Span) types.StreamReceiveListener {
	k := &ownKept{id: sender.GetStream().ID(), dir: "req"}
	l.kept = append(l.kept, k)
	return k
}

// ownWrite renders the messages into wire bytes (one entry of lens per frame / preface).
func ownWrite(r *hx.Rng, dir string, msgs []*ownMsg) (stream []byte, lens []int) {
	var out, w, hb bytes.Buffer
	fr := mhttp2.NewFramer(&w, nil)
	enc := hpack.NewEncoder(&hb)
	flush := func() {
		if w.Len() > 0 {
			lens = append(lens, w.Len())
			out.Write(w.Bytes())
			w.Reset()
		}
	}
	if dir == "req" {
		out.WriteString(mhttp2.ClientPreface)
		lens = append(lens, len(mhttp2.ClientPreface))
	}
	fr.WriteSettings(mhttp2.Setting{ID: mhttp2.SettingInitialWindowSize, Val: 65535})
	flush()
	noise := func() {
		if r.Chance(20) {
			if r.Bool() {
				var d [8]byte
				copy(d[:], r.Bytes(8))
				fr.WritePing(false, d)
			} else {
				fr.WriteWindowUpdate(0, uint32(1+r.Intn(1000)))
			}
			flush()
		}
	}
	block := func(kv [][2]string) []byte {
		hb.Reset()
		for _, e := range kv {
			enc.WriteField(hpack.HeaderField{Name: e[0], Value: e[1]})
		}
		return append([]byte(nil), hb.Bytes()...)
	}
	for _, m := range msgs {
		var kv [][2]string
		if dir == "req" {
			method := "POST"
			if m.body == nil {
				method = "GET"
			}
			kv = [][2]string{{":method", method}, {":scheme", "http"}, {":authority", "own.test"}, {":path", m.path}}
		} else {
			kv = [][2]string{{":status", strconv.Itoa(m.status)}}
		}
		kv = append(kv, m.hdr...)
		if len(m.trailers) > 0 { // net/http semantics: only announced trailers reach the request
			kv = append(kv, [2]string{"trailer", m.trailers[0][0]})
		}
		fr.WriteHeaders(mhttp2.HeadersFrameParam{StreamID: m.id, BlockFragment: block(kv), EndStream: m.body == nil, EndHeaders: true})
		flush()
		noise()
		for i, b := range m.body {
			fr.WriteData(m.id, i == len(m.body)-1 && len(m.trailers) == 0, b)
			flush()
			noise()
		}
		if m.body != nil && len(m.trailers) > 0 {
			fr.WriteHeaders(mhttp2.HeadersFrameParam{StreamID: m.id, BlockFragment: block(m.trailers), EndStream: true, EndHeaders: true})
			flush()
			noise()
		}
	}
	return out.Bytes(), lens
}

func ownGen(c *hx.Ctx, dir string) []*ownMsg {
	r := c.Rng
	var msgs []*ownMsg
	n := 2 + r.Intn(4)
	for i := 0; i < n; i++ {
		m := &ownMsg{id: uint32(1 + 2*i), path: fmt.Sprintf("/own/%d/%s", i, strings.Repeat("p", r.Intn(12))), status: r.Pick([]int{200, 200, 404, 503})}
		for j, k := 0, r.Intn(4); j < k; j++ {
			m.hdr = append(m.hdr, [2]string{fmt.Sprintf("x-k%d", j), fmt.Sprintf("m%d-%s", i, strings.Repeat("v", r.Intn(30)))})
		}
		chunk := func(sz int) []byte { // body bytes tell the message and the position
			b := make([]byte, sz)
			for p := range b {
				b[p] = byte(0x10*(i+1) + p%16)
			}
			return b
		}
		shape := r.PickS([]string{"none", "single", "single", "single", "multi", "multi", "multi-empty-last"})
		switch shape {
		case "single":
			m.body = [][]byte{chunk(1 + r.Intn(80))}
		case "multi", "multi-empty-last":
			for j, k := 0, 2+r.Intn(3); j < k; j++ {
				m.body = append(m.body, chunk(1+r.Intn(50)))
			}
			if shape == "multi-empty-last" {
				m.body = append(m.body, []byte{})
			}
		}
		if m.body != nil && r.Chance(35) {
			m.trailers = [][2]string{{"x-t0", fmt.Sprintf("t%d-%s", i, strings.Repeat("w", r.Intn(10)))}}
			shape += "+trailers"
		}
		c.Count("h2own.gen." + dir + "." + shape)
		msgs = append(msgs, m)
	}
	return msgs
}

// ownRun feeds one chunking through a fresh real stream connection.
func ownRun(c *hx.Ctx, dir string, msgs []*ownMsg, stream []byte, chunks []int, how string) {
	var sent []string
	for _, m := range msgs {
		sent = append(sent, m.tok(dir))
	}
	line := fmt.Sprintf("h2own %s %s %s %s", dir, hx.Hex(stream), strings.Join(sent, ","), ints(chunks))
	conn := &ownConn{}
	ctx := framegen.Ctx()
	var kept []*ownKept
	var dispatch func(buffer.IoBuffer)
	lst := &ownListener{}
	failed := false
	if dir == "req" {
		sc := (&shttp2.StreamConnFactory{}).CreateServerStream(ctx, conn, lst)
		dispatch = sc.Dispatch
	} else {
		cc := (&shttp2.StreamConnFactory{}).CreateClientStream(ctx, conn, lst, nil)
		if l, ok := cc.(api.ConnectionEventListener); ok {
			l.OnEvent(api.Connected) // preface + SETTINGS go out
		}
		for range msgs { // one request per response, ids 1,3,5,... in order
			k := &ownKept{dir: "resp"}
			kept = append(kept, k)
			rctx := framegen.Ctx()
			if _, p := hx.Safe(func() {
				s := cc.NewStream(rctx, k)
				h := phttp2.NewHeaderMap(http.Header{})
				h.Set("x-q", "1")
				_ = s.AppendHeaders(rctx, h, true)
				k.id = s.GetStream().ID()
			}); p {
				failed = true
			}
		}
		dispatch = cc.Dispatch
	}
	// a read buffer large enough never to be reallocated: everything the decoder ever sliced lies in ONE array
	rb := buffer.NewIoBuffer(len(stream) + 64)
	off := 0
	hang := guard(func() {
		for _, n := range chunks {
			if !failed && !conn.closed {
				rb.Write(stream[off : off+n])
				if _, p := hx.Safe(func() { dispatch(rb) }); p {
					failed = true
				}
			}
			off += n
		}
	})
	if hang {
		bail(c, line, "- - 1")
	}
	if off != len(stream) {
		panic("h2own: chunks do not cover the stream")
	}
	// all reads were dispatched: the connection reuses its read buffer — rewrite the whole backing array
	left := rb.Len()
	rb.Drain(left)
	rb.Reset()
	if n := rb.Cap(); n > 0 {
		rb.Write(bytes.Repeat([]byte{0xEE}, n))
	}
	if dir == "req" {
		kept = lst.kept
	}
	var a, b []string
	for _, k := range kept {
		if !k.got {
			continue
		}
		a = append(a, k.handed)
		b = append(b, k.view())
	}
	c.Emit("C07", line, fmt.Sprintf("%s %s %s", strs2(a), strs2(b), flag(failed || conn.closed || left != 0)))
	c.Count("h2own." + dir + "." + how)
}

func strs2(l []string) string {
	if len(l) == 0 {
		return "-"
	}
	return strings.Join(l, ",")
}

func h2ownCases(c *hx.Ctx) {
	saved := c.Rng
	c.Rng = hx.NewRng(c.Seed*0x9E3779B97F4A7C15 + 0x0b2)
	defer func() { c.Rng = saved }()
	for _, dir := range []string{"req", "resp"} {
		for i := 0; i < c.N(25, 120); i++ {
			msgs := ownGen(c, dir)
			stream, lens := ownWrite(c.Rng, dir, msgs)
			total := len(stream)
			ownRun(c, dir, msgs, stream, []int{total}, "one-read")
			ownRun(c, dir, msgs, stream, lens, "frame-per-read")
			// two reads, cut behind every frame
			sum := 0
			for _, l := range lens[:len(lens)-1] {
				sum += l
				ownRun(c, dir, msgs, stream, []int{sum, total - sum}, "cut-behind-frame")
			}
			for j := 0; j < c.N(4, 8); j++ {
				k := 1 + c.Rng.Intn(total-1)
				ownRun(c, dir, msgs, stream, []int{k, total - k}, "cut-anywhere")
			}
			for j := 0; j < c.N(3, 6); j++ {
				ownRun(c, dir, msgs, stream, randChunks(c.Rng, total, 1+c.Rng.Intn(80)), "random")
			}
			if total <= 400 || i%5 == 0 {
				ones := make([]int, total)
				for j := range ones {
					ones[j] = 1
				}
				ownRun(c, dir, msgs, stream, ones, "one-byte")
			}
		}
	}
}
