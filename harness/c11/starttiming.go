//go:build verif

package c11

// st: the start path of a MOSN process up to and including Mosn.TransferConnection (NewServer applies the configured
// graceful_timeout; InheritConnections -> TransferConnection runs on every start), cold or with an inherited
// listen-socket connection whose peer is a scripted old MOSN (reads the ready byte, writes the ack). Observed: the
// process-global network.TransferTimeout and server.GracefulTimeout afterwards, types.DefaultConnReadTimeout.

import (
	"fmt"
	"net"
	"time"

	"mosn.io/mosn/pkg/mosn"
	"mosn.io/mosn/pkg/network"
	"mosn.io/mosn/pkg/server"
	"mosn.io/mosn/pkg/types"
	"verif/harness/hx"
)

type stCase struct {
	inh int // 1: the process inherited from an old MOSN (Upgrade.ListenSockConn is set)
	cfg int // servers[0].graceful_timeout in ms, 0 = not configured
}

func runST(c *hx.Ctx, s stCase) {
	initEnv()
	oldT, oldG := network.TransferTimeout, server.GracefulTimeout
	defer func() { network.TransferTimeout, server.GracefulTimeout = oldT, oldG }()
	// a fresh process: the package defaults (read from the untouched globals at the first call)
	stDefaultsOnce()
	network.TransferTimeout, server.GracefulTimeout = stDefT, stDefG
	srv := server.NewServer(&server.Config{ServerName: lkName(), GracefulTimeout: time.Duration(s.cfg) * time.Millisecond}, cmFilter{}, clusterMng)
	defer srv.Close()
	m := mosn.NewMosn()
	res := "ok"
	var peerDone chan string
	if s.inh == 1 {
		a, b := socketpair()
		m.Upgrade.ListenSockConn = a
		peerDone = make(chan string, 1)
		go func(old net.Conn) { // the old MOSN's ReconfigureHandler as seen from the new one: read ready, write ack
			defer old.Close()
			var buf [1]byte
			old.SetDeadline(time.Now().Add(5 * time.Second))
			if n, _ := old.Read(buf[:]); n != 1 {
				peerDone <- "noready"
				return
			}
			if _, err := old.Write([]byte{0}); err != nil {
				peerDone <- "noack"
				return
			}
			peerDone <- "acked"
		}(b)
	}
	if _, panicked := hx.Safe(func() {
		if err := m.InheritConnections(); err != nil {
			res = "err"
		}
	}); panicked {
		res = "panic"
	}
	peer := "na"
	if peerDone != nil {
		peer = <-peerDone
	}
	c.Emit("C11", fmt.Sprintf("st inh=%d cfg=%d", s.inh, s.cfg),
		fmt.Sprintf("ret=%s peer=%s tt=%d g=%d rt=%d", res, peer, network.TransferTimeout.Milliseconds(), server.GracefulTimeout.Milliseconds(),
			stDefR.Milliseconds()))
	c.Count(fmt.Sprintf("st.inh=%d.cfg=%s", s.inh, stClass(s.cfg)))
}

var (
	stOnce                 bool
	stDefT, stDefG, stDefR time.Duration
)

// stDefaultsOnce records the package defaults; nothing in the harness process has started a MOSN before the first
// st case (runStartTiming is the first family Run executes after the codec cases).
func stDefaultsOnce() {
	if !stOnce {
		stOnce = true
		stDefT, stDefG, stDefR = network.TransferTimeout, server.GracefulTimeout, types.DefaultConnReadTimeout
	}
}

func stClass(ms int) string {
	switch {
	case ms == 0:
		return "0"
	case ms < 15000:
		return "<15s"
	case ms < 30000:
		return "<30s"
	case ms == 30000:
		return "30s"
	}
	return ">30s"
}

func runStartTiming(c *hx.Ctx) {
	stDefaultsOnce()
	// boundaries: not configured, 1 ms, around the point where the default schedule stops fitting (15 s), around the
	// default (30 s), above it
	for _, cfg := range []int{0, 1, 5000, 14999, 15000, 15001, 29999, 30000, 30001, 120000} {
		for inh := 0; inh <= 1; inh++ {
			runST(c, stCase{inh: inh, cfg: cfg})
		}
	}
	for i := 0; i < c.N(20, 80); i++ {
		s := stCase{inh: c.Rng.Intn(2)}
		switch c.Rng.Intn(4) {
		case 0:
			s.cfg = 1 + c.Rng.Intn(15000)
		case 1:
			s.cfg = 15000 + c.Rng.Intn(15000)
		case 2:
			s.cfg = 30000 + c.Rng.Intn(600000)
		default:
			s.cfg = c.Rng.Pick([]int{0, 1000, 3000, 10000, 60000})
		}
		runST(c, s)
	}
}
