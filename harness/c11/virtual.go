//go:build verif

package c11

// Kind vl: graceful stop / hot-upgrade Shutdown of a server whose traffic arrives on a `bind_port=false` (virtual)
// listener. The real pair is built: a `use_original_dst` (tproxy kind: the original destination is the connection's
// local address, no iptables needed) listener on 0.0.0.0:P that owns the socket, and a virtual bolt listener configured
// on 127.0.0.1:P. A client connecting to 127.0.0.1:P is accepted by the feeder, run through the original-dst listener
// filter and handed by activeRawConn.UseOriginalDst to the virtual listener's OnAccept. The virtual listener never
// reaches ListenerRunning (Start ignores listeners that bind no port). Long-lived bolt connections (go-away enabled),
// one request advanced to a generated phase, then server.Shutdown with the stage manager in a generated state.

import (
	"fmt"
	"net"
	"os"
	"sort"
	"strings"
	"sync/atomic"
	"time"

	v2 "mosn.io/mosn/pkg/config/v2"
	"mosn.io/mosn/pkg/configmanager"
	"mosn.io/mosn/pkg/network"
	"mosn.io/mosn/pkg/server"
	"mosn.io/mosn/pkg/stagemanager"
	"mosn.io/mosn/pkg/types"
	"verif/harness/hx"
)

type vlCase struct {
	stage int    // stagemanager state at the time Shutdown is invoked
	phase string // pre | hdr | body | wait | resp
	idle  int    // idle long-lived connections on the virtual listener at the signal
	drain int    // drain time in ticks
	hold  int    // ticks after the signal at which the in-flight request may proceed
	first int    // 1: the virtual listener precedes the feeder in the server's listener list
}

func (g vlCase) String() string {
	return fmt.Sprintf("vl stage=%d phase=%s idle=%d drain=%d hold=%d first=%d", g.stage, g.phase, g.idle, g.drain, g.hold, g.first)
}

type vlInst struct {
	srv    server.Server
	vname  string
	fname  string
	vln    types.Listener
	fln    types.Listener
	addr   string // what clients dial: 127.0.0.1:P
	socket net.Listener
}

func boltChain() []v2.FilterChain {
	return []v2.FilterChain{{FilterChainConfig: v2.FilterChainConfig{Filters: []v2.Filter{
		{Type: recFilter, Config: map[string]interface{}{}},
		{Type: "proxy", Config: map[string]interface{}{
			"downstream_protocol": protoName("bolt"), "upstream_protocol": protoName("bolt"), "router_config_name": "c11_router_bolt",
			"extend_config": map[string]interface{}{"enable_bolt_goaway": true},
		}},
	}}}}
}

func newVirtualPair(virtualFirst bool) *vlInst {
	initEnv()
	n := atomic.AddInt64(&lnSeq, 1)
	sock, err := net.Listen("tcp", "0.0.0.0:0")
	if err != nil {
		panic(err)
	}
	port := sock.Addr().(*net.TCPAddr).Port
	v := &vlInst{vname: fmt.Sprintf("c11_v%d_%d", os.Getpid(), n), fname: fmt.Sprintf("c11_f%d_%d", os.Getpid(), n),
		addr: fmt.Sprintf("127.0.0.1:%d", port), socket: sock}
	vcfg := &v2.Listener{ListenerConfig: v2.ListenerConfig{
		Name: v.vname, AddrConfig: v.addr, BindToPort: false, Network: "tcp", FilterChains: boltChain()}}
	vcfg = configmanager.ParseListenerConfig(vcfg, nil, nil)
	// the feeder owns the socket; it is inherited so that no IP_TRANSPARENT socket option (CAP_NET_ADMIN) is needed
	fcfg := &v2.Listener{ListenerConfig: v2.ListenerConfig{
		Name: v.fname, AddrConfig: fmt.Sprintf("0.0.0.0:%d", port), BindToPort: true, Network: "tcp", OriginalDst: v2.TPROXY,
		FilterChains: boltChain()}}
	fcfg = configmanager.ParseListenerConfig(fcfg, []net.Listener{sock}, nil)
	if fcfg.InheritListener == nil {
		panic("the feeder did not take the socket")
	}
	v.srv = server.NewServer(&server.Config{ServerName: v.vname}, cmFilter{}, clusterMng)
	order := []*v2.Listener{fcfg, vcfg}
	if virtualFirst {
		order = []*v2.Listener{vcfg, fcfg}
	}
	for _, lc := range order {
		if _, err := v.srv.AddListener(lc); err != nil {
			panic(err)
		}
	}
	go v.srv.Start()
	v.vln = v.srv.Handler().FindListenerByName(v.vname)
	v.fln = v.srv.Handler().FindListenerByName(v.fname)
	dl := time.Now().Add(10 * time.Second)
	for network.VerifListenerState(v.fln) != int(network.ListenerRunning) {
		if time.Now().After(dl) {
			panic("feeder did not reach running")
		}
		time.Sleep(time.Millisecond)
	}
	return v
}

func runVL(c *hx.Ctx, g vlCase) {
	for attempt := 0; ; attempt++ {
		j := startJitter()
		impl, counts := runVLOnce(c, g)
		if w := j.worst(); w > maxJitter && attempt < 4 {
			c.Count("vl.repeated-after-stall")
			continue
		}
		c.Emit("C11", g.String(), impl)
		for _, k := range counts {
			c.Count(k)
		}
		return
	}
}

func runVLOnce(c *hx.Ctx, g vlCase) (string, []string) {
	m := newVirtualPair(g.first == 1)
	defer func() {
		stagemanager.SetState(stagemanager.Running)
		m.srv.Close()
		m.socket.Close()
	}()
	var conns []cli
	defer func() {
		for _, k := range conns {
			k.conn().Close()
		}
	}()
	open := func() cli {
		k, err := dialProto("bolt", m.addr)
		if err != nil {
			panic(fmt.Sprintf("dial before stop failed: %v", err))
		}
		conns = append(conns, k)
		return k
	}
	var idle []cli
	for i := 0; i < g.idle; i++ {
		k := open()
		if err := quick(k); err != nil {
			panic(fmt.Sprintf("warm-up request failed: %v", err))
		}
		idle = append(idle, k)
	}
	main := open()
	if err := quick(main); err != nil {
		panic(fmt.Sprintf("warm-up request failed: %v", err))
	}
	// every connection must have been handed to the VIRTUAL listener, none served by the feeder itself
	if nv, nf := len(recsOf(m.vname)), len(recsOf(m.fname)); nv != g.idle+1 || nf != 0 {
		panic(fmt.Sprintf("hand-off: %d connections on the virtual listener, %d on the feeder, want %d / 0", nv, nf, g.idle+1))
	}
	vstate0 := network.VerifListenerState(m.vln)

	id, p := newPlan(g.phase == "resp", false, 4096)
	defer plans.Delete(id)
	hd, bd := main.request(id, 2048)
	full := append(append([]byte{}, hd...), bd...)
	sent := 0
	switch g.phase {
	case "pre":
	case "hdr":
		sent = len(hd) / 2
	case "body":
		sent = len(hd) + len(bd)/2
	default:
		sent = len(full)
	}
	main.conn().SetWriteDeadline(time.Now().Add(3 * time.Second))
	if _, err := main.conn().Write(full[:sent]); err != nil {
		panic(err)
	}
	if sent == len(full) {
		select {
		case <-p.arrived:
		case <-time.After(5 * time.Second):
			panic("request did not reach the upstream")
		}
	} else {
		time.Sleep(15 * time.Millisecond)
	}

	// the signal
	server.SetDrainTime(time.Duration(g.drain) * tick)
	stagemanager.SetState(stagemanager.State(g.stage))
	t0 := time.Now()
	var tReturn time.Duration
	var shutErr error
	done := make(chan struct{})
	go func() {
		shutErr = m.srv.Shutdown()
		tReturn = time.Since(t0)
		close(done)
	}()
	time.Sleep(time.Until(t0.Add(time.Duration(g.hold) * tick)))
	tContinue := time.Since(t0)
	var reqErr error
	close(p.release)
	if sent < len(full) {
		_, reqErr = main.conn().Write(full[sent:])
	}
	if reqErr == nil {
		reqErr = main.readResp(p, 20*time.Second)
	}
	select {
	case <-done:
	case <-time.After(time.Duration(g.drain)*tick + 5*time.Second):
		panic("Shutdown did not return")
	}
	exitFirst := 0
	if tReturn < tContinue {
		exitFirst = 1
	}
	newc := probeNew("bolt", m.addr)
	for i := 0; i < 6 && newc != "ref" && network.VerifListenerState(m.fln) == int(network.ListenerClosed); i++ {
		time.Sleep(250 * time.Millisecond)
		newc = probeNew("bolt", m.addr)
	}
	late := "na"
	if len(idle) > 0 {
		late = okTok(quick(idle[0]))
	}
	want := g.idle + 1
	dl := time.Now().Add(time.Second)
	var evs []string
	for {
		evs = evs[:0]
		sum := 0
		for _, r := range recsOf(m.vname) {
			n := int(atomic.LoadInt32(&r.shutdown))
			sum += n
			evs = append(evs, fmt.Sprint(n))
		}
		if sum >= want || time.Now().After(dl) {
			break
		}
		time.Sleep(2 * time.Millisecond)
	}
	sort.Strings(evs)
	cga := 0
	for _, k := range conns {
		cga += k.goAways(200 * time.Millisecond)
	}
	impl := fmt.Sprintf("req=%s exitfirst=%d goaway=%s cga=%d late=%s vstate0=%d vstate=%d fstate=%d new=%s shut=%s",
		okTok(reqErr), exitFirst, strings.Join(evs, ","), cga, late, vstate0, network.VerifListenerState(m.vln),
		network.VerifListenerState(m.fln), newc, okTok(shutErr))
	counts := []string{"vl.phase=" + g.phase, fmt.Sprintf("vl.stage=%d", g.stage), fmt.Sprintf("vl.exitfirst=%d", exitFirst), "vl.new=" + newc}
	return impl, counts
}

func genVL(c *hx.Ctx, i int) vlCase {
	r := c.Rng
	phases := []string{"wait", "resp", "pre", "hdr", "body"}
	stages := []int{int(stagemanager.Upgrading), int(stagemanager.GracefulStopping), int(stagemanager.Upgrading), int(stagemanager.Running)}
	g := vlCase{phase: phases[i%len(phases)], stage: stages[(i/len(phases)+i)%len(stages)], idle: r.Intn(3), first: r.Intn(2)}
	if g.stage != int(stagemanager.Upgrading) && (g.phase == "hdr" || g.phase == "body") {
		// (a request only partly received at a plain graceful stop is the known finding of kind gs: not repeated here)
		g.phase = "wait"
	}
	g.drain = r.Pick([]int{12, 16, 20})
	if g.phase == "wait" || g.phase == "resp" {
		if r.Chance(75) {
			g.hold = 2 + r.Intn(g.drain-9)
		} else {
			g.hold = g.drain + 10 + r.Intn(6)
		}
	} else {
		g.hold = 6 + r.Intn(6)
	}
	return g
}

// boundary cases replayed on every run: the hot-upgrade Shutdown and the plain graceful stop with a request waiting for
// the upstream on a long-lived connection of the virtual listener
var fixedVL = []vlCase{
	{stage: int(stagemanager.Upgrading), phase: "wait", idle: 1, drain: 16, hold: 5, first: 0},
	{stage: int(stagemanager.Upgrading), phase: "wait", idle: 0, drain: 12, hold: 4, first: 1},
	{stage: int(stagemanager.GracefulStopping), phase: "wait", idle: 1, drain: 16, hold: 5, first: 0},
}
